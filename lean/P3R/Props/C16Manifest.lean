/-
C16 (manifest leg) — `VerifierManifest::matches` accepts exactly the proofs whose declared
structure is the expected one; together with native verification a proof whose table set differs
from the verifier's expectation is never accepted.

* `manifest_matches_iff`        Ok ⇔ degree, `w`, quintic flag, ALU variant are the expected ones
                                and the list of (op type, variant, #public values) of the proof's
                                entries IS the manifest's list (whole-string equality of op types,
                                same length, same order);
* `manifest_matches_self`       the manifest derived from a proof accepts that proof;
* `manifest_npoOp_at` / `_npoVariant_at` / `_npoPvLen_at`
                                a per-entry error names an index at which that field really differs
                                and before which every entry matches (first error);
* `manifest_op_relabel_rejected` relabelling ONE entry's op type to any other string is rejected
                                with `NpoOpTypeMismatch` at that index (the C16-d move);
* `manifest_expected_relabel_rejected` the same on the manifest's side;
* `manifest_insensitive`        `matches` reads nothing but `Meta.manKey` (rows, lanes, packing, public
                                *values*, common data are not its business);
* `manifest_verify_table_set`   matches = Ok ∧ verify = accept ⇒ the AIR list verified against is
                                3 primitive tables + one table per *manifest* entry, in manifest
                                order, each the registered plug-in of the manifest's op type.
-/
import P3R.Model.Manifest
import P3R.Props.C16

namespace P3R.C16
open P3R.Metadata

theorem entriesMatch_ok_iff : ∀ (i : Nat) (es : List Entry) (xs : List ExpEntry), es.length = xs.length →
    (entriesMatch i es xs = .ok () ↔ es.map Entry.key = xs.map ExpEntry.key)
  | _, [], [], _ => by simp [entriesMatch]
  | _, [], _ :: _, h => by simp at h
  | _, _ :: _, [], h => by simp at h
  | i, e :: es, x :: xs, h => by
    have hl : es.length = xs.length := by simpa using h
    have ih := entriesMatch_ok_iff (i + 1) es xs hl
    unfold entriesMatch
    simp only [List.map_cons, List.cons.injEq, Entry.key, ExpEntry.key, Prod.mk.injEq]
    split_ifs with h1 h2 h3
    · simp [h1]
    · simp [h2]
    · simp [h3]
    · simp only [ne_eq, Decidable.not_not] at h1 h2 h3
      rw [ih]
      simp [h1, h2, h3]

/-- **`matches` is exact.** -/
theorem manifest_matches_iff (man : Manifest) (m : Meta) :
    manifestMatches man m = .ok () ↔
      m.d = man.d ∧ m.w = man.red.expW ∧ m.quintic = man.red.expQuintic ∧ m.aluVariant = man.aluVariant ∧
        m.entries.map Entry.key = man.npo.map ExpEntry.key := by
  unfold manifestMatches
  split_ifs with h1 h2 h3 h4 h5
  · simp [h1]
  · simp [h2]
  · simp [h3]
  · simp [h4]
  · constructor
    · intro h; cases h
    · rintro ⟨_, _, _, _, h⟩
      exact absurd (by simpa using congrArg List.length h) h5
  · simp only [ne_eq, Decidable.not_not] at h1 h2 h3 h4 h5
    rw [entriesMatch_ok_iff 0 _ _ h5]
    simp [h1, h2, h3, h4]

/-- Ok ⇒ same number of tables, and position by position the same op type *string*, the same
variant and the same number of public values. -/
theorem manifest_ok_pointwise {man : Manifest} {m : Meta} (h : manifestMatches man m = .ok ()) :
    m.entries.length = man.npo.length ∧
      ∀ (i : Nat) (e : Entry) (x : ExpEntry), m.entries[i]? = some e → man.npo[i]? = some x →
        e.op = x.op ∧ e.variant = x.variant ∧ e.pvs.length = x.pvLen := by
  have hk := ((manifest_matches_iff man m).1 h).2.2.2.2
  refine ⟨by simpa using congrArg List.length hk, ?_⟩
  intro i e x he hx
  have h1 : (m.entries.map Entry.key)[i]? = some e.key := by simp [he]
  have h2 : (man.npo.map ExpEntry.key)[i]? = some x.key := by simp [hx]
  rw [hk, h2] at h1
  simpa [Entry.key, ExpEntry.key, eq_comm] using h1

theorem manifestOf_key (red : Red) (m : Meta) :
    (manifestOf red m).npo.map ExpEntry.key = m.entries.map Entry.key := by
  simp [manifestOf, ExpEntry.key, Entry.key, Function.comp_def]

/-- The derived manifest accepts the proof it was derived from (when the reduction is the proof's). -/
theorem manifest_matches_self (red : Red) (m : Meta) (hw : m.w = red.expW) (hq : m.quintic = red.expQuintic) :
    manifestMatches (manifestOf red m) m = .ok () := by
  rw [manifest_matches_iff]
  exact ⟨rfl, hw, hq, rfl, (manifestOf_key red m).symm⟩

/-- Generalised first-error lemma for the loop. -/
theorem entriesMatch_err_at : ∀ (i : Nat) (es : List Entry) (xs : List ExpEntry) (err : ManErr),
    entriesMatch i es xs = .error err →
    ∃ j e x, es[j]? = some e ∧ xs[j]? = some x ∧
      (es.take j).map Entry.key = (xs.take j).map ExpEntry.key ∧
      ((err = .npoOp (i + j) ∧ e.op ≠ x.op) ∨
       (err = .npoVariant (i + j) ∧ e.op = x.op ∧ e.variant ≠ x.variant) ∨
       (err = .npoPvLen (i + j) ∧ e.op = x.op ∧ e.variant = x.variant ∧ e.pvs.length ≠ x.pvLen))
  | _, [], _, _, h => by simp [entriesMatch] at h
  | _, _ :: _, [], _, h => by simp [entriesMatch] at h
  | i, e :: es, x :: xs, err, h => by
    unfold entriesMatch at h
    split_ifs at h with h1 h2 h3
    · exact ⟨0, e, x, rfl, rfl, rfl, .inl ⟨by cases h; rfl, h1⟩⟩
    · simp only [ne_eq, Decidable.not_not] at h1
      exact ⟨0, e, x, rfl, rfl, rfl, .inr (.inl ⟨by cases h; rfl, h1, h2⟩)⟩
    · simp only [ne_eq, Decidable.not_not] at h1 h2
      exact ⟨0, e, x, rfl, rfl, rfl, .inr (.inr ⟨by cases h; rfl, h1, h2, h3⟩)⟩
    · simp only [ne_eq, Decidable.not_not] at h1 h2 h3
      obtain ⟨j, e', x', he, hx, hpre, hcase⟩ := entriesMatch_err_at (i + 1) es xs err h
      refine ⟨j + 1, e', x', by simpa using he, by simpa using hx, ?_, ?_⟩
      · simp [List.take_succ_cons, hpre, Entry.key, ExpEntry.key, h1, h2, h3]
      · have : i + 1 + j = i + (j + 1) := by omega
        rw [this] at hcase
        exact hcase

/-- the loop is only reached past the five header comparisons -/
theorem manifest_entry_err {man : Manifest} {m : Meta} {err : ManErr}
    (h : manifestMatches man m = .error err)
    (hne : err ≠ .extDegree ∧ err ≠ .binomialW ∧ err ≠ .quintic ∧ err ≠ .aluVariant ∧ err ≠ .npoCount) :
    entriesMatch 0 m.entries man.npo = .error err := by
  unfold manifestMatches at h
  split_ifs at h with h1 h2 h3 h4 h5
  · cases h; exact absurd rfl hne.1
  · cases h; exact absurd rfl hne.2.1
  · cases h; exact absurd rfl hne.2.2.1
  · cases h; exact absurd rfl hne.2.2.2.1
  · cases h; exact absurd rfl hne.2.2.2.2
  · exact h

/-- `NpoOpTypeMismatch{i}`: entry `i` really names another table than the manifest, and every
earlier entry matches (it is the first mismatch). -/
theorem manifest_npoOp_at {man : Manifest} {m : Meta} {i : Nat}
    (h : manifestMatches man m = .error (.npoOp i)) :
    ∃ e x, m.entries[i]? = some e ∧ man.npo[i]? = some x ∧ e.op ≠ x.op ∧
      (m.entries.take i).map Entry.key = (man.npo.take i).map ExpEntry.key := by
  have h' := manifest_entry_err h (by simp)
  obtain ⟨j, e, x, he, hx, hpre, hcase⟩ := entriesMatch_err_at 0 _ _ _ h'
  rcases hcase with ⟨hi, hop⟩ | ⟨hi, _⟩ | ⟨hi, _⟩
  · have : i = j := by simpa using hi
    subst this
    exact ⟨e, x, he, hx, hop, hpre⟩
  · cases hi
  · cases hi

theorem manifest_npoVariant_at {man : Manifest} {m : Meta} {i : Nat}
    (h : manifestMatches man m = .error (.npoVariant i)) :
    ∃ e x, m.entries[i]? = some e ∧ man.npo[i]? = some x ∧ e.op = x.op ∧ e.variant ≠ x.variant ∧
      (m.entries.take i).map Entry.key = (man.npo.take i).map ExpEntry.key := by
  have h' := manifest_entry_err h (by simp)
  obtain ⟨j, e, x, he, hx, hpre, hcase⟩ := entriesMatch_err_at 0 _ _ _ h'
  rcases hcase with ⟨hi, _⟩ | ⟨hi, hop, hv⟩ | ⟨hi, _⟩
  · cases hi
  · have : i = j := by simpa using hi
    subst this
    exact ⟨e, x, he, hx, hop, hv, hpre⟩
  · cases hi

theorem manifest_npoPvLen_at {man : Manifest} {m : Meta} {i : Nat}
    (h : manifestMatches man m = .error (.npoPvLen i)) :
    ∃ e x, m.entries[i]? = some e ∧ man.npo[i]? = some x ∧ e.op = x.op ∧ e.variant = x.variant ∧
      e.pvs.length ≠ x.pvLen ∧
      (m.entries.take i).map Entry.key = (man.npo.take i).map ExpEntry.key := by
  have h' := manifest_entry_err h (by simp)
  obtain ⟨j, e, x, he, hx, hpre, hcase⟩ := entriesMatch_err_at 0 _ _ _ h'
  rcases hcase with ⟨hi, _⟩ | ⟨hi, _⟩ | ⟨hi, hop, hv, hl⟩
  · cases hi
  · cases hi
  · have : i = j := by simpa using hi
    subst this
    exact ⟨e, x, he, hx, hop, hv, hl, hpre⟩

/-- The loop on `pre ++ e :: suf` against `pre' ++ x :: suf'` with matching prefixes and `e.op ≠ x.op`. -/
theorem entriesMatch_prefix_op : ∀ (i : Nat) (pre : List Entry) (pre' : List ExpEntry) (e : Entry) (x : ExpEntry)
    (suf : List Entry) (suf' : List ExpEntry),
    pre.map Entry.key = pre'.map ExpEntry.key → e.op ≠ x.op →
    entriesMatch i (pre ++ e :: suf) (pre' ++ x :: suf') = .error (.npoOp (i + pre.length))
  | i, [], [], e, x, suf, suf', _, hop => by simp [entriesMatch, hop]
  | _, [], _ :: _, _, _, _, _, h, _ => by simp at h
  | _, _ :: _, [], _, _, _, _, h, _ => by simp at h
  | i, p :: pre, p' :: pre', e, x, suf, suf', h, hop => by
    simp only [List.map_cons, List.cons.injEq, Entry.key, ExpEntry.key, Prod.mk.injEq] at h
    obtain ⟨⟨h1, h2, h3⟩, ht⟩ := h
    have ih := entriesMatch_prefix_op (i + 1) pre pre' e x suf suf' ht hop
    simp only [List.cons_append, entriesMatch, h1, h2, h3, ne_eq, not_true_eq_false, ↓reduceIte, List.length_cons]
    rw [ih]
    congr 2
    omega

/-- **The C16-d move, proof side.** A proof that matched the manifest, with the op type of its
`pre.length`-th entry relabelled to ANY other string (same family or not), is rejected with
`NpoOpTypeMismatch` at exactly that index. -/
theorem manifest_op_relabel_rejected (man : Manifest) (m : Meta) (pre suf : List Entry) (e : Entry) (op' : Name)
    (hm : m.entries = pre ++ e :: suf) (hok : manifestMatches man m = .ok ()) (hne : op' ≠ e.op) :
    manifestMatches man { m with entries := pre ++ { e with op := op' } :: suf } = .error (.npoOp pre.length) := by
  obtain ⟨hd, hw, hq, hav, hk⟩ := (manifest_matches_iff man m).1 hok
  rw [hm] at hk
  -- split the manifest's list at the same position
  have hlen : (pre ++ e :: suf).length = man.npo.length := by simpa using congrArg List.length hk
  have hsplit : man.npo = man.npo.take pre.length ++ man.npo.drop pre.length := (List.take_append_drop _ _).symm
  have hdrop : man.npo.drop pre.length ≠ [] := by
    intro h0
    have := congrArg List.length h0
    simp [List.length_drop] at this hlen
    omega
  obtain ⟨x, suf', hx⟩ := List.exists_cons_of_ne_nil hdrop
  have hnpo : man.npo = man.npo.take pre.length ++ x :: suf' := by rw [← hx]; exact hsplit
  have htl : (man.npo.take pre.length).length = pre.length := by
    simp [List.length_take]; simp at hlen; omega
  rw [hnpo, List.map_append, List.map_append] at hk
  have hk' := List.append_inj hk (by rw [List.length_map, List.length_map, htl])
  have hpre := hk'.1
  have hex : e.key = x.key := by simpa using (List.cons.inj (by simpa using hk'.2)).1
  have hop : op' ≠ x.op := by
    have : e.op = x.op := by simpa [Entry.key, ExpEntry.key] using congrArg Prod.fst hex
    rw [← this]; exact hne
  unfold manifestMatches
  simp only [hd, hw, hq, hav, ne_eq, not_true_eq_false, ↓reduceIte]
  have hl2 : (pre ++ { e with op := op' } :: suf).length = man.npo.length := by
    rw [← hlen]; simp
  simp only [hl2, not_true_eq_false, ↓reduceIte]
  have := entriesMatch_prefix_op 0 pre (man.npo.take pre.length) { e with op := op' } x suf suf' hpre hop
  rw [← hnpo] at this
  simpa using this

/-- **The C16-d move, verifier side.** A manifest that matched the proof, with the op type it expects at
position `pre.length` replaced by ANY other string, rejects the proof with `NpoOpTypeMismatch` there:
an honest proof of a `poseidon2_perm/koala_bear_d1_w16` circuit never satisfies a manifest written
for `poseidon2_perm/koala_bear_d4_w16`. -/
theorem manifest_expected_relabel_rejected (man : Manifest) (m : Meta) (pre suf : List ExpEntry) (x : ExpEntry) (op' : Name)
    (hn : man.npo = pre ++ x :: suf) (hok : manifestMatches man m = .ok ()) (hne : op' ≠ x.op) :
    manifestMatches { man with npo := pre ++ { x with op := op' } :: suf } m = .error (.npoOp pre.length) := by
  obtain ⟨hd, hw, hq, hav, hk⟩ := (manifest_matches_iff man m).1 hok
  rw [hn] at hk
  have hlen : m.entries.length = (pre ++ x :: suf).length := by simpa using congrArg List.length hk
  have hsplit : m.entries = m.entries.take pre.length ++ m.entries.drop pre.length := (List.take_append_drop _ _).symm
  have hdrop : m.entries.drop pre.length ≠ [] := by
    intro h0
    have := congrArg List.length h0
    simp [List.length_drop] at this hlen
    omega
  obtain ⟨e, suf', he⟩ := List.exists_cons_of_ne_nil hdrop
  have hent : m.entries = m.entries.take pre.length ++ e :: suf' := by rw [← he]; exact hsplit
  have htl : (m.entries.take pre.length).length = pre.length := by
    simp [List.length_take]; simp at hlen; omega
  rw [hent, List.map_append, List.map_append] at hk
  have hk' := List.append_inj hk (by rw [List.length_map, List.length_map, htl])
  have hpre := hk'.1
  have hex : e.key = x.key := by simpa using (List.cons.inj (by simpa using hk'.2)).1
  have hop : e.op ≠ op' := by
    have : e.op = x.op := by simpa [Entry.key, ExpEntry.key] using congrArg Prod.fst hex
    rw [this]; exact fun h => hne h.symm
  unfold manifestMatches
  simp only [hd, hw, hq, hav, ne_eq, not_true_eq_false, ↓reduceIte]
  have hl2 : m.entries.length = (pre ++ { x with op := op' } :: suf).length := by
    rw [hlen]; simp
  simp only [hl2, not_true_eq_false, ↓reduceIte]
  have := entriesMatch_prefix_op 0 (m.entries.take pre.length) pre e { x with op := op' } suf' suf hpre hop
  rw [← hent] at this
  simpa [htl] using this

/-- Everything `matches` reads of a proof. -/
def manKey (m : Meta) := (m.d, m.w, m.quintic, m.aluVariant, m.entries.map Entry.key)

theorem entriesMatch_congr : ∀ (i : Nat) (es es' : List Entry) (xs : List ExpEntry),
    es.map Entry.key = es'.map Entry.key → entriesMatch i es xs = entriesMatch i es' xs
  | _, [], [], _, _ => rfl
  | _, [], _ :: _, _, h => by simp at h
  | _, _ :: _, [], _, h => by simp at h
  | i, e :: es, e' :: es', xs, h => by
    simp only [List.map_cons, List.cons.injEq, Entry.key, Prod.mk.injEq] at h
    obtain ⟨⟨h1, h2, h3⟩, ht⟩ := h
    cases xs with
    | nil => simp [entriesMatch]
    | cons x xs =>
      simp only [entriesMatch, h1, h2, h3]
      rw [entriesMatch_congr (i + 1) es es' xs ht]

/-- `matches` depends on nothing else: rows, lanes, packing, the *values* of the public values, the
common data cannot change its result (they are `verify_all_tables`' business: `irrelevant_fields`,
`airs_determined`). -/
theorem manifest_insensitive (man : Manifest) (m m' : Meta) (h : manKey m = manKey m') :
    manifestMatches man m = manifestMatches man m' := by
  simp only [manKey, Prod.mk.injEq] at h
  obtain ⟨h1, h2, h3, h4, h5⟩ := h
  unfold manifestMatches
  have hl : m.entries.length = m'.entries.length := by simpa using congrArg List.length h5
  rw [h1, h2, h3, h4, hl, entriesMatch_congr 0 _ _ _ h5]

/-- **Combined verdict.** A proof that passes the manifest and native verification was verified
against 3 primitive AIRs followed by exactly one AIR per *manifest* entry, in manifest order, each
built by the plug-in registered under the manifest's op type: the verified table set is the
expected one. (With C16-d's family comparison this fails: the rebuilt AIR is the plug-in of the
proof's string.) -/
theorem manifest_verify_table_set {crypto : Sys → Bool} {body : Body} {exp : Expected} {reg : List Plugin}
    {man : Manifest} {m : Meta}
    (hm : manifestMatches man m = .ok ()) (hv : verify crypto body exp reg m = .accept) :
    ∃ s prim dyn, sysOf exp reg m = some s ∧ s.airs = prim ++ dyn ∧ prim.length = 3 ∧
      List.Forall₂ (fun (x : ExpEntry) a => ∃ p lanes, findPlugin reg x.op = some p ∧
        a = (match p.kind with
             | .fixed mw pw => AirDesc.npoFixed p.name mw pw
             | .perLane mp pp => AirDesc.npoLanes p.name lanes mp pp)) man.npo dyn := by
  obtain ⟨s, hs, _, _⟩ := (accept_iff_crypto crypto body exp reg m).1 hv
  obtain ⟨prim, dyn, ha, hp, hf⟩ := table_set_bound hs
  refine ⟨s, prim, dyn, hs, ha, hp, ?_⟩
  obtain ⟨hlen, hpt⟩ := manifest_ok_pointwise hm
  -- transport Forall₂ over the proof's entries to Forall₂ over the manifest's list
  rw [List.forall₂_iff_get] at hf ⊢
  refine ⟨by rw [← hlen]; exact hf.1, ?_⟩
  intro i h1 h2
  have h1' : i < m.entries.length := by rw [hlen]; exact h1
  obtain ⟨hair, p, hp'⟩ := hf.2 i h1' h2
  have hop := (hpt i (m.entries.get ⟨i, h1'⟩) (man.npo.get ⟨i, h1⟩) (by simp) (by simp)).1
  refine ⟨p, (m.entries.get ⟨i, h1'⟩).lanes, by rw [← hop]; exact hp', ?_⟩
  unfold npoAir at hair
  rw [hp'] at hair
  cases hk : p.kind with
  | fixed mw pw => simp [hk] at hair; exact hair.symm
  | perLane mp pp => simp [hk] at hair; exact hair.symm

end P3R.C16

#print axioms P3R.C16.manifest_matches_iff
#print axioms P3R.C16.manifest_ok_pointwise
#print axioms P3R.C16.manifest_matches_self
#print axioms P3R.C16.manifest_npoOp_at
#print axioms P3R.C16.manifest_npoVariant_at
#print axioms P3R.C16.manifest_npoPvLen_at
#print axioms P3R.C16.manifest_op_relabel_rejected
#print axioms P3R.C16.manifest_expected_relabel_rejected
#print axioms P3R.C16.manifest_insensitive
#print axioms P3R.C16.manifest_verify_table_set
