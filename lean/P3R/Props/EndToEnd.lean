/-
END TO END — the stage theorems of the primitive-op pipeline composed into two capstones.

    builder program b ──lower──▶ l ──dedup, fuse──▶ c = compile b ──genPrep──▶ p (roles, multiplicities)
                                                      │
                              runner (C02) ───────────┴──────▶ trace cells ──▶ row constraints + bus (C04/C10)

* `e2e_soundness` (C04 ∘ C03 ∘ C02): an ACCEPTED trace of the compiled circuit of a builder program
  attests an assignment to the program's EXPRESSIONS that satisfies the *source program*
  (`SourceSat`: every node's defining relation, every `connect`; hence every `assert_zero`,
  `assert_bool`, and — with non-zero divisors — "every expression's slot holds the value the expression
  denotes"). `e2e_soundness_gen`: the same for every extension degree `D`.
* `e2e_completeness` (C02 ∘ C09 ∘ C10): for the same program and every assignment satisfying the
  compiled relations (hints agreeing), the modelled run from the supplied inputs succeeds, returns
  that assignment, and the trace whose cells are the returned witness meets exactly the acceptance
  conditions `e2e_soundness` starts from. `e2e_completeness_gen`: every `D`.
* `e2e_roundtrip`: completeness fed into soundness (the two statements really do meet).

Every hypothesis is explicit; what each one is and which stage consumes it:

| hypothesis                         | stage that needs it                                   |
|------------------------------------|-------------------------------------------------------|
| `b.Ok` (or `ReachablePrim b`)      | C02 `lower_passes_check_ok` (lowering certificate, total) |
| `compile b = .ok c`                | gives `lower b = .ok l`, `c.ops = fuse (dedup l.ops)`, `hornerChained c.ops` (`compile_ops_eq`) |
| `genPrep c = some p`               | C09 `one_creator`, C04 `genPrep_slots`                |
| `hnoskip` (no operand off the bus) | C04 `accepted_sat`: a skipped operand's cell is free. Decidable on `p`; NOT derived from reachability here (gap, stated) |
| `hbal`, `hrows`                    | acceptance (ideal STARK + LogUp, DESIGN §2); `hrows` includes the F4 clauses: a Const row's cell is the circuit's constant, a Public row's cell the public input |
| `ReachablePrim b`                  | C09 `compiled_bus_balanced_reachable` (honest bus), C18 `privOk` |
| `pubOk`, `primOk`, `pubFull`       | C02 `run_total_on_satisfying_inputs` (decidable builder-side guards; DERIVED from reachability in `Props/EndToEndReach`: `e2e_completeness_reachable`) |
| `hall`, `hrw`, `h0`, `hsh`         | C02 `run_total_on_satisfying_inputs`: the assignment satisfies the compiled ops, `RunnerWrites` (fused product slot, bool-check `out` copy, non-zero `a` of a `Mul` row), hints agree; the table holds exactly the inputs |

Bridging lemmas proved here (where two stages did not meet definitionally):
`compile_e2w` (the final `expr_to_widx` is `resolve rw ∘ slot`), `accepted_sat_cells` (`accepted_sat` with the
cells tied to the assignment), `run_pub_in_range` (a successful run has set every `Public` row's slot, so the
returned witness carries the public inputs — the hypothesis `hpub` of `run_honest_accepted`),
`honestCells_zip` (the honest cells in the `zipWith` form of `accepted_sat`), `compile_ops_wf` / `compile_alu_shape`
(the compiled ops are `opWF`: `hWFfin` of `run_values_denote`, `hwf` of `run_honest_accepted`, `hshape` of the scheduled theorem), and the use of
`Prep.net = netOf` to feed `compiled_bus_balanced_reachable` into `honest_bus` (instead of `hcreated`).
-/
import P3R.Props.C02ShapeOptLower
import P3R.Props.C03LowerShape
import P3R.Props.C09Reach
import P3R.Props.C10Gen
import P3R.Props.C04SchedCols

namespace P3R.E2E
open P3R P3R.C02T P3R.C03 P3R.C04 P3R.C09 P3R.C09R

/-! ## Source-level satisfaction -/

section Source
variable {K : Type}

/-- The witness slot of expression `e` in the compiled circuit: `expr_to_widx` of the lowering followed
by the de-duplication rewrite (`compile_e2w`: this is the compiled circuit's `expr_to_widx`). -/
def eslot (rw : Rewrite) (l : Lowered K) (e : Nat) : Nat := resolve rw (l.slot e)

/-- The fused product slots of the compiled circuit (they have no witness column). -/
def fusedSites (l : Lowered K) : List FuseSite :=
  (fuseWithSites (dedup l.ops).1 (l.privRows.toList.map (resolve (dedup l.ops).2))).2

variable [CommRing K]

/-- **The source program holds under the expression valuation `v`**: the defining relation of every node
of the expression graph (`C03.nodeRel`: constants, public inputs, `add`/`sub`/`mul`/`div`, Horner step,
mul-add, and `v x · (v x − 1) = 0` for every `BoolCheck` node, i.e. every `assert_bool`) and the equality
of every `connect` (`assert_zero x` is `connect x 0`). -/
def SourceSat (b : BState K) (pub v : Nat → K) : Prop :=
  (∀ i e, b.nodes[i]? = some e → nodeRel v pub i e) ∧ (∀ ab ∈ b.connects, v ab.1 = v ab.2)

theorem SourceSat.connect {b : BState K} {pub v : Nat → K} (h : SourceSat b pub v) {x y : Nat}
    (hxy : (x, y) ∈ b.connects) : v x = v y := h.2 (x, y) hxy

/-- `assert_zero x` (`connect x 0`, node 0 being the zero constant): the expression is zero. -/
theorem SourceSat.assert_zero {b : BState K} {pub v : Nat → K} (h : SourceSat b pub v)
    (h0 : b.nodes[0]? = some (Expr.const 0)) {x : Nat} (hx : (x, 0) ∈ b.connects) : v x = 0 := by
  have := h.1 0 _ h0
  simp only [nodeRel] at this
  rw [h.connect hx, this]

/-- `assert_bool x` (a `BoolCheck` node on `x`): the expression is a bit. -/
theorem SourceSat.assert_bool {b : BState K} {pub v : Nat → K} (h : SourceSat b pub v) {i x : Nat}
    (hi : b.nodes[i]? = some (Expr.boolCheck x)) : v x * (v x - 1) = 0 := h.1 i _ hi

end Source

/-- With non-zero divisors, source satisfaction says every expression's value is its denotation. -/
theorem SourceSat.denote {K : Type} [Field K] [DecidableEq K] {b : BState K} {pub v : Nat → K}
    (h : SourceSat b pub v) (hdag : dagOk b.nodes = true)
    (hdiv : ∀ (i a d : Nat), b.nodes[i]? = some (Expr.div a d : Expr K) → v d ≠ 0) :
    ∀ i, i < b.nodes.size → v i = (C02.denote b.nodes pub v b.nodes.size).getD i 0 := fun i hi =>
  (C02.nodeRel_denote b.nodes pub v h.1 hdag hdiv b.nodes.size (Nat.le_refl _) i hi).symm

/-! ## `compile`: the fields the stages speak about -/

section Compile
variable {K : Type} [Neg K] [Zero K] [DecidableEq K]

/-- The compiled circuit's `expr_to_widx` is the lowering's, followed by the rewrite. -/
theorem compile_e2w (b : BState K) (c : Circuit K) (h : compile b = .ok c) (l : Lowered K)
    (hl : lower b = .ok l) :
    c.e2w = l.e2w.map (·.map (resolve (dedup l.ops).2)) ∧ c.rewrite = (dedup l.ops).2 := by
  unfold compile at h
  rw [hl] at h
  simp only [optimize] at h
  by_cases hch : hornerChained (fuse (dedup l.ops).1 (List.map (resolve (dedup l.ops).2) l.privRows.toList)).toList = true
  · simp only [hch, Bool.not_true, Bool.false_eq_true, if_false] at h
    cases h
    exact ⟨rfl, rfl⟩
  · have hf : hornerChained (fuse (dedup l.ops).1 (List.map (resolve (dedup l.ops).2) l.privRows.toList)).toList = false := by
      simpa using hch
    simp only [hf, Bool.not_false, if_true] at h
    cases h

/-- A mapped expression's entry of the compiled `expr_to_widx` is `eslot`. -/
theorem compile_eslot (b : BState K) (c : Circuit K) (h : compile b = .ok c) (l : Lowered K)
    (hl : lower b = .ok l) (e : Nat) (hm : l.mapped e = true) :
    c.e2w.getD e none = some (eslot c.rewrite l e) := by
  obtain ⟨he, hr⟩ := compile_e2w b c h l hl
  rw [he, hr]
  unfold eslot Lowered.slot
  unfold Lowered.mapped at hm
  simp only [Array.getD_eq_getD_getElem?, Array.getElem?_map] at hm ⊢
  cases hx : l.e2w[e]? with
  | none => rw [hx] at hm; simp at hm
  | some o =>
    rw [hx] at hm
    cases o with
    | none => simp at hm
    | some s => simp

end Compile

/-! ## From a satisfying assignment of the compiled ops to the source program (C03 ∘ C02) -/

section Chain
variable {K : Type} [CommRing K] [DecidableEq K]

/-- **C03 ∘ C02.** Every assignment `w` satisfying the compiled circuit's ops yields an assignment `w'`,
equal to `w` off the fused product slots, under which the source program holds
(`v e := w' (expr_to_widx e)`). Only hypotheses: the builder invariant and that `compile` succeeded. -/
theorem source_of_sat (b : BState K) (hb : b.Ok) (c : Circuit K) (hc : compile b = .ok c)
    (w pub : Nat → K) (hsat : Sat w pub c.ops.toList) :
    ∃ l : Lowered K, lower b = .ok l ∧
      ∃ w' : Nat → K, (∀ x, (∀ s ∈ fusedSites l, s.m ≠ x) → w' x = w x) ∧
        SourceSat b pub (fun e => w' (eslot c.rewrite l e)) := by
  obtain ⟨l, hl, hops, hrw, _⟩ := C02.compile_ops_eq b c hc
  obtain ⟨hLC, _, hWF⟩ := lower_passes_check_ok b hb l hl
  rw [hops] at hsat
  obtain ⟨w', hoff, hnodes, hconn⟩ := compile_chain_sound_total b l _ hl hLC
    (fun o ho => opWF_sound o (hWF o ho)) w pub hsat
  refine ⟨l, hl, w', hoff, ?_, ?_⟩
  · intro i e he
    have := hnodes i e he
    simpa only [eslot, hrw] using this
  · intro ab hab
    have := hconn ab hab
    simpa only [eslot, hrw] using this

end Chain

/-! ## Soundness: C04 ∘ C03 ∘ C02 -/

section Soundness
variable {F : Type} [Field F] [DecidableEq F]

/-- `C04.accepted_sat` with the cells tied to the assignment: the satisfying assignment it produces is the
one every (non-skipped, here: every) cell of the trace carries. -/
theorem accepted_sat_cells (pub : Nat → F) (ops : List (Op F)) (evs : List (Nat × Role))
    (reads : List (Nat × Nat)) (vs : List F)
    (hslots : evs.map Prod.fst = ops.flatMap opSlots)
    (hlen : vs.length = evs.length)
    (hcre : ∀ s, nCreators evs s ≤ 1)
    (hnoskip : ∀ e ∈ evs, e.2 ≠ .skip)
    (hbal : ∀ s v, tupleNet
      (busOf reads (List.zipWith (fun (e : Nat × Role) v => (⟨e.1, e.2, v⟩ : Cell F)) evs vs)) s v = 0)
    (hchain : hornerChained ops = true)
    (hrows : rowsOk pub ops vs none) :
    ∃ w : Nat → F, vs = (evs.map Prod.fst).map w ∧ Sat w pub ops := by
  set cells := List.zipWith (fun (e : Nat × Role) v => (⟨e.1, e.2, v⟩ : Cell F)) evs vs with hcells
  have hmap : cells.map evOf = evs := by
    rw [hcells]
    apply List.ext_getElem
    · simp [hlen]
    · intro i h1 h2
      simp [evOf]
  obtain ⟨w, hw⟩ := bus_single_valued reads cells (by rw [hmap]; exact hcre) hbal
  have hvs0 : vs = (evs.map Prod.fst).map w := by
    apply List.ext_getElem
    · simp [hlen]
    · intro i h1 h2
      have hi : i < cells.length := by rw [hcells]; simp [hlen]; omega
      have hmem : cells[i] ∈ cells := List.getElem_mem hi
      have hne : cells[i].role ≠ .skip := by
        have : cells[i].role = (evs[i]'(by omega)).2 := by simp [hcells]
        rw [this]
        exact hnoskip _ (List.getElem_mem _)
      have := hw _ hmem hne
      simpa [hcells] using this
  have hvs : vs = (ops.flatMap opSlots).map w := by rw [← hslots]; exact hvs0
  have hrows' : rowsOk pub ops ((ops.flatMap opSlots).map w) none := by rw [← hvs]; exact hrows
  have hconst : ∀ out v, Op.const out v ∈ ops → w out = v :=
    rowsOk_const w pub ops none hrows'
  exact ⟨w, hvs0, rowsOk_sat w pub (zeroConsts ops) (zeroConsts_zero w pub ops hconst) ops none
    (fun _ _ h => by cases h) (by simpa [hornerChained] using hchain) hrows'⟩

/-- The acceptance conditions of a trace `vs` (one cell per operand occurrence of the role scan `p`, in
scan order `out, a, [c,] b` per row) for the circuit `c` and public inputs `pub`, base field (`D = 1`):
one cell per occurrence; every row constraint vanishes on the row's cells (`C04.rowsOk`: the ALU lane
constraints of `Model/AluAir`, Horner rows chained to the previous row's `out` cell; a Const row's cell is
the circuit's constant and a Public row's cell the public input — the F4 hypothesis); the WitnessChecks
bus over the roles and multiplicities of `p` balances tuple by tuple. -/
structure Accepted (pub : Nat → F) (c : Circuit F) (p : Prep) (vs : List F) : Prop where
  len : vs.length = p.events.length
  rows : rowsOk pub c.ops.toList vs none
  bus : ∀ s v, tupleNet
    (busOf p.reads (List.zipWith (fun (e : Nat × Role) v => (⟨e.1, e.2, v⟩ : Cell F)) p.events vs)) s v = 0

/-- **END TO END / soundness (C04 ∘ C03 ∘ C02), base field.** Builder program `b` satisfying the builder
invariant (every `Reachable` / `ReachablePrim` program does), `compile b = .ok c`, `genPrep c = some p`,
no operand of `p` off the bus. If a trace is accepted (`Accepted`), then there are an assignment `w` of the
witness slots — the value of EVERY cell of the trace: `vs = slots.map w` — and a repair `w'` of `w` on
the fused product slots only, such that under the expression valuation `v e := w' (expr_to_widx e)`
(`eslot`: the lowering's `expr_to_widx` followed by the de-duplication rewrite, which is the compiled
circuit's `expr_to_widx` on every mapped expression) the SOURCE PROGRAM holds: every node's defining
relation, every `connect` (hence every `assert_zero`), every `assert_bool`; and, when no divisor is zero,
every expression's slot holds the value the expression denotes. -/
theorem e2e_soundness (b : BState F) (hb : b.Ok) (c : Circuit F) (hc : compile b = .ok c)
    (p : Prep) (hp : genPrep c = some p) (hnoskip : ∀ e ∈ p.events, e.2 ≠ .skip)
    (pub : Nat → F) (vs : List F) (hacc : Accepted pub c p vs) :
    ∃ l : Lowered F, lower b = .ok l ∧
      (∀ e, l.mapped e = true → c.e2w.getD e none = some (eslot c.rewrite l e)) ∧
      ∃ w w' : Nat → F,
        vs = (p.events.map Prod.fst).map w ∧
        Sat w pub c.ops.toList ∧
        (∀ x, (∀ s ∈ fusedSites l, s.m ≠ x) → w' x = w x) ∧
        SourceSat b pub (fun e => w' (eslot c.rewrite l e)) ∧
        ((∀ (i a d : Nat), b.nodes[i]? = some (Expr.div a d : Expr F) → w' (eslot c.rewrite l d) ≠ 0) →
          ∀ i, i < b.nodes.size → w' (eslot c.rewrite l i) =
            (C02.denote b.nodes pub (fun e => w' (eslot c.rewrite l e)) b.nodes.size).getD i 0) := by
  obtain ⟨_, _, _, _, hchain⟩ := C02.compile_ops_eq b c hc
  obtain ⟨w, hcells, hsat⟩ := accepted_sat_cells pub c.ops.toList p.events p.reads vs
    (genPrep_slots c p hp) hacc.len (fun s => one_creator c p hp s) hnoskip hacc.bus hchain hacc.rows
  obtain ⟨l, hl, w', hoff, hsrc⟩ := source_of_sat b hb c hc w pub hsat
  exact ⟨l, hl, fun e hm => compile_eslot b c hc l hl e hm, w, w', hcells, hsat, hoff, hsrc,
    fun hdiv => hsrc.denote hb.dagOk hdiv⟩

/-- The same for `ReachablePrim` programs (reachability replaces the invariant). -/
theorem e2e_soundness_reachable (b : BState F) (hb : ReachablePrim b) (c : Circuit F)
    (hc : compile b = .ok c) (p : Prep) (hp : genPrep c = some p)
    (hnoskip : ∀ e ∈ p.events, e.2 ≠ .skip) (pub : Nat → F) (vs : List F)
    (hacc : Accepted pub c p vs) :
    ∃ (l : Lowered F) (w' : Nat → F), lower b = .ok l ∧
      SourceSat b pub (fun e => w' (eslot c.rewrite l e)) := by
  obtain ⟨l, hl, _, _, w', _, _, _, hsrc, _⟩ :=
    e2e_soundness b hb.reachable.ok c hc p hp hnoskip pub vs hacc
  exact ⟨l, w', hl, hsrc⟩

end Soundness

/-! ## The compiled ops are well formed (`hWFfin` of `run_values_denote`, `hwf` of `run_honest_accepted`) -/

section OpsWF
variable {K : Type}

theorem opWF_rewrite (rw : Rewrite) (op : Op K) : opWF (op.rewrite rw) = opWF op := by
  cases op with
  | alu k a b c out io => cases k <;> cases c <;> cases io <;> rfl
  | _ => rfl

theorem dedup_step_wf (s : DedupState K) (op : Op K)
    (hs : ∀ e ∈ s.out.toList, opWF e = true) (hop : opWF op = true) :
    ∀ e ∈ (s.step op).out.toList, opWF e = true := by
  have h' : opWF (op.rewrite s.rw) = true := by rw [opWF_rewrite]; exact hop
  have push : ∀ e ∈ (s.out.push (op.rewrite s.rw)).toList, opWF e = true := by
    intro e he
    simp only [Array.toList_push, List.mem_append, List.mem_cons, List.not_mem_nil, or_false] at he
    rcases he with he | rfl
    · exact hs e he
    · exact h'
  unfold DedupState.step
  dsimp only
  split
  · split
    · split
      · exact hs
      · exact hs
    · exact push
  · exact push

/-- De-duplication keeps `opWF`. -/
theorem dedup_wf (ops : Array (Op K)) (h : ∀ o ∈ ops.toList, opWF o = true) :
    ∀ o ∈ (dedup ops).1.toList, opWF o = true := by
  have : ∀ (l : List (Op K)) (s : DedupState K), (∀ e ∈ l, opWF e = true) →
      (∀ e ∈ s.out.toList, opWF e = true) →
      ∀ e ∈ (l.foldl DedupState.step s).out.toList, opWF e = true := by
    intro l
    induction l with
    | nil => intro s _ hs; exact hs
    | cons a l ih =>
      intro s hl hs
      exact ih (s.step a) (fun e he => hl e (by simp [he])) (dedup_step_wf s a hs (hl a (by simp)))
  intro e he
  unfold dedup at he
  rw [← Array.foldl_toList] at he
  simp only [Array.toList_map, List.mem_map] at he
  obtain ⟨e0, he0, rfl⟩ := he
  rw [opWF_rewrite]
  exact this ops.toList _ h (by simp) e0 he0

/-- Mul+add fusion keeps `opWF`: a fused row is a `MulAdd` with its addend. -/
theorem fuse_wf (ops : Array (Op K)) (inputs : List Nat) (h : ∀ o ∈ ops.toList, opWF o = true) :
    ∀ o ∈ (fuse ops inputs).toList, opWF o = true := by
  intro o ho
  rw [fuse_eq_fst, fuseWithSites_eq] at ho
  simp only [List.mem_filterMap] at ho
  obtain ⟨p, hp, hap⟩ := ho
  unfold applyF at hap
  split at hap
  · cases hap
  · split at hap
    · rename_i c hfind
      cases hap
      have hc : c ∈ chosenFor ops inputs := List.mem_of_find?_eq_some hfind
      obtain ⟨ma, mb, m, x, y, ioA, ioM, hop, _⟩ := ((chosenFor_ok ops inputs).ok c hc).ex
      rw [hop]; rfl
    · cases hap
      obtain ⟨op, i⟩ := p
      exact h op (List.mem_of_getElem? (List.mem_zipIdx_iff_getElem?.mp hp))

end OpsWF

/-- **The ops of every compiled circuit are well formed** (every `MulAdd` has its addend, every
`HornerAcc` its `p_at_z` and its accumulator): what lowering emits (`lower_ops_wf`), kept by `dedup` and
`fuse`. Discharges `hWFfin` of `C02.run_values_denote` and `hwf` of `C10.run_honest_accepted`. -/
theorem compile_ops_wf {K : Type} [Neg K] [Zero K] [DecidableEq K] (b : BState K) (hb : b.Ok)
    (c : Circuit K) (hc : compile b = .ok c) : ∀ o ∈ c.ops.toList, opWF o = true := by
  obtain ⟨l, hl, hops, _, _⟩ := C02.compile_ops_eq b c hc
  obtain ⟨_, _, hWF⟩ := lower_passes_check_ok b hb l hl
  rw [hops]
  exact fuse_wf _ _ (dedup_wf _ hWF)

/-! ## Completeness: C02 ∘ C09 ∘ C10 -/

section Completeness
variable {F : Type} [Field F] [DecidableEq F]

theorem bind_ok3 {ε α β} {x : Except ε α} {f : α → Except ε β} {b : β}
    (h : x >>= f = .ok b) : ∃ a, x = .ok a ∧ f a = .ok b := by
  cases x with
  | error e => cases h
  | ok a => exact ⟨a, rfl, h⟩

/-- The slot of a `Public` row is set on the table. -/
def pubSet (w : Array (Option F)) : Op F → Prop
  | .pub out _ => ∃ x, slot w out = some x
  | _ => True

omit [Field F] [DecidableEq F] in
theorem pubSet_mono {w w' : Array (Option F)} (h : C02.Ext w w') (op : Op F) (ho : pubSet w op) :
    pubSet w' op := by
  cases op with
  | pub out pos => obtain ⟨x, hx⟩ := ho; exact ⟨x, h _ _ hx⟩
  | _ => trivial

theorem execOp_pubSet (canon : F → Nat) (s s' : RState F) (op : Op F)
    (h : execOp canon s op = .ok s') : pubSet s'.w op := by
  cases op with
  | pub out pos =>
    unfold execOp at h
    simp only at h
    split at h
    · rename_i x hx; cases h; exact ⟨x, hx⟩
    · cases h
  | _ => trivial

theorem execAll_pubSet (canon : F → Nat) :
    ∀ (ops : List (Op F)) (s s' : RState F), ops.foldlM (execOp canon) s = .ok s' →
      ∀ op ∈ ops, pubSet s'.w op := by
  intro ops
  induction ops with
  | nil => intro s s' _ op hop; cases hop
  | cons op ops ih =>
    intro s s' h
    simp only [List.foldlM_cons] at h
    obtain ⟨s1, h1, h2⟩ := bind_ok3 h
    have ho := execOp_pubSet canon s s1 op h1
    obtain ⟨e2, _⟩ := C02.execAll_establishes canon ops s1 s' h2
    intro o hm
    rcases List.mem_cons.mp hm with rfl | hm'
    · exact pubSet_mono e2 _ ho
    · exact ih s1 s' h2 o hm'

/-- **Bridge C02 → C10.** A successful run has set the slot of every `Public` row, so that slot lies
inside the returned witness. -/
theorem run_pub_in_range (canon : F → Nat) (c : Circuit F) (w0 : Array (Option F)) (t : Traces F)
    (h : runFrom canon c w0 = .ok t) :
    ∀ out pos, Op.pub out pos ∈ c.ops.toList → out < t.witness.size := by
  unfold runFrom at h
  obtain ⟨s, hexec, h⟩ := bind_ok3 h
  obtain ⟨w3, hpost, h⟩ := bind_ok3 h
  obtain ⟨vals, hvals, h⟩ := bind_ok3 h
  cases h
  intro out pos hop
  obtain ⟨x, hx⟩ := execAll_pubSet canon c.ops.toList _ s hexec _ hop
  have hext : C02.Ext s.w w3 := C02.postpass_ext (fun d => resolve c.rewrite d) c.rewrite s.w w3 hpost
  have hx3 := hext _ _ hx
  have hlt : out < w3.size := by
    unfold slot at hx3
    by_contra hge
    have : w3[out]? = none := Array.getElem?_eq_none (by omega)
    rw [this] at hx3
    cases hx3
  have hlen := C02.mapM_ok_length' _ _ _ hvals
  simp only [List.length_range] at hlen
  simpa [hlen] using hlt

omit [Field F] [DecidableEq F] in
/-- The honest cells in the `zipWith` form of `Accepted`. -/
theorem honestCells_zip (w : Nat → F) (evs : List (Nat × Role)) :
    List.zipWith (fun (e : Nat × Role) v => (⟨e.1, e.2, v⟩ : Cell F)) evs
      ((evs.map Prod.fst).map w) = C10.honestCells w evs := by
  unfold C10.honestCells
  induction evs with
  | nil => rfl
  | cons e es ih => simp only [List.map_cons, List.zipWith_cons_cons, ih]

/-- **END TO END / completeness (C02 ∘ C09 ∘ C10), base field.** Builder program `b` built through the
builder API (`ReachablePrim`) with the three decidable runner-side guards (`pubOk`: public positions
distinct and below `pubCount`; `primOk`: every non-primitive op is an unconstrained hint of the modelled
runner layer; `pubFull`: every public position allocated), `compile b = .ok c`, `genPrep c = some p`.
For every assignment `w` that satisfies every compiled op (with the runner's own writes `RunnerWrites`
and the hints agreeing) and every prepared table `w0` that holds exactly the public and private inputs,
with the values of `w`:

1. the modelled run succeeds and returns `w` (`run_total_on_satisfying_inputs`);
2. the trace whose cells are the returned witness values of the operand slots is `Accepted`: one cell
   per occurrence, every row constraint vanishes (`run_honest_accepted`; its `hpub` from
   `run_pub_in_range`, its `hwf` from `compile_ops_wf`, its `hchain` from `compile`), and the bus balances
   tuple by tuple (`honest_bus` fed by `compiled_bus_balanced_reachable`) —
   exactly the acceptance conditions `e2e_soundness` starts from. -/
theorem e2e_completeness (canon : F → Nat) (b : BState F) (hb : ReachablePrim b)
    (hpu : C02S.pubOk b = true) (hprim : C02S.primOk b = true) (hpf : C02O.pubFull b = true)
    (c : Circuit F) (hc : compile b = .ok c) (p : Prep) (hp : genPrep c = some p)
    (w0 : Array (Option F)) (w pub : Nat → F) (h0 : C02.Agree w0 w)
    (hsh : C02.shape w0 = C02S.allInputsSet c)
    (hall : ∀ op ∈ c.ops.toList, op.holds w pub ∧ C02.RunnerWrites w op ∧ C02.HintAgrees canon w op)
    (hrw : ∀ dc ∈ c.rewrite, w dc.1 = w (resolve c.rewrite dc.2)) :
    ∃ t, runFrom canon c w0 = .ok t ∧
      (∀ j, j < t.witness.size → t.witness.getD j 0 = w j) ∧
      Accepted pub c p ((p.events.map Prod.fst).map fun j => t.witness.getD j 0) := by
  have hok := hb.reachable.ok
  obtain ⟨t, hrun, hval⟩ := C02.run_total_on_satisfying_inputs canon b hok hb.privOk hpu hprim hpf c hc
    w0 w pub h0 hsh hall hrw
  refine ⟨t, hrun, hval, ?_⟩
  obtain ⟨_, _, _, _, hchain⟩ := C02.compile_ops_eq b c hc
  have hwf := compile_ops_wf b hok c hc
  -- public rows carry the public inputs
  have hpub : ∀ out pos, Op.pub out pos ∈ c.ops.toList → t.witness.getD out 0 = pub pos := by
    intro out pos hop
    rw [hval out (run_pub_in_range canon c w0 t hrun out pos hop)]
    exact (hall _ hop).1
  -- asserted booleans are boolean
  have hbool : ∀ a bb cc out io, Op.alu .boolCheck a bb cc out io ∈ c.ops.toList →
      t.witness.getD a 0 * (t.witness.getD a 0 - 1) = 0 := by
    intro a bb cc out io hop
    by_cases ha : a < t.witness.size
    · rw [hval a ha]; exact (hall _ hop).1
    · have : t.witness.getD a 0 = 0 := by
        simp [Array.getD_eq_getD_getElem?, Array.getElem?_eq_none (Nat.le_of_not_lt ha)]
      rw [this]; ring
  -- rows: `run_honest_accepted`; bus: C09 for reachable programs
  have hnet : ∀ s, netOf p.reads p.events s = 0 := fun s =>
    compiled_bus_balanced_reachable b hb c hc p hp s
  have hwfh : ∀ op ∈ c.ops.toList, ∀ a bb cc out io, op = .alu .horner a bb cc out io →
      cc.isSome ∧ io.isSome := by
    intro op hop a bb cc out io he
    have := hwf op hop
    subst he
    simpa [opWF] using this
  obtain ⟨_, _, hs⟩ := C02.run_ok_sat canon c w0 t hrun pub hwfh
  have hSat : Sat (fun j => t.witness.getD j 0) pub c.ops.toList := by
    intro op hop
    by_cases hpp : ∃ out pos, op = .pub out pos
    · obtain ⟨out, pos, rfl⟩ := hpp
      simpa [Op.holds] using hpub out pos hop
    · refine hs op hop (fun out pos he => hpp ⟨out, pos, he⟩) ?_
      intro a bb cc out io he
      subst he
      exact hbool a bb cc out io hop
  have hconst : ∀ out v, Op.const out v ∈ c.ops.toList → t.witness.getD out 0 = v := by
    intro out v hm
    simpa [Op.holds] using hSat _ hm
  refine ⟨by simp, ?_, ?_⟩
  · rw [genPrep_slots c p hp]
    exact C10.honest_rows _ pub (zeroConsts c.ops.toList)
      (zeroConsts_zero _ pub _ hconst) c.ops.toList none
      (fun _ _ h => by cases h) hSat hwf (by simpa [hornerChained] using hchain)
  · rw [honestCells_zip]
    exact C10.honest_bus _ p.reads p.events hnet

end Completeness

/-! ## The two capstones meet -/

section RoundTrip
variable {F : Type} [Field F] [DecidableEq F]

/-- **END TO END / round trip.** For a `ReachablePrim` program with the runner-side guards and no operand
off the bus: every assignment satisfying the compiled ops (inputs supplied) is, after the honest run, proven
by an accepted trace, and that accepted trace attests the source program — the conclusion of
`e2e_completeness` is literally the hypothesis of `e2e_soundness`. -/
theorem e2e_roundtrip (canon : F → Nat) (b : BState F) (hb : ReachablePrim b)
    (hpu : C02S.pubOk b = true) (hprim : C02S.primOk b = true) (hpf : C02O.pubFull b = true)
    (c : Circuit F) (hc : compile b = .ok c) (p : Prep) (hp : genPrep c = some p)
    (hnoskip : ∀ e ∈ p.events, e.2 ≠ .skip)
    (w0 : Array (Option F)) (w pub : Nat → F) (h0 : C02.Agree w0 w)
    (hsh : C02.shape w0 = C02S.allInputsSet c)
    (hall : ∀ op ∈ c.ops.toList, op.holds w pub ∧ C02.RunnerWrites w op ∧ C02.HintAgrees canon w op)
    (hrw : ∀ dc ∈ c.rewrite, w dc.1 = w (resolve c.rewrite dc.2)) :
    ∃ (t : Traces F) (l : Lowered F) (w' : Nat → F), runFrom canon c w0 = .ok t ∧ lower b = .ok l ∧
      (∀ x ∈ p.events.map Prod.fst, (∀ s ∈ fusedSites l, s.m ≠ x) → w' x = t.witness.getD x 0) ∧
      SourceSat b pub (fun e => w' (eslot c.rewrite l e)) := by
  obtain ⟨t, hrun, _, hacc⟩ := e2e_completeness canon b hb hpu hprim hpf c hc p hp w0 w pub h0 hsh
    hall hrw
  obtain ⟨l, hl, _, w1, w', hcells, _, hoff, hsrc, _⟩ :=
    e2e_soundness b hb.reachable.ok c hc p hp hnoskip pub _ hacc
  refine ⟨t, l, w', hrun, hl, ?_, hsrc⟩
  intro x hmem hns
  rw [hoff x hns]
  -- `w1` is the value of every cell of the honest trace
  obtain ⟨i, hi, hxi⟩ := List.getElem_of_mem hmem
  have := congrArg (fun l => l[i]?) hcells
  simp only [List.getElem?_map, List.getElem?_eq_getElem hi, Option.map_some] at this
  rw [hxi] at this
  exact (Option.some.inj this).symm

end RoundTrip

/-! ## Every extension degree `D`

Circuit over the extension ring `L`; trace cells in the base field `K`, `D` coefficient cells per operand
occurrence; `w s = ev φ α D (cv s) = Σ φ(cv s)ᵢ·αⁱ` (`C04Gen` / `C10Gen`). -/

section Gen
variable {K L : Type} [Field K] [DecidableEq K]

/-- Acceptance conditions, `D` coefficient cells per occurrence (`C04.accepted_sat_genPrep_gen`): row
constraints are the coefficient-wise lane constraints (`rowsOkGen`, selector value `sel`), the bus carries
`(slot, v₀ … v_{D−1})` tuples. -/
structure AcceptedGen [CommRing L] (φ : K →+* L) (α : L) (D : ℕ) (kind : ExtKind K) (sel : K)
    (pub : Nat → L) (c : Circuit L) (p : Prep) (vs : List (List K)) : Prop where
  len : vs.length = p.events.length
  rows : rowsOkGen φ α D kind sel pub c.ops.toList vs none
  bus : ∀ s v, tupleNet (busOf p.reads
    (List.zipWith (fun (e : Nat × Role) v => (⟨e.1, e.2, v⟩ : Cell (List K))) p.events vs)) s v = 0

/-- **END TO END / soundness, every `D`.** As `e2e_soundness`, for a circuit over the extension ring `L`
generated by a root `α` of the multiplication kind (`KindRoot`): an accepted trace of coefficient cells
yields coefficient cells `cv s` per slot — the cells of every occurrence of `s` — and a repair `w'` of
`w s = ev φ α D (cv s)` on the fused product slots under which the source program holds in `L`.
(When `L` is a field, `SourceSat.denote` upgrades the conclusion to denotations as in `e2e_soundness`.) -/
theorem e2e_soundness_gen [CommRing L] [DecidableEq L] (φ : K →+* L) (α : L) (D : ℕ)
    (kind : ExtKind K) (sel : K) (hD : 0 < D) (hk : C11.KindRoot φ D kind α) (hs : sel ≠ 0)
    (b : BState L) (hb : b.Ok) (c : Circuit L) (hc : compile b = .ok c)
    (p : Prep) (hp : genPrep c = some p) (hnoskip : ∀ e ∈ p.events, e.2 ≠ .skip)
    (pub : Nat → L) (vs : List (List K)) (hacc : AcceptedGen φ α D kind sel pub c p vs) :
    ∃ l : Lowered L, lower b = .ok l ∧
      (∀ e, l.mapped e = true → c.e2w.getD e none = some (eslot c.rewrite l e)) ∧
      ∃ (cv : Nat → List K) (w' : Nat → L),
        vs = (p.events.map Prod.fst).map cv ∧
        Sat (fun s => C11.ev φ α D (cv s)) pub c.ops.toList ∧
        (∀ x, (∀ s ∈ fusedSites l, s.m ≠ x) → w' x = C11.ev φ α D (cv x)) ∧
        SourceSat b pub (fun e => w' (eslot c.rewrite l e)) := by
  obtain ⟨_, _, _, _, hchain⟩ := C02.compile_ops_eq b c hc
  obtain ⟨cv, hcells, hsat⟩ := accepted_sat_genPrep_gen φ α D kind sel hD hk hs pub c p hp vs
    hacc.len hnoskip hacc.bus hchain hacc.rows
  obtain ⟨l, hl, w', hoff, hsrc⟩ := source_of_sat b hb c hc _ pub hsat
  exact ⟨l, hl, fun e hm => compile_eslot b c hc l hl e hm, cv, w', hcells, hsat, hoff, hsrc⟩

/-- **END TO END / completeness, every `D`.** As `e2e_completeness`, for a circuit over an extension
*field* `L` with a coefficient map `coeffs` (`ev (coeffs x) = x`: the power basis spans) and power-basis
independence `CoeffIndep`: the trace whose cells are the coefficients of the returned witness is
`AcceptedGen`. -/
theorem e2e_completeness_gen [Field L] [DecidableEq L] (φ : K →+* L) (α : L) (D : ℕ)
    (kind : ExtKind K) (sel : K) (hind : C11.CoeffIndep φ α D) (hD : 0 < D)
    (hk : C11.KindRoot φ D kind α) (hs : sel ≠ 0)
    (coeffs : L → List K) (hco : ∀ x, C11.ev φ α D (coeffs x) = x)
    (canon : L → Nat) (b : BState L) (hb : ReachablePrim b)
    (hpu : C02S.pubOk b = true) (hprim : C02S.primOk b = true) (hpf : C02O.pubFull b = true)
    (c : Circuit L) (hc : compile b = .ok c) (p : Prep) (hp : genPrep c = some p)
    (w0 : Array (Option L)) (w pub : Nat → L) (h0 : C02.Agree w0 w)
    (hsh : C02.shape w0 = C02S.allInputsSet c)
    (hall : ∀ op ∈ c.ops.toList, op.holds w pub ∧ C02.RunnerWrites w op ∧ C02.HintAgrees canon w op)
    (hrw : ∀ dc ∈ c.rewrite, w dc.1 = w (resolve c.rewrite dc.2)) :
    ∃ t, runFrom canon c w0 = .ok t ∧
      (∀ j, j < t.witness.size → t.witness.getD j 0 = w j) ∧
      AcceptedGen φ α D kind sel pub c p
        ((p.events.map Prod.fst).map fun j => coeffs (t.witness.getD j 0)) := by
  obtain ⟨t, hrun, hval, hacc1⟩ := e2e_completeness canon b hb hpu hprim hpf c hc p hp w0 w pub h0 hsh
    hall hrw
  refine ⟨t, hrun, hval, ?_⟩
  obtain ⟨_, _, _, _, hchain⟩ := C02.compile_ops_eq b c hc
  have hwf := compile_ops_wf b hb.reachable.ok c hc
  -- the base-level statement already contains `Sat` of the returned witness: recover it from the rows
  have hSat : Sat (fun j => t.witness.getD j 0) pub c.ops.toList := by
    have hrows := hacc1.rows
    rw [genPrep_slots c p hp] at hrows
    have hconst := rowsOk_const (fun j => t.witness.getD j 0) pub c.ops.toList none hrows
    exact rowsOk_sat _ pub (zeroConsts c.ops.toList) (zeroConsts_zero _ pub _ hconst) c.ops.toList none
      (fun _ _ h => by cases h) (by simpa [hornerChained] using hchain) hrows
  have hSat' : Sat (fun s => C11.ev φ α D (coeffs (t.witness.getD s 0))) pub c.ops.toList := by
    have e : (fun s => C11.ev φ α D (coeffs (t.witness.getD s 0))) = fun j => t.witness.getD j 0 :=
      funext fun s => hco _
    rw [e]; exact hSat
  have hconst : ∀ out v, Op.const out v ∈ c.ops.toList →
      C11.ev φ α D (coeffs (t.witness.getD out 0)) = v := by
    intro out v hm
    simpa [Op.holds] using hSat' _ hm
  refine ⟨by simp, ?_, ?_⟩
  · rw [genPrep_slots_gen c p hp]
    exact C10.honest_rows_gen φ α D kind sel hind hD hk hs (fun j => coeffs (t.witness.getD j 0)) pub
      (zeroConsts c.ops.toList)
      (zeroConsts_zero_gen (fun s => C11.ev φ α D (coeffs (t.witness.getD s 0))) _ hconst)
      c.ops.toList none (fun _ _ h => by cases h) hSat' hwf (by simpa [hornerChained] using hchain)
  · rw [C10.honestCellsGen_zip]
    exact C10.honest_bus_gen _ p.reads p.events
      (fun s => compiled_bus_balanced_reachable b hb c hc p hp s)

end Gen

/-! ## Soundness from the SCHEDULED, lane-packed, Horner-packed ALU table (C04SchedCols)

`e2e_soundness_gen` speaks about the abstract one-row-per-op trace. The real ALU table is scheduled
(`computeSchedule`: several ops per row, Horner runs packed into one lane); `C04.scheduled_accepted_sat_bus''`
proves `Sat` from the acceptance of THAT table. Composed with `source_of_sat` it gives the source program
from the scheduled table; its hypotheses are taken over unchanged (they are about the committed
preprocessed matrix, the schedule and the window constraints), except that `hchain` and `hshape` are derived
here from `compile` (`compile_ops_eq`, `compile_ops_wf`). -/

section Scheduled
variable {K L : Type} [Field K] [DecidableEq K] [CommRing L] [DecidableEq L]

/-- The compiled ops have the shape `scheduled_accepted_sat_bus''` asks for: an ALU op without `c` is
neither a `MulAdd` nor a `HornerAcc`. -/
theorem compile_alu_shape (b : BState L) (hb : b.Ok) (c : Circuit L) (hc : compile b = .ok c) :
    ∀ k a bb out io, Op.alu k a bb none out io ∈ c.ops.toList → k ≠ .mulAdd ∧ k ≠ .horner := by
  intro k a bb out io hop
  have := compile_ops_wf b hb c hc _ hop
  cases k <;> simp_all [opWF]

open P3R.C11 in
/-- **END TO END / soundness from the scheduled ALU table, every `D`.** -/
theorem e2e_soundness_scheduled (φ : K →+* L) (α : L) (D lanes kmax : ℕ) (kind : ExtKind K)
    (Mr : ℕ → List K) (preps : List (List K)) (sched : List SchedEntry) (H : ℕ)
    (hD : 0 < D) (hk : KindRoot φ D kind α) (hl : 0 < lanes)
    (b : BState L) (hb : b.Ok) (c : Circuit L) (hc : compile b = .ok c)
    (pub : ℕ → L) (rl : ℕ → Roles4) (reads : List (ℕ × ℕ))
    (hsched : computeSchedule preps lanes kmax = some sched)
    (hH : sched.length ≤ H * lanes)
    (hn : preps.length = (aluOps c.ops.toList).length)
    (hsel : ∀ j k a bb cc out io, (aluOps c.ops.toList)[j]? = some (.alu k a bb cc out io) →
      PrepSel preps j k)
    (hw : WinOk D lanes kmax kind preps sched Mr H)
    (hnoskip : ∀ j, (rl j).1 ≠ .skip ∧ (rl j).2.1 ≠ .skip ∧ (rl j).2.2.1 ≠ .skip ∧
      (rl j).2.2.2 ≠ .skip)
    (others : List (Cell (List K)))
    (hcre : ∀ s, nCreators
      ((others ++ schedCells D lanes kmax kind Mr sched c.ops.toList rl).map evOf) s ≤ 1)
    (hpb : ∀ j, j < preps.length → PrepBus preps reads c.ops.toList rl j)
    (hinj : ∀ i j, i < preps.length → j < preps.length →
      (natK (opB ((aluOps c.ops.toList).getD i dOp)) : K) =
        natK (opB ((aluOps c.ops.toList).getD j dOp)) →
      opB ((aluOps c.ops.toList).getD i dOp) = opB ((aluOps c.ops.toList).getD j dOp))
    (hfaith : ∀ j, j < preps.length →
      ((eventMult reads (opOut ((aluOps c.ops.toList).getD j dOp), (rl j).1) : ℤ) : K) = 0 →
      eventMult reads (opOut ((aluOps c.ops.toList).getD j dOp), (rl j).1) = 0)
    (hbal : ∀ s v, tupleNet
      (schedBus D lanes kmax kind Mr sched reads others c.ops.toList rl) s v = 0)
    (hconstC : ∀ out v, Op.const out v ∈ c.ops.toList →
      ∃ cl ∈ others, cl.slot = out ∧ cl.role ≠ .skip ∧ ev φ α D cl.val = v)
    (hpubC : ∀ out pos, Op.pub out pos ∈ c.ops.toList →
      ∃ cl ∈ others, cl.slot = out ∧ cl.role ≠ .skip ∧ ev φ α D cl.val = pub pos) :
    ∃ l : Lowered L, lower b = .ok l ∧
      ∃ (cv : ℕ → List K) (w' : ℕ → L),
        (∀ cl ∈ others ++ schedCells D lanes kmax kind Mr sched c.ops.toList rl, cl.role ≠ .skip →
          cl.val = cv cl.slot) ∧
        (∀ x, (∀ s ∈ fusedSites l, s.m ≠ x) → w' x = ev φ α D (cv x)) ∧
        SourceSat b pub (fun e => w' (eslot c.rewrite l e)) := by
  obtain ⟨_, _, _, _, hchain⟩ := C02.compile_ops_eq b c hc
  obtain ⟨cv, hcells, hsat⟩ := scheduled_accepted_sat_bus'' φ α D lanes kmax kind Mr preps sched H hD hk hl
    pub c.ops.toList rl reads hsched hH hn hsel (compile_alu_shape b hb c hc) hw hchain hnoskip others
    hcre hpb hinj hfaith hbal hconstC hpubC
  obtain ⟨l, hl', w', hoff, hsrc⟩ := source_of_sat b hb c hc _ pub hsat
  exact ⟨l, hl', cv, w', hcells, hoff, hsrc⟩

end Scheduled

end P3R.E2E

#print axioms P3R.E2E.e2e_soundness
#print axioms P3R.E2E.e2e_completeness
#print axioms P3R.E2E.e2e_roundtrip
#print axioms P3R.E2E.e2e_soundness_gen
#print axioms P3R.E2E.e2e_completeness_gen
#print axioms P3R.E2E.compile_ops_wf
#print axioms P3R.E2E.run_pub_in_range
#print axioms P3R.E2E.e2e_soundness_scheduled
