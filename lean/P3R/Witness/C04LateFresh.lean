/-
Witnesses for `P3R.C04L` (Props/C04LateFresh.lean).

Program over `ℤ/7` (`bL`, built through the builder API, `ReachablePrim`) that takes the `mul − const` fast path
of `emit_operations` AND has a hint:

    x = public (e1)   y = private (e2)   e3 = x · y   e4 = const 3   e5 = e3 − e4   bits(e5, 1)

Compiled (`l_facts`, evaluated): `Const 0 0; Const 1 3; Const 2 1; Public 3; Mul(3,4 → 5);
Const 7 4  ← the fast-path constant −3, AFTER the first ALU row, on the fresh slot 7;  Add(5,7 → 6);
Hint [6] → [8]; …` — so the quantifier of `lateFresh` ranges over a real row and `Hall` is not empty.
(One bit only: the model's `op_id_to_output_exprs` sorts with `List.mergeSort`, which the kernel does not unfold
for two outputs.)

* `l_reachable`, `l_facts` — the program is `ReachablePrim`; its compiled list, by evaluation;
* `late_const_occurs` — the compiled list has a `Const` row behind an ALU row, and hint outputs;
* `lateFresh_applies` — `compile_lateFresh` on it (no evaluation of `lateFresh`), and it agrees with the evaluated value;
* `no_skip_applies`, `no_skip_applies_E` — `compiled_no_skip` on `bL` and on the end-to-end example `bE`: only
  `ReachablePrim`, `compile = ok`, `genPrep = some`;
* `soundness_applies`, `roundtrip_applies` — `e2e_soundness_reachable'` / `e2e_roundtrip_reachable'` on `bE`:
  no `hnoskip`, no `lateFresh`;
* `connectsOk_needed` — MODEL level, the hypothesis `connectsOk` of `compile_lateFresh` cannot be dropped: the raw
  state `bBad` = `bL` plus a connect that names the synthetic id `nodes.len()` (11; no builder call returns it) and
  the first hint output puts the fast-path constant into the hint output's class: the late `Const` row then carries
  the hint output's slot and `lateFresh` is false.
-/
import P3R.Props.C04LateFresh
import P3R.Witness.EndToEnd

namespace P3R.Witness.C04LateFresh
open P3R P3R.C02T P3R.C09R P3R.C04N P3R.C04L P3R.E2E P3R.Witness.EndToEnd

def r1 : BState K := (BState.init : BState K).allocPublic.1     -- x  = e1
def r2 : BState K := r1.allocPrivate.1                          -- y  = e2
def r3 : BState K := (r2.mul 1 2).1                             -- e3 = x * y
def r4 : BState K := (r3.defineConst 3).1                       -- e4 = 3
def r5 : BState K := (r4.sub 3 4).1                             -- e5 = e3 - 3   (fast path)
def bL : BState K := (r5.decomposeToBits (fun i => 2 ^ i) 5 1).1

theorem l_reachable : ReachablePrim bL := by
  have h1 : ReachablePrim r1 := .allocPublic .init
  have h2 : ReachablePrim r2 := .allocPrivate h1
  have h3 : ReachablePrim r3 := .mul h2 (by decide +kernel) (by decide +kernel)
  have h4 : ReachablePrim r4 := .defineConst h3 3
  have h5 : ReachablePrim r5 := .sub h4 (by decide +kernel) (by decide +kernel)
  exact .decomposeToBits h5 _ (by decide +kernel) 1

/-- The compiled op list. -/
def opsL : List (Op K) :=
  [.const 0 0, .const 1 3, .const 2 1, .pub 3 0, .alu .mul 3 4 none 5 none,
   .const 7 4, .alu .add 5 7 none 6 none, .hint [6] [8] .hintBits,
   .alu .boolCheck 8 0 (some 8) 8 none, .alu .mulAdd 8 2 (some 0) 6 none]

theorem l_facts :
    (match compile bL with
     | .ok c => decide (c.ops.toList = opsL) && (genPrep c).isSome
     | .error _ => false) = true := by
  decide +kernel

theorem l_compiles : ∃ c p, compile bL = .ok c ∧ genPrep c = some p ∧ c.ops.toList = opsL := by
  have h := l_facts
  cases hc : compile bL with
  | error e => rw [hc] at h; cases h
  | ok c =>
    rw [hc] at h
    simp only [Bool.and_eq_true, decide_eq_true_eq] at h
    cases hp : genPrep c with
    | none => rw [hp] at h; simp at h
    | some p => exact ⟨c, p, rfl, hp, h.1⟩

/-- A `Const` row behind an ALU row, and hint outputs: `lateFresh` is not vacuous on `opsL`. -/
theorem late_const_occurs :
    (Op.const 7 4 : Op K) ∈ opsL.dropWhile (fun op => !C09C.isAluOp op) ∧ Hall opsL = [8] := by
  decide

/-- `compile_lateFresh` applies (nothing is evaluated), and agrees with the evaluated value. -/
theorem lateFresh_applies (c : Circuit K) (hc : compile bL = .ok c) :
    lateFresh c.ops.toList = true ∧ lateFresh opsL = true :=
  ⟨compile_lateFresh bL l_reachable.reachable.ok.connectsOk c hc, by decide⟩

/-- `compiled_no_skip` on the fast-path program. -/
theorem no_skip_applies (c : Circuit K) (p : Prep) (hc : compile bL = .ok c) (hp : genPrep c = some p) :
    noSkip p :=
  compiled_no_skip bL l_reachable c hc p hp

/-- `compiled_no_skip` on the end-to-end example: no `lateFresh` supplied. -/
theorem no_skip_applies_E (c : Circuit K) (p : Prep) (hc : compile bE = .ok c) (hp : genPrep c = some p) :
    noSkip p :=
  compiled_no_skip bE e_reachable c hc p hp

/-- `e2e_soundness_reachable'` applies: neither `hnoskip` nor `lateFresh` is supplied. -/
theorem soundness_applies (c : Circuit K) (p : Prep) (hc : compile bE = .ok c)
    (hp : genPrep c = some p) (vs : List K) (hacc : Accepted pubE c p vs) :
    ∃ (l : Lowered K) (w' : Nat → K), lower bE = .ok l ∧
      SourceSat bE pubE (fun e => w' (eslot c.rewrite l e)) := by
  obtain ⟨l, hl, _, _, w', _, _, _, hsrc, _⟩ := e2e_soundness_reachable' bE e_reachable c hc p hp pubE vs hacc
  exact ⟨l, w', hl, hsrc⟩

/-- `e2e_roundtrip_reachable'` applies: the scan's "no skip" is not read off the evaluated scan. -/
theorem roundtrip_applies (c : Circuit K) (p : Prep) (hc : compile bE = .ok c)
    (hp : genPrep c = some p) :
    ∃ (t : Traces K) (l : Lowered K) (w' : Nat → K), runFrom ZMod.val c w0E = .ok t ∧ lower bE = .ok l ∧
      (∀ x ∈ p.events.map Prod.fst, (∀ s ∈ fusedSites l, s.m ≠ x) → w' x = t.witness.getD x 0) ∧
      SourceSat bE pubE (fun e => w' (eslot c.rewrite l e)) := by
  obtain ⟨hops, hrw, hsh, _⟩ := facts_of hc hp
  refine e2e_roundtrip_reachable' ZMod.val bE e_reachable c hc p hp w0E wE pubE agreeE ?_ ?_ ?_
  · rw [hsh]; decide +kernel
  · rw [hops]; exact hallE _
  · rw [hrw]; intro dc hdc; cases hdc

/-- `bL` plus a connect between the synthetic id `nodes.len() = 11` and the first hint output (`e7`). -/
def bBad : BState K := { bL with connects := (11, 7) :: bL.connects }

/-- What `bBad` compiles to: the fast-path constant and the first hint output share slot 7. -/
def opsBad : List (Op K) :=
  [.const 0 0, .const 1 3, .const 2 1, .pub 3 0, .alu .mul 3 4 none 5 none,
   .const 7 4, .alu .add 5 7 none 6 none, .hint [6] [7] .hintBits,
   .alu .boolCheck 7 0 (some 7) 7 none, .alu .mulAdd 7 2 (some 0) 6 none]

/-- Model level: without `connectsOk` the fast-path constant can land on a hint output's slot. -/
theorem connectsOk_needed :
    connectsOk bBad = false ∧
    (match compile bBad with
     | .ok c => decide (c.ops.toList = opsBad)
     | .error _ => false) = true ∧ lateFresh opsBad = false := by
  refine ⟨by decide +kernel, by decide +kernel, by decide⟩

end P3R.Witness.C04LateFresh

#print axioms P3R.Witness.C04LateFresh.l_reachable
#print axioms P3R.Witness.C04LateFresh.late_const_occurs
#print axioms P3R.Witness.C04LateFresh.lateFresh_applies
#print axioms P3R.Witness.C04LateFresh.no_skip_applies
#print axioms P3R.Witness.C04LateFresh.no_skip_applies_E
#print axioms P3R.Witness.C04LateFresh.soundness_applies
#print axioms P3R.Witness.C04LateFresh.roundtrip_applies
#print axioms P3R.Witness.C04LateFresh.connectsOk_needed
