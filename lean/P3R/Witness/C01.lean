/-
C01 — concrete shapes on which the full statement of script agreement is false
(`∀ s, circuitUni s = .ok (nativeUni s)`, `∀ s, circuitBatch s = .ok (nativeBatch s)`), each replayed on
the real code by the harness (targets `uni/*/mul-prenonext`, `batch/*/mul-prenonext`), and non-vacuity of the hypotheses of the `…_partial` theorems.

Record (no longer a witness): until /repo b026681 the uni circuit observed the opened values without
the hiding PCS's random values, and `circuitUni (fib true) ≠ .ok (nativeUni (fib true))` was proved
here (`uni_zk_scripts_differ`, 28 vs 38 absorbed names; finding F-C01-4). With the repaired
observation the shape is inside `WFUni` and the scripts are equal: `uni_zk_scripts_equal` below.
Likewise, until fixes/C01-1 the uni circuit could not be built for an AIR that opens no next trace row
(`circuitUni addNoNext = .error …`, finding F-C01-1); now `uni_nonext_scripts_equal`.
-/
import P3R.Props.C01

namespace P3R.Witness.C01
open P3R.VerifierScript P3R.C01

/-- Fibonacci AIR (2 columns, 3 public values, next row opened), 8 rows, one quotient chunk
(two with the ZK doubling), extension degree 4. -/
def fib (zk : Bool) : Shape :=
  { zk := zk, D := 4, nrc := 2,
    insts := [⟨2, 3, 0, true, true, if zk then 2 else 1, 0, if zk then 4 else 3⟩],
    friRounds := 2, finalPolyLen := 1, queries := 2, commitPowBits := 1, queryPowBits := 1 }

/-- A row-local AIR that opens no next row (`main_next_row_columns = []`). -/
def addNoNext : Shape :=
  { zk := false, D := 4, nrc := 0, insts := [⟨3, 0, 0, false, true, 1, 0, 3⟩],
    friRounds := 2, finalPolyLen := 1, queries := 2, commitPowBits := 1, queryPowBits := 1 }

/-- Preprocessed columns whose next row is never read (`preprocessed_next_row_columns = []`). -/
def mulPreNoNext : Shape :=
  { zk := false, D := 4, nrc := 0, insts := [⟨1, 0, 2, true, false, 1, 0, 3⟩],
    friRounds := 2, finalPolyLen := 1, queries := 2, commitPowBits := 1, queryPowBits := 1 }

/-- Uni-STARK with the hiding PCS (regression record of F-C01-4): same script as native. -/
theorem uni_zk_scripts_equal : circuitUni (fib true) = .ok (nativeUni (fib true)) :=
  uni_scripts_equal_partial _ (fun h => by cases h)

/-- Both sides absorb the same 38 names (the circuit absorbed 28 before the repair). -/
theorem uni_zk_absorbed :
    ((circuitUni (fib true)).toOption.map (·.observed.length)) = some 38
      ∧ (nativeUni (fib true)).observed.length = 38 := by decide

/-- An AIR that opens no next trace row (regression record of F-C01-1): same script as native. -/
theorem uni_nonext_scripts_equal : circuitUni addNoNext = .ok (nativeUni addNoNext) :=
  uni_scripts_equal_partial _ (fun h => by cases h)
theorem uni_prenonext_rejected : ∃ e, circuitUni mulPreNoNext = .error e := ⟨_, rfl⟩
theorem batch_prenonext_rejected : ∃ e, circuitBatch mulPreNoNext = .error e := ⟨_, rfl⟩

/-- Hence the unconditional statements are false. -/
theorem uni_scripts_equal_full_false : ¬ ∀ s, circuitUni s = .ok (nativeUni s) := by
  intro h
  have := h mulPreNoNext
  obtain ⟨e, he⟩ := uni_prenonext_rejected
  rw [he] at this
  cases this

theorem batch_scripts_equal_full_false : ¬ ∀ s, circuitBatch s = .ok (nativeBatch s) := by
  intro h
  have := h mulPreNoNext
  obtain ⟨e, he⟩ := batch_prenonext_rejected
  rw [he] at this
  cases this

/-- The witnesses are exactly outside the hypotheses. -/
theorem witnesses_falsify_wf :
    ¬ WFUni mulPreNoNext ∧ ¬ WFBatch mulPreNoNext := by
  refine ⟨?_, ?_⟩
  · intro h; exact absurd (h rfl) (by decide)
  · rintro ⟨_, h⟩
    exact absurd (h _ (List.mem_singleton.mpr rfl) rfl) (by decide)

/-! non-vacuity of the hypotheses -/

example : WFUni (fib false) := fun h => by cases h
example : WFUni (fib true) := fun h => by cases h
example : WFUni addNoNext := fun h => by cases h
example : WFBatch (fib true) := ⟨by decide, fun x hx h => by
  have := List.mem_singleton.mp hx; subst this; cases h⟩

/-- a batch with preprocessed columns, lookups and ZK -/
def mixed : Shape :=
  { zk := true, D := 4, nrc := 2,
    insts := [⟨2, 3, 0, true, true, 2, 0, 4⟩, ⟨3, 0, 0, false, true, 2, 1, 3⟩, ⟨2, 0, 4, true, true, 4, 2, 4⟩],
    friRounds := 3, finalPolyLen := 1, queries := 2, commitPowBits := 0, queryPowBits := 2 }

example : WFBatch mixed := ⟨by decide, by decide⟩
example : (circuitBatch mixed).toOption = some (nativeBatch mixed) := by
  rw [P3R.C01.batch_scripts_equal_partial mixed ⟨by decide, by decide⟩]; rfl

/-! The shape of the seeded regression C01-a (harness targets `batch/*/bus-mixed`): a sender and a
receiver on a global bus next to a lookup-free AIR. -/
def busMixed : Shape :=
  { zk := false, D := 4, nrc := 0,
    insts := [⟨1, 0, 0, true, true, 1, 1, 3⟩, ⟨1, 0, 0, true, true, 1, 1, 3⟩, ⟨3, 0, 0, true, true, 1, 0, 3⟩],
    friRounds := 3, finalPolyLen := 1, queries := 2, commitPowBits := 1, queryPowBits := 1 }

example : WFBatch busMixed := ⟨by decide, by decide⟩

/-- On the mixed batch the circuit's script has the terminal-sum check over both present terminals
(and none for the lookup-free instance). -/
theorem bus_mixed_terminal_sum :
    (circuitBatch busMixed).toOption.map (fun sc =>
        decide (Check.terminalSum [Name.terminal 0, Name.terminal 1] ∈ sc.checks)) = some true := by
  decide

/-- non-vacuity of `unbalanced_bus_rejected`: a semantics in which exactly the terminal-sum check fails -/
example : ∃ sc, circuitBatch busMixed = .ok sc ∧
    ¬ accepts (V := Nat) ⟨fun _ _ _ => 0, fun _ _ _ _ => True,
        fun c _ _ => match c with | .terminalSum _ => False | _ => True⟩ sc (fun _ => 0) :=
  unbalanced_bus_rejected _ busMixed ⟨by decide, by decide⟩ _ (fun h => h)

/-! The shapes of the seeded regression C01-b (harness targets `unizk/*/fib-c1q8`, `batchzk/*/mixed-c1q8`,
`…-c0q3`, `…-c3q1`): the hiding PCS with *asymmetric* grinding bit counts. -/
def zkAsym (c q : Nat) : Shape :=
  { zk := true, D := 4, nrc := 2,
    insts := [⟨2, 3, 0, true, true, 2, 0, 4⟩, ⟨3, 0, 0, false, true, 2, 0, 3⟩],
    friRounds := 4, finalPolyLen := 1, queries := 2, commitPowBits := c, queryPowBits := q }

example : WFBatch (zkAsym 1 8) := ⟨by decide, by decide⟩
example : WFUni (zkAsym 1 8) := fun h => by cases h

/-- The `pow` events of the hiding-PCS circuit on asymmetric bit counts: four commit-phase witnesses against
1 bit and the query-phase witness against 8 bits; with no commit-phase grinding only the query-phase event
(3 bits) remains — it does not disappear; with 3 + 1 bits the query-phase witness is judged against 1 bit. -/
theorem zk_asym_pow_events :
    ((circuitBatch (zkAsym 1 8)).toOption.map fun sc => sc.events.filterMap fun e =>
        match e with | .pow b w => some (b, w) | _ => none)
      = some [(1, Name.commitPow 0), (1, Name.commitPow 1), (1, Name.commitPow 2), (1, Name.commitPow 3),
              (8, Name.queryPow)]
    ∧ ((circuitBatch (zkAsym 0 3)).toOption.map fun sc => sc.events.filterMap fun e =>
        match e with | .pow b w => some (b, w) | _ => none) = some [(3, Name.queryPow)]
    ∧ ((circuitUni (zkAsym 3 1)).toOption.map fun sc => sc.events.filterMap fun e =>
        match e with | .pow b w => some (b, w) | _ => none)
      = some [(3, Name.commitPow 0), (3, Name.commitPow 1), (3, Name.commitPow 2), (3, Name.commitPow 3),
              (1, Name.queryPow)] := by
  decide

/-- non-vacuity of `under_ground_query_rejected`: a semantics in which a witness passes at most one bit (a prover
that ground for 1 bit) — the 8-bit query-phase judgement fails, the 1-bit commit-phase ones pass -/
example : ∃ sc, circuitBatch (zkAsym 1 8) = .ok sc ∧
    ¬ accepts (V := Nat) ⟨fun _ _ _ => 0, fun _ _ bits _ => bits ≤ 1, fun _ _ _ => True⟩ sc (fun _ => 0) :=
  under_ground_query_rejected _ (zkAsym 1 8) ⟨by decide, by decide⟩ _ (by decide)
    (fun _ _ h => absurd (show (8 : Nat) ≤ 1 from h) (by decide))

/-- … and the same proof data is accepted when the query-phase witness is only asked for `commitPowBits` bits
(the script of the seeded regression): the theorem above is not vacuous about *which* count is used. -/
example : accepts (V := Nat) ⟨fun _ _ _ => 0, fun _ _ bits _ => bits ≤ 1, fun _ _ _ => True⟩
    { events := (nativeBatch (zkAsym 1 8)).events.map fun e =>
        match e with | .pow _ Name.queryPow => Ev.pow 1 Name.queryPow | e => e,
      checks := [] } (fun _ => 0) := by
  refine ⟨?_, by simp⟩
  intro k bits w hk
  have hmem := List.mem_of_getElem? hk
  simp only [List.mem_map] at hmem
  obtain ⟨e, he, heq⟩ := hmem
  have key : bits ≤ 1 := by
    cases e with
    | pow b w' =>
      have hs := (native_batch_pow (zkAsym 1 8) b w').mp he
      rcases hs with ⟨hb, _, r, _, hw⟩ | ⟨hb, _, hw⟩
      · subst hw; simp at heq; obtain ⟨h1, _⟩ := heq; subst h1; rw [hb]; decide
      · subst hw; simp at heq; obtain ⟨h1, _⟩ := heq; omega
    | _ => simp at heq
  exact key

end P3R.Witness.C01
