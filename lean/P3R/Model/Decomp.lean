/-
C12 — models of the in-circuit decompositions (import-free, executable).

Bits (`circuit_builder.rs::decompose_to_bits`, `reconstruct_index_from_bits`, single limb):
  * the honest hint (`BinaryDecompositionHint`) writes `val >> i & 1` for `i < n`;
  * the circuit relation on the hinted slots is: one `BoolCheck` row per bit
    (`b * (b - 1) = 0`), the `mul_add` chain `acc := b_j * 2^j + acc` from `acc = 0`, and
    `connect(x, acc)` (the last `out` *is* the slot of `x`).
  `bitsAccept x bits` is exactly that relation, for arbitrary slot contents `bits`;
  * since the canonicity repair a full-width limb (`n = BF::bits()`, so `2^n > p`) is also
    compared with the bits of `p` (`assert_bits_below_modulus`): `bitsAcceptFixed`.

Coefficients (`decompose_ext_to_base_coeffs`, `recompose_base_coeffs_to_ext*`), extension
elements as limb functions `Nat → K` read on `j < D`, binomial basis `X^D = W`:
  * ALU path: `acc := c_i * e_i + acc` over extension-valued slots, `connect(x, acc)`;
  * `recompose` table: one row with `D` base-field cells `v_i`; the only bus tuple is
    `(idx_out, v_0 … v_{D-1})`, the coefficient slots are not on the bus;
  * `recompose/coeff` table: additionally `(idx_{c_i}, v_i, 0, …, 0)` per coefficient.
-/
namespace P3R.Decomp

/-! ## bits -/

/-- Little-endian `n`-bit expansion of a natural (bit `i` is `v >> i & 1`). -/
def natBits : Nat → Nat → List Nat
  | 0, _ => []
  | n + 1, v => (v % 2) :: natBits n (v / 2)

section
variable {K : Type} [Zero K] [One K] [Add K] [Mul K] [Sub K] [DecidableEq K]

/-- What the honest `BinaryDecompositionHint` writes for canonical value `v`, `n` outputs;
also used for the deviating hint "bits of `v + k·p`". -/
def canonBits (n v : Nat) : List K := (natBits n v).map fun b => if b = 1 then (1 : K) else 0

/-- `reconstruct_index_from_bits` (one limb): `acc := b_j * 2^j + acc`, `2^j` a constant. -/
def reconGo : List K → K → K → K
  | [], _, acc => acc
  | b :: bs, pow, acc => reconGo bs (pow + pow) (b * pow + acc)

def reconBits (bits : List K) : K := reconGo bits 1 0

/-- The `BoolCheck` row relation. -/
def boolOk (b : K) : Bool := b * (b - 1) == 0

/-- Boolean checks + recomposition identity only: the relation `decompose_to_bits(x, n)`
imposed *before* the canonicity repair (fixes/C12-1.diff), and still the whole relation for
limbs shorter than `BF::bits()`. -/
def bitsAccept (x : K) (bits : List K) : Bool := bits.all boolOk && reconBits bits == x

/-- `assert_bits_below_modulus` (fixes/C12-1.diff): lexicographic comparison with the bits of
`p`, most significant bit first. The list is MSB-first, the head has index `rest.length`.
`eq`: all higher bits equal those of `p`; `lt`: some higher bit of `p` is 1 where the slot
holds 0 with everything above equal. -/
def ltGo (p : Nat) : List K → K → K → K
  | [], _, lt => lt
  | b :: rest, eq, lt =>
    if (p >>> rest.length) % 2 = 1 then ltGo p rest (eq * b) (lt + eq * (1 - b))
    else ltGo p rest (eq * (1 - b)) lt

/-- `connect(lt, one)` at the end of `assert_bits_below_modulus`. -/
def belowModulus (p : Nat) (bits : List K) : Bool := ltGo p bits.reverse 1 0 == 1

/-- Relation the patched circuit imposes on the hinted bit slots of `decompose_to_bits(x, n)`
(single limb, `n ≤ w = BF::bits()`): boolean checks, recomposition identity, and for a
full-width limb the comparison with the modulus. -/
def bitsAcceptFixed (p w : Nat) (x : K) (bits : List K) : Bool :=
  bitsAccept x bits && (bits.length != w || belowModulus p bits)

/-- What the runner of the patched circuit checks (it does not test booleanity). -/
def bitsRunOkFixed (p w : Nat) (x : K) (bits : List K) : Bool :=
  reconBits bits == x && (bits.length != w || belowModulus p bits)

end

/-! ## extension coefficients -/

section
variable {K : Type} [Zero K] [One K] [Add K] [Mul K] [DecidableEq K]

/-- Product with the basis element `e_i = X^i` in `K[X]/(X^D - W)`, limb `j < D`. -/
def mulBasis (W : K) (D i : Nat) (c : Nat → K) : Nat → K :=
  fun j => if i ≤ j then c (j - i) else W * c (D + j - i)

/-- The ALU chain `acc := c_i * e_i + acc`, `i = 0 … D-1`, from `acc = 0`, limb `j`. -/
def extRecompose (W : K) (D : Nat) (cs : Nat → Nat → K) : Nat → K :=
  fun j => (List.range D).foldl (fun acc i => mulBasis W D i (cs i) j + acc) 0

/-- A base-field value embedded in the extension. -/
def embed (a : K) : Nat → K := fun j => if j = 0 then a else 0

def limbsEq (D : Nat) (a b : Nat → K) : Bool := (List.range D).all fun j => a j == b j

def isBase (D : Nat) (c : Nat → K) : Bool := (List.range D).all fun j => j == 0 || c j == 0

inductive Mode | alu | npo | npoCoeff
deriving DecidableEq, Repr

/-- Relation imposed on the hinted coefficient slots `cs i` (extension-valued) of
`decompose_ext_to_base_coeffs(x)` when the table cells are the runner's
`v_i = (cs i) 0`.

`bound` says whether the per-coefficient tuple of the `recompose/coeff` row is on the bus
with non-zero multiplicity. `recompose_preprocess_for_op` gives it multiplicity
`ext_reads[c_i]`; `generate_preprocessed_columns` makes the first ALU row that has the hint
output `c_i` in its `a`/`c` position the *creator* of the slot (not counted in `ext_reads`),
so with only such consumers the multiplicity is 0 and the tuple constrains nothing. A
consumer that reads `c_i` (ALU `b` position, table-backed op input) makes it non-zero. -/
def coefAccept (W : K) (D : Nat) (m : Mode) (bound : Bool) (x : Nat → K) (cs : Nat → Nat → K) : Bool :=
  match m with
  | .alu => limbsEq D (extRecompose W D cs) x
  | .npo => limbsEq D (fun i => cs i 0) x
  | .npoCoeff => limbsEq D (fun i => cs i 0) x && (!bound || (List.range D).all fun i => isBase D (cs i))

/-- Canonical coefficients of `x`. -/
def canonCoeffs (x : Nat → K) : Nat → Nat → K := fun i => embed (x i)

def coeffsEq (D : Nat) (a b : Nat → Nat → K) : Bool := (List.range D).all fun i => limbsEq D (a i) (b i)

end

end P3R.Decomp
