/-
Certificate checker for mul+add fusion (translation validation of `MulAddFusion::run`).

`fusionCheck ops result sites` is a decidable predicate on one concrete run of the fusion
pass: the op list before, the op list after, and the fused sites. `P3R.Props.C03Fusion` proves
that whenever it returns `true`, every assignment satisfying `result` can be turned — by
giving each fused product slot the value `a·b` and touching nothing else — into one satisfying
`ops`. The driver evaluates the checker on every compiled program of the correspondence run
(the sites are read off the model's own fusion pass, whose output equals the real one line by
line), so "fusion never drops a relation" holds for every program the run covers, and a
program on which the check fails is reported with the failing conjunct.
-/
import P3R.Model.Optimize

namespace P3R

/-- One fused site: `m = a·b` (the mul) and `out = m + addend` (the add). -/
structure FuseSite where
  a : Nat
  b : Nat
  addend : Nat
  out : Nat
  m : Nat
deriving Repr, DecidableEq

variable {K : Type}

def FuseSite.mulOp (s : FuseSite) : Op K := .alu .mul s.a s.b none s.m none
def FuseSite.addOp1 (s : FuseSite) : Op K := .alu .add s.m s.addend none s.out none
def FuseSite.addOp2 (s : FuseSite) : Op K := .alu .add s.addend s.m none s.out none
def FuseSite.fused (s : FuseSite) : Op K := .alu .mulAdd s.a s.b (some s.addend) s.out (some s.m)

/-- Slots on which an op's relation depends (the `io` of a fused MulAdd is not among them). -/
def Op.relSlots : Op K → List Nat
  | .const out _ => [out]
  | .pub out _ => [out]
  | .alu .add a b _ out _ => [a, b, out]
  | .alu .mul a b _ out _ => [a, b, out]
  | .alu .boolCheck a _ _ _ _ => [a]
  | .alu .mulAdd a b c out _ => [a, b, out] ++ c.toList
  | .alu .horner a b c out io => [a, b, out] ++ c.toList ++ io.toList
  | .hint _ _ _ => []
  | .npo _ _ _ _ => []

def siteOfCand (c : Cand K) : Option FuseSite :=
  match c.op with
  | .alu .mulAdd a b (some addend) out (some m) => some ⟨a, b, addend, out, m⟩
  | _ => none

section
variable [DecidableEq K]

/-- The certificate check; each conjunct is named in `fusionCheckReport`. -/
def fusionCheck (ops result : List (Op K)) (sites : List FuseSite) : Bool :=
  -- (1) every original op survives or is the mul / add of a site
  (ops.all fun op => result.contains op ||
      sites.any fun s => op == s.mulOp || op == s.addOp1 || op == s.addOp2) &&
  -- (2) every site's fused row is in the result
  (sites.all fun s => result.contains (s.fused : Op K)) &&
  -- (3) the product slot differs from the site's own operands
  (sites.all fun s => s.m != s.a && s.m != s.b && s.m != s.addend && s.m != s.out) &&
  -- (4) no relation of the result mentions a product slot
  (sites.all fun s => result.all fun op => !(op.relSlots.contains s.m)) &&
  -- (5) distinct sites have distinct product slots
  (sites.all fun s => sites.all fun t => s == t || s.m != t.m)

def fusionCheckReport (ops result : List (Op K)) (sites : List FuseSite) : String :=
  if fusionCheck ops result sites then s!"ok {sites.length}" else
  let c1 := ops.all fun op => result.contains op ||
      sites.any fun s => op == s.mulOp || op == s.addOp1 || op == s.addOp2
  let c2 := sites.all fun s => result.contains (s.fused : Op K)
  let c3 := sites.all fun s => s.m != s.a && s.m != s.b && s.m != s.addend && s.m != s.out
  let c4 := sites.all fun s => result.all fun op => !(op.relSlots.contains s.m)
  s!"FAIL {sites.length} survive={c1} fused-present={c2} product-distinct={c3} product-private={c4}"

end

/-- `fuse` together with the sites it fused (same pass as `fuse`). -/
def fuseWithSites (ops : Array (Op K)) (inputs : List Nat) : Array (Op K) × List FuseSite :=
  let f := Fusion.new ops inputs
  let cands := f.candidates ops
  let valid := f.filterValid (cands.length + 1) cands
  let chosen := valid.foldl (fun (acc : List (Cand K)) c =>
    if acc.any (fun d => d.mulIdx = c.mulIdx) then acc else acc ++ [c]) []
  (Fusion.apply ops valid, chosen.filterMap siteOfCand)

/-- Shape hypothesis of the total theorem (`P3R.C03.fuse_passes_check`): a plain `Add` / `Mul`
(`c = None`) carries no `intermediate_out`. It is what `Op::add` / `Op::mul` construct
(`ops/op.rs`), what lowering emits and what de-duplication preserves; the certificate check
compares ops syntactically, so it is also necessary for the *check* (see
`P3R.Witness.C03FusionTotal`). -/
def fusableShape : Op K → Bool
  | .alu .add _ _ none _ (some _) => false
  | .alu .mul _ _ none _ (some _) => false
  | _ => true

/-- Well-formedness of the input of the fusion pass under which `fuse` provably passes its
certificate check. The private-input slots do not enter: the pass protects them itself. -/
def fuseInputOk (ops : Array (Op K)) (_inputs : List Nat) : Bool := ops.toList.all fusableShape

end P3R
