//! C07: in-circuit FRI verification vs native FRI verification.
//!
//! Two observation modes, both on real code:
//!
//! * `arith` — the arithmetic core. Native side: `p3_fri::verifier::verify_fri` itself, run with
//!   an accept-everything MMCS and a scripted challenger (alpha, betas, query indices are inputs,
//!   PoW always passes). Circuit side: `verify_fri_circuit(.., permutation_config = None)` built
//!   the way `RecursivePcs::verify_circuit` builds it (index-bit count from the proof's arity
//!   schedule), run by the circuit runner. The Lean driver computes both verdicts from the same
//!   case line with its own models (`Model/FriNative`, `Model/FriCircuit`).
//! * `full` — the whole PCS opening check. Native: `TwoAdicFriPcs::verify` with the real
//!   Poseidon2 Merkle trees and duplex challenger. Circuit: `get_challenges_circuit` +
//!   `verify_circuit` with the in-circuit challenger, PoW checks, in-circuit index sampling and
//!   all MMCS openings. Honest proof and single-element alterations; verdicts must agree.
//!
//! Corpus files may carry `"expect_honest": "accept"` (regression cases of a repaired "native
//! accepts, circuit refuses" defect, e.g. C07-F4: a proof without fold phase): then the honest
//! proof must be accepted by both real verifiers in both modes and every final-polynomial
//! alteration refused by both (class `<mode>:regression:<what>:<file>` otherwise).

use std::collections::{BTreeMap, VecDeque};
use std::io::Write;
use std::marker::PhantomData;
use std::panic::{AssertUnwindSafe, catch_unwind};

use p3_challenger::{CanObserve, CanSample, CanSampleBits, FieldChallenger, GrindingChallenger};
use p3_circuit::ops::{generate_poseidon2_trace, generate_recompose_trace};
use p3_circuit::{Circuit, CircuitBuilder, NonPrimitiveOpId};
use p3_commit::{BatchOpening, BatchOpeningRef, Mmcs, Pcs};
use p3_field::coset::TwoAdicMultiplicativeCoset;
use p3_field::{BasedVectorSpace, Field, PrimeCharacteristicRing, PrimeField64, TwoAdicField};
use p3_fri::verifier::verify_fri;
use p3_fri::{CommitPhaseProofStep, FriParameters, FriProof, QueryProof, TwoAdicFriFolding};
use p3_matrix::dense::RowMajorMatrix;
use p3_matrix::{Dimensions, Matrix};
use p3_poseidon2_circuit_air::BabyBearD4Width16;
use p3_recursion::challenger::CircuitChallenger;
use p3_recursion::pcs::convert_merkle_proof_to_siblings;
use p3_recursion::pcs::fri::{
    FriProofTargets, FriVerifierParams, InputProofTargets, MerkleCapTargets, RecExtensionValMmcs,
    RecValMmcs, Witness as RecWitness, verify_fri_circuit,
};
use p3_recursion::traits::{RecursiveChallenger, RecursivePcs};
use p3_recursion::types::{OpenedValuesTargets, OpenedValuesTargetsWithLookups};
use p3_recursion::{Poseidon2Config, Recursive, Target};
use p3_symmetric::MerkleCap;
use p3_test_utils::baby_bear_params::*;
use serde_json::{Value, json};

use crate::rng::Rng;

type RecVal = RecValMmcs<F, 8, MyHash, MyCompress>;
type RecExt = RecExtensionValMmcs<F, Challenge, 8, RecVal>;
type FriTargets =
    FriProofTargets<F, Challenge, RecExt, InputProofTargets<F, Challenge, RecVal>, RecWitness<F>>;
type RealProof = FriProof<Challenge, ChallengeMmcs, F, Vec<BatchOpening<F, MyMmcs>>>;
type Cap = MerkleCap<F, [F; DIGEST_ELEMS]>;

const P: u64 = 2013265921;
const W: u64 = 11;

// ------------------------------------------------------------------------------------------
// Neutral case: everything the arithmetic part of FRI verification reads.

#[derive(Clone, Debug, PartialEq)]
pub struct Params {
    pub log_blowup: usize,
    pub log_final_poly_len: usize,
    pub max_log_arity: usize,
    pub num_queries: usize,
}

#[derive(Clone, Debug, PartialEq)]
pub struct MatClaim {
    pub log_size: usize,
    /// (opening point, claimed evaluations); equal `zid` = the same circuit target is reused
    pub points: Vec<(usize, Challenge, Vec<Challenge>)>,
}

#[derive(Clone, Debug, PartialEq)]
pub struct PhaseOpen {
    pub log_arity: usize,
    pub siblings: Vec<Challenge>,
}

#[derive(Clone, Debug, PartialEq)]
pub struct QueryCase {
    pub index: usize,
    pub opened: Vec<Vec<Vec<F>>>,
    pub phases: Vec<PhaseOpen>,
}

#[derive(Clone, Debug, PartialEq)]
pub struct Case {
    pub params: Params,
    pub alpha: Challenge,
    pub betas: Vec<Challenge>,
    pub batches: Vec<Vec<MatClaim>>,
    pub num_commits: usize,
    pub num_pow: usize,
    pub final_poly: Vec<Challenge>,
    pub queries: Vec<QueryCase>,
}

fn ef(x: &Challenge) -> String {
    let c: &[F] = x.as_basis_coefficients_slice();
    c.iter().map(|v| v.as_canonical_u64().to_string()).collect::<Vec<_>>().join(" ")
}

impl Case {
    /// One line for the Lean driver. Every number the model uses is on the line.
    pub fn line(&self, id: &str) -> String {
        let mut s = String::new();
        let maxbits = 27usize;
        s += &format!("fri {id} {P} {W} {} {maxbits}", F::GENERATOR.as_canonical_u64());
        for b in 0..=maxbits {
            s += &format!(" {}", F::two_adic_generator(b).as_canonical_u64());
        }
        let p = &self.params;
        s += &format!(" | {} {} {} {}", p.log_blowup, p.log_final_poly_len, p.max_log_arity, p.num_queries);
        s += &format!(" | {}", ef(&self.alpha));
        s += &format!(" | {}", self.betas.len());
        for b in &self.betas {
            s += &format!(" {}", ef(b));
        }
        s += &format!(" | {}", self.batches.len());
        for b in &self.batches {
            s += &format!(" {}", b.len());
            for m in b {
                s += &format!(" {} {}", m.log_size, m.points.len());
                for (zid, z, vs) in &m.points {
                    s += &format!(" {zid} {} {}", ef(z), vs.len());
                    for v in vs {
                        s += &format!(" {}", ef(v));
                    }
                }
            }
        }
        s += &format!(" | {} {}", self.num_commits, self.num_pow);
        s += &format!(" | {}", self.final_poly.len());
        for c in &self.final_poly {
            s += &format!(" {}", ef(c));
        }
        s += &format!(" | {}", self.queries.len());
        for q in &self.queries {
            s += &format!(" {} {}", q.index, q.opened.len());
            for b in &q.opened {
                s += &format!(" {}", b.len());
                for m in b {
                    s += &format!(" {}", m.len());
                    for v in m {
                        s += &format!(" {}", v.as_canonical_u64());
                    }
                }
            }
            s += &format!(" {}", q.phases.len());
            for ph in &q.phases {
                s += &format!(" {} {}", ph.log_arity, ph.siblings.len());
                for v in &ph.siblings {
                    s += &format!(" {}", ef(v));
                }
            }
        }
        s
    }
}

// ------------------------------------------------------------------------------------------
// Native arithmetic-only run: the real `verify_fri` with a mock MMCS and a scripted challenger.

#[derive(Clone, Copy, Debug, Default)]
struct MockMmcs;

impl<T: Send + Sync + Clone> Mmcs<T> for MockMmcs {
    type ProverData<M> = ();
    type Commitment = u8;
    type Proof = u8;
    type Error = ();
    fn commit<M: Matrix<T>>(&self, _inputs: Vec<M>) -> (u8, ()) {
        unimplemented!()
    }
    fn open_batch<M: Matrix<T>>(&self, _index: usize, _pd: &()) -> BatchOpening<T, Self> {
        unimplemented!()
    }
    fn get_matrices<'a, M: Matrix<T>>(&self, _pd: &'a ()) -> Vec<&'a M> {
        unimplemented!()
    }
    fn verify_batch(&self, _c: &u8, _d: &[Dimensions], _i: usize, _o: BatchOpeningRef<'_, T, Self>) -> Result<(), ()> {
        Ok(())
    }
}

#[derive(Clone, Debug)]
struct Script {
    samples: VecDeque<F>,
    bits: VecDeque<usize>,
    underflow: bool,
}

impl CanObserve<F> for Script {
    fn observe(&mut self, _v: F) {}
}
impl CanObserve<u8> for Script {
    fn observe(&mut self, _v: u8) {}
}
impl CanObserve<Cap> for Script {
    fn observe(&mut self, _v: Cap) {}
}
impl CanSample<F> for Script {
    fn sample(&mut self) -> F {
        self.samples.pop_front().unwrap_or_else(|| {
            self.underflow = true;
            F::ZERO
        })
    }
}
impl CanSampleBits<usize> for Script {
    fn sample_bits(&mut self, bits: usize) -> usize {
        let v = self.bits.pop_front().unwrap_or_else(|| {
            self.underflow = true;
            0
        });
        v & ((1usize << bits) - 1)
    }
}
impl FieldChallenger<F> for Script {}
impl GrindingChallenger for Script {
    type Witness = F;
    fn grind(&mut self, _bits: usize) -> F {
        F::ZERO
    }
    fn check_witness(&mut self, _bits: usize, _w: F) -> bool {
        true
    }
}

fn variant_name(dbg: &str) -> String {
    dbg.split(|c: char| !(c.is_alphanumeric() || c == '_')).next().unwrap_or("").to_string()
}

/// Verdict of the real native verifier on the arithmetic part of `c`.
pub fn native_arith(c: &Case) -> String {
    let params = FriParameters {
        log_blowup: c.params.log_blowup,
        log_final_poly_len: c.params.log_final_poly_len,
        max_log_arity: c.params.max_log_arity,
        num_queries: c.params.num_queries,
        commit_proof_of_work_bits: 0,
        query_proof_of_work_bits: 0,
        mmcs: MockMmcs,
    };
    let proof: FriProof<Challenge, MockMmcs, F, Vec<BatchOpening<F, MockMmcs>>> = FriProof {
        commit_phase_commits: vec![0u8; c.num_commits],
        commit_pow_witnesses: vec![F::ZERO; c.num_pow],
        query_proofs: c
            .queries
            .iter()
            .map(|q| QueryProof {
                input_proof: q.opened.iter().map(|b| BatchOpening::new(b.clone(), 0u8)).collect(),
                commit_phase_openings: q
                    .phases
                    .iter()
                    .map(|ph| CommitPhaseProofStep { log_arity: ph.log_arity as u8, sibling_values: ph.siblings.clone(), opening_proof: 0u8 })
                    .collect(),
            })
            .collect(),
        final_poly: c.final_poly.clone(),
        query_pow_witness: F::ZERO,
    };
    let coms: Vec<(u8, Vec<(TwoAdicMultiplicativeCoset<F>, Vec<(Challenge, Vec<Challenge>)>)>)> = c
        .batches
        .iter()
        .map(|b| {
            (
                0u8,
                b.iter()
                    .map(|m| {
                        (
                            TwoAdicMultiplicativeCoset::new(F::GENERATOR, m.log_size).unwrap(),
                            m.points.iter().map(|(_, z, vs)| (*z, vs.clone())).collect(),
                        )
                    })
                    .collect(),
            )
        })
        .collect();
    let mut samples = VecDeque::new();
    let push = |q: &mut VecDeque<F>, x: &Challenge| {
        let s: &[F] = x.as_basis_coefficients_slice();
        q.extend(s.iter().copied());
    };
    push(&mut samples, &c.alpha);
    // the native verifier samples one beta per commitment; extra commitments sample zeros
    for i in 0..c.num_commits {
        push(&mut samples, c.betas.get(i).unwrap_or(&Challenge::ZERO));
    }
    let mut ch = Script { samples, bits: c.queries.iter().map(|q| q.index).collect(), underflow: false };
    let folding: TwoAdicFriFolding<Vec<BatchOpening<F, MockMmcs>>, ()> = TwoAdicFriFolding(PhantomData);
    let r = catch_unwind(AssertUnwindSafe(|| {
        verify_fri::<_, F, Challenge, MockMmcs, MockMmcs, Script>(&folding, &params, &proof, &mut ch, &coms, &MockMmcs)
    }));
    match r {
        Err(_) => "panic".into(),
        Ok(Ok(())) => "ok".into(),
        Ok(Err(e)) => format!("err:{}", variant_name(&format!("{e:?}"))),
    }
}

// ------------------------------------------------------------------------------------------
// Circuit arithmetic-only run.

/// A cap with an arbitrary number of roots, as a deserialised proof can carry it
/// (`MerkleCap::new` asserts a power of two; the wire format does not).
fn raw_cap(template: &Cap, roots: Vec<[F; DIGEST_ELEMS]>) -> Option<Cap> {
    let mut v = serde_json::to_value(template).ok()?;
    *v.get_mut("cap")? = serde_json::to_value(&roots).ok()?;
    serde_json::from_value(v).ok()
}

fn dummy_cap() -> Cap {
    MerkleCap::new(vec![[F::ZERO; DIGEST_ELEMS]])
}

fn case_to_real_proof(c: &Case) -> RealProof {
    FriProof {
        commit_phase_commits: vec![dummy_cap(); c.num_commits],
        commit_pow_witnesses: vec![F::ZERO; c.num_pow],
        query_proofs: c
            .queries
            .iter()
            .map(|q| QueryProof {
                input_proof: q.opened.iter().map(|b| BatchOpening::new(b.clone(), vec![])).collect(),
                commit_phase_openings: q
                    .phases
                    .iter()
                    .map(|ph| CommitPhaseProofStep { log_arity: ph.log_arity as u8, sibling_values: ph.siblings.clone(), opening_proof: vec![] })
                    .collect(),
            })
            .collect(),
        final_poly: c.final_poly.clone(),
        query_pow_witness: F::ZERO,
    }
}

/// Shape key: two cases with equal keys build the same arithmetic circuit.
fn shape_key(c: &Case) -> String {
    let mut s = format!("{:?}|{}|{}|{}|{}|", c.params, c.betas.len(), c.num_commits, c.num_pow, c.final_poly.len());
    for b in &c.batches {
        s += "[";
        for m in b {
            s += &format!("{}:", m.log_size);
            for (zid, _, vs) in &m.points {
                s += &format!("{zid}/{},", vs.len());
            }
            s += ";";
        }
        s += "]";
    }
    for q in &c.queries {
        s += "q";
        for b in &q.opened {
            s += &format!("{:?}", b.iter().map(|m| m.len()).collect::<Vec<_>>());
        }
        for ph in &q.phases {
            s += &format!("p{}/{}", ph.log_arity, ph.siblings.len());
        }
    }
    s
}

pub struct ArithCircuit {
    circuit: Circuit<Challenge>,
    log_max_height: usize,
}

/// Build as `RecursivePcs::verify_circuit` does (minus the challenger): the number of index bits
/// is derived from the proof's arity schedule and the verifier's two scalars.
pub fn build_arith(c: &Case) -> Result<ArithCircuit, String> {
    let proof = case_to_real_proof(c);
    let mut builder = CircuitBuilder::<Challenge>::new();
    let fri_targets = FriTargets::new(&mut builder, &proof);
    let alpha_t = builder.public_input();
    let betas_t: Vec<Target> = (0..c.betas.len()).map(|_| builder.public_input()).collect();
    let total: usize = fri_targets.log_arities.iter().sum();
    let log_max_height = total + c.params.log_final_poly_len + c.params.log_blowup;
    // `verify_circuit` (pcs/fri/targets.rs) refuses these before it calls `verify_fri_circuit`: the
    // index must fit the field's bit width, and (repo fix c030fca, F9i) the LDE domain must exist
    if log_max_height > 31 || log_max_height > F::TWO_ADICITY {
        return Err("build-err".into());
    }
    let bits_t: Vec<Vec<Target>> =
        (0..fri_targets.query_proofs.len()).map(|_| (0..log_max_height).map(|_| builder.public_input()).collect()).collect();
    let mut ztargets: BTreeMap<usize, Target> = BTreeMap::new();
    let mut coms_t = Vec::new();
    for b in &c.batches {
        let commit_t = builder.public_input();
        let mut mats_t = Vec::new();
        for m in b {
            let domain = TwoAdicMultiplicativeCoset::new(F::GENERATOR, m.log_size).unwrap();
            let mut pv = Vec::new();
            for (zid, _, vs) in &m.points {
                // a shared opening point is one target (this is what selects the fast path)
                let z_t = *ztargets.entry(*zid).or_insert_with(|| builder.public_input());
                let f_t: Vec<Target> = (0..vs.len()).map(|_| builder.public_input()).collect();
                pv.push((z_t, f_t));
            }
            mats_t.push((domain, pv));
        }
        coms_t.push((commit_t, mats_t));
    }
    let r = verify_fri_circuit::<F, Challenge, RecExt, RecVal, RecWitness<F>, Target>(
        &mut builder,
        &fri_targets,
        alpha_t,
        &betas_t,
        &bits_t,
        &coms_t,
        c.params.log_blowup,
        None,
    );
    if r.is_err() {
        return Err("build-err".into());
    }
    match builder.build() {
        Ok(circuit) => Ok(ArithCircuit { circuit, log_max_height }),
        Err(_) => Err("build-err".into()),
    }
}

fn arith_public_inputs(c: &Case, log_max_height: usize) -> Vec<Challenge> {
    let proof = case_to_real_proof(c);
    let mut v = FriTargets::get_values(&proof);
    v.push(c.alpha);
    v.extend(c.betas.iter().copied());
    for q in &c.queries {
        for k in 0..log_max_height {
            v.push(if (q.index >> k) & 1 == 1 { Challenge::ONE } else { Challenge::ZERO });
        }
    }
    let mut seen = std::collections::BTreeSet::new();
    for b in &c.batches {
        v.push(Challenge::ZERO);
        for m in b {
            for (zid, z, vs) in &m.points {
                if seen.insert(*zid) {
                    v.push(*z);
                }
                v.extend(vs.iter().copied());
            }
        }
    }
    v
}

pub fn run_arith(ac: &ArithCircuit, c: &Case) -> String {
    let pubs = arith_public_inputs(c, ac.log_max_height);
    let privs = <FriTargets as Recursive<Challenge>>::get_private_values(&case_to_real_proof(c));
    let mut runner = ac.circuit.runner();
    if runner.set_public_inputs(&pubs).is_err() {
        return "input-err".into();
    }
    if runner.set_private_inputs(&privs).is_err() {
        return "input-err".into();
    }
    match runner.run() {
        Ok(_) => "ok".into(),
        Err(e) => format!("unsat:{}", variant_name(&format!("{e:?}"))),
    }
}

/// Circuit verdict on the arithmetic part (build + run), coarse class first.
pub fn circuit_arith(c: &Case, cache: &mut Option<(String, ArithCircuit)>) -> String {
    let key = shape_key(c);
    if cache.as_ref().map(|(k, _)| k != &key).unwrap_or(true) {
        let built = catch_unwind(AssertUnwindSafe(|| build_arith(c)));
        match built {
            Err(_) => return "panic".into(),
            Ok(Err(e)) => return e,
            Ok(Ok(ac)) => *cache = Some((key, ac)),
        }
    }
    let ac = &cache.as_ref().unwrap().1;
    catch_unwind(AssertUnwindSafe(|| run_arith(ac, c))).unwrap_or_else(|_| "panic".into())
}

// ------------------------------------------------------------------------------------------
// Scenario generation: real prover.

#[derive(Clone, Debug)]
pub struct Scenario {
    pub params: Params,
    pub commit_pow_bits: usize,
    pub query_pow_bits: usize,
    /// per batch: (log_size, width, constant columns?, point pattern)
    pub batches: Vec<Vec<(usize, usize, bool, u8)>>,
    pub data_seed: u64,
    /// cap height of the input (base-field) MMCS: commitments are Merkle caps of 2^h entries
    pub input_cap_height: usize,
    /// cap height of the commit-phase (extension) MMCS
    pub commit_cap_height: usize,
}

impl Scenario {
    pub fn to_json(&self) -> Value {
        json!({
            "log_blowup": self.params.log_blowup, "log_final_poly_len": self.params.log_final_poly_len,
            "max_log_arity": self.params.max_log_arity, "num_queries": self.params.num_queries,
            "commit_pow_bits": self.commit_pow_bits, "query_pow_bits": self.query_pow_bits,
            "batches": self.batches.iter().map(|b| b.iter().map(|m| json!([m.0, m.1, m.2, m.3])).collect::<Vec<_>>()).collect::<Vec<_>>(),
            "data_seed": self.data_seed,
            "input_cap_height": self.input_cap_height, "commit_cap_height": self.commit_cap_height,
        })
    }
    pub fn from_json(v: &Value) -> Option<Self> {
        Some(Self {
            params: Params {
                log_blowup: v["log_blowup"].as_u64()? as usize,
                log_final_poly_len: v["log_final_poly_len"].as_u64()? as usize,
                max_log_arity: v["max_log_arity"].as_u64()? as usize,
                num_queries: v["num_queries"].as_u64()? as usize,
            },
            commit_pow_bits: v["commit_pow_bits"].as_u64()? as usize,
            query_pow_bits: v["query_pow_bits"].as_u64()? as usize,
            batches: v["batches"]
                .as_array()?
                .iter()
                .map(|b| {
                    b.as_array()
                        .map(|ms| {
                            ms.iter()
                                .filter_map(|m| Some((m[0].as_u64()? as usize, m[1].as_u64()? as usize, m[2].as_bool()?, m[3].as_u64()? as u8)))
                                .collect()
                        })
                        .unwrap_or_default()
                })
                .collect(),
            data_seed: v["data_seed"].as_u64()?,
            // older corpus files have no cap fields: cap height 0 (a single root)
            input_cap_height: v["input_cap_height"].as_u64().unwrap_or(0) as usize,
            commit_cap_height: v["commit_cap_height"].as_u64().unwrap_or(0) as usize,
        })
    }
}

pub fn gen_scenario(rng: &mut Rng, max_log_size: usize) -> Scenario {
    let log_blowup = rng.range(1, 3);
    let log_final_poly_len = *rng.pick(&[0usize, 0, 1, 1, 2, 3]);
    let max_log_arity = *rng.pick(&[1usize, 1, 2, 2, 3, 4]);
    let num_queries = rng.range(1, 3);
    let nb = rng.range(1, 3);
    let lo = if log_final_poly_len > 0 { log_final_poly_len + 1 } else { 0 };
    let hi = max_log_size.max(lo + 1);
    let mut batches = Vec::new();
    for _ in 0..nb {
        let nm = rng.range(1, 3);
        let mut ms = Vec::new();
        for _ in 0..nm {
            let log_size = if rng.chance(1, 8) { lo } else { rng.range(lo, hi) };
            let width = rng.range(1, 4);
            let constant = rng.chance(1, 10);
            // 0: [zeta]; 1: [zeta, zeta2]; 2: [zeta3] (own point); 3: [zeta2]
            let pat = *rng.pick(&[0u8, 0, 0, 1, 1, 2, 3]);
            ms.push((log_size, width, constant, pat));
        }
        batches.push(ms);
    }
    // three times out of four every batch contains a matrix of the global maximum height (as in
    // STARK usage); otherwise batch maxima differ
    if rng.chance(3, 4) {
        let gmax = batches.iter().flatten().map(|m: &(usize, usize, bool, u8)| m.0).max().unwrap();
        for b in batches.iter_mut() {
            if b.iter().all(|m| m.0 < gmax) {
                let k = rng.usize(b.len());
                b[k].0 = gmax;
            }
        }
    }
    let mut s = Scenario {
        params: Params { log_blowup, log_final_poly_len, max_log_arity, num_queries },
        commit_pow_bits: rng.range(0, 3),
        query_pow_bits: rng.range(0, 4),
        batches,
        data_seed: rng.next(),
        input_cap_height: 0,
        commit_cap_height: 0,
    };
    // a proof without fold phase: every matrix has height one and the final polynomial is constant
    // (one in eight of the scenarios with a constant final polynomial, about 1 in 24 overall)
    if rng.chance(1, 8) && log_final_poly_len == 0 {
        for b in s.batches.iter_mut() {
            for m in b.iter_mut() {
                m.0 = 0;
            }
        }
    }
    // Merkle caps (seed C07-d: cap height was always 0). The commit-phase trees have log heights
    // log_max - (arity prefix sums); the shortest is the last one, log_blowup + log_final_poly_len.
    // `EQ` puts the cap exactly at that height (empty Merkle path, leaf hash compared with the cap
    // entry selected by the index). The real prover asserts cap_height <= tree height, so larger
    // picks are clipped to the shortest tree, except one in eight which is kept (the prover's
    // refusal is then counted in the histogram as prover-panic:cap-above-shortest-tree).
    let eq_commit = s.params.log_blowup + s.params.log_final_poly_len;
    let eq_input = s.batches.iter().map(|b| b.iter().map(|m| m.0).max().unwrap_or(0)).min().unwrap_or(0) + s.params.log_blowup;
    let pick = |rng: &mut Rng, eq: usize| -> usize {
        let c = *rng.pick(&[0usize, 0, 1, 2, 3, usize::MAX, usize::MAX]);
        let c = if c == usize::MAX { eq.min(4) } else { c };
        if c > eq && !rng.chance(1, 8) { eq } else { c }
    };
    s.commit_cap_height = pick(rng, eq_commit);
    s.input_cap_height = pick(rng, eq_input);
    s
}

pub struct Honest {
    pub pcs: MyPcs,
    pub perm: Perm,
    pub commitments: Vec<Cap>,
    /// per batch per matrix: (log_size, [(zid, z, values)])
    pub claims: Vec<Vec<MatClaim>>,
    pub proof: RealProof,
}

fn make_pcs(perm: &Perm, s: &Scenario) -> MyPcs {
    let hash = MyHash::new(perm.clone());
    let compress = MyCompress::new(perm.clone());
    let val_mmcs = MyMmcs::new(hash.clone(), compress.clone(), s.input_cap_height);
    let challenge_mmcs = ChallengeMmcs::new(MyMmcs::new(hash, compress, s.commit_cap_height));
    let fri = FriParameters {
        log_blowup: s.params.log_blowup,
        log_final_poly_len: s.params.log_final_poly_len,
        max_log_arity: s.params.max_log_arity,
        num_queries: s.params.num_queries,
        commit_proof_of_work_bits: s.commit_pow_bits,
        query_proof_of_work_bits: s.query_pow_bits,
        mmcs: challenge_mmcs,
    };
    MyPcs::new(Dft::default(), val_mmcs, fri)
}

fn rand_f(rng: &mut Rng) -> F {
    F::from_u64(rng.below(P))
}

pub fn prove(s: &Scenario) -> Honest {
    let perm = default_babybear_poseidon2_16();
    let pcs = make_pcs(&perm, s);
    let mut rng = Rng::new(s.data_seed);
    let mut ch = Challenger::new(perm.clone());
    let mut data = Vec::new();
    let mut commitments = Vec::new();
    for b in &s.batches {
        let evals: Vec<(TwoAdicMultiplicativeCoset<F>, RowMajorMatrix<F>)> = b
            .iter()
            .map(|&(log_size, width, constant, _)| {
                let rows = 1usize << log_size;
                let consts: Vec<F> = (0..width).map(|_| rand_f(&mut rng)).collect();
                let vals: Vec<F> = (0..rows * width).map(|i| if constant { consts[i % width] } else { rand_f(&mut rng) }).collect();
                (TwoAdicMultiplicativeCoset::new(F::GENERATOR, log_size).unwrap(), RowMajorMatrix::new(vals, width))
            })
            .collect();
        let (com, pd) = <MyPcs as Pcs<Challenge, Challenger>>::commit(&pcs, evals);
        ch.observe(com.clone());
        commitments.push(com);
        data.push(pd);
    }
    let zetas: [Challenge; 3] = [ch.sample_algebra_element(), ch.sample_algebra_element(), ch.sample_algebra_element()];
    let pts = |pat: u8| -> Vec<usize> {
        match pat {
            0 => vec![0],
            1 => vec![0, 1],
            2 => vec![2],
            _ => vec![1],
        }
    };
    let open_data: Vec<_> =
        s.batches.iter().zip(&data).map(|(b, pd)| (pd, b.iter().map(|m| pts(m.3).iter().map(|&i| zetas[i]).collect::<Vec<_>>()).collect::<Vec<_>>())).collect();
    let (opened, proof) = <MyPcs as Pcs<Challenge, Challenger>>::open(&pcs, open_data, &mut ch);
    let claims = s
        .batches
        .iter()
        .zip(opened)
        .map(|(b, ob)| {
            b.iter()
                .zip(ob)
                .map(|(m, om)| MatClaim { log_size: m.0, points: pts(m.3).into_iter().zip(om).map(|(zid, vs)| (zid, zetas[zid], vs)).collect() })
                .collect()
        })
        .collect();
    Honest { pcs, perm, commitments, claims, proof }
}

type ComsWithPoints = Vec<(Cap, Vec<(TwoAdicMultiplicativeCoset<F>, Vec<(Challenge, Vec<Challenge>)>)>)>;

fn coms_with_points(commitments: &[Cap], claims: &[Vec<MatClaim>]) -> ComsWithPoints {
    commitments
        .iter()
        .zip(claims)
        .map(|(c, b)| {
            (
                c.clone(),
                b.iter()
                    .map(|m| (TwoAdicMultiplicativeCoset::new(F::GENERATOR, m.log_size).unwrap(), m.points.iter().map(|(_, z, vs)| (*z, vs.clone())).collect()))
                    .collect(),
            )
        })
        .collect()
}

/// The real native verifier on (commitments, claims, proof).
pub fn native_full(pcs: &MyPcs, perm: &Perm, commitments: &[Cap], claims: &[Vec<MatClaim>], proof: &RealProof) -> String {
    let r = catch_unwind(AssertUnwindSafe(|| {
        let mut ch = Challenger::new(perm.clone());
        for c in commitments {
            ch.observe(c.clone());
        }
        let _z: [Challenge; 3] = [ch.sample_algebra_element(), ch.sample_algebra_element(), ch.sample_algebra_element()];
        <MyPcs as Pcs<Challenge, Challenger>>::verify(pcs, coms_with_points(commitments, claims), proof, &mut ch)
    }));
    match r {
        Err(_) => "panic".into(),
        Ok(Ok(())) => "ok".into(),
        Ok(Err(e)) => format!("err:{}", variant_name(&format!("{e:?}"))),
    }
}

/// Replays the verifier transcript to extract alpha, betas and the query indices, and packs the
/// arithmetic content of an honest proof into a neutral `Case`.
pub fn extract_case(s: &Scenario, h: &Honest) -> Case {
    let mut ch = Challenger::new(h.perm.clone());
    for c in &h.commitments {
        ch.observe(c.clone());
    }
    let _z: [Challenge; 3] = [ch.sample_algebra_element(), ch.sample_algebra_element(), ch.sample_algebra_element()];
    for b in &h.claims {
        for m in b {
            for (_, _, vs) in &m.points {
                ch.observe_algebra_slice(vs);
            }
        }
    }
    let alpha: Challenge = ch.sample_algebra_element();
    let mut betas = Vec::new();
    for (c, w) in h.proof.commit_phase_commits.iter().zip(&h.proof.commit_pow_witnesses) {
        ch.observe(c.clone());
        assert!(ch.check_witness(s.commit_pow_bits, *w));
        betas.push(ch.sample_algebra_element());
    }
    ch.observe_algebra_slice(&h.proof.final_poly);
    let log_arities: Vec<usize> = h.proof.query_proofs[0].commit_phase_openings.iter().map(|o| o.log_arity as usize).collect();
    for &la in &log_arities {
        ch.observe(F::from_usize(la));
    }
    assert!(ch.check_witness(s.query_pow_bits, h.proof.query_pow_witness));
    let log_max = log_arities.iter().sum::<usize>() + s.params.log_blowup + s.params.log_final_poly_len;
    let queries = h
        .proof
        .query_proofs
        .iter()
        .map(|q| QueryCase {
            index: ch.sample_bits(log_max),
            opened: q.input_proof.iter().map(|b| b.opened_values.clone()).collect(),
            phases: q.commit_phase_openings.iter().map(|o| PhaseOpen { log_arity: o.log_arity as usize, siblings: o.sibling_values.clone() }).collect(),
        })
        .collect();
    Case {
        params: s.params.clone(),
        alpha,
        betas,
        batches: h.claims.clone(),
        num_commits: h.proof.commit_phase_commits.len(),
        num_pow: h.proof.commit_pow_witnesses.len(),
        final_poly: h.proof.final_poly.clone(),
        queries,
    }
}

// ------------------------------------------------------------------------------------------
// Full circuit: challenger + PoW + index sampling + MMCS + arithmetic.

pub struct FullCircuit {
    circuit: Circuit<Challenge>,
    op_ids: Vec<NonPrimitiveOpId>,
}

pub fn build_full(s: &Scenario, h_pcs: &MyPcs, commitments: &[Cap], claims: &[Vec<MatClaim>], proof: &RealProof) -> Result<FullCircuit, String> {
    let mut builder = CircuitBuilder::<Challenge>::new();
    builder.enable_poseidon2_perm::<BabyBearD4Width16, _>(generate_poseidon2_trace::<Challenge, BabyBearD4Width16>, default_babybear_poseidon2_16());
    builder.enable_recompose::<F>(generate_recompose_trace::<F, Challenge>);
    let fri_targets = FriTargets::new(&mut builder, proof);
    let mut ztargets: BTreeMap<usize, Target> = BTreeMap::new();
    let mut coms_t: Vec<(MerkleCapTargets<F, DIGEST_ELEMS>, Vec<(TwoAdicMultiplicativeCoset<F>, Vec<(Target, Vec<Target>)>)>)> = Vec::new();
    for (com, b) in commitments.iter().zip(claims) {
        let cap_t = <MerkleCapTargets<F, DIGEST_ELEMS> as Recursive<Challenge>>::new(&mut builder, com);
        let mut mats_t = Vec::new();
        for m in b {
            let domain = TwoAdicMultiplicativeCoset::new(F::GENERATOR, m.log_size).unwrap();
            let mut pv = Vec::new();
            for (zid, _, vs) in &m.points {
                let z_t = *ztargets.entry(*zid).or_insert_with(|| builder.public_input());
                let f_t: Vec<Target> = (0..vs.len()).map(|_| builder.public_input()).collect();
                pv.push((z_t, f_t));
            }
            mats_t.push((domain, pv));
        }
        coms_t.push((cap_t, mats_t));
    }
    // transcript: commitments, three zeta samples (discarded: z are inputs), claimed evaluations
    let mut ch = CircuitChallenger::<WIDTH, RATE, Poseidon2Config>::new_babybear();
    for (cap_t, _) in &coms_t {
        use p3_recursion::verifier::ObservableCommitment;
        let obs = cap_t.to_observation_targets();
        RecursiveChallenger::<F, Challenge>::observe_slice(&mut ch, &mut builder, &obs);
    }
    for _ in 0..3 {
        let _ = RecursiveChallenger::<F, Challenge>::sample_ext(&mut ch, &mut builder);
    }
    for (_, mats) in &coms_t {
        for (_, pv) in mats {
            for (_, f_t) in pv {
                RecursiveChallenger::<F, Challenge>::observe_ext_slice(&mut ch, &mut builder, f_t);
            }
        }
    }
    let params = FriVerifierParams::with_mmcs(
        s.params.log_blowup,
        s.params.log_final_poly_len,
        s.commit_pow_bits,
        s.query_pow_bits,
        Poseidon2Config::BABY_BEAR_D4_W16,
    );
    let dummy = OpenedValuesTargetsWithLookups::<MyConfig> {
        opened_values_no_lookups: OpenedValuesTargets {
            trace_local_targets: vec![],
            trace_next_targets: vec![],
            preprocessed_local_targets: None,
            preprocessed_next_targets: None,
            quotient_chunks_targets: vec![],
            random_targets: None,
            _phantom: PhantomData,
        },
        permutation_local_targets: vec![],
        permutation_next_targets: vec![],
    };
    type InP = InputProofTargets<F, Challenge, RecVal>;
    let challenges = <MyPcs as RecursivePcs<MyConfig, InP, FriTargets, MerkleCapTargets<F, DIGEST_ELEMS>, TwoAdicMultiplicativeCoset<F>>>::get_challenges_circuit::<
        WIDTH,
        RATE,
        Poseidon2Config,
    >(&mut builder, &mut ch, &fri_targets, &dummy, &params)
    .map_err(|_| "build-err".to_string())?;
    let op_ids = <MyPcs as RecursivePcs<MyConfig, InP, FriTargets, MerkleCapTargets<F, DIGEST_ELEMS>, TwoAdicMultiplicativeCoset<F>>>::verify_circuit::<
        WIDTH,
        RATE,
        Poseidon2Config,
    >(h_pcs, &mut builder, &challenges, &mut ch, &coms_t, &fri_targets, &params)
    .map_err(|_| "build-err".to_string())?;
    let circuit = builder.build().map_err(|_| "build-err".to_string())?;
    Ok(FullCircuit { circuit, op_ids })
}

pub fn run_full(fc: &FullCircuit, commitments: &[Cap], claims: &[Vec<MatClaim>], proof: &RealProof) -> String {
    let mut pubs = FriTargets::get_values(proof);
    let mut seen = std::collections::BTreeSet::new();
    for (com, b) in commitments.iter().zip(claims) {
        for d in com.roots() {
            pubs.extend(d.iter().map(|&x| Challenge::from(x)));
        }
        for m in b {
            for (zid, z, vs) in &m.points {
                if seen.insert(*zid) {
                    pubs.push(*z);
                }
                pubs.extend(vs.iter().copied());
            }
        }
    }
    let privs = <FriTargets as Recursive<Challenge>>::get_private_values(proof);
    let mut runner = fc.circuit.runner();
    if let Err(e) = runner.set_public_inputs(&pubs) {
        return format!("input-err:pub:{e:?}");
    }
    if let Err(e) = runner.set_private_inputs(&privs) {
        return format!("input-err:priv:{e:?}");
    }
    // the library's own feeder for the Merkle siblings (its error is the implementation's verdict)
    if let Err(e) = p3_recursion::pcs::set_fri_mmcs_private_data::<F, Challenge, ChallengeMmcs, MyMmcs, MyHash, MyCompress, DIGEST_ELEMS>(
        &mut runner,
        &fc.op_ids,
        proof,
        Poseidon2Config::BABY_BEAR_D4_W16,
    ) {
        return format!("feed-err:{e}");
    }
    match runner.run() {
        Ok(_) => "ok".into(),
        Err(e) => format!("unsat:{}", variant_name(&format!("{e:?}"))),
    }
}

// ------------------------------------------------------------------------------------------
// "fixch" mode: real MMCS (Poseidon2 Merkle trees with caps) on both sides, challenges fixed.
// Native: the real `verify_fri` with the real input / commit-phase MMCS and the scripted
// challenger (alpha, betas, query indices of the honest transcript). Circuit:
// `verify_fri_circuit(.., Some(perm))` with the same challenges as public inputs (the calling
// convention of recursion/tests/fri.rs). Because the challenges do not move with the proof, an
// altered cap entry / sibling row is judged by the MMCS checks alone (in full mode every cap is
// also transcript input, so an alteration of it is refused through the challenges as well).

pub struct FixchCircuit {
    circuit: Circuit<Challenge>,
    op_ids: Vec<NonPrimitiveOpId>,
    log_max_height: usize,
}

pub fn native_fixch(h: &Honest, s: &Scenario, base: &Case, commitments: &[Cap], claims: &[Vec<MatClaim>], proof: &RealProof) -> String {
    let hash = MyHash::new(h.perm.clone());
    let compress = MyCompress::new(h.perm.clone());
    let input_mmcs = MyMmcs::new(hash.clone(), compress.clone(), s.input_cap_height);
    let params = FriParameters {
        log_blowup: s.params.log_blowup,
        log_final_poly_len: s.params.log_final_poly_len,
        max_log_arity: s.params.max_log_arity,
        num_queries: s.params.num_queries,
        commit_proof_of_work_bits: 0,
        query_proof_of_work_bits: 0,
        mmcs: ChallengeMmcs::new(MyMmcs::new(hash, compress, s.commit_cap_height)),
    };
    let mut samples = VecDeque::new();
    let push = |q: &mut VecDeque<F>, x: &Challenge| {
        let c: &[F] = x.as_basis_coefficients_slice();
        q.extend(c.iter().copied());
    };
    push(&mut samples, &base.alpha);
    for i in 0..proof.commit_phase_commits.len() {
        push(&mut samples, base.betas.get(i).unwrap_or(&Challenge::ZERO));
    }
    let mut ch = Script { samples, bits: base.queries.iter().map(|q| q.index).collect(), underflow: false };
    let folding: TwoAdicFriFolding<Vec<BatchOpening<F, MyMmcs>>, <MyMmcs as Mmcs<F>>::Error> = TwoAdicFriFolding(PhantomData);
    let coms = coms_with_points(commitments, claims);
    let r = catch_unwind(AssertUnwindSafe(|| verify_fri::<_, F, Challenge, MyMmcs, ChallengeMmcs, Script>(&folding, &params, proof, &mut ch, &coms, &input_mmcs)));
    match r {
        Err(_) => "panic".into(),
        Ok(Ok(())) => "ok".into(),
        Ok(Err(e)) => format!("err:{}", variant_name(&format!("{e:?}"))),
    }
}

pub fn build_fixch(s: &Scenario, base: &Case, commitments: &[Cap], claims: &[Vec<MatClaim>], proof: &RealProof) -> Result<FixchCircuit, String> {
    let mut builder = CircuitBuilder::<Challenge>::new();
    builder.enable_poseidon2_perm::<BabyBearD4Width16, _>(generate_poseidon2_trace::<Challenge, BabyBearD4Width16>, default_babybear_poseidon2_16());
    builder.enable_recompose::<F>(generate_recompose_trace::<F, Challenge>);
    let fri_targets = FriTargets::new(&mut builder, proof);
    let alpha_t = builder.public_input();
    let betas_t: Vec<Target> = (0..base.betas.len()).map(|_| builder.public_input()).collect();
    let total: usize = fri_targets.log_arities.iter().sum();
    let log_max_height = total + s.params.log_final_poly_len + s.params.log_blowup;
    let bits_t: Vec<Vec<Target>> = (0..fri_targets.query_proofs.len()).map(|_| (0..log_max_height).map(|_| builder.public_input()).collect()).collect();
    let mut ztargets: BTreeMap<usize, Target> = BTreeMap::new();
    let mut coms_t = Vec::new();
    for (com, b) in commitments.iter().zip(claims) {
        let cap_t = <MerkleCapTargets<F, DIGEST_ELEMS> as Recursive<Challenge>>::new(&mut builder, com);
        let mut mats_t = Vec::new();
        for m in b {
            let domain = TwoAdicMultiplicativeCoset::new(F::GENERATOR, m.log_size).unwrap();
            let mut pv = Vec::new();
            for (zid, _, vs) in &m.points {
                let z_t = *ztargets.entry(*zid).or_insert_with(|| builder.public_input());
                let f_t: Vec<Target> = (0..vs.len()).map(|_| builder.public_input()).collect();
                pv.push((z_t, f_t));
            }
            mats_t.push((domain, pv));
        }
        coms_t.push((cap_t, mats_t));
    }
    let op_ids = verify_fri_circuit::<F, Challenge, RecExt, RecVal, RecWitness<F>, MerkleCapTargets<F, DIGEST_ELEMS>>(
        &mut builder,
        &fri_targets,
        alpha_t,
        &betas_t,
        &bits_t,
        &coms_t,
        s.params.log_blowup,
        Some(Poseidon2Config::BABY_BEAR_D4_W16.into()),
    )
    .map_err(|_| "build-err".to_string())?;
    let circuit = builder.build().map_err(|_| "build-err".to_string())?;
    Ok(FixchCircuit { circuit, op_ids, log_max_height })
}

pub fn run_fixch(fc: &FixchCircuit, base: &Case, commitments: &[Cap], claims: &[Vec<MatClaim>], proof: &RealProof) -> String {
    let mut pubs = FriTargets::get_values(proof);
    pubs.push(base.alpha);
    pubs.extend(base.betas.iter().copied());
    for q in &base.queries {
        for k in 0..fc.log_max_height {
            pubs.push(if (q.index >> k) & 1 == 1 { Challenge::ONE } else { Challenge::ZERO });
        }
    }
    let mut seen = std::collections::BTreeSet::new();
    for (com, b) in commitments.iter().zip(claims) {
        for d in com.roots() {
            pubs.extend(d.iter().map(|&x| Challenge::from(x)));
        }
        for m in b {
            for (zid, z, vs) in &m.points {
                if seen.insert(*zid) {
                    pubs.push(*z);
                }
                pubs.extend(vs.iter().copied());
            }
        }
    }
    let privs = <FriTargets as Recursive<Challenge>>::get_private_values(proof);
    let mut runner = fc.circuit.runner();
    if let Err(e) = runner.set_public_inputs(&pubs) {
        return format!("input-err:pub:{e:?}");
    }
    if let Err(e) = runner.set_private_inputs(&privs) {
        return format!("input-err:priv:{e:?}");
    }
    if let Err(e) = p3_recursion::pcs::set_fri_mmcs_private_data::<F, Challenge, ChallengeMmcs, MyMmcs, MyHash, MyCompress, DIGEST_ELEMS>(
        &mut runner,
        &fc.op_ids,
        proof,
        Poseidon2Config::BABY_BEAR_D4_W16,
    ) {
        return format!("feed-err:{e}");
    }
    match runner.run() {
        Ok(_) => "ok".into(),
        Err(e) => format!("unsat:{}", variant_name(&format!("{e:?}"))),
    }
}

/// What the cap-aware alterations need to know about the honest transcript.
pub struct CapCtx {
    pub indices: Vec<usize>,
    pub log_max: usize,
    pub schedule: Vec<usize>,
}

impl CapCtx {
    /// log height of the folded codeword committed at phase `p`
    fn folded_height(&self, p: usize) -> usize {
        self.log_max - self.schedule[..=p].iter().sum::<usize>()
    }
    /// cap entries of a cap with `n` entries (a power of two, no taller than its tree) that some
    /// query addresses: the top log2(n) bits of the query index
    fn addressed(&self, n: usize) -> std::collections::BTreeSet<usize> {
        let ch = n.max(1).ilog2() as usize;
        self.indices.iter().map(|&i| if ch > self.log_max { 0 } else { (i & ((1usize << self.log_max) - 1)) >> (self.log_max - ch) }).collect()
    }
}

// ------------------------------------------------------------------------------------------
// Alterations.

fn bump_ef(x: &mut Challenge, rng: &mut Rng) {
    let k = rng.usize(4);
    let mut c: Vec<F> = x.as_basis_coefficients_slice().to_vec();
    c[k] += F::from_u64(1 + rng.below(P - 1));
    *x = Challenge::from_basis_coefficients_slice(&c).unwrap();
}

/// Value alterations of the neutral case (shape preserved). Returns a label, or None if the
/// picked position does not exist in this case.
pub fn alter_value(c: &mut Case, kind: usize, rng: &mut Rng) -> Option<String> {
    match kind {
        0 => {
            let q = rng.usize(c.queries.len());
            let b = rng.usize(c.queries[q].opened.len());
            let m = rng.usize(c.queries[q].opened[b].len());
            if c.queries[q].opened[b][m].is_empty() {
                return None;
            }
            let k = rng.usize(c.queries[q].opened[b][m].len());
            c.queries[q].opened[b][m][k] += F::from_u64(1 + rng.below(P - 1));
            Some(format!("opened q{q} b{b} m{m} c{k}"))
        }
        1 => {
            let q = rng.usize(c.queries.len());
            if c.queries[q].phases.is_empty() {
                return None;
            }
            let p = rng.usize(c.queries[q].phases.len());
            if c.queries[q].phases[p].siblings.is_empty() {
                return None;
            }
            let k = rng.usize(c.queries[q].phases[p].siblings.len());
            bump_ef(&mut c.queries[q].phases[p].siblings[k], rng);
            Some(format!("sibling q{q} p{p} s{k}"))
        }
        2 => {
            if c.final_poly.is_empty() {
                return None;
            }
            let k = rng.usize(c.final_poly.len());
            bump_ef(&mut c.final_poly[k], rng);
            Some(format!("final_poly {k}"))
        }
        3 => {
            let b = rng.usize(c.batches.len());
            let m = rng.usize(c.batches[b].len());
            let p = rng.usize(c.batches[b][m].points.len());
            if c.batches[b][m].points[p].2.is_empty() {
                return None;
            }
            let k = rng.usize(c.batches[b][m].points[p].2.len());
            bump_ef(&mut c.batches[b][m].points[p].2[k], rng);
            Some(format!("claimed b{b} m{m} p{p} c{k}"))
        }
        4 => {
            bump_ef(&mut c.alpha, rng);
            Some("alpha".into())
        }
        5 => {
            if c.betas.is_empty() {
                return None;
            }
            let k = rng.usize(c.betas.len());
            bump_ef(&mut c.betas[k], rng);
            Some(format!("beta {k}"))
        }
        6 => {
            let q = rng.usize(c.queries.len());
            let la: usize = c.queries[0].phases.iter().map(|p| p.log_arity).sum::<usize>() + c.params.log_blowup + c.params.log_final_poly_len;
            if la == 0 {
                return None;
            }
            let k = rng.usize(la);
            c.queries[q].index ^= 1 << k;
            Some(format!("index q{q} bit{k}"))
        }
        8 => {
            let b = rng.usize(c.batches.len());
            let m = rng.usize(c.batches[b].len());
            let p = rng.usize(c.batches[b][m].points.len());
            let zid = c.batches[b][m].points[p].0;
            let total: usize = c.queries[0].phases.iter().map(|p| p.log_arity).sum();
            let log_max = total + c.params.log_blowup + c.params.log_final_poly_len;
            let lh = c.batches[b][m].log_size + c.params.log_blowup;
            if lh > log_max {
                return None;
            }
            let q = rng.usize(c.queries.len());
            let idx = (c.queries[q].index & ((1usize << log_max) - 1)) >> (log_max - lh);
            let x = F::GENERATOR * F::two_adic_generator(lh).exp_u64(p3_util::reverse_bits_len(idx, lh) as u64);
            let z = Challenge::from(x);
            for bb in c.batches.iter_mut() {
                for mm in bb.iter_mut() {
                    for pt in mm.points.iter_mut() {
                        if pt.0 == zid {
                            pt.1 = z;
                        }
                    }
                }
            }
            Some(format!("point-equals-query-point zid{zid} q{q}"))
        }
        _ => {
            // opening point (all uses of one zid move together: it is one target)
            let b = rng.usize(c.batches.len());
            let m = rng.usize(c.batches[b].len());
            let p = rng.usize(c.batches[b][m].points.len());
            let zid = c.batches[b][m].points[p].0;
            let mut z = c.batches[b][m].points[p].1;
            bump_ef(&mut z, rng);
            for bb in c.batches.iter_mut() {
                for mm in bb.iter_mut() {
                    for pt in mm.points.iter_mut() {
                        if pt.0 == zid {
                            pt.1 = z;
                        }
                    }
                }
            }
            Some(format!("point zid{zid}"))
        }
    }
}
pub const N_VALUE_KINDS: usize = 9;

/// Shape alterations of the neutral case.
pub fn alter_shape(c: &mut Case, kind: usize, rng: &mut Rng) -> Option<String> {
    let nq = c.queries.len();
    match kind {
        0 => {
            c.num_pow = c.num_pow.checked_sub(1)?;
            Some("drop commit pow witness".into())
        }
        1 => {
            c.num_pow += 1;
            Some("extra commit pow witness".into())
        }
        2 => {
            c.num_commits = c.num_commits.checked_sub(1)?;
            c.betas.pop();
            Some("drop commit-phase commitment".into())
        }
        3 => {
            if nq < 2 {
                return None;
            }
            let q = 1 + rng.usize(nq - 1);
            if c.queries[q].phases.is_empty() {
                return None;
            }
            let p = rng.usize(c.queries[q].phases.len());
            c.queries[q].phases[p].log_arity += 1;
            Some(format!("later query log_arity+1 q{q} p{p}"))
        }
        4 => {
            let q = rng.usize(nq);
            if c.queries[q].phases.is_empty() {
                return None;
            }
            let p = rng.usize(c.queries[q].phases.len());
            let s0 = c.queries[q].phases[p].siblings[0];
            c.queries[q].phases[p].siblings.push(s0);
            Some(format!("extra sibling q{q} p{p}"))
        }
        5 => {
            let q = rng.usize(nq);
            if c.queries[q].phases.is_empty() {
                return None;
            }
            let p = rng.usize(c.queries[q].phases.len());
            c.queries[q].phases[p].siblings.pop();
            Some(format!("missing sibling q{q} p{p}"))
        }
        6 => {
            let extra = c.final_poly.clone();
            c.final_poly.extend(extra);
            Some("final poly doubled".into())
        }
        7 => {
            c.final_poly.pop();
            Some("final poly shortened".into())
        }
        8 => {
            let q = rng.usize(nq);
            c.queries[q].phases.pop()?;
            Some(format!("drop commit-phase opening q{q}"))
        }
        9 => {
            let q = rng.usize(nq);
            let b = rng.usize(c.queries[q].opened.len());
            c.queries[q].opened[b].pop()?;
            Some(format!("drop opened matrix q{q} b{b}"))
        }
        10 => {
            let q = rng.usize(nq);
            let b = rng.usize(c.queries[q].opened.len());
            let m = rng.usize(c.queries[q].opened[b].len());
            let _ = c.queries[q].opened[b][m].pop()?;
            Some(format!("drop opened column q{q} b{b} m{m}"))
        }
        11 => {
            let b = rng.usize(c.batches.len());
            let m = rng.usize(c.batches[b].len());
            let p = rng.usize(c.batches[b][m].points.len());
            let _ = c.batches[b][m].points[p].2.pop()?;
            Some(format!("drop claimed value b{b} m{m} p{p}"))
        }
        12 => {
            // proof with one query fewer than the verifier's parameter
            if nq < 2 {
                return None;
            }
            c.queries.pop();
            Some("one query fewer than params.num_queries".into())
        }
        13 => {
            let q = c.queries[nq - 1].clone();
            c.queries.push(q);
            Some("one query more than params.num_queries".into())
        }
        14 => {
            let q = rng.usize(nq);
            c.queries[q].opened.pop()?;
            Some(format!("drop input batch opening q{q}"))
        }
        15 => {
            // a whole-schedule change: every query's first phase gets log_arity 0 prepended
            for q in c.queries.iter_mut() {
                q.phases.insert(0, PhaseOpen { log_arity: 0, siblings: vec![] });
            }
            c.num_commits += 1;
            c.num_pow += 1;
            c.betas.insert(0, Challenge::ONE);
            Some("log_arity 0 phase prepended".into())
        }
        16 => {
            // verifier parameter max_log_arity smaller than the proof's arities
            let m = c.queries[0].phases.iter().map(|p| p.log_arity).max()?;
            if m < 2 {
                return None;
            }
            c.params.max_log_arity = m - 1;
            Some("params.max_log_arity below the proof's schedule".into())
        }
        17 => {
            // statement-side: a matrix whose claimed values equal its opened values in every query
            // (constant columns, reduced opening 0) is declared at a height no fold phase reaches
            let total: usize = c.queries[0].phases.iter().map(|p| p.log_arity).sum();
            let log_max = total + c.params.log_blowup + c.params.log_final_poly_len;
            let mut folded = vec![log_max];
            let mut acc = 0;
            for p in &c.queries[0].phases {
                acc += p.log_arity;
                folded.push(log_max - acc);
            }
            let target = (0..log_max).rev().find(|h| !folded.contains(h) && *h > c.params.log_blowup)?;
            for b in 0..c.batches.len() {
                for m in 0..c.batches[b].len() {
                    let mc = &c.batches[b][m];
                    let lh = mc.log_size + c.params.log_blowup;
                    let is_const = c.queries.iter().all(|q| mc.points.iter().all(|(_, _, vs)| vs.iter().zip(&q.opened[b][m]).all(|(v, o)| *v == Challenge::from(*o))));
                    let last_of_height = !c.batches.iter().enumerate().any(|(b2, bb)| bb.iter().enumerate().any(|(m2, x)| (b2, m2) > (b, m) && x.log_size == mc.log_size));
                    if is_const && last_of_height && lh != log_max {
                        c.batches[b][m].log_size = target - c.params.log_blowup;
                        return Some(format!("zero-quotient matrix b{b} m{m} moved to unmatched height {target}"));
                    }
                }
            }
            None
        }
        18 => {
            let b = rng.usize(c.batches.len());
            let m = rng.usize(c.batches[b].len());
            let mc = &c.batches[b][m];
            let is_const = c.queries.iter().all(|q| {
                q.opened.get(b).and_then(|x| x.get(m)).map(|o| mc.points.iter().all(|(_, _, vs)| vs.len() == o.len() && vs.iter().zip(o).all(|(v, o)| *v == Challenge::from(*o)))).unwrap_or(false)
            });
            c.batches[b][m].log_size += 1;
            Some(format!("claimed log_size+1 b{b} m{m}{}", if is_const { " (zero-quotient matrix)" } else { "" }))
        }
        20 | 21 => {
            // F9i regression (repo fix c030fca): the verifier's log_blowup is raised so that
            // log_max_height lands just above the two-adicity (kind 20: 28..=31, formerly the
            // two_adic_generator assertion) or above the bit width (kind 21). Native:
            // GlobalMaxHeightTooLarge; circuit side: InvalidProofShape.
            let total: usize = c.queries[0].phases.iter().map(|p| p.log_arity).sum();
            let base = total + c.params.log_final_poly_len;
            let target = if kind == 20 { F::TWO_ADICITY + 1 + rng.usize(4) } else { 32 + rng.usize(3) };
            c.params.log_blowup = target.checked_sub(base)?;
            Some(format!("params.log_blowup raised: log_max_height {target}"))
        }
        22 => {
            // F9d regression (repo fix fc0321f): a prover-supplied log_arity far beyond anything the
            // sibling vector can match, in every query (the schedule is read from query 0). Target
            // allocation used to shift by it (>= 64: overflow panic; 26..62: 2^log_arity targets).
            let np = c.queries[0].phases.len();
            if np == 0 {
                return None;
            }
            let ph = rng.usize(np);
            let la = *rng.pick(&[40usize, 63, 64, 200, 255]);
            for q in c.queries.iter_mut() {
                if let Some(x) = q.phases.get_mut(ph) {
                    x.log_arity = la;
                }
            }
            Some(format!("huge log_arity {la} in phase {ph} of every query"))
        }
        23 => {
            // No fold phase with a final polynomial of length 2 (the real prover cannot make one:
            // `prove_fri` asserts log_min_height > log_final_poly_len + log_blowup). Needs a proof
            // without phases whose matrices all have zero quotients (claimed = opened in every
            // query): every log size and log_final_poly_len are raised by one, the final
            // polynomial becomes [0,0] (both must accept) or [0,c] / [c,0], c != 0 (both must
            // refuse: the query point is non-zero).
            if c.queries.iter().any(|q| !q.phases.is_empty()) || c.params.log_final_poly_len != 0 {
                return None;
            }
            for (b, bb) in c.batches.iter().enumerate() {
                for (m, mc) in bb.iter().enumerate() {
                    let zero_q = c.queries.iter().all(|q| {
                        q.opened.get(b).and_then(|x| x.get(m)).map(|o| mc.points.iter().all(|(_, _, vs)| vs.len() == o.len() && vs.iter().zip(o).all(|(v, o)| *v == Challenge::from(*o)))).unwrap_or(false)
                    });
                    if !zero_q || mc.log_size != 0 {
                        return None;
                    }
                }
            }
            for bb in c.batches.iter_mut() {
                for mc in bb.iter_mut() {
                    mc.log_size = 1;
                }
            }
            c.params.log_final_poly_len = 1;
            let mut coef = Challenge::ZERO;
            bump_ef(&mut coef, rng);
            let (fp, tag) = match rng.usize(3) {
                0 => (vec![Challenge::ZERO, Challenge::ZERO], "zero"),
                1 => (vec![Challenge::ZERO, coef], "[0,c]"),
                _ => (vec![coef, Challenge::ZERO], "[c,0]"),
            };
            c.final_poly = fp;
            Some(format!("no-phase proof lifted to final poly length 2: {tag}"))
        }
        _ => {
            // kind 17 followed by a wrong claimed value for the moved matrix: its reduced opening is
            // then non-zero at a height no phase reaches. Both sides must reject (the circuit through
            // its `connect(ro, 0)` for unmatched heights).
            let before = c.batches.clone();
            let label = alter_shape(c, 17, rng)?;
            for b in 0..c.batches.len() {
                for m in 0..c.batches[b].len() {
                    if c.batches[b][m].log_size != before[b][m].log_size {
                        let k = rng.usize(c.batches[b][m].points[0].2.len());
                        bump_ef(&mut c.batches[b][m].points[0].2[k], rng);
                        return Some(format!("unmatched-nonzero: {label} + claimed value c{k} altered"));
                    }
                }
            }
            None
        }
    }
}
pub const N_SHAPE_KINDS: usize = 24;

/// Single-element alterations of the real proof / commitments / claims for the full mode.
pub fn alter_full(commitments: &mut [Cap], claims: &mut [Vec<MatClaim>], proof: &mut RealProof, kind: usize, rng: &mut Rng, ctx: &CapCtx) -> Option<String> {
    let bump = |x: &mut F, rng: &mut Rng| *x += F::from_u64(1 + rng.below(P - 1));
    let nq = proof.query_proofs.len();
    match kind {
        0 => {
            let q = rng.usize(nq);
            let b = rng.usize(proof.query_proofs[q].input_proof.len());
            let ov = &mut proof.query_proofs[q].input_proof[b].opened_values;
            let m = rng.usize(ov.len());
            if ov[m].is_empty() {
                return None;
            }
            let k = rng.usize(ov[m].len());
            bump(&mut ov[m][k], rng);
            Some(format!("opened q{q} b{b} m{m} c{k}"))
        }
        1 => {
            let q = rng.usize(nq);
            let b = rng.usize(proof.query_proofs[q].input_proof.len());
            let pr = &mut proof.query_proofs[q].input_proof[b].opening_proof;
            if pr.is_empty() {
                return None;
            }
            let k = rng.usize(pr.len());
            let j = rng.usize(DIGEST_ELEMS);
            bump(&mut pr[k][j], rng);
            Some(format!("input merkle digest q{q} b{b} l{k} e{j}"))
        }
        2 => {
            let q = rng.usize(nq);
            let n = proof.query_proofs[q].commit_phase_openings.len();
            if n == 0 {
                return None;
            }
            let p = rng.usize(n);
            let sv = &mut proof.query_proofs[q].commit_phase_openings[p].sibling_values;
            let k = rng.usize(sv.len());
            bump_ef(&mut sv[k], rng);
            Some(format!("sibling q{q} p{p} s{k}"))
        }
        3 => {
            let q = rng.usize(nq);
            let n = proof.query_proofs[q].commit_phase_openings.len();
            if n == 0 {
                return None;
            }
            let p = rng.usize(n);
            let pr = &mut proof.query_proofs[q].commit_phase_openings[p].opening_proof;
            if pr.is_empty() {
                return None;
            }
            let k = rng.usize(pr.len());
            let j = rng.usize(DIGEST_ELEMS);
            bump(&mut pr[k][j], rng);
            Some(format!("commit-phase merkle digest q{q} p{p} l{k} e{j}"))
        }
        4 => {
            let k = rng.usize(proof.final_poly.len());
            bump_ef(&mut proof.final_poly[k], rng);
            Some(format!("final_poly {k}"))
        }
        5 => {
            if proof.commit_pow_witnesses.is_empty() {
                return None;
            }
            let k = rng.usize(proof.commit_pow_witnesses.len());
            bump(&mut proof.commit_pow_witnesses[k], rng);
            Some(format!("commit pow witness {k}"))
        }
        6 => {
            bump(&mut proof.query_pow_witness, rng);
            Some("query pow witness".into())
        }
        7 => {
            if proof.commit_phase_commits.is_empty() {
                return None;
            }
            let k = rng.usize(proof.commit_phase_commits.len());
            let mut roots = proof.commit_phase_commits[k].roots().to_vec();
            let r = rng.usize(roots.len());
            let j = rng.usize(DIGEST_ELEMS);
            bump(&mut roots[r][j], rng);
            proof.commit_phase_commits[k] = MerkleCap::new(roots);
            Some(format!("commit-phase cap {k} r{r} e{j}"))
        }
        8 => {
            let k = rng.usize(commitments.len());
            let mut roots = commitments[k].roots().to_vec();
            let r = rng.usize(roots.len());
            let j = rng.usize(DIGEST_ELEMS);
            bump(&mut roots[r][j], rng);
            commitments[k] = MerkleCap::new(roots);
            Some(format!("input cap {k} r{r} e{j}"))
        }
        10 | 11 => {
            // commit-phase cap: one digest element of an entry a query addresses (10) / of an entry
            // no query addresses (11). Phases whose folded height equals the cap height (empty
            // Merkle path) are preferred.
            let n = proof.commit_phase_commits.len();
            if n == 0 {
                return None;
            }
            let eq: Vec<usize> = (0..n).filter(|&p| ctx.schedule.len() == n && (1usize << ctx.folded_height(p)) == proof.commit_phase_commits[p].roots().len()).collect();
            let k = if !eq.is_empty() && rng.chance(2, 3) { *rng.pick(&eq) } else { rng.usize(n) };
            let mut roots = proof.commit_phase_commits[k].roots().to_vec();
            let hit = ctx.addressed(roots.len());
            let cands: Vec<usize> = (0..roots.len()).filter(|r| hit.contains(r) == (kind == 10)).collect();
            if cands.is_empty() {
                return None;
            }
            let r = *rng.pick(&cands);
            let j = rng.usize(DIGEST_ELEMS);
            bump(&mut roots[r][j], rng);
            let rel = if ctx.schedule.len() == n { format!(" folded_h={} cap_h={}", ctx.folded_height(k), roots.len().ilog2()) } else { String::new() };
            proof.commit_phase_commits[k] = MerkleCap::new(roots);
            Some(format!("commit-cap-{} {k} r{r} e{j}{rel}", if kind == 10 { "addressed" } else { "unaddressed" }))
        }
        12 | 13 => {
            let k = rng.usize(commitments.len());
            let mut roots = commitments[k].roots().to_vec();
            let hit = ctx.addressed(roots.len());
            let cands: Vec<usize> = (0..roots.len()).filter(|r| hit.contains(r) == (kind == 12)).collect();
            if cands.is_empty() {
                return None;
            }
            let r = *rng.pick(&cands);
            let j = rng.usize(DIGEST_ELEMS);
            bump(&mut roots[r][j], rng);
            let ch = roots.len().ilog2();
            commitments[k] = MerkleCap::new(roots);
            Some(format!("input-cap-{} {k} r{r} e{j} cap_h={ch}", if kind == 12 { "addressed" } else { "unaddressed" }))
        }
        14 => {
            // a sibling value of a phase picked by its folded height relative to the cap height:
            // equal (empty Merkle path) first, then the nearest one above
            let q = rng.usize(nq);
            let n = proof.query_proofs[q].commit_phase_openings.len();
            if n == 0 || ctx.schedule.len() != n || proof.commit_phase_commits.len() != n {
                return None;
            }
            let caph = |p: usize| proof.commit_phase_commits[p].roots().len().max(1).ilog2() as usize;
            let p = (0..n).filter(|&p| ctx.folded_height(p) == caph(p)).next().or_else(|| (0..n).rev().find(|&p| ctx.folded_height(p) > caph(p)))?;
            let rel = format!("folded_h={} cap_h={}", ctx.folded_height(p), caph(p));
            let sv = &mut proof.query_proofs[q].commit_phase_openings[p].sibling_values;
            let k = rng.usize(sv.len());
            bump_ef(&mut sv[k], rng);
            Some(format!("sibling-at-cap q{q} p{p} s{k} {rel}"))
        }
        _ => {
            let b = rng.usize(claims.len());
            let m = rng.usize(claims[b].len());
            let p = rng.usize(claims[b][m].points.len());
            let k = rng.usize(claims[b][m].points[p].2.len());
            bump_ef(&mut claims[b][m].points[p].2[k], rng);
            Some(format!("claimed b{b} m{m} p{p} c{k}"))
        }
    }
}
pub const N_FULL_KINDS: usize = 15;
/// kinds judged in fixch mode (no PoW witnesses: the scripted challenger accepts every witness)
pub const FIXCH_KINDS: [usize; 13] = [10, 11, 12, 13, 14, 2, 3, 0, 1, 4, 7, 8, 9];

// ------------------------------------------------------------------------------------------

fn coarse(s: &str) -> &str {
    if s == "ok" { "accept" } else { "reject" }
}

fn is_panic(s: &str) -> bool {
    s == "panic"
}

/// Class of a verdict mismatch: mode, direction, and the cause (the native error variant when the
/// native verifier rejects; a tag of the scenario shape / circuit error when the circuit rejects).
fn mismatch_class(mode: &str, nat: &str, cir: &str, s: &Scenario, label: &str) -> String {
    if is_panic(nat) || is_panic(cir) {
        return format!("{mode}:panic:native={}:circuit={}", nat.split(':').next().unwrap_or(""), cir.split(':').next().unwrap_or(""));
    }
    if nat == "ok" {
        let gmax = s.batches.iter().flatten().map(|m| m.0).max().unwrap_or(0);
        let short = s.batches.iter().any(|b| b.iter().map(|m| m.0).max().unwrap_or(0) < gmax);
        let cause = if label == "honest" && mode == "full" && short && cir.starts_with("feed-err") {
            "batch-below-global-max-height".to_string()
        } else if gmax == 0 && cir == "build-err" {
            "all-matrices-height-one".to_string()
        } else {
            format!("{}:{}", label.split(' ').next().unwrap_or(""), cir.split(':').take(2).collect::<Vec<_>>().join(":"))
        };
        format!("{mode}:native-accepts-circuit-rejects:{cause}")
    } else {
        let v = nat.trim_start_matches("err:");
        let sub = if v == "InvalidLogArity" {
            if label.contains("log_arity 0") { ":log_arity=0" } else { ":above-max_log_arity" }
        } else if v == "UnconsumedReducedOpenings" {
            if label.contains("unmatched-nonzero") {
                ":nonzero-reduced-opening"
            } else if label.contains("zero-quotient") {
                ":zero-reduced-opening"
            } else {
                ""
            }
        } else {
            ""
        };
        format!("{mode}:circuit-accepts-native-rejects:{v}{sub}")
    }
}

pub fn main(args: &crate::Args) {
    let seed = args.u64("seed", 1);
    let n_scen = args.u64("scenarios", 8) as usize;
    let n_alt = args.u64("alterations", 12) as usize;
    let n_shape = args.u64("shape-alterations", 6) as usize;
    let n_full = args.u64("full-scenarios", 2) as usize;
    let n_full_alt = args.u64("full-alterations", 6) as usize;
    let max_log_size = args.u64("max-log-size", 5) as usize;
    let out = args.str("out", "/tmp/p3r");
    std::fs::create_dir_all(&out).unwrap();
    let mut cases = std::io::BufWriter::new(std::fs::File::create(format!("{out}/fri.cases")).unwrap());
    let mut implo = std::io::BufWriter::new(std::fs::File::create(format!("{out}/fri.impl")).unwrap());
    let mut rng = Rng::new(seed);
    let mut hist: BTreeMap<String, u64> = BTreeMap::new();
    let mut violations: Vec<Value> = vec![];
    let mut samples: Vec<Value> = vec![];
    let mut distinct = std::collections::HashSet::new();
    let mut evaluations = 0u64;
    let mut full_evals = 0u64;

    // (scenario, origin, explicit shape kinds, explicit full-shape kinds, force full)
    // corpus files with `"expect_honest": "accept"` are regression cases of a repaired
    // "native accepts, circuit refuses" defect: the honest proof must be accepted by *both* real
    // verifiers in both modes and every final-polynomial alteration refused by both
    let mut expect_accept: std::collections::BTreeSet<String> = Default::default();
    let mut scenarios: Vec<(Scenario, String, Vec<usize>, Vec<usize>)> = vec![];
    if let Some(dir) = args.opt("corpus") {
        let mut files: Vec<_> = std::fs::read_dir(&dir).map(|d| d.filter_map(|e| e.ok()).map(|e| e.path()).collect()).unwrap_or_default();
        files.sort();
        for f in files {
            let Ok(txt) = std::fs::read_to_string(&f) else { continue };
            let Ok(v) = serde_json::from_str::<Value>(&txt) else { continue };
            let v = if v.get("scenario").is_some() { v } else { v["replay"].clone() };
            let kinds = |k: &str| v[k].as_array().map(|a| a.iter().filter_map(|x| x.as_u64().map(|y| y as usize)).collect()).unwrap_or_default();
            if let Some(s) = Scenario::from_json(&v["scenario"]) {
                let origin = format!("corpus:{}", f.file_name().unwrap().to_string_lossy());
                if v["expect_honest"].as_str() == Some("accept") {
                    expect_accept.insert(origin.clone());
                }
                scenarios.push((s, origin, kinds("shape_kinds"), kinds("full_shape_kinds")));
            }
        }
    }
    for i in 0..n_scen {
        let mut r = rng.fork();
        scenarios.push((gen_scenario(&mut r, max_log_size), format!("gen:{i}"), vec![], vec![]));
    }

    let bump = |h: &mut BTreeMap<String, u64>, k: String| *h.entry(k).or_insert(0) += 1;
    let n_corpus = scenarios.iter().filter(|x| x.1.starts_with("corpus:")).count();

    for (si, (s, origin, shape_kinds, full_shape_kinds)) in scenarios.iter().enumerate() {
        let mut arng = Rng::new(s.data_seed ^ 0xA17E);
        let honest = catch_unwind(AssertUnwindSafe(|| prove(s)));
        let Ok(h) = honest else {
            let eq_c = s.params.log_blowup + s.params.log_final_poly_len;
            let eq_i = s.batches.iter().map(|b| b.iter().map(|m| m.0).max().unwrap_or(0)).min().unwrap_or(0) + s.params.log_blowup;
            bump(&mut hist, if s.commit_cap_height > eq_c || s.input_cap_height > eq_i { "prover-panic:cap-above-shortest-tree".into() } else { "prover-panic".into() });
            continue;
        };
        let base = extract_case(s, &h);
        let schedule: Vec<usize> = base.queries[0].phases.iter().map(|p| p.log_arity).collect();
        bump(&mut hist, format!("blowup={}", s.params.log_blowup));
        bump(&mut hist, format!("final_len=2^{}", s.params.log_final_poly_len));
        bump(&mut hist, format!("queries={}", s.params.num_queries));
        bump(&mut hist, format!("schedule={schedule:?}"));
        bump(&mut hist, format!("max_arity_in_schedule=2^{}", schedule.iter().max().copied().unwrap_or(0)));
        bump(&mut hist, format!("batches={}", s.batches.len()));
        let heights: std::collections::BTreeSet<usize> = s.batches.iter().flatten().map(|m| m.0).collect();
        bump(&mut hist, format!("distinct_heights={}", heights.len()));
        let rollins = heights.len().saturating_sub(1);
        bump(&mut hist, format!("rollins={rollins}"));
        if heights.contains(&0) {
            bump(&mut hist, "has_height_one_matrix".into());
        }
        if schedule.is_empty() {
            bump(&mut hist, "no_fold_phase".into());
        }
        if s.batches.iter().flatten().any(|m| m.3 == 1) {
            bump(&mut hist, "two_points_per_matrix".into());
        }
        if s.batches.iter().any(|b| b.iter().any(|m| m.3 != b[0].3)) {
            bump(&mut hist, "mixed_points_in_batch".into());
        }
        if s.batches.iter().any(|b| b.len() > 1 && b.iter().all(|m| m.3 == b[0].3 && m.3 != 1)) {
            bump(&mut hist, "shared_point_fast_path_batch".into());
        }
        if samples.len() < 3 {
            samples.push(json!({"origin": origin, "scenario": s.to_json(), "schedule": schedule,
                "query_indices": base.queries.iter().map(|q| q.index).collect::<Vec<_>>()}));
        }

        // ---- arithmetic mode: honest + alterations
        let mut cache: Option<(String, ArithCircuit)> = None;
        let mut emit = |c: &Case, label: &str, k: usize, cache: &mut Option<(String, ArithCircuit)>, violations: &mut Vec<Value>, hist: &mut BTreeMap<String, u64>, extra: Value| {
            let id = format!("s{si}.{k}");
            let n = native_arith(c);
            let ci = circuit_arith(c, cache);
            writeln!(cases, "{}", c.line(&id)).unwrap();
            writeln!(implo, "fri {id}").unwrap();
            writeln!(implo, "native {n}").unwrap();
            let cc = if ci == "ok" { "ok" } else if ci == "panic" { "panic" } else if ci.starts_with("unsat") { "unsat" } else { "build-err" };
            writeln!(implo, "circuit {cc}").unwrap();
            *hist.entry(format!("arith:{}:{}", label.split(' ').next().unwrap_or(""), coarse(&n))).or_insert(0) += 1;
            if is_panic(&ci) {
                // a panic while *building* the circuit is "no circuit": a rejection for C07 (that it
                // is a panic rather than InvalidProofShape is C15's subject); counted, not hidden
                *hist.entry("arith:circuit-build-panic-counted-as-reject".to_string()).or_insert(0) += 1;
            }
            if coarse(&n) != coarse(&ci) || is_panic(&n) {
                let class = mismatch_class("arith", &n, &ci, s, label);
                let mut replay = json!({"scenario": s.to_json(), "mode": "arith", "alteration": label, "alt_index": k, "case_line": c.line(&id)});
                if let Some(o) = extra.as_object() {
                    for (kk, vv) in o {
                        replay[kk] = vv.clone();
                    }
                }
                violations.push(json!({"property": "C07", "kind": "verdict-mismatch", "class": class,
                    "detail": {"native": n, "circuit": ci, "alteration": label}, "replay": replay}));
            }
            (n, ci)
        };
        let (n0, c0) = emit(&base, "honest", 0, &mut cache, &mut violations, &mut hist, json!({}));
        evaluations += 1;
        distinct.insert(base.line(""));
        if n0 != "ok" || c0 != "ok" {
            bump(&mut hist, "arith:honest-not-accepted-by-both".into());
        }
        let regression = expect_accept.contains(origin);
        let regress = |mode: &str, what: &str, nat: &str, cir: &str, violations: &mut Vec<Value>| {
            violations.push(json!({"property": "C07", "kind": "regression-expectation",
                "class": format!("{mode}:regression:{what}:{}", origin.trim_start_matches("corpus:")),
                "detail": {"native": nat, "circuit": cir, "alteration": what},
                "replay": {"scenario": s.to_json(), "mode": mode, "alteration": what, "expect_honest": "accept"}}));
        };
        if regression && (n0 != "ok" || c0 != "ok") {
            regress("arith", "honest-not-accepted-by-both", &n0, &c0, &mut violations);
        }
        let mut k = 1usize;
        for a in 0..n_alt {
            let mut c = base.clone();
            let kind = a % N_VALUE_KINDS;
            if let Some(label) = alter_value(&mut c, kind, &mut arng) {
                let (na, ca) = emit(&c, &label, k, &mut cache, &mut violations, &mut hist, json!({}));
                if regression && kind == 2 && (na == "ok" || ca == "ok") {
                    regress("arith", "altered-final-poly-not-rejected-by-both", &na, &ca, &mut violations);
                }
                evaluations += 1;
                distinct.insert(c.line(""));
                k += 1;
            }
        }
        let kinds: Vec<usize> =
            if !shape_kinds.is_empty() { shape_kinds.clone() } else { (0..n_shape).map(|a| (a + si.saturating_sub(n_corpus) * n_shape) % N_SHAPE_KINDS).collect() };
        for kind in kinds {
            let mut c = base.clone();
            if let Some(label) = alter_shape(&mut c, kind, &mut arng) {
                let mut tmp: Option<(String, ArithCircuit)> = None;
                emit(&c, &format!("shape:{label}"), k, &mut tmp, &mut violations, &mut hist, json!({"shape_kinds": [kind]}));
                evaluations += 1;
                distinct.insert(c.line(""));
                k += 1;
            }
        }

        // ---- full mode
        let gi = si.saturating_sub(n_corpus);
        if gi < n_full || origin.starts_with("corpus:") {
            let ctx = CapCtx { indices: base.queries.iter().map(|q| q.index).collect(), log_max: schedule.iter().sum::<usize>() + s.params.log_blowup + s.params.log_final_poly_len, schedule: schedule.clone() };
            bump(&mut hist, format!("full:input_cap_height={}", s.input_cap_height));
            bump(&mut hist, format!("full:commit_cap_height={}", s.commit_cap_height));
            for p in 0..schedule.len() {
                let fh = ctx.folded_height(p);
                bump(&mut hist, format!("full:phase_folded_height_{}_cap", if fh == s.commit_cap_height { "eq" } else if fh > s.commit_cap_height { "above" } else { "below" }));
            }
            let nat = native_full(&h.pcs, &h.perm, &h.commitments, &h.claims, &h.proof);
            let built = catch_unwind(AssertUnwindSafe(|| build_full(s, &h.pcs, &h.commitments, &h.claims, &h.proof)));
            let (fc, berr) = match built {
                Ok(Ok(fc)) => (Some(fc), String::new()),
                Ok(Err(e)) => (None, e),
                Err(_) => (None, "panic".into()),
            };
            let cir = match &fc {
                Some(fc) => catch_unwind(AssertUnwindSafe(|| run_full(fc, &h.commitments, &h.claims, &h.proof))).unwrap_or_else(|_| "panic".into()),
                None => berr.clone(),
            };
            full_evals += 1;
            bump(&mut hist, format!("full:honest:native={}:circuit={}", coarse(&nat), coarse(&cir)));
            let report = |nat: &str, cir: &str, label: &str, violations: &mut Vec<Value>, extra: Value| {
                if coarse(nat) != coarse(cir) || is_panic(nat) || is_panic(cir) {
                    let class = mismatch_class("full", nat, cir, s, label);
                    let mut replay = json!({"scenario": s.to_json(), "mode": "full", "alteration": label});
                    if let Some(o) = extra.as_object() {
                        for (kk, vv) in o {
                            replay[kk] = vv.clone();
                        }
                    }
                    violations.push(json!({"property": "C07", "kind": "verdict-mismatch", "class": class,
                        "detail": {"native": nat, "circuit": cir, "alteration": label}, "replay": replay}));
                }
            };
            report(&nat, &cir, "honest", &mut violations, json!({}));
            if regression && (nat != "ok" || cir != "ok") {
                regress("full", "honest-not-accepted-by-both", &nat, &cir, &mut violations);
            }
            if let Some(fc) = &fc {
                if cir == "ok" {
                    for a in 0..n_full_alt {
                        let (mut coms, mut claims, mut proof) = (h.commitments.clone(), h.claims.clone(), h.proof.clone());
                        let kind = (a + gi) % N_FULL_KINDS;
                        if let Some(label) = alter_full(&mut coms, &mut claims, &mut proof, kind, &mut arng, &ctx) {
                            let nat = native_full(&h.pcs, &h.perm, &coms, &claims, &proof);
                            let cir = catch_unwind(AssertUnwindSafe(|| run_full(fc, &coms, &claims, &proof))).unwrap_or_else(|_| "panic".into());
                            full_evals += 1;
                            bump(&mut hist, format!("full:{}:{}", label.split(' ').next().unwrap_or(""), coarse(&nat)));
                            report(&nat, &cir, &label, &mut violations, json!({}));
                            if regression && kind == 4 && (nat == "ok" || cir == "ok") {
                                regress("full", "altered-final-poly-not-rejected-by-both", &nat, &cir, &mut violations);
                            }
                        }
                    }
                }
            }
            // ---- fixch mode: real MMCS, fixed challenges (see the section comment above)
            if cir == "ok" && nat == "ok" {
                let report_fx = |nat: &str, cir: &str, label: &str, violations: &mut Vec<Value>| {
                    if coarse(nat) != coarse(cir) || is_panic(nat) || is_panic(cir) {
                        let class = mismatch_class("fixch", nat, cir, s, label);
                        violations.push(json!({"property": "C07", "kind": "verdict-mismatch", "class": class,
                            "detail": {"native": nat, "circuit": cir, "alteration": label},
                            "replay": {"scenario": s.to_json(), "mode": "fixch", "alteration": label,
                                "query_indices": ctx.indices, "schedule": schedule}}));
                    }
                };
                let nat0 = native_fixch(&h, s, &base, &h.commitments, &h.claims, &h.proof);
                let built = catch_unwind(AssertUnwindSafe(|| build_fixch(s, &base, &h.commitments, &h.claims, &h.proof)));
                let (fx, cir0) = match built {
                    Ok(Ok(fx)) => {
                        let c = catch_unwind(AssertUnwindSafe(|| run_fixch(&fx, &base, &h.commitments, &h.claims, &h.proof))).unwrap_or_else(|_| "panic".into());
                        (Some(fx), c)
                    }
                    Ok(Err(e)) => (None, e),
                    Err(_) => (None, "panic".into()),
                };
                full_evals += 1;
                bump(&mut hist, format!("fixch:honest:native={}:circuit={}", coarse(&nat0), coarse(&cir0)));
                report_fx(&nat0, &cir0, "honest", &mut violations);
                if let (Some(fx), true) = (&fx, cir0 == "ok" && nat0 == "ok") {
                    for &kind in FIXCH_KINDS.iter() {
                        let (mut coms, mut claims, mut proof) = (h.commitments.clone(), h.claims.clone(), h.proof.clone());
                        if let Some(label) = alter_full(&mut coms, &mut claims, &mut proof, kind, &mut arng, &ctx) {
                            let nat = native_fixch(&h, s, &base, &coms, &claims, &proof);
                            let cir = catch_unwind(AssertUnwindSafe(|| run_fixch(fx, &base, &coms, &claims, &proof))).unwrap_or_else(|_| "panic".into());
                            full_evals += 1;
                            bump(&mut hist, format!("fixch:{}:native={}", label.split(' ').next().unwrap_or(""), coarse(&nat)));
                            report_fx(&nat, &cir, &label, &mut violations);
                        }
                    }
                }
            }
            // whole-shape alterations in full mode: the circuit is rebuilt from the altered proof,
            // the native verifier keeps the scenario's parameters
            // kinds 2..=4 are regression cases of repaired panics (F9i c030fca, F9e 069da9d): both
            // verifiers must refuse, the circuit side with an error (a panic is a violation here)
            let fkinds: Vec<usize> = if !full_shape_kinds.is_empty() { full_shape_kinds.clone() } else if cir == "ok" { vec![0, 1, 2 + gi % 3] } else { vec![] };
            for kind in fkinds {
                let mut proof = h.proof.clone();
                let mut s2 = s.clone();
                let label = match kind {
                    0 => {
                        if proof.query_proofs.len() < 2 {
                            continue;
                        }
                        proof.query_proofs.pop();
                        "shape:one query fewer than params.num_queries"
                    }
                    1 => {
                        let m = schedule.iter().max().copied().unwrap_or(0);
                        if m < 2 {
                            continue;
                        }
                        s2.params.max_log_arity = m - 1;
                        "shape:params.max_log_arity below the proof's schedule"
                    }
                    2 => {
                        // log_max_height one above the two-adicity (28 on BabyBear: inside the 31-bit
                        // bound, formerly two_adic_generator's assertion in verify_circuit)
                        let base = schedule.iter().sum::<usize>() + s.params.log_final_poly_len;
                        s2.params.log_blowup = F::TWO_ADICITY + 1 - base;
                        "shape:params.log_blowup raised above the two-adicity"
                    }
                    3 => {
                        // a commit-phase commitment whose cap has 3 entries (not a power of two)
                        let Some(c0) = proof.commit_phase_commits.first().cloned() else { continue };
                        let r = c0.roots()[0];
                        let Some(cap) = raw_cap(&c0, vec![r, r, r]) else { continue };
                        proof.commit_phase_commits[0] = cap;
                        "shape:commit-phase cap with 3 entries"
                    }
                    _ => {
                        let Some(c0) = proof.commit_phase_commits.first().cloned() else { continue };
                        let Some(cap) = raw_cap(&c0, vec![]) else { continue };
                        proof.commit_phase_commits[0] = cap;
                        "shape:commit-phase cap empty"
                    }
                };
                let pcs2 = make_pcs(&h.perm, &s2);
                let nat = native_full(&pcs2, &h.perm, &h.commitments, &h.claims, &proof);
                let cir = match catch_unwind(AssertUnwindSafe(|| build_full(&s2, &pcs2, &h.commitments, &h.claims, &proof))) {
                    Ok(Ok(fc2)) => catch_unwind(AssertUnwindSafe(|| run_full(&fc2, &h.commitments, &h.claims, &proof))).unwrap_or_else(|_| "panic".into()),
                    Ok(Err(e)) => e,
                    Err(_) => "panic".into(),
                };
                full_evals += 1;
                bump(&mut hist, format!("full:{}:{}", label.split(' ').next().unwrap_or(""), coarse(&nat)));
                report(&nat, &cir, label, &mut violations, json!({"full_shape_kinds": [kind]}));
            }
        }
    }
    cases.flush().unwrap();
    implo.flush().unwrap();
    let report = json!({
        "evaluations": evaluations + full_evals, "arith_evaluations": evaluations, "full_evaluations": full_evals,
        "distinct": distinct.len(), "scenarios": scenarios.len(),
        "hist": hist, "samples": samples, "violations": violations,
    });
    std::fs::write(format!("{out}/fri.report.json"), serde_json::to_string_pretty(&report).unwrap()).unwrap();
}
