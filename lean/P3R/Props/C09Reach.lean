/-
C09 — the builder-side guards of `C09F.compiled_bus_balanced` (`privOk`, `hintsGuarded`,
`operandsGuarded`) hold for every program built through the builder API: the headline
`compiled_bus_balanced_reachable` has no hypothesis other than reachability.

* `SC b j l` — `j` and `l` are in one connect class of `b` (the `sameClass` test of the guards, on the
  DSU / `in_connect` flags of `b`). It is monotone under everything the builder does: pushing a node
  (`ofConnects_push`, `flags_push`: both arrays only grow by one untouched cell) and appending a connect
  (`SC_connect_mono`, `SC_connect_joined`).
* `Good b l` — some member of `l`'s class is a leaf or an arithmetic node (`creatorFor` without the
  position bound: every node pushed later has a larger id).
* `InvU U b` — `BState.Ok`, every pooled id names a leaf / arithmetic node, every value id outside the
  *pending set* `U` is `Good`, and both guards hold. `U` is what makes the invariant inductive across
  `decompose_to_bits`: the bits are pending between `push_non_primitive_op_with_outputs` and the
  `assert_bool` of `reconstruct_index_from_bits`, and in that window they are only used in unguarded
  columns (`BoolCheck`'s `a`, `MulAdd`'s `a`).
* `ReachablePrim` — `C02T.Reachable` without the raw `pushNp` constructor (all other 20 constructors,
  `decomposeToBits` and `reconstructBits` included). `ReachableCov U` — the generalisation WITH raw
  `pushNp`: its outputs enter the pending set, leave it through `assertBool` / `connect` to a `Good`
  expression, and pending ids may only be passed in unguarded argument positions.
-/
import P3R.Props.C09Fuse
import P3R.Props.C18Reach

namespace P3R.C09R
open P3R P3R.C02T

variable {K : Type}

/-! ### The DSU and the `in_connect` flags under `push` and `connect` -/

theorem getD_push_self (rep : Array Nat) (x : Nat) :
    (rep.push rep.size).getD x x = rep.getD x x := by
  simp only [Array.getD_eq_getD_getElem?, Array.getElem?_push]
  by_cases h : x = rep.size
  · subst h; simp
  · simp [h]

theorem getD_push_false (m : Array Bool) (x : Nat) :
    (m.push false).getD x false = m.getD x false := by
  simp only [Array.getD_eq_getD_getElem?, Array.getElem?_push]
  by_cases h : x = m.size
  · subst h; simp
  · simp [h]

theorem union_push {N : Nat} {rep : Array Nat} (h : DsuInv N rep) {a b : Nat} (ha : a < N)
    (hb : b < N) : Dsu.union (rep.push N) a b = (Dsu.union rep a b).push N := by
  have hsz := h.sz
  have e1 : ∀ x, x < N → (rep.push N).getD x x = rep.getD x x := by
    intro x _
    rw [← hsz]; exact getD_push_self rep x
  unfold Dsu.union
  simp only [e1 a ha, e1 b hb]
  split
  · rfl
  · rw [Array.map_push]
    have : rep.getD b b < N := h.lt b hb
    have hne : ¬ N = rep.getD b b := by omega
    rw [if_neg hne]

theorem fold_union_push {N : Nat} (cs : List (Nat × Nat)) (hcs : ∀ ab ∈ cs, ab.1 < N ∧ ab.2 < N) :
    ∀ rep : Array Nat, DsuInv N rep →
      cs.foldl (fun rep ab => Dsu.union rep ab.1 ab.2) (rep.push N) =
        (cs.foldl (fun rep ab => Dsu.union rep ab.1 ab.2) rep).push N := by
  induction cs with
  | nil => intro rep _; rfl
  | cons ab rest ih =>
    intro rep h
    simp only [List.foldl_cons]
    obtain ⟨ha, hb⟩ := hcs ab (List.mem_cons_self ..)
    rw [union_push h ha hb]
    exact ih (fun ab' h' => hcs ab' (List.mem_cons_of_mem _ h')) _ (union_spec h ha hb).1

/-- One more (unconnected) expression id: the partition array grows by one singleton cell. -/
theorem ofConnects_push {N : Nat} (cs : List (Nat × Nat)) (hcs : ∀ ab ∈ cs, ab.1 < N ∧ ab.2 < N) :
    Dsu.ofConnects (N + 1) cs = (Dsu.ofConnects N cs).push N := by
  unfold Dsu.ofConnects
  rw [Array.range_succ]
  exact fold_union_push cs hcs _ (range_dsuInv N)

theorem ofConnects_size {N : Nat} (cs : List (Nat × Nat)) (hcs : ∀ ab ∈ cs, ab.1 < N ∧ ab.2 < N) :
    (Dsu.ofConnects N cs).size = N :=
  (ofConnects_spec cs hcs _ (range_dsuInv N)).1.sz

theorem setIfInBounds_push {α : Type} (m : Array α) (i : Nat) (v w : α) (hi : i < m.size) :
    (m.push w).setIfInBounds i v = (m.setIfInBounds i v).push w := by
  apply Array.ext_getElem?
  intro j
  simp only [Array.getElem?_setIfInBounds, Array.getElem?_push, Array.size_push,
    Array.size_setIfInBounds]
  by_cases hij : i = j
  · subst hij
    have : i ≠ m.size := by omega
    simp [hi, this, Nat.lt_succ_of_lt hi]
  · simp [hij]

def flagsFrom (cs : List (Nat × Nat)) (m : Array Bool) : Array Bool :=
  cs.foldl (fun (m : Array Bool) ab => (m.setIfInBounds ab.1 true).setIfInBounds ab.2 true) m

theorem flagsFrom_push (cs : List (Nat × Nat)) :
    ∀ m : Array Bool, (∀ ab ∈ cs, ab.1 < m.size ∧ ab.2 < m.size) →
      flagsFrom cs (m.push false) = (flagsFrom cs m).push false := by
  induction cs with
  | nil => intro m _; rfl
  | cons ab rest ih =>
    intro m hcs
    simp only [flagsFrom, List.foldl_cons]
    obtain ⟨ha, hb⟩ := hcs ab (List.mem_cons_self ..)
    rw [setIfInBounds_push _ _ _ _ ha, setIfInBounds_push _ _ _ _ (by simpa using hb)]
    exact ih _ (fun ab' h' => by simpa using hcs ab' (List.mem_cons_of_mem _ h'))

theorem connectFlags_eq (b : BState K) :
    connectFlags b = flagsFrom b.connects (Array.replicate (b.nodes.size + 1) false) := rfl


/-! ### Connect classes of a builder state -/

/-- `j` and `l` are in one connect class of `b` (the test of `creatorFor`). -/
def SC (b : BState K) (j l : Nat) : Prop :=
  sameClass (Dsu.ofConnects (b.nodes.size + 1) b.connects) (connectFlags b) j l = true

theorem sameClass_iff (R : Array Nat) (C : Array Bool) (j l : Nat) :
    sameClass R C j l = true ↔
      j = l ∨ (C.getD j false = true ∧ C.getD l false = true ∧ R.getD j j = R.getD l l) := by
  simp [sameClass, and_assoc]

theorem SC.refl (b : BState K) (j : Nat) : SC b j j := by
  unfold SC; rw [sameClass_iff]; exact Or.inl rfl

theorem SC.symm {b : BState K} {j l : Nat} (h : SC b j l) : SC b l j := by
  unfold SC at h ⊢
  rw [sameClass_iff] at h ⊢
  rcases h with h | ⟨h1, h2, h3⟩
  · exact Or.inl h.symm
  · exact Or.inr ⟨h2, h1, h3.symm⟩

theorem SC.trans {b : BState K} {j k l : Nat} (h1 : SC b j k) (h2 : SC b k l) : SC b j l := by
  unfold SC at h1 h2 ⊢
  rw [sameClass_iff] at h1 h2 ⊢
  rcases h1 with rfl | ⟨a1, a2, a3⟩
  · exact h2
  · rcases h2 with rfl | ⟨b1, b2, b3⟩
    · exact Or.inr ⟨a1, a2, a3⟩
    · exact Or.inr ⟨a1, b2, a3.trans b3⟩

def ConnLt (b : BState K) : Prop := ∀ ab ∈ b.connects, ab.1 < b.nodes.size ∧ ab.2 < b.nodes.size

theorem connLt_of_ok {b : BState K} (h : b.Ok) : ConnLt b := fun ab hab =>
  ⟨proper_lt (h.2.2.2.2.2.2.1 ab hab).1, proper_lt (h.2.2.2.2.2.2.1 ab hab).2⟩

theorem flags_size (cs : List (Nat × Nat)) (m : Array Bool) : (flagsFrom cs m).size = m.size :=
  (inC_spec cs m).1

/-- Pushing a node changes no connect class. -/
theorem SC_push {b b' : BState K} {e : Expr K} (hn : b'.nodes = b.nodes.push e)
    (hc : b'.connects = b.connects) (hlt : ConnLt b) (j l : Nat) : SC b' j l ↔ SC b j l := by
  have hcs : ∀ ab ∈ b.connects, ab.1 < b.nodes.size + 1 ∧ ab.2 < b.nodes.size + 1 := fun ab hab =>
    ⟨Nat.lt_succ_of_lt (hlt ab hab).1, Nat.lt_succ_of_lt (hlt ab hab).2⟩
  unfold SC
  rw [connectFlags_eq, connectFlags_eq, hn, hc, Array.size_push, ofConnects_push _ hcs,
    Array.replicate_succ, flagsFrom_push _ _ (by simpa using hcs), sameClass_iff, sameClass_iff]
  have hsz := ofConnects_size _ hcs
  have e1 : ∀ x, ((Dsu.ofConnects (b.nodes.size + 1) b.connects).push (b.nodes.size + 1)).getD x x =
      (Dsu.ofConnects (b.nodes.size + 1) b.connects).getD x x := by
    intro x
    have := getD_push_self (Dsu.ofConnects (b.nodes.size + 1) b.connects) x
    rw [hsz] at this
    exact this
  simp only [e1, getD_push_false]

/-- `connect x y` keeps every class relation … -/
theorem SC_connect_mono {b b' : BState K} {x y : Nat} (hn : b'.nodes = b.nodes)
    (hc : b'.connects = b.connects ++ [(x, y)]) (hlt : ConnLt b) (hx : x < b.nodes.size)
    (hy : y < b.nodes.size) {j l : Nat} (h : SC b j l) : SC b' j l := by
  have hcs : ∀ ab ∈ b.connects, ab.1 < b.nodes.size + 1 ∧ ab.2 < b.nodes.size + 1 := fun ab hab =>
    ⟨Nat.lt_succ_of_lt (hlt ab hab).1, Nat.lt_succ_of_lt (hlt ab hab).2⟩
  unfold SC at h ⊢
  rw [sameClass_iff] at h ⊢
  rcases h with h | ⟨h1, h2, h3⟩
  · exact Or.inl h
  · right
    have hCsz : (connectFlags b).size = b.nodes.size + 1 := by
      rw [connectFlags_eq, flags_size]; simp
    have lt_of : ∀ z, (connectFlags b).getD z false = true → z < b.nodes.size + 1 := by
      intro z hz
      by_contra hge
      rw [Array.getD_eq_getD_getElem?, Array.getElem?_eq_none (by omega)] at hz
      cases hz
    have hC' : connectFlags b' =
        ((connectFlags b).setIfInBounds x true).setIfInBounds y true := by
      rw [connectFlags_eq, connectFlags_eq, hn, hc]
      simp [flagsFrom, List.foldl_append]
    have hR' : Dsu.ofConnects (b'.nodes.size + 1) b'.connects =
        Dsu.union (Dsu.ofConnects (b.nodes.size + 1) b.connects) x y := by
      rw [hn, hc]; simp [Dsu.ofConnects, List.foldl_append]
    have hInv := (ofConnects_spec b.connects hcs _ (range_dsuInv (b.nodes.size + 1))).1
    have hu := (union_spec hInv (Nat.lt_succ_of_lt hx) (Nat.lt_succ_of_lt hy)).2.2
    rw [hC', hR']
    refine ⟨?_, ?_, hu j l (lt_of j h1) (lt_of l h2) h3⟩
    · rw [getD_setIfInBounds, getD_setIfInBounds]; simp [h1]
    · rw [getD_setIfInBounds, getD_setIfInBounds]; simp [h2]

/-- … and joins `x` and `y`. -/
theorem SC_connect_joined {b b' : BState K} {x y : Nat} (hn : b'.nodes = b.nodes)
    (hc : b'.connects = b.connects ++ [(x, y)]) (hlt : ConnLt b) (hx : x < b.nodes.size)
    (hy : y < b.nodes.size) : SC b' x y := by
  have hcs : ∀ ab ∈ b.connects, ab.1 < b.nodes.size + 1 ∧ ab.2 < b.nodes.size + 1 := fun ab hab =>
    ⟨Nat.lt_succ_of_lt (hlt ab hab).1, Nat.lt_succ_of_lt (hlt ab hab).2⟩
  unfold SC
  rw [sameClass_iff]
  right
  have hCsz : (connectFlags b).size = b.nodes.size + 1 := by
    rw [connectFlags_eq, flags_size]; simp
  have hC' : connectFlags b' =
      ((connectFlags b).setIfInBounds x true).setIfInBounds y true := by
    rw [connectFlags_eq, connectFlags_eq, hn, hc]
    simp [flagsFrom, List.foldl_append]
  have hR' : Dsu.ofConnects (b'.nodes.size + 1) b'.connects =
      Dsu.union (Dsu.ofConnects (b.nodes.size + 1) b.connects) x y := by
    rw [hn, hc]; simp [Dsu.ofConnects, List.foldl_append]
  have hInv := (ofConnects_spec b.connects hcs _ (range_dsuInv (b.nodes.size + 1))).1
  have hu := (union_spec hInv (Nat.lt_succ_of_lt hx) (Nat.lt_succ_of_lt hy)).2.1
  rw [hC', hR']
  refine ⟨?_, ?_, hu⟩
  · rw [getD_setIfInBounds, getD_setIfInBounds]
    have : x < (connectFlags b).size := by omega
    simp [this]
  · rw [getD_setIfInBounds]
    have : y < (connectFlags b).size := by omega
    simp [this]


/-! ### `Good`, the Prop form of the guards, the invariant -/

/-- A leaf or an arithmetic node: an expression whose slot is created by its own row. -/
def Cre (e : Expr K) : Prop := e.isLeaf = true ∨ e.isAluE = true

def CreAt (b : BState K) (id : Nat) : Prop := ∃ e, b.nodes[id]? = some e ∧ Cre e

/-- Some member of `l`'s connect class is a leaf or an arithmetic node. -/
def Good (b : BState K) (l : Nat) : Prop := ∃ k, CreAt b k ∧ SC b k l

/-- Prop form of `creatorFor`. -/
def Cr (b : BState K) (i l : Nat) : Prop :=
  ∃ j ej, b.nodes[j]? = some ej ∧ SC b j l ∧ (ej.isLeaf = true ∨ (ej.isAluE = true ∧ j < i))

theorem creatorFor_iff (b : BState K) (i l : Nat) :
    creatorFor b.nodes (Dsu.ofConnects (b.nodes.size + 1) b.connects) (connectFlags b) i l = true ↔
      Cr b i l := by
  unfold creatorFor Cr SC
  rw [List.any_eq_true]
  constructor
  · rintro ⟨j, _, hj⟩
    rw [Bool.and_eq_true] at hj
    cases hn : b.nodes[j]? with
    | none => rw [hn] at hj; exact absurd hj.2 (by simp)
    | some e =>
      rw [hn] at hj
      refine ⟨j, e, hn, hj.1, ?_⟩
      simpa using hj.2
  · rintro ⟨j, e, hn, hs, hk⟩
    have hj : j < b.nodes.size := by
      by_contra hge
      rw [Array.getElem?_eq_none (by omega)] at hn
      cases hn
    refine ⟨j, List.mem_range.mpr hj, ?_⟩
    rw [Bool.and_eq_true, hn]
    exact ⟨hs, by simpa using hk⟩

/-- Both guards, as one statement. -/
def HG (b : BState K) : Prop :=
  ∀ i e l, b.nodes[i]? = some e → (e.bPos b.nodes = some l ∨ e.aPos b.nodes = some l) → Cr b i l

theorem guards_of_HG {b : BState K} (h : HG b) :
    hintsGuarded b = true ∧ operandsGuarded b = true := by
  constructor
  · unfold hintsGuarded
    rw [List.all_eq_true]
    intro i _
    cases hn : b.nodes[i]? with
    | none => rfl
    | some e =>
      dsimp only
      cases hb : e.bPos b.nodes with
      | none => rfl
      | some l => exact (creatorFor_iff b i l).mpr (h i e l hn (Or.inl hb))
  · unfold operandsGuarded
    rw [List.all_eq_true]
    intro i _
    cases hn : b.nodes[i]? with
    | none => rfl
    | some e =>
      dsimp only
      cases hb : e.aPos b.nodes with
      | none => rfl
      | some l => exact (creatorFor_iff b i l).mpr (h i e l hn (Or.inr hb))

theorem HG_of_guards {b : BState K} (h1 : hintsGuarded b = true) (h2 : operandsGuarded b = true) :
    HG b := by
  intro i e l hn hp
  have hi : i < b.nodes.size := by
    by_contra hge
    rw [Array.getElem?_eq_none (by omega)] at hn
    cases hn
  rw [← creatorFor_iff]
  rcases hp with hp | hp
  · unfold hintsGuarded at h1
    rw [List.all_eq_true] at h1
    have := h1 i (List.mem_range.mpr hi)
    rw [hn] at this
    simpa [hp] using this
  · unfold operandsGuarded at h2
    rw [List.all_eq_true] at h2
    have := h2 i (List.mem_range.mpr hi)
    rw [hn] at this
    simpa [hp] using this

/-- `b'` extends `b`: same nodes at the old ids, every class relation kept. -/
structure Ext2 (b b' : BState K) : Prop where
  pre : ∀ (i : Nat) (e : Expr K), b.nodes[i]? = some e → b'.nodes[i]? = some e
  sc : ∀ j l, SC b j l → SC b' j l

theorem Ext2.refl (b : BState K) : Ext2 b b := ⟨fun _ _ h => h, fun _ _ h => h⟩

theorem Ext2.trans {b b' b'' : BState K} (h1 : Ext2 b b') (h2 : Ext2 b' b'') : Ext2 b b'' :=
  ⟨fun i e h => h2.pre i e (h1.pre i e h), fun j l h => h2.sc j l (h1.sc j l h)⟩

theorem Ext2.mono {b b' : BState K} (h : Ext2 b b') : Mono b b' := by
  intro x hx
  obtain ⟨e, he, hne⟩ := proper_spec hx
  exact proper_of_get (h.pre x e he) hne

theorem CreAt.ext {b b' : BState K} {k : Nat} (h : CreAt b k) (hx : Ext2 b b') : CreAt b' k := by
  obtain ⟨e, he, hc⟩ := h
  exact ⟨e, hx.pre k e he, hc⟩

theorem Good.ext {b b' : BState K} {l : Nat} (h : Good b l) (hx : Ext2 b b') : Good b' l := by
  obtain ⟨k, hk, hs⟩ := h
  exact ⟨k, hk.ext hx, hx.sc k l hs⟩

theorem Cr.ext {b b' : BState K} {i l : Nat} (h : Cr b i l) (hx : Ext2 b b') : Cr b' i l := by
  obtain ⟨j, ej, hj, hs, hk⟩ := h
  exact ⟨j, ej, hx.pre j ej hj, hx.sc j l hs, hk⟩

theorem CreAt.good {b : BState K} {k : Nat} (h : CreAt b k) : Good b k := ⟨k, h, SC.refl b k⟩

theorem cre_not_call {e : Expr K} (h : Cre e) : ∀ op ins, e ≠ .npCall op ins := by
  intro op ins heq
  subst heq
  rcases h with h | h <;> simp [Expr.isLeaf, Expr.isAluE] at h

theorem CreAt.proper {b : BState K} {k : Nat} (h : CreAt b k) : proper b.nodes k = true := by
  obtain ⟨e, he, hc⟩ := h
  exact proper_of_get he (cre_not_call hc)

theorem get_lt {nodes : Array (Expr K)} {i : Nat} {e : Expr K} (h : nodes[i]? = some e) :
    i < nodes.size := by
  by_contra hge
  rw [Array.getElem?_eq_none (by omega)] at h
  cases h

/-- The guarded positions read the node array only below the node's children. -/
theorem pos_ext {nodes nodes' : Array (Expr K)} (e : Expr K)
    (hch : ∀ c ∈ e.arithChildren, c < nodes.size)
    (pre : ∀ (i : Nat) (e : Expr K), nodes[i]? = some e → nodes'[i]? = some e) :
    e.bPos nodes' = e.bPos nodes ∧ e.aPos nodes' = e.aPos nodes := by
  have key : ∀ c, c < nodes.size → nodes'[c]? = nodes[c]? := by
    intro c hc
    rw [pre c nodes[c] (Array.getElem?_eq_getElem hc), Array.getElem?_eq_getElem hc]
  cases e with
  | sub l r =>
    have hl := key l (hch l (by simp [Expr.arithChildren]))
    have hr := key r (hch r (by simp [Expr.arithChildren]))
    simp only [Expr.bPos, Expr.aPos, hl, hr, and_self]
  | _ => exact ⟨rfl, rfl⟩

/-- A guarded position is an arithmetic child, or the zero constant (`BoolCheck`). -/
theorem pos_mem {nodes : Array (Expr K)} {e : Expr K} {l : Nat}
    (h : e.bPos nodes = some l ∨ e.aPos nodes = some l) : l ∈ e.arithChildren ∨ l = 0 := by
  cases e with
  | sub a r =>
    simp only [Expr.bPos, Expr.aPos] at h
    simp only [Expr.arithChildren, List.mem_cons, List.not_mem_nil, or_false]
    rcases h with h | h
    · split at h
      · cases h
      · cases h; exact Or.inl (Or.inl rfl)
    · split at h
      · cases h; exact Or.inl (Or.inl rfl)
      · cases h; exact Or.inl (Or.inr rfl)
  | _ =>
    simp only [Expr.bPos, Expr.aPos] at h
    rcases h with h | h <;> (try cases h) <;> simp [Expr.arithChildren]

/-- The invariant; `U` is the set of pending (not yet covered) call outputs. -/
structure InvU (U : Nat → Prop) (b : BState K) : Prop where
  ok : b.Ok
  z : CreAt b 0
  p1 : ∀ p ∈ b.constPool, CreAt b p.2
  p2 : ∀ p ∈ b.cse, CreAt b p.2
  p3 : ∀ p ∈ b.mulAddPool, CreAt b p.2
  p4 : ∀ p ∈ b.hornerPool, CreAt b p.2
  p5 : ∀ p ∈ b.boolPool, CreAt b p.2
  good : ∀ l, proper b.nodes l = true → ¬ U l → Good b l
  g : HG b

theorem InvU.weaken {U U' : Nat → Prop} {b : BState K} (h : InvU U b) (hU : ∀ l, U l → U' l) :
    InvU U' b :=
  { h with good := fun l hl hn => h.good l hl (fun hu => hn (hU l hu)) }

/-- A pending id that is `Good` need not be pending. -/
theorem InvU.drop {U : Nat → Prop} {b : BState K} (h : InvU U b) {x : Nat} (hx : Good b x) :
    InvU (fun l => U l ∧ l ≠ x) b :=
  { h with good := fun l hl hn =>
      if hlx : l = x then hlx ▸ hx else h.good l hl (fun hu => hn ⟨hu, hlx⟩) }


/-! ### The two primitive steps: push one node, append one connect -/

/-- Pushing one node whose guarded operands are `Good`. The new id is a leaf / arithmetic node, a call
node, or becomes pending. -/
theorem InvU.push {U U' : Nat → Prop} {b : BState K} (h : InvU U b) (e : Expr K)
    (hch : ∀ c ∈ e.arithChildren, c < b.nodes.size) (b' : BState K)
    (hn : b'.nodes = b.nodes.push e)
    (h1 : ∀ p ∈ b'.constPool, p ∈ b.constPool ∨ (p.2 = b.nodes.size ∧ Cre e))
    (h2 : ∀ p ∈ b'.cse, p ∈ b.cse ∨ (p.2 = b.nodes.size ∧ Cre e))
    (h3 : ∀ p ∈ b'.mulAddPool, p ∈ b.mulAddPool ∨ (p.2 = b.nodes.size ∧ Cre e))
    (h4 : ∀ p ∈ b'.hornerPool, p ∈ b.hornerPool ∨ (p.2 = b.nodes.size ∧ Cre e))
    (h5 : ∀ p ∈ b'.boolPool, p ∈ b.boolPool ∨ (p.2 = b.nodes.size ∧ Cre e))
    (hconn : b'.connects = b.connects)
    (hpos : ∀ l, (e.bPos b.nodes = some l ∨ e.aPos b.nodes = some l) → Good b l)
    (hU : ∀ l, U l → U' l)
    (hnew : Cre e ∨ U' b.nodes.size ∨ ∃ op ins, e = .npCall op ins) :
    InvU U' b' ∧ Ext2 b b' := by
  have pre : ∀ (i : Nat) (e' : Expr K), b.nodes[i]? = some e' → b'.nodes[i]? = some e' := by
    intro i e' he'
    have hi := get_lt he'
    rw [hn, Array.getElem?_push]
    simp [Nat.ne_of_lt hi, he']
  have ext : Ext2 b b' :=
    ⟨pre, fun j l hs => (SC_push hn hconn (connLt_of_ok h.ok) j l).mpr hs⟩
  have hnewget : b'.nodes[b.nodes.size]? = some e := by rw [hn, Array.getElem?_push]; simp
  have creNew : Cre e → CreAt b' b.nodes.size := fun hc => ⟨e, hnewget, hc⟩
  have propNew : Cre e → proper b'.nodes b.nodes.size = true := fun hc => (creNew hc).proper
  have conv : ∀ {p : Nat}, (p = b.nodes.size ∧ Cre e) → proper b'.nodes p = true := by
    rintro p ⟨rfl, hc⟩; exact propNew hc
  obtain ⟨ok', _⟩ := h.ok.push e hch b' hn
    (fun p hp => (h1 p hp).imp id conv) (fun p hp => (h2 p hp).imp id conv)
    (fun p hp => (h3 p hp).imp id conv) (fun p hp => (h4 p hp).imp id conv)
    (fun p hp => (h5 p hp).imp id conv) hconn
  have pool : ∀ {p : Nat}, (p = b.nodes.size ∧ Cre e) → CreAt b' p := by
    rintro p ⟨rfl, hc⟩; exact creNew hc
  refine ⟨⟨ok', h.z.ext ext, ?_, ?_, ?_, ?_, ?_, ?_, ?_⟩, ext⟩
  · intro p hp; exact (h1 p hp).elim (fun hm => (h.p1 p hm).ext ext) pool
  · intro p hp; exact (h2 p hp).elim (fun hm => (h.p2 p hm).ext ext) pool
  · intro p hp; exact (h3 p hp).elim (fun hm => (h.p3 p hm).ext ext) pool
  · intro p hp; exact (h4 p hp).elim (fun hm => (h.p4 p hm).ext ext) pool
  · intro p hp; exact (h5 p hp).elim (fun hm => (h.p5 p hm).ext ext) pool
  · intro l hl hnu
    have hlt : l < b.nodes.size + 1 := by
      have := proper_lt hl
      rw [hn, Array.size_push] at this
      exact this
    by_cases hls : l = b.nodes.size
    · subst hls
      rcases hnew with hc | hu | ⟨op, ins, rfl⟩
      · exact (creNew hc).good
      · exact absurd hu hnu
      · unfold proper at hl
        rw [hnewget] at hl
        cases hl
    · have hl' : l < b.nodes.size := by omega
      have hold : proper b.nodes l = true := by
        obtain ⟨e', he', hne⟩ := proper_spec hl
        have : b'.nodes[l]? = b.nodes[l]? := by
          rw [hn, Array.getElem?_push]; simp [hls]
        rw [this] at he'
        exact proper_of_get he' hne
      exact (h.good l hold (fun hu => hnu (hU l hu))).ext ext
  · intro i e' l hi hp
    rw [hn, Array.getElem?_push] at hi
    split at hi
    · rename_i his
      cases hi
      obtain ⟨pb, pa⟩ := pos_ext (nodes := b.nodes) (nodes' := b'.nodes) e hch pre
      rw [pb, pa] at hp
      obtain ⟨k, ⟨ek, hk, hck⟩, hs⟩ := hpos l hp
      refine ⟨k, ek, pre k ek hk, ext.sc k l hs, ?_⟩
      rcases hck with hc | hc
      · exact Or.inl hc
      · exact Or.inr ⟨hc, by rw [his]; exact get_lt hk⟩
    · have hch' : ∀ c ∈ e'.arithChildren, c < b.nodes.size := fun c hc =>
        Nat.lt_trans ((dagOk_iff b.nodes).mp h.ok.dagOk i e' hi c hc) (get_lt hi)
      obtain ⟨pb, pa⟩ := pos_ext (nodes := b.nodes) (nodes' := b'.nodes) e' hch' pre
      rw [pb, pa] at hp
      exact (h.g i e' l hi hp).ext ext

section ops
variable [Zero K] [One K] [Add K] [Sub K] [Mul K] [DecidableEq K]

/-- `connect x y`: a pending side leaves the pending set when the other side is `Good`. -/
theorem InvU.connect {U : Nat → Prop} {b : BState K} (h : InvU U b) {x y : Nat}
    (hx : proper b.nodes x = true) (hy : proper b.nodes y = true) :
    InvU (fun l => U l ∧ ¬ (l = x ∧ Good b y) ∧ ¬ (l = y ∧ Good b x)) (b.connect x y) ∧
      Ext2 b (b.connect x y) := by
  by_cases hxy : x = y
  · have hb : b.connect x y = b := by simp [BState.connect, hxy]
    rw [hb]
    refine ⟨{ h with good := ?_ }, Ext2.refl b⟩
    intro l hl hnu
    by_cases hu : U l
    · by_cases c1 : l = x ∧ Good b y
      · rw [c1.1, hxy]; exact c1.2
      · by_cases c2 : l = y ∧ Good b x
        · rw [c2.1, ← hxy]; exact c2.2
        · exact absurd ⟨hu, c1, c2⟩ hnu
    · exact h.good l hl hu
  · have hnodes : (b.connect x y).nodes = b.nodes := by simp [BState.connect, hxy]
    have hconn : (b.connect x y).connects = b.connects ++ [(x, y)] := by
      simp [BState.connect, hxy]
    have hlt := connLt_of_ok h.ok
    have hxl := proper_lt hx
    have hyl := proper_lt hy
    have ext : Ext2 b (b.connect x y) :=
      ⟨fun i e he => by rw [hnodes]; exact he,
       fun j l hs => SC_connect_mono hnodes hconn hlt hxl hyl hs⟩
    have hj : SC (b.connect x y) x y := SC_connect_joined hnodes hconn hlt hxl hyl
    have hp1 : (b.connect x y).constPool = b.constPool := by simp [BState.connect, hxy]
    have hp2 : (b.connect x y).cse = b.cse := by simp [BState.connect, hxy]
    have hp3 : (b.connect x y).mulAddPool = b.mulAddPool := by simp [BState.connect, hxy]
    have hp4 : (b.connect x y).hornerPool = b.hornerPool := by simp [BState.connect, hxy]
    have hp5 : (b.connect x y).boolPool = b.boolPool := by simp [BState.connect, hxy]
    refine ⟨⟨(connect_ok h.ok hx hy).1, h.z.ext ext, ?_, ?_, ?_, ?_, ?_, ?_, ?_⟩, ext⟩
    · intro p hp; rw [hp1] at hp; exact (h.p1 p hp).ext ext
    · intro p hp; rw [hp2] at hp; exact (h.p2 p hp).ext ext
    · intro p hp; rw [hp3] at hp; exact (h.p3 p hp).ext ext
    · intro p hp; rw [hp4] at hp; exact (h.p4 p hp).ext ext
    · intro p hp; rw [hp5] at hp; exact (h.p5 p hp).ext ext
    · intro l hl hnu
      rw [hnodes] at hl
      by_cases hu : U l
      · by_cases c1 : l = x ∧ Good b y
        · obtain ⟨k, hk, hs⟩ := c1.2.ext ext
          rw [c1.1]
          exact ⟨k, hk, hs.trans hj.symm⟩
        · by_cases c2 : l = y ∧ Good b x
          · obtain ⟨k, hk, hs⟩ := c2.2.ext ext
            rw [c2.1]
            exact ⟨k, hk, hs.trans hj⟩
          · exact absurd ⟨hu, c1, c2⟩ hnu
      · exact (h.good l hl hu).ext ext
    · intro i e l hi hp
      rw [hnodes] at hi hp
      exact (h.g i e l hi hp).ext ext


/-! ### The builder operations -/

/-- Guarantee of an id-returning builder operation: the invariant, extension, and a returned id that
carries a value and is `Good`. -/
def ResU (U : Nat → Prop) (b : BState K) (r : BState K × Nat) : Prop :=
  InvU U r.1 ∧ Ext2 b r.1 ∧ proper r.1.nodes r.2 = true ∧ Good r.1 r.2

theorem ResU.same {U : Nat → Prop} {b : BState K} (h : InvU U b) {id : Nat}
    (hid : proper b.nodes id = true) (hg : Good b id) : ResU U b (b, id) :=
  ⟨h, Ext2.refl b, hid, hg⟩

theorem ResU.cre {U : Nat → Prop} {b : BState K} (h : InvU U b) {id : Nat} (hc : CreAt b id) :
    ResU U b (b, id) := ResU.same h hc.proper hc.good

theorem ResU.trans {U : Nat → Prop} {b : BState K} {r r' : BState K × Nat} (h1 : ResU U b r)
    (h2 : ResU U r.1 r') : ResU U b r' := ⟨h2.1, h1.2.1.trans h2.2.1, h2.2.2⟩

theorem nopos_leaf {nodes : Array (Expr K)} {e : Expr K} (h : e.isLeaf = true) (l : Nat) :
    ¬ (e.bPos nodes = some l ∨ e.aPos nodes = some l) := by
  cases e <;> simp [Expr.isLeaf, Expr.bPos, Expr.aPos] at h ⊢

theorem good_of_pos {U : Nat → Prop} {b : BState K} (h : InvU U b) {e : Expr K}
    (hall : ∀ c ∈ e.arithChildren, Good b c) (l : Nat)
    (hl : e.bPos b.nodes = some l ∨ e.aPos b.nodes = some l) : Good b l := by
  rcases pos_mem hl with hm | rfl
  · exact hall l hm
  · exact h.z.good

theorem constVal_cre {b : BState K} {v : Nat} {c : K} (h : b.constVal? v = some c) : CreAt b v := by
  unfold BState.constVal? at h
  split at h
  · rename_i c' hn
    exact ⟨_, hn, Or.inl rfl⟩
  · cases h

theorem isZero_cre {b : BState K} {v : Nat} (h : b.isZero v = true) : CreAt b v := by
  unfold BState.isZero at h
  split at h
  · rename_i c hc; exact constVal_cre hc
  · cases h

theorem isOne_cre {b : BState K} {v : Nat} (h : b.isOne v = true) : CreAt b v := by
  unfold BState.isOne at h
  split at h
  · rename_i c hc; exact constVal_cre hc
  · cases h

theorem creAt_new {b' : BState K} {nodes : Array (Expr K)} {e : Expr K}
    (hn : b'.nodes = nodes.push e) (hc : Cre e) : CreAt b' nodes.size :=
  ⟨e, by rw [hn]; simp, hc⟩

theorem defineConst_inv {U : Nat → Prop} {b : BState K} (h : InvU U b) (v : K) :
    ResU U b (b.defineConst v) := by
  unfold BState.defineConst
  split
  · rename_i id hl
    exact ResU.cre h (h.p1 _ (lookup_mem hl))
  · have hc : Cre (Expr.const v : Expr K) := Or.inl rfl
    obtain ⟨inv, ext⟩ := h.push (U' := U) (Expr.const v) (by simp [Expr.arithChildren])
      { b with nodes := b.nodes.push (Expr.const v),
               constPool := (v, b.nodes.size) :: b.constPool } rfl
      (by
        intro p hp
        rcases List.mem_cons.mp hp with rfl | hp
        · exact Or.inr ⟨rfl, hc⟩
        · exact Or.inl hp)
      (fun _ h => Or.inl h) (fun _ h => Or.inl h) (fun _ h => Or.inl h) (fun _ h => Or.inl h) rfl
      (fun l hl => absurd hl (nopos_leaf rfl l)) (fun _ h => h) (Or.inl hc)
    exact ⟨inv, ext, (creAt_new rfl hc).proper, (creAt_new rfl hc).good⟩

theorem allocPublic_inv {U : Nat → Prop} {b : BState K} (h : InvU U b) : ResU U b b.allocPublic := by
  have hc : Cre (Expr.pub b.pubCount : Expr K) := Or.inl rfl
  obtain ⟨inv, ext⟩ := h.push (U' := U) (Expr.pub b.pubCount) (by simp [Expr.arithChildren])
    b.allocPublic.1 rfl (fun _ h => Or.inl h)
    (fun _ h => Or.inl h) (fun _ h => Or.inl h) (fun _ h => Or.inl h) (fun _ h => Or.inl h) rfl
    (fun l hl => absurd hl (nopos_leaf rfl l)) (fun _ h => h) (Or.inl hc)
  have hnew : CreAt b.allocPublic.1 b.nodes.size :=
    ⟨Expr.pub b.pubCount, by simp [BState.allocPublic, BState.push], hc⟩
  exact ⟨inv, ext, hnew.proper, hnew.good⟩

theorem allocPrivate_inv {U : Nat → Prop} {b : BState K} (h : InvU U b) :
    ResU U b b.allocPrivate := by
  have hc : Cre (Expr.priv b.privCount : Expr K) := Or.inl rfl
  obtain ⟨inv, ext⟩ := h.push (U' := U) (Expr.priv b.privCount) (by simp [Expr.arithChildren])
    b.allocPrivate.1 rfl (fun _ h => Or.inl h)
    (fun _ h => Or.inl h) (fun _ h => Or.inl h) (fun _ h => Or.inl h) (fun _ h => Or.inl h) rfl
    (fun l hl => absurd hl (nopos_leaf rfl l)) (fun _ h => h) (Or.inl hc)
  have hnew : CreAt b.allocPrivate.1 b.nodes.size :=
    ⟨Expr.priv b.privCount, by simp [BState.allocPrivate, BState.push], hc⟩
  exact ⟨inv, ext, hnew.proper, hnew.good⟩

theorem cseOrPush_inv {U : Nat → Prop} {b : BState K} (h : InvU U b) (key : BinKind × Nat × Nat)
    (e : Expr K) (hc : e.isAluE = true) (hch : ∀ c ∈ e.arithChildren, c < b.nodes.size)
    (hpos : ∀ l, (e.bPos b.nodes = some l ∨ e.aPos b.nodes = some l) → Good b l) :
    ResU U b (b.cseOrPush key e) := by
  unfold BState.cseOrPush
  split
  · rename_i id hl
    exact ResU.cre h (h.p2 _ (lookup_mem hl))
  · have hc' : Cre e := Or.inr hc
    obtain ⟨inv, ext⟩ := h.push (U' := U) e hch
      { b with nodes := b.nodes.push e, cse := (key, b.nodes.size) :: b.cse } rfl
      (fun _ h => Or.inl h)
      (by
        intro p hp
        rcases List.mem_cons.mp hp with rfl | hp
        · exact Or.inr ⟨rfl, hc'⟩
        · exact Or.inl hp)
      (fun _ h => Or.inl h) (fun _ h => Or.inl h) (fun _ h => Or.inl h) rfl
      hpos (fun _ h => h) (Or.inl hc')
    exact ⟨inv, ext, (creAt_new rfl hc').proper, (creAt_new rfl hc').good⟩

theorem add_inv {U : Nat → Prop} {b : BState K} (h : InvU U b) {l r : Nat}
    (hl : proper b.nodes l = true) (hr : proper b.nodes r = true) (gl : Good b l) (gr : Good b r) :
    ResU U b (b.add l r) := by
  unfold BState.add
  split
  · exact ResU.same h hr gr
  · split
    · exact ResU.same h hl gl
    · split
      · exact defineConst_inv h _
      · exact cseOrPush_inv h _ _ rfl
          (by simp [Expr.arithChildren, proper_lt hl, proper_lt hr])
          (good_of_pos h (by simp [Expr.arithChildren, gl, gr]))

theorem sub_inv {U : Nat → Prop} {b : BState K} (h : InvU U b) {l r : Nat}
    (hl : proper b.nodes l = true) (hr : proper b.nodes r = true) (gl : Good b l) (gr : Good b r) :
    ResU U b (b.sub l r) := by
  unfold BState.sub
  split
  · exact ResU.same h hl gl
  · split
    · exact ResU.cre h h.z
    · split
      · exact defineConst_inv h _
      · exact cseOrPush_inv h _ _ rfl
          (by simp [Expr.arithChildren, proper_lt hl, proper_lt hr])
          (good_of_pos h (by simp [Expr.arithChildren, gl, gr]))

theorem mul_inv {U : Nat → Prop} {b : BState K} (h : InvU U b) {l r : Nat}
    (hl : proper b.nodes l = true) (hr : proper b.nodes r = true) (gl : Good b l) (gr : Good b r) :
    ResU U b (b.mul l r) := by
  unfold BState.mul
  split
  · exact ResU.cre h h.z
  · split
    · exact ResU.same h hr gr
    · split
      · exact ResU.same h hl gl
      · split
        · exact defineConst_inv h _
        · exact cseOrPush_inv h _ _ rfl
            (by simp [Expr.arithChildren, proper_lt hl, proper_lt hr])
            (good_of_pos h (by simp [Expr.arithChildren, gl, gr]))

theorem div_inv {U : Nat → Prop} {b : BState K} (h : InvU U b) {l r : Nat}
    (hl : proper b.nodes l = true) (hr : proper b.nodes r = true) (gl : Good b l) (gr : Good b r) :
    ResU U b (b.div l r) := by
  unfold BState.div
  split
  · exact ResU.same h hl gl
  · split
    · exact ResU.cre h h.z
    · split
      · exact defineConst_inv h _
      · exact cseOrPush_inv h _ _ rfl
          (by simp [Expr.arithChildren, proper_lt hl, proper_lt hr])
          (good_of_pos h (by simp [Expr.arithChildren, gl, gr]))

/-- `add_horner_acc`: only `alpha` sits in a guarded column (`b`). -/
theorem horner_inv {U : Nat → Prop} {b : BState K} (h : InvU U b) {acc al pz px : Nat}
    (h1 : proper b.nodes acc = true) (h2 : proper b.nodes al = true)
    (h3 : proper b.nodes pz = true) (h4 : proper b.nodes px = true) (gal : Good b al) :
    ResU U b (b.horner acc al pz px) := by
  unfold BState.horner
  split
  · exact defineConst_inv h _
  · split
    · rename_i id hl
      exact ResU.cre h (h.p4 _ (lookup_mem hl))
    · have hc : Cre (Expr.horner acc al pz px : Expr K) := Or.inr rfl
      obtain ⟨inv, ext⟩ := h.push (U' := U) (Expr.horner acc al pz px)
        (by simp [Expr.arithChildren, proper_lt h1, proper_lt h2, proper_lt h3, proper_lt h4])
        { b with nodes := b.nodes.push (Expr.horner acc al pz px),
                 hornerPool := ((acc, al, pz, px), b.nodes.size) :: b.hornerPool } rfl
        (fun _ h => Or.inl h) (fun _ h => Or.inl h) (fun _ h => Or.inl h)
        (by
          intro p hp
          rcases List.mem_cons.mp hp with rfl | hp
          · exact Or.inr ⟨rfl, hc⟩
          · exact Or.inl hp)
        (fun _ h => Or.inl h) rfl
        (by
          intro l hl
          simp only [Expr.bPos, Expr.aPos, Option.some.injEq, reduceCtorEq, or_false] at hl
          subst hl; exact gal)
        (fun _ h => h) (Or.inl hc)
      exact ⟨inv, ext, (creAt_new rfl hc).proper, (creAt_new rfl hc).good⟩

/-- `add_bool_check`: the operand sits in the `a` column of a `BoolCheck` row (unguarded). -/
theorem boolCheck_inv {U : Nat → Prop} {b : BState K} (h : InvU U b) {v : Nat}
    (hv : proper b.nodes v = true) : ResU U b (b.boolCheck v) := by
  unfold BState.boolCheck
  split
  · rename_i hz
    rw [Bool.or_eq_true] at hz
    exact ResU.cre h (hz.elim isZero_cre isOne_cre)
  · split
    · rename_i id hl
      exact ResU.cre h (h.p5 _ (lookup_mem hl))
    · have hc : Cre (Expr.boolCheck v : Expr K) := Or.inr rfl
      obtain ⟨inv, ext⟩ := h.push (U' := U) (Expr.boolCheck v) (by simp [Expr.arithChildren])
        { b with nodes := b.nodes.push (Expr.boolCheck v),
                 boolPool := (v, b.nodes.size) :: b.boolPool } rfl
        (fun _ h => Or.inl h) (fun _ h => Or.inl h) (fun _ h => Or.inl h) (fun _ h => Or.inl h)
        (by
          intro p hp
          rcases List.mem_cons.mp hp with rfl | hp
          · exact Or.inr ⟨rfl, hc⟩
          · exact Or.inl hp)
        rfl
        (by
          intro l hl
          simp only [Expr.bPos, Expr.aPos, Option.some.injEq, reduceCtorEq, or_false] at hl
          subst hl; exact h.z.good)
        (fun _ h => h) (Or.inl hc)
      exact ⟨inv, ext, (creAt_new rfl hc).proper, (creAt_new rfl hc).good⟩

/-- `add_mul_add`: only `y` sits in a guarded column (`b`); `x` (`a` of a `MulAdd` row) and the addend
(`c`) are unguarded. -/
theorem mulAdd_inv {U : Nat → Prop} {b : BState K} (h : InvU U b) {x y z : Nat}
    (h1 : proper b.nodes x = true) (h2 : proper b.nodes y = true) (h3 : proper b.nodes z = true)
    (gy : Good b y) : ResU U b (b.mulAdd x y z) := by
  unfold BState.mulAdd
  split
  · exact defineConst_inv h _
  · split
    · rename_i id hl
      exact ResU.cre h (h.p3 _ (lookup_mem hl))
    · have hc : Cre (Expr.mulAdd x y z : Expr K) := Or.inr rfl
      obtain ⟨inv, ext⟩ := h.push (U' := U) (Expr.mulAdd x y z)
        (by simp [Expr.arithChildren, proper_lt h1, proper_lt h2, proper_lt h3])
        { b with nodes := b.nodes.push (Expr.mulAdd x y z),
                 mulAddPool := (mulAddKey x y z, b.nodes.size) :: b.mulAddPool } rfl
        (fun _ h => Or.inl h) (fun _ h => Or.inl h)
        (by
          intro p hp
          rcases List.mem_cons.mp hp with rfl | hp
          · exact Or.inr ⟨rfl, hc⟩
          · exact Or.inl hp)
        (fun _ h => Or.inl h) (fun _ h => Or.inl h) rfl
        (by
          intro l hl
          simp only [Expr.bPos, Expr.aPos, Option.some.injEq, reduceCtorEq, or_false] at hl
          subst hl; exact gy)
        (fun _ h => h) (Or.inl hc)
      exact ⟨inv, ext, (creAt_new rfl hc).proper, (creAt_new rfl hc).good⟩

/-- `assert_bool x`: `x` is connected to its `BoolCheck` node and leaves the pending set. -/
theorem assertBool_inv {U : Nat → Prop} {b : BState K} (h : InvU U b) {x : Nat}
    (hx : proper b.nodes x = true) :
    InvU (fun l => U l ∧ l ≠ x) (b.assertBool x) ∧ Ext2 b (b.assertBool x) := by
  unfold BState.assertBool
  obtain ⟨i1, e1, pr, gd⟩ := boolCheck_inv h hx
  obtain ⟨i2, e2⟩ := i1.connect (e1.mono x hx) pr
  exact ⟨i2.weaken (fun l hl => ⟨hl.1, fun hlx => hl.2.1 ⟨hlx, gd⟩⟩), e1.trans e2⟩


/-- `select(c, t, f)`: the condition only enters the `a` column of a `MulAdd` row (unguarded). -/
theorem select_inv {U : Nat → Prop} {b : BState K} (h : InvU U b) {c t f : Nat}
    (hc : proper b.nodes c = true) (ht : proper b.nodes t = true) (hf : proper b.nodes f = true)
    (gt : Good b t) (gf : Good b f) : ResU U b (b.select c t f) := by
  unfold BState.select
  split
  · exact ResU.same h hf gf
  · split
    · exact ResU.same h hf gf
    · split
      · exact ResU.same h ht gt
      · have r1 := sub_inv h ht hf gt gf
        exact r1.trans (mulAdd_inv r1.1 (r1.2.1.mono c hc) r1.2.2.1 (r1.2.1.mono f hf) r1.2.2.2)

/-- Folding an id-returning operation over a list. -/
theorem foldl_resU {U : Nat → Prop} {α : Type} (f : BState K × Nat → α → BState K × Nat)
    (P : α → BState K → Prop) (hP : ∀ a b b', Ext2 b b' → P a b → P a b')
    (hf : ∀ acc a, InvU U acc.1 → proper acc.1.nodes acc.2 = true → Good acc.1 acc.2 → P a acc.1 →
      ResU U acc.1 (f acc a)) :
    ∀ (xs : List α) (acc : BState K × Nat), (∀ a ∈ xs, P a acc.1) → InvU U acc.1 →
      proper acc.1.nodes acc.2 = true → Good acc.1 acc.2 → ResU U acc.1 (xs.foldl f acc) := by
  intro xs
  induction xs with
  | nil => intro acc _ inv hid hg; exact ⟨inv, Ext2.refl _, hid, hg⟩
  | cons a rest ih =>
    intro acc hall inv hid hg
    simp only [List.foldl_cons]
    have r1 := hf acc a inv hid hg (hall a (List.mem_cons_self ..))
    have r2 := ih (f acc a) (fun a' ha' => hP a' _ _ r1.2.1 (hall a' (List.mem_cons_of_mem _ ha')))
      r1.1 r1.2.2.1 r1.2.2.2
    exact r1.trans r2

theorem mulMany_inv {U : Nat → Prop} {b : BState K} (h : InvU U b) {xs : List Nat}
    (hxs : ∀ x ∈ xs, proper b.nodes x = true ∧ Good b x) : ResU U b (b.mulMany xs) := by
  unfold BState.mulMany
  cases xs with
  | nil => exact defineConst_inv h _
  | cons x rest =>
    exact foldl_resU (fun (acc : BState K × Nat) y => acc.1.mul acc.2 y)
      (fun y b => proper b.nodes y = true ∧ Good b y) (fun _ _ _ m h => ⟨m.mono _ h.1, h.2.ext m⟩)
      (fun acc y inv hid hg hy => mul_inv inv hid hy.1 hg hy.2) rest (b, x)
      (fun y hy => hxs y (List.mem_cons_of_mem _ hy)) h (hxs x (List.mem_cons_self ..)).1
      (hxs x (List.mem_cons_self ..)).2

/-- `inner_product`: `Σ xᵢ·yᵢ` as a `MulAdd` chain — the `yᵢ` sit in the `b` column. -/
theorem innerProduct_inv {U : Nat → Prop} {b : BState K} (h : InvU U b) {xs ys : List Nat}
    (hxs : ∀ x ∈ xs, proper b.nodes x = true)
    (hys : ∀ y ∈ ys, proper b.nodes y = true ∧ Good b y) : ResU U b (b.innerProduct xs ys) := by
  unfold BState.innerProduct
  have r0 := defineConst_inv h (0 : K)
  refine r0.trans ?_
  exact foldl_resU (fun (acc : BState K × Nat) (xy : Nat × Nat) => acc.1.mulAdd xy.1 xy.2 acc.2)
    (fun xy b => proper b.nodes xy.1 = true ∧ proper b.nodes xy.2 = true ∧ Good b xy.2)
    (fun _ _ _ m h => ⟨m.mono _ h.1, m.mono _ h.2.1, h.2.2.ext m⟩)
    (fun acc xy inv hid _ hxy => mulAdd_inv inv hxy.1 hxy.2.1 hid hxy.2.2) (xs.zip ys)
    (b.defineConst 0)
    (fun xy hxy => ⟨r0.2.1.mono _ (hxs _ (List.of_mem_zip hxy).1),
      r0.2.1.mono _ (hys _ (List.of_mem_zip hxy).2).1, (hys _ (List.of_mem_zip hxy).2).2.ext r0.2.1⟩)
    r0.1 r0.2.2.1 r0.2.2.2

theorem expPow2_inv {U : Nat → Prop} {b : BState K} (h : InvU U b) {base : Nat}
    (hb : proper b.nodes base = true) (gb : Good b base) (k : Nat) :
    ResU U b (b.expPow2 base k) := by
  unfold BState.expPow2
  exact foldl_resU (fun (acc : BState K × Nat) (_ : Nat) => acc.1.mul acc.2 acc.2)
    (fun _ _ => True) (fun _ _ _ _ _ => trivial)
    (fun acc _ inv hid hg _ => mul_inv inv hid hid hg hg) (List.range k) (b, base)
    (fun _ _ => trivial) h hb gb

/-! ### Calls: `push_non_primitive_op_with_outputs`, `reconstruct_index_from_bits`, `decompose_to_bits` -/

/-- The invariant reads the nodes, the connects and the pools only. -/
theorem InvU.of_eq {U : Nat → Prop} {b b' : BState K} (h : InvU U b) (hn : b'.nodes = b.nodes)
    (hc : b'.connects = b.connects) (h1 : b'.constPool = b.constPool) (h2 : b'.cse = b.cse)
    (h3 : b'.mulAddPool = b.mulAddPool) (h4 : b'.hornerPool = b.hornerPool)
    (h5 : b'.boolPool = b.boolPool) : InvU U b' ∧ Ext2 b b' := by
  have hsc : ∀ j l, SC b' j l ↔ SC b j l := by
    intro j l
    unfold SC
    rw [connectFlags_eq, connectFlags_eq, hn, hc]
  have ext : Ext2 b b' := ⟨fun i e he => by rw [hn]; exact he, fun j l hs => (hsc j l).mpr hs⟩
  have ok' : b'.Ok := by
    have := h.ok
    unfold BState.Ok at this ⊢
    rw [hn, hc, h1, h2, h3, h4, h5]
    exact this
  refine ⟨⟨ok', h.z.ext ext, ?_, ?_, ?_, ?_, ?_, ?_, ?_⟩, ext⟩
  · intro p hp; rw [h1] at hp; exact (h.p1 p hp).ext ext
  · intro p hp; rw [h2] at hp; exact (h.p2 p hp).ext ext
  · intro p hp; rw [h3] at hp; exact (h.p3 p hp).ext ext
  · intro p hp; rw [h4] at hp; exact (h.p4 p hp).ext ext
  · intro p hp; rw [h5] at hp; exact (h.p5 p hp).ext ext
  · intro l hl hnu
    rw [hn] at hl
    exact (h.good l hl hnu).ext ext
  · intro i e l hi hp
    rw [hn] at hi hp
    exact (h.g i e l hi hp).ext ext

theorem InvU.setNpOps {U : Nat → Prop} {b : BState K} (h : InvU U b) (ops : Array NpData) :
    InvU U ({ b with npOps := ops } : BState K) ∧ Ext2 b ({ b with npOps := ops } : BState K) :=
  h.of_eq rfl rfl rfl rfl rfl rfl rfl

/-- The output loop of `pushNp`. -/
def pushOuts (call : Nat) (idxs : List Nat) (acc : BState K × List Nat) : BState K × List Nat :=
  idxs.foldl (fun (acc : BState K × List Nat) i =>
    (({ acc.1 with nodes := acc.1.nodes.push (Expr.npOut call i) } : BState K),
      acc.2 ++ [acc.1.nodes.size])) acc

theorem pushNp_eq (b : BState K) (kind : NpKind) (ins : List (List Nat)) (nOut : Nat) :
    b.pushNp kind ins nOut =
      (({ (pushOuts b.nodes.size (List.range nOut)
            (({ b with nodes := b.nodes.push (Expr.npCall b.npOps.size ins.flatten) } : BState K),
              [])).1 with
          npOps := (pushOuts b.nodes.size (List.range nOut)
            (({ b with nodes := b.nodes.push (Expr.npCall b.npOps.size ins.flatten) } : BState K),
              [])).1.npOps.push
              { kind := kind, ins := ins,
                outs := (pushOuts b.nodes.size (List.range nOut)
                  (({ b with nodes := b.nodes.push (Expr.npCall b.npOps.size ins.flatten) } :
                    BState K), [])).2.map fun o => [o] } } : BState K),
       (pushOuts b.nodes.size (List.range nOut)
          (({ b with nodes := b.nodes.push (Expr.npCall b.npOps.size ins.flatten) } : BState K),
            [])).2) := rfl

theorem pushOuts_inv (call : Nat) : ∀ (idxs : List Nat) (acc : BState K × List Nat)
    (U : Nat → Prop), InvU (fun l => U l ∨ l ∈ acc.2) acc.1 →
    (∀ o ∈ acc.2, proper acc.1.nodes o = true) →
    InvU (fun l => U l ∨ l ∈ (pushOuts call idxs acc).2) (pushOuts call idxs acc).1 ∧
      Ext2 acc.1 (pushOuts call idxs acc).1 ∧
      ∀ o ∈ (pushOuts call idxs acc).2, proper (pushOuts call idxs acc).1.nodes o = true := by
  intro idxs
  induction idxs with
  | nil => intro acc U inv hall; exact ⟨inv, Ext2.refl _, hall⟩
  | cons i rest ih =>
    intro acc U inv hall
    simp only [pushOuts, List.foldl_cons]
    obtain ⟨inv', ext'⟩ := inv.push (U' := fun l => U l ∨ l ∈ acc.2 ++ [acc.1.nodes.size])
      (Expr.npOut call i) (by simp [Expr.arithChildren])
      ({ acc.1 with nodes := acc.1.nodes.push (Expr.npOut call i) } : BState K) rfl
      (fun _ h => Or.inl h) (fun _ h => Or.inl h) (fun _ h => Or.inl h) (fun _ h => Or.inl h)
      (fun _ h => Or.inl h) rfl
      (by intro l hl; simp [Expr.bPos, Expr.aPos] at hl)
      (by
        intro l hl
        rcases hl with hl | hl
        · exact Or.inl hl
        · exact Or.inr (List.mem_append_left _ hl))
      (Or.inr (Or.inl (Or.inr (by simp))))
    have hnew : proper (acc.1.nodes.push (Expr.npOut call i)) acc.1.nodes.size = true :=
      proper_push_new _ (fun _ _ h => by cases h)
    obtain ⟨i2, e2, a2⟩ := ih
      (({ acc.1 with nodes := acc.1.nodes.push (Expr.npOut call i) } : BState K),
        acc.2 ++ [acc.1.nodes.size]) U inv'
      (by
        intro o ho
        rcases List.mem_append.mp ho with ho | ho
        · exact ext'.mono o (hall o ho)
        · have : o = acc.1.nodes.size := by simpa using ho
          subst this
          exact hnew)
    exact ⟨i2, ext'.trans e2, a2⟩

/-- `push_non_primitive_op_with_outputs`: every output becomes pending. -/
theorem pushNp_inv {U : Nat → Prop} {b : BState K} (h : InvU U b) (kind : NpKind)
    (ins : List (List Nat)) (nOut : Nat) :
    InvU (fun l => U l ∨ l ∈ (b.pushNp kind ins nOut).2) (b.pushNp kind ins nOut).1 ∧
      Ext2 b (b.pushNp kind ins nOut).1 ∧
      ∀ o ∈ (b.pushNp kind ins nOut).2, proper (b.pushNp kind ins nOut).1.nodes o = true := by
  rw [pushNp_eq]
  obtain ⟨inv1, ext1⟩ := h.push (U' := fun l => U l ∨ l ∈ ([] : List Nat))
    (Expr.npCall b.npOps.size ins.flatten) (by simp [Expr.arithChildren])
    ({ b with nodes := b.nodes.push (Expr.npCall b.npOps.size ins.flatten) } : BState K) rfl
    (fun _ h => Or.inl h) (fun _ h => Or.inl h) (fun _ h => Or.inl h) (fun _ h => Or.inl h)
    (fun _ h => Or.inl h) rfl
    (by intro l hl; simp [Expr.bPos, Expr.aPos] at hl)
    (fun l hl => Or.inl hl) (Or.inr (Or.inr ⟨_, _, rfl⟩))
  obtain ⟨i2, e2, a2⟩ := pushOuts_inv b.nodes.size (List.range nOut)
    (({ b with nodes := b.nodes.push (Expr.npCall b.npOps.size ins.flatten) } : BState K), [])
    U inv1 (fun _ h => nomatch h)
  exact ⟨(i2.setNpOps _).1, (ext1.trans e2).trans (i2.setNpOps _).2, a2⟩


/-- The loop of `reconstruct_index_from_bits`: each bit is asserted boolean (leaves the pending set) and
then enters the `a` column of a `MulAdd` row whose `b` is the constant `2^i`. -/
theorem reconLoop_inv (pow2 : Nat → K) : ∀ (xs : List (Nat × Nat)) (acc : BState K × Nat)
    (U : Nat → Prop), InvU (fun l => U l ∨ l ∈ xs.map (·.1)) acc.1 →
    (∀ a ∈ xs, proper acc.1.nodes a.1 = true) → proper acc.1.nodes acc.2 = true →
    Good acc.1 acc.2 →
    ResU U acc.1 (xs.foldl (fun (acc : BState K × Nat) (bi : Nat × Nat) =>
      let (st, p2) := acc.1.defineConst (pow2 bi.2)
      let st := st.assertBool bi.1
      st.mulAdd bi.1 p2 acc.2) acc) := by
  intro xs
  induction xs with
  | nil =>
    intro acc U inv _ hid hg
    exact ⟨inv.weaken (fun l hl => hl.elim id (fun h => nomatch h)), Ext2.refl _, hid, hg⟩
  | cons bi rest ih =>
    intro acc U inv hall hid hg
    simp only [List.foldl_cons]
    have hbit := hall bi (List.mem_cons_self ..)
    have r1 := defineConst_inv inv (pow2 bi.2)
    cases hd : acc.1.defineConst (pow2 bi.2) with
    | mk st p2 =>
      rw [hd] at r1
      simp only
      obtain ⟨i1, e1, pr1, g1⟩ := r1
      simp only at i1 e1 pr1 g1
      obtain ⟨i2, e2⟩ := assertBool_inv i1 (e1.mono _ hbit)
      have i2' : InvU (fun l => U l ∨ l ∈ rest.map (·.1)) (st.assertBool bi.1) := by
        refine i2.weaken ?_
        rintro l ⟨hl | hl, hne⟩
        · exact Or.inl hl
        · rcases List.mem_cons.mp hl with hl | hl
          · exact absurd hl hne
          · exact Or.inr hl
      have r3 := mulAdd_inv i2' (e2.mono _ (e1.mono _ hbit)) (e2.mono _ pr1)
        (e2.mono _ (e1.mono _ hid)) (g1.ext e2)
      have r4 := ih ((st.assertBool bi.1).mulAdd bi.1 p2 acc.2) U r3.1
        (fun a ha => r3.2.1.mono _ (e2.mono _ (e1.mono _ (hall a (List.mem_cons_of_mem _ ha)))))
        r3.2.2.1 r3.2.2.2
      exact ⟨r4.1, ((e1.trans e2).trans r3.2.1).trans r4.2.1, r4.2.2⟩

/-- `reconstruct_index_from_bits`: the bits may be pending; they are not afterwards. -/
theorem reconstructBits_inv {U : Nat → Prop} {b : BState K} (pow2 : Nat → K) {bits : List Nat}
    (h : InvU (fun l => U l ∨ l ∈ bits) b) (hbits : ∀ x ∈ bits, proper b.nodes x = true) :
    ResU U b (b.reconstructBits pow2 bits) := by
  unfold BState.reconstructBits
  have r0 := defineConst_inv h (0 : K)
  have := reconLoop_inv pow2 bits.zipIdx (b.defineConst 0) U
    (by rw [List.zipIdx_map_fst]; exact r0.1)
    (by
      intro bi hbi
      have : bi.1 ∈ bits := by
        obtain ⟨x, i⟩ := bi
        exact (List.mem_zipIdx hbi).2.2 ▸ List.getElem_mem _
      exact r0.2.1.mono _ (hbits _ this))
    r0.2.2.1 r0.2.2.2
  exact ⟨this.1, r0.2.1.trans this.2.1, this.2.2⟩

/-- `decompose_to_bits`: the hint outputs are pending only inside the call. -/
theorem decomposeToBits_inv {U : Nat → Prop} {b : BState K} (h : InvU U b) (pow2 : Nat → K)
    {x : Nat} (hx : proper b.nodes x = true) (n : Nat) :
    InvU U (b.decomposeToBits pow2 x n).1 ∧ Ext2 b (b.decomposeToBits pow2 x n).1 ∧
    ∀ o ∈ (b.decomposeToBits pow2 x n).2, proper (b.decomposeToBits pow2 x n).1.nodes o = true := by
  unfold BState.decomposeToBits
  obtain ⟨i1, e1, hbits⟩ := pushNp_inv h .hintBits [[x]] n
  cases hp : b.pushNp .hintBits [[x]] n with
  | mk s1 bits =>
    rw [hp] at i1 e1 hbits
    simp only at i1 e1 hbits ⊢
    have r2 := reconstructBits_inv pow2 i1 hbits
    cases hr : s1.reconstructBits pow2 bits with
    | mk s2 rec =>
      rw [hr] at r2
      simp only
      obtain ⟨i2, e2, pr2, _⟩ := r2
      simp only at i2 e2 pr2
      obtain ⟨i3, e3⟩ := i2.connect (e2.mono _ (e1.mono _ hx)) pr2
      exact ⟨i3.weaken (fun l hl => hl.1), (e1.trans e2).trans e3,
        fun o ho => e3.mono _ (e2.mono _ (hbits o ho))⟩

/-! ### Reachable builder states -/

theorem init_inv : InvU (fun _ => False) (BState.init : BState K) := by
  have hz : CreAt (BState.init : BState K) 0 := ⟨Expr.const 0, by simp [BState.init], Or.inl rfl⟩
  refine ⟨init_ok, hz, ?_, ?_, ?_, ?_, ?_, ?_, ?_⟩
  · intro p hp
    have : p = ((0 : K), 0) := by simpa [BState.init] using hp
    subst this; exact hz
  · intro p hp; simp [BState.init] at hp
  · intro p hp; simp [BState.init] at hp
  · intro p hp; simp [BState.init] at hp
  · intro p hp; simp [BState.init] at hp
  · intro l hl _
    have : l < 1 := by have := proper_lt hl; simpa [BState.init] using this
    have : l = 0 := by omega
    subst this; exact hz.good
  · intro i e l hi hp
    have hlt : i < 1 := by have := get_lt hi; simpa [BState.init] using this
    have : i = 0 := by omega
    subst this
    have : e = Expr.const 0 := by simpa [BState.init] using hi.symm
    subst this
    exact absurd hp (nopos_leaf rfl l)

/-- The driver's `properId` (flag `r=` of the `defuse` line) is `C02T.proper`. -/
theorem properId_eq (nodes : Array (Expr K)) (x : Nat) : properId nodes x = proper nodes x := rfl

/-- Builder states reachable through the builder API of `Model/Builder.lean` WITHOUT the raw
`push_non_primitive_op_with_outputs` (`C02T.Reachable` minus its `pushNp` constructor): `define_const`,
`alloc_public_input`, `alloc_private_input`, `add`, `sub`, `mul`, `div`, `add_horner_acc`,
`add_bool_check`, `add_mul_add`, `connect`, `assert_zero`, `assert_bool`, `select`, `mul_many`,
`inner_product`, `exp_power_of_2`, `reconstruct_index_from_bits`, `decompose_to_bits` — every id
argument being an id the builder handed out for a value. -/
inductive ReachablePrim : BState K → Prop
  | init : ReachablePrim BState.init
  | defineConst {b} (h : ReachablePrim b) (v : K) : ReachablePrim (b.defineConst v).1
  | allocPublic {b} (h : ReachablePrim b) : ReachablePrim b.allocPublic.1
  | allocPrivate {b} (h : ReachablePrim b) : ReachablePrim b.allocPrivate.1
  | add {b} (h : ReachablePrim b) {l r : Nat} (hl : proper b.nodes l = true)
      (hr : proper b.nodes r = true) : ReachablePrim (b.add l r).1
  | sub {b} (h : ReachablePrim b) {l r : Nat} (hl : proper b.nodes l = true)
      (hr : proper b.nodes r = true) : ReachablePrim (b.sub l r).1
  | mul {b} (h : ReachablePrim b) {l r : Nat} (hl : proper b.nodes l = true)
      (hr : proper b.nodes r = true) : ReachablePrim (b.mul l r).1
  | div {b} (h : ReachablePrim b) {l r : Nat} (hl : proper b.nodes l = true)
      (hr : proper b.nodes r = true) : ReachablePrim (b.div l r).1
  | horner {b} (h : ReachablePrim b) {acc al pz px : Nat} (h1 : proper b.nodes acc = true)
      (h2 : proper b.nodes al = true) (h3 : proper b.nodes pz = true)
      (h4 : proper b.nodes px = true) : ReachablePrim (b.horner acc al pz px).1
  | boolCheck {b} (h : ReachablePrim b) {v : Nat} (hv : proper b.nodes v = true) :
      ReachablePrim (b.boolCheck v).1
  | mulAdd {b} (h : ReachablePrim b) {x y z : Nat} (h1 : proper b.nodes x = true)
      (h2 : proper b.nodes y = true) (h3 : proper b.nodes z = true) :
      ReachablePrim (b.mulAdd x y z).1
  | connect {b} (h : ReachablePrim b) {x y : Nat} (hx : proper b.nodes x = true)
      (hy : proper b.nodes y = true) : ReachablePrim (b.connect x y)
  | assertZero {b} (h : ReachablePrim b) {x : Nat} (hx : proper b.nodes x = true) :
      ReachablePrim (b.assertZero x)
  | assertBool {b} (h : ReachablePrim b) {x : Nat} (hx : proper b.nodes x = true) :
      ReachablePrim (b.assertBool x)
  | select {b} (h : ReachablePrim b) {c t f : Nat} (hc : proper b.nodes c = true)
      (ht : proper b.nodes t = true) (hf : proper b.nodes f = true) :
      ReachablePrim (b.select c t f).1
  | mulMany {b} (h : ReachablePrim b) {xs : List Nat} (hxs : ∀ x ∈ xs, proper b.nodes x = true) :
      ReachablePrim (b.mulMany xs).1
  | innerProduct {b} (h : ReachablePrim b) {xs ys : List Nat}
      (hxs : ∀ x ∈ xs, proper b.nodes x = true) (hys : ∀ y ∈ ys, proper b.nodes y = true) :
      ReachablePrim (b.innerProduct xs ys).1
  | expPow2 {b} (h : ReachablePrim b) {base : Nat} (hb : proper b.nodes base = true) (k : Nat) :
      ReachablePrim (b.expPow2 base k).1
  | reconstructBits {b} (h : ReachablePrim b) (pow2 : Nat → K) {bits : List Nat}
      (hbits : ∀ x ∈ bits, proper b.nodes x = true) : ReachablePrim (b.reconstructBits pow2 bits).1
  | decomposeToBits {b} (h : ReachablePrim b) (pow2 : Nat → K) {x : Nat}
      (hx : proper b.nodes x = true) (n : Nat) : ReachablePrim (b.decomposeToBits pow2 x n).1

theorem ReachablePrim.reachable {b : BState K} (h : ReachablePrim b) : Reachable b := by
  induction h with
  | init => exact .init
  | defineConst _ v ih => exact .defineConst ih v
  | allocPublic _ ih => exact .allocPublic ih
  | allocPrivate _ ih => exact .allocPrivate ih
  | add _ hl hr ih => exact .add ih hl hr
  | sub _ hl hr ih => exact .sub ih hl hr
  | mul _ hl hr ih => exact .mul ih hl hr
  | div _ hl hr ih => exact .div ih hl hr
  | horner _ h1 h2 h3 h4 ih => exact .horner ih h1 h2 h3 h4
  | boolCheck _ hv ih => exact .boolCheck ih hv
  | mulAdd _ h1 h2 h3 ih => exact .mulAdd ih h1 h2 h3
  | connect _ hx hy ih => exact .connect ih hx hy
  | assertZero _ hx ih => exact .assertZero ih hx
  | assertBool _ hx ih => exact .assertBool ih hx
  | select _ hc ht hf ih => exact .select ih hc ht hf
  | mulMany _ hxs ih => exact .mulMany ih hxs
  | innerProduct _ hxs hys ih => exact .innerProduct ih hxs hys
  | expPow2 _ hb k ih => exact .expPow2 ih hb k
  | reconstructBits _ pow2 hbits ih => exact .reconstructBits ih pow2 hbits
  | decomposeToBits _ pow2 hx n ih => exact .decomposeToBits ih pow2 hx n

/-- **The invariant holds in every `ReachablePrim` state, with no pending id**: every value id the
builder has handed out is `Good`. -/
theorem ReachablePrim.inv {b : BState K} (h : ReachablePrim b) : InvU (fun _ => False) b := by
  induction h with
  | init => exact init_inv
  | defineConst _ v ih => exact (defineConst_inv ih v).1
  | allocPublic _ ih => exact (allocPublic_inv ih).1
  | allocPrivate _ ih => exact (allocPrivate_inv ih).1
  | add _ hl hr ih => exact (add_inv ih hl hr (ih.good _ hl id) (ih.good _ hr id)).1
  | sub _ hl hr ih => exact (sub_inv ih hl hr (ih.good _ hl id) (ih.good _ hr id)).1
  | mul _ hl hr ih => exact (mul_inv ih hl hr (ih.good _ hl id) (ih.good _ hr id)).1
  | div _ hl hr ih => exact (div_inv ih hl hr (ih.good _ hl id) (ih.good _ hr id)).1
  | horner _ h1 h2 h3 h4 ih => exact (horner_inv ih h1 h2 h3 h4 (ih.good _ h2 id)).1
  | boolCheck _ hv ih => exact (boolCheck_inv ih hv).1
  | mulAdd _ h1 h2 h3 ih => exact (mulAdd_inv ih h1 h2 h3 (ih.good _ h2 id)).1
  | connect _ hx hy ih => exact (ih.connect hx hy).1.weaken (fun l hl => hl.1)
  | assertZero _ hx ih => exact (ih.connect hx ih.ok.1).1.weaken (fun l hl => hl.1)
  | assertBool _ hx ih => exact (assertBool_inv ih hx).1.weaken (fun l hl => hl.1)
  | select _ hc ht hf ih => exact (select_inv ih hc ht hf (ih.good _ ht id) (ih.good _ hf id)).1
  | mulMany _ hxs ih => exact (mulMany_inv ih (fun x hx => ⟨hxs x hx, ih.good _ (hxs x hx) id⟩)).1
  | innerProduct _ hxs hys ih =>
    exact (innerProduct_inv ih hxs (fun y hy => ⟨hys y hy, ih.good _ (hys y hy) id⟩)).1
  | expPow2 _ hb k ih => exact (expPow2_inv ih hb (ih.good _ hb id) k).1
  | reconstructBits _ pow2 hbits ih =>
    exact (reconstructBits_inv pow2 (ih.weaken (fun l hl => Or.inl hl)) hbits).1
  | decomposeToBits _ pow2 hx n ih => exact (decomposeToBits_inv ih pow2 hx n).1

/-- **`ReachablePrim b → hintsGuarded b ∧ operandsGuarded b`.** -/
theorem ReachablePrim.guarded {b : BState K} (h : ReachablePrim b) :
    hintsGuarded b = true ∧ operandsGuarded b = true := guards_of_HG h.inv.g

theorem ReachablePrim.privOk {b : BState K} (h : ReachablePrim b) : privOk b = true :=
  P3R.C18L.Reachable.privOk h.reachable


/-! ### With raw `push_non_primitive_op_with_outputs`: the pending-set discipline -/

/-- Builder states reachable through the WHOLE builder API of `Model/Builder.lean`, raw
`push_non_primitive_op_with_outputs` included, under the discipline that makes the guards inductive.
`U` is the set of *pending* call outputs: the outputs of a raw `pushNp` enter it; an id leaves it through
`assert_bool` / `assert_zero`, through `connect` to a non-pending id, or as a bit of
`reconstruct_index_from_bits`; a pending id may be passed only in argument positions that the lowering
puts into unguarded columns (`add_bool_check`; `x` and the addend of `add_mul_add`; `acc`, `p_at_z`,
`p_at_x` of `add_horner_acc`; the condition of `select`; the `xs` of `inner_product`; any side of
`connect`; the input of `decompose_to_bits`; any input of a call). -/
inductive ReachableCov : (Nat → Prop) → BState K → Prop
  | init : ReachableCov (fun _ => False) BState.init
  | weaken {U U' b} (h : ReachableCov U b) (hU : ∀ l, U l → U' l) : ReachableCov U' b
  | defineConst {U b} (h : ReachableCov U b) (v : K) : ReachableCov U (b.defineConst v).1
  | allocPublic {U b} (h : ReachableCov U b) : ReachableCov U b.allocPublic.1
  | allocPrivate {U b} (h : ReachableCov U b) : ReachableCov U b.allocPrivate.1
  | add {U b} (h : ReachableCov U b) {l r : Nat} (hl : proper b.nodes l = true)
      (hr : proper b.nodes r = true) (nl : ¬ U l) (nr : ¬ U r) : ReachableCov U (b.add l r).1
  | sub {U b} (h : ReachableCov U b) {l r : Nat} (hl : proper b.nodes l = true)
      (hr : proper b.nodes r = true) (nl : ¬ U l) (nr : ¬ U r) : ReachableCov U (b.sub l r).1
  | mul {U b} (h : ReachableCov U b) {l r : Nat} (hl : proper b.nodes l = true)
      (hr : proper b.nodes r = true) (nl : ¬ U l) (nr : ¬ U r) : ReachableCov U (b.mul l r).1
  | div {U b} (h : ReachableCov U b) {l r : Nat} (hl : proper b.nodes l = true)
      (hr : proper b.nodes r = true) (nl : ¬ U l) (nr : ¬ U r) : ReachableCov U (b.div l r).1
  | horner {U b} (h : ReachableCov U b) {acc al pz px : Nat} (h1 : proper b.nodes acc = true)
      (h2 : proper b.nodes al = true) (h3 : proper b.nodes pz = true)
      (h4 : proper b.nodes px = true) (nal : ¬ U al) : ReachableCov U (b.horner acc al pz px).1
  | boolCheck {U b} (h : ReachableCov U b) {v : Nat} (hv : proper b.nodes v = true) :
      ReachableCov U (b.boolCheck v).1
  | mulAdd {U b} (h : ReachableCov U b) {x y z : Nat} (h1 : proper b.nodes x = true)
      (h2 : proper b.nodes y = true) (h3 : proper b.nodes z = true) (ny : ¬ U y) :
      ReachableCov U (b.mulAdd x y z).1
  | connect {U b} (h : ReachableCov U b) {x y : Nat} (hx : proper b.nodes x = true)
      (hy : proper b.nodes y = true) :
      ReachableCov (fun l => U l ∧ ¬ (l = x ∧ ¬ U y) ∧ ¬ (l = y ∧ ¬ U x)) (b.connect x y)
  | assertZero {U b} (h : ReachableCov U b) {x : Nat} (hx : proper b.nodes x = true) :
      ReachableCov (fun l => U l ∧ l ≠ x) (b.assertZero x)
  | assertBool {U b} (h : ReachableCov U b) {x : Nat} (hx : proper b.nodes x = true) :
      ReachableCov (fun l => U l ∧ l ≠ x) (b.assertBool x)
  | select {U b} (h : ReachableCov U b) {c t f : Nat} (hc : proper b.nodes c = true)
      (ht : proper b.nodes t = true) (hf : proper b.nodes f = true) (nt : ¬ U t) (nf : ¬ U f) :
      ReachableCov U (b.select c t f).1
  | mulMany {U b} (h : ReachableCov U b) {xs : List Nat}
      (hxs : ∀ x ∈ xs, proper b.nodes x = true ∧ ¬ U x) : ReachableCov U (b.mulMany xs).1
  | innerProduct {U b} (h : ReachableCov U b) {xs ys : List Nat}
      (hxs : ∀ x ∈ xs, proper b.nodes x = true) (hys : ∀ y ∈ ys, proper b.nodes y = true ∧ ¬ U y) :
      ReachableCov U (b.innerProduct xs ys).1
  | expPow2 {U b} (h : ReachableCov U b) {base : Nat} (hb : proper b.nodes base = true)
      (nb : ¬ U base) (k : Nat) : ReachableCov U (b.expPow2 base k).1
  | pushNp {U b} (h : ReachableCov U b) (kind : NpKind) (ins : List (List Nat)) (nOut : Nat) :
      ReachableCov (fun l => U l ∨ l ∈ (b.pushNp kind ins nOut).2) (b.pushNp kind ins nOut).1
  | reconstructBits {U b} (h : ReachableCov U b) (pow2 : Nat → K) {bits : List Nat}
      (hbits : ∀ x ∈ bits, proper b.nodes x = true) :
      ReachableCov (fun l => U l ∧ l ∉ bits) (b.reconstructBits pow2 bits).1
  | decomposeToBits {U b} (h : ReachableCov U b) (pow2 : Nat → K) {x : Nat}
      (hx : proper b.nodes x = true) (n : Nat) : ReachableCov U (b.decomposeToBits pow2 x n).1

theorem ReachableCov.reachable {U : Nat → Prop} {b : BState K} (h : ReachableCov U b) :
    Reachable b := by
  induction h with
  | init => exact .init
  | weaken _ _ ih => exact ih
  | defineConst _ v ih => exact .defineConst ih v
  | allocPublic _ ih => exact .allocPublic ih
  | allocPrivate _ ih => exact .allocPrivate ih
  | add _ hl hr _ _ ih => exact .add ih hl hr
  | sub _ hl hr _ _ ih => exact .sub ih hl hr
  | mul _ hl hr _ _ ih => exact .mul ih hl hr
  | div _ hl hr _ _ ih => exact .div ih hl hr
  | horner _ h1 h2 h3 h4 _ ih => exact .horner ih h1 h2 h3 h4
  | boolCheck _ hv ih => exact .boolCheck ih hv
  | mulAdd _ h1 h2 h3 _ ih => exact .mulAdd ih h1 h2 h3
  | connect _ hx hy ih => exact .connect ih hx hy
  | assertZero _ hx ih => exact .assertZero ih hx
  | assertBool _ hx ih => exact .assertBool ih hx
  | select _ hc ht hf _ _ ih => exact .select ih hc ht hf
  | mulMany _ hxs ih => exact .mulMany ih (fun x hx => (hxs x hx).1)
  | innerProduct _ hxs hys ih => exact .innerProduct ih hxs (fun y hy => (hys y hy).1)
  | expPow2 _ hb _ k ih => exact .expPow2 ih hb k
  | pushNp _ kind ins nOut ih => exact .pushNp ih kind ins nOut
  | reconstructBits _ pow2 hbits ih => exact .reconstructBits ih pow2 hbits
  | decomposeToBits _ pow2 hx n ih => exact .decomposeToBits ih pow2 hx n

/-- **The invariant holds along the pending-set discipline.** -/
theorem ReachableCov.inv {U : Nat → Prop} {b : BState K} (h : ReachableCov U b) : InvU U b := by
  induction h with
  | init => exact init_inv
  | weaken _ hU ih => exact ih.weaken hU
  | defineConst _ v ih => exact (defineConst_inv ih v).1
  | allocPublic _ ih => exact (allocPublic_inv ih).1
  | allocPrivate _ ih => exact (allocPrivate_inv ih).1
  | add _ hl hr nl nr ih => exact (add_inv ih hl hr (ih.good _ hl nl) (ih.good _ hr nr)).1
  | sub _ hl hr nl nr ih => exact (sub_inv ih hl hr (ih.good _ hl nl) (ih.good _ hr nr)).1
  | mul _ hl hr nl nr ih => exact (mul_inv ih hl hr (ih.good _ hl nl) (ih.good _ hr nr)).1
  | div _ hl hr nl nr ih => exact (div_inv ih hl hr (ih.good _ hl nl) (ih.good _ hr nr)).1
  | horner _ h1 h2 h3 h4 nal ih => exact (horner_inv ih h1 h2 h3 h4 (ih.good _ h2 nal)).1
  | boolCheck _ hv ih => exact (boolCheck_inv ih hv).1
  | mulAdd _ h1 h2 h3 ny ih => exact (mulAdd_inv ih h1 h2 h3 (ih.good _ h2 ny)).1
  | connect _ hx hy ih =>
    refine (ih.connect hx hy).1.weaken ?_
    rintro l ⟨hu, c1, c2⟩
    exact ⟨hu, fun hc => c1 ⟨hc.1, ih.good _ hy hc.2⟩, fun hc => c2 ⟨hc.1, ih.good _ hx hc.2⟩⟩
  | assertZero _ hx ih =>
    refine (ih.connect hx ih.ok.1).1.weaken ?_
    rintro l ⟨hu, c1, _⟩
    exact ⟨hu, fun hc => c1 ⟨hc, ih.z.good⟩⟩
  | assertBool _ hx ih => exact (assertBool_inv ih hx).1
  | select _ hc ht hf nt nf ih =>
    exact (select_inv ih hc ht hf (ih.good _ ht nt) (ih.good _ hf nf)).1
  | mulMany _ hxs ih =>
    exact (mulMany_inv ih (fun x hx => ⟨(hxs x hx).1, ih.good _ (hxs x hx).1 (hxs x hx).2⟩)).1
  | innerProduct _ hxs hys ih =>
    exact (innerProduct_inv ih hxs
      (fun y hy => ⟨(hys y hy).1, ih.good _ (hys y hy).1 (hys y hy).2⟩)).1
  | expPow2 _ hb nb k ih => exact (expPow2_inv ih hb (ih.good _ hb nb) k).1
  | pushNp _ kind ins nOut ih => exact (pushNp_inv ih kind ins nOut).1
  | @reconstructBits U b _ pow2 bits hbits ih =>
    refine (reconstructBits_inv pow2 (ih.weaken ?_) hbits).1
    intro l hl
    by_cases hb : l ∈ bits
    · exact Or.inr hb
    · exact Or.inl ⟨hl, hb⟩
  | decomposeToBits _ pow2 hx n ih => exact (decomposeToBits_inv ih pow2 hx n).1

theorem ReachableCov.guarded {U : Nat → Prop} {b : BState K} (h : ReachableCov U b) :
    hintsGuarded b = true ∧ operandsGuarded b = true := guards_of_HG h.inv.g

theorem ReachableCov.privOk {U : Nat → Prop} {b : BState K} (h : ReachableCov U b) :
    privOk b = true := P3R.C18L.Reachable.privOk h.reachable

/-- `ReachablePrim` is the instance with no pending id. -/
theorem ReachablePrim.cov {b : BState K} (h : ReachablePrim b) : ReachableCov (fun _ => False) b := by
  induction h with
  | init => exact .init
  | defineConst _ v ih => exact .defineConst ih v
  | allocPublic _ ih => exact .allocPublic ih
  | allocPrivate _ ih => exact .allocPrivate ih
  | add _ hl hr ih => exact .add ih hl hr id id
  | sub _ hl hr ih => exact .sub ih hl hr id id
  | mul _ hl hr ih => exact .mul ih hl hr id id
  | div _ hl hr ih => exact .div ih hl hr id id
  | horner _ h1 h2 h3 h4 ih => exact .horner ih h1 h2 h3 h4 id
  | boolCheck _ hv ih => exact .boolCheck ih hv
  | mulAdd _ h1 h2 h3 ih => exact .mulAdd ih h1 h2 h3 id
  | connect _ hx hy ih => exact .weaken (.connect ih hx hy) (fun _ hl => hl.1)
  | assertZero _ hx ih => exact .weaken (.assertZero ih hx) (fun _ hl => hl.1)
  | assertBool _ hx ih => exact .weaken (.assertBool ih hx) (fun _ hl => hl.1)
  | select _ hc ht hf ih => exact .select ih hc ht hf id id
  | mulMany _ hxs ih => exact .mulMany ih (fun x hx => ⟨hxs x hx, id⟩)
  | innerProduct _ hxs hys ih => exact .innerProduct ih hxs (fun y hy => ⟨hys y hy, id⟩)
  | expPow2 _ hb k ih => exact .expPow2 ih hb id k
  | reconstructBits _ pow2 hbits ih => exact .weaken (.reconstructBits ih pow2 hbits) (fun _ hl => hl.1)
  | decomposeToBits _ pow2 hx n ih => exact .decomposeToBits ih pow2 hx n

end ops

section headline
variable [Zero K] [One K] [Add K] [Sub K] [Mul K] [Neg K] [DecidableEq K]

/-- **C09 / `compiled_bus_balanced_reachable`.** For every program built through the builder API
without raw `push_non_primitive_op_with_outputs` (`ReachablePrim`): whenever `compile` succeeds and the
preprocessed columns are generated, the honest witness bus balances on every slot. No hypothesis other
than reachability. -/
theorem compiled_bus_balanced_reachable (b : BState K) (h : ReachablePrim b) (c : Circuit K)
    (hc : compile b = .ok c) (p : Prep) (hp : genPrep c = some p) (s : Nat) : p.net s = 0 :=
  P3R.C09F.compiled_bus_balanced b h.reachable.ok h.privOk h.guarded.1 h.guarded.2 c hc p hp s

/-- The compiled circuit of every such program carries the def-before-use certificate. -/
theorem compile_defuse_reachable (b : BState K) (h : ReachablePrim b) (c : Circuit K)
    (hc : compile b = .ok c) : c.defUse = true :=
  P3R.C09F.compile_defuse b h.reachable.ok h.privOk h.guarded.1 h.guarded.2 c hc

/-- **C09 / the same with raw `push_non_primitive_op_with_outputs`**, for every program built along the
pending-set discipline `ReachableCov` — whatever is still pending at the end (a pending output that is
never put into a guarded column does no harm). -/
theorem compiled_bus_balanced_cov (U : Nat → Prop) (b : BState K) (h : ReachableCov U b)
    (c : Circuit K) (hc : compile b = .ok c) (p : Prep) (hp : genPrep c = some p) (s : Nat) :
    p.net s = 0 :=
  P3R.C09F.compiled_bus_balanced b h.reachable.ok h.privOk h.guarded.1 h.guarded.2 c hc p hp s

omit [Neg K] in
/-- Contrapositive, for the necessity witnesses: a builder state that fails one of the guards is not
reachable along the discipline (in particular not `ReachablePrim`). -/
theorem not_cov_of_unguarded (b : BState K)
    (h : hintsGuarded b = false ∨ operandsGuarded b = false) : ¬ ∃ U, ReachableCov U b := by
  rintro ⟨U, hc⟩
  rcases h with h | h
  · rw [hc.guarded.1] at h; cases h
  · rw [hc.guarded.2] at h; cases h

end headline

/-! ### `ReachablePrim` programs contain no table-backed call: `noTableOutputsUsed` -/

section nptable
variable [Zero K] [One K] [Add K] [Sub K] [Mul K] [DecidableEq K]

/-- Every call of the builder state is a `BinaryDecompositionHint`. -/
def HintOnly (b : BState K) : Prop := ∀ (op : Nat) (d : NpData), b.npOps[op]? = some d → d.kind = .hintBits

theorem defineConst_np (b : BState K) (v : K) : (b.defineConst v).1.npOps = b.npOps := by
  unfold BState.defineConst BState.push; split <;> rfl

theorem cseOrPush_np (b : BState K) (key : BinKind × Nat × Nat) (e : Expr K) :
    (b.cseOrPush key e).1.npOps = b.npOps := by
  unfold BState.cseOrPush BState.push; split <;> rfl

theorem add_np (b : BState K) (l r : Nat) : (b.add l r).1.npOps = b.npOps := by
  unfold BState.add
  repeat' (first | rfl | exact defineConst_np _ _ | exact cseOrPush_np _ _ _ | split)

theorem sub_np (b : BState K) (l r : Nat) : (b.sub l r).1.npOps = b.npOps := by
  unfold BState.sub
  repeat' (first | rfl | exact defineConst_np _ _ | exact cseOrPush_np _ _ _ | split)

theorem mul_np (b : BState K) (l r : Nat) : (b.mul l r).1.npOps = b.npOps := by
  unfold BState.mul
  repeat' (first | rfl | exact defineConst_np _ _ | exact cseOrPush_np _ _ _ | split)

theorem div_np (b : BState K) (l r : Nat) : (b.div l r).1.npOps = b.npOps := by
  unfold BState.div
  repeat' (first | rfl | exact defineConst_np _ _ | exact cseOrPush_np _ _ _ | split)

theorem horner_np (b : BState K) (acc al pz px : Nat) : (b.horner acc al pz px).1.npOps = b.npOps := by
  unfold BState.horner BState.push
  repeat' (first | rfl | exact defineConst_np _ _ | exact cseOrPush_np _ _ _ | split)

theorem boolCheck_np (b : BState K) (v : Nat) : (b.boolCheck v).1.npOps = b.npOps := by
  unfold BState.boolCheck BState.push
  repeat' (first | rfl | split)

theorem mulAdd_np (b : BState K) (x y z : Nat) : (b.mulAdd x y z).1.npOps = b.npOps := by
  unfold BState.mulAdd BState.push
  repeat' (first | rfl | exact defineConst_np _ _ | exact cseOrPush_np _ _ _ | split)

omit [Zero K] [One K] [Add K] [Sub K] [Mul K] [DecidableEq K] in
theorem connect_np (b : BState K) (x y : Nat) : (b.connect x y).npOps = b.npOps := by
  unfold BState.connect; split <;> rfl

theorem assertBool_np (b : BState K) (x : Nat) : (b.assertBool x).npOps = b.npOps := by
  unfold BState.assertBool
  exact (connect_np _ _ _).trans (boolCheck_np b x)

theorem select_np (b : BState K) (c t f : Nat) : (b.select c t f).1.npOps = b.npOps := by
  unfold BState.select
  repeat' (first | rfl | exact (mulAdd_np _ _ _ _).trans (sub_np _ _ _) | split)

omit [Zero K] [One K] [Add K] [Sub K] [Mul K] [DecidableEq K] in
theorem foldl_np {α : Type} (f : BState K × Nat → α → BState K × Nat)
    (hf : ∀ acc a, (f acc a).1.npOps = acc.1.npOps) (xs : List α) (acc : BState K × Nat) :
    (xs.foldl f acc).1.npOps = acc.1.npOps := by
  induction xs generalizing acc with
  | nil => rfl
  | cons a rest ih => simp only [List.foldl_cons]; exact (ih _).trans (hf acc a)

theorem mulMany_np (b : BState K) (xs : List Nat) : (b.mulMany xs).1.npOps = b.npOps := by
  unfold BState.mulMany
  cases xs with
  | nil => exact defineConst_np ..
  | cons x rest => exact foldl_np _ (fun acc y => mul_np _ _ _) rest (b, x)

theorem innerProduct_np (b : BState K) (xs ys : List Nat) :
    (b.innerProduct xs ys).1.npOps = b.npOps := by
  unfold BState.innerProduct
  exact (foldl_np _ (fun acc xy => mulAdd_np _ _ _ _) _ _).trans (defineConst_np ..)

theorem expPow2_np (b : BState K) (base k : Nat) : (b.expPow2 base k).1.npOps = b.npOps := by
  unfold BState.expPow2
  exact foldl_np _ (fun acc _ => mul_np _ _ _) _ (b, base)

theorem reconstructBits_np (b : BState K) (pow2 : Nat → K) (bits : List Nat) :
    (b.reconstructBits pow2 bits).1.npOps = b.npOps := by
  unfold BState.reconstructBits
  refine (foldl_np _ (fun acc bi => ?_) _ _).trans (defineConst_np ..)
  cases hd : acc.1.defineConst (pow2 bi.2) with
  | mk st p2 =>
    simp only
    have h1 : st.npOps = acc.1.npOps := by
      have := defineConst_np acc.1 (pow2 bi.2)
      rw [hd] at this; exact this
    exact ((mulAdd_np _ _ _ _).trans (assertBool_np _ _)).trans h1

omit [Zero K] [One K] [Add K] [Sub K] [Mul K] [DecidableEq K] in
theorem pushOuts_np (call : Nat) (idxs : List Nat) (acc : BState K × List Nat) :
    (pushOuts call idxs acc).1.npOps = acc.1.npOps := by
  induction idxs generalizing acc with
  | nil => rfl
  | cons i rest ih => simp only [pushOuts, List.foldl_cons]; exact ih _

theorem HintOnly.pushNp {b : BState K} (h : HintOnly b) (ins : List (List Nat)) (nOut : Nat) :
    HintOnly (b.pushNp .hintBits ins nOut).1 := by
  intro op d hd
  rw [pushNp_eq] at hd
  simp only [pushOuts_np, Array.getElem?_push] at hd
  split at hd
  · cases hd; rfl
  · exact h op d hd

theorem HintOnly.of_eq {b b' : BState K} (h : HintOnly b) (he : b'.npOps = b.npOps) : HintOnly b' := by
  intro op d hd; rw [he] at hd; exact h op d hd

theorem HintOnly.decomposeToBits {b : BState K} (h : HintOnly b) (pow2 : Nat → K) (x n : Nat) :
    HintOnly (b.decomposeToBits pow2 x n).1 := by
  unfold BState.decomposeToBits
  have h1 := h.pushNp [[x]] n
  cases hp : b.pushNp .hintBits [[x]] n with
  | mk s1 bits =>
    rw [hp] at h1
    simp only at h1 ⊢
    cases hr : s1.reconstructBits pow2 bits with
    | mk s2 rec =>
      simp only
      have h2 : s2.npOps = s1.npOps := by
        have := reconstructBits_np s1 pow2 bits
        rw [hr] at this; exact this
      exact h1.of_eq ((connect_np _ _ _).trans h2)

theorem ReachablePrim.hintOnly {b : BState K} (h : ReachablePrim b) : HintOnly b := by
  induction h with
  | init => intro op d hd; simp [BState.init] at hd
  | defineConst _ v ih => exact ih.of_eq (defineConst_np ..)
  | allocPublic _ ih => exact ih.of_eq rfl
  | allocPrivate _ ih => exact ih.of_eq rfl
  | add _ _ _ ih => exact ih.of_eq (add_np ..)
  | sub _ _ _ ih => exact ih.of_eq (sub_np ..)
  | mul _ _ _ ih => exact ih.of_eq (mul_np ..)
  | div _ _ _ ih => exact ih.of_eq (div_np ..)
  | horner _ _ _ _ _ ih => exact ih.of_eq (horner_np ..)
  | boolCheck _ _ ih => exact ih.of_eq (boolCheck_np ..)
  | mulAdd _ _ _ _ ih => exact ih.of_eq (mulAdd_np ..)
  | connect _ _ _ ih => exact ih.of_eq (connect_np ..)
  | assertZero _ _ ih => exact ih.of_eq (connect_np ..)
  | assertBool _ _ ih => exact ih.of_eq (assertBool_np ..)
  | select _ _ _ _ ih => exact ih.of_eq (select_np ..)
  | mulMany _ _ ih => exact ih.of_eq (mulMany_np ..)
  | innerProduct _ _ _ ih => exact ih.of_eq (innerProduct_np ..)
  | expPow2 _ _ k ih => exact ih.of_eq (expPow2_np ..)
  | reconstructBits _ pow2 _ ih => exact ih.of_eq (reconstructBits_np ..)
  | decomposeToBits _ pow2 _ n ih => exact ih.decomposeToBits pow2 _ n

theorem isTableOut_false {b : BState K} (h : HintOnly b) (j : Nat) : isTableOut b j = false := by
  unfold isTableOut
  split
  · split
    · split
      · rename_i d hd
        rw [h _ d hd]
      · rfl
    · rfl
  · rfl

/-- **`ReachablePrim b → noTableOutputsUsed b`** (such a program has no table-backed call at all). -/
theorem ReachablePrim.noTableOutputsUsed {b : BState K} (h : ReachablePrim b) :
    noTableOutputsUsed b = true := by
  unfold P3R.noTableOutputsUsed
  simp only [isTableOut_false h.hintOnly, Bool.and_false, Bool.not_false, List.all_eq_true]
  intro i _
  split
  · simp
  · rfl

end nptable
end P3R.C09R
