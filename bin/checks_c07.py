"""C07 — in-circuit FRI verification agrees with native FRI verification.
Plug-in for bin/check (see AGENT_BRIEF.md): Lean modules / theorems, the harness run, how the
report and the model/implementation diff become violations and coverage."""
import json, os

PROPERTY = "C07"

SHAPE_VARIANTS = {
    "ZeroQueries", "QueryCommitPhaseOpeningsCountMismatch", "InvalidLogArity", "QueryLogAritiesMismatch",
    "GlobalMaxHeightTooLarge", "GlobalMaxHeightMismatch", "CommitPowWitnessCountMismatch",
    "FinalPolyLengthMismatch", "QueryProofCountMismatch", "InputProofBatchCountMismatch",
    "BatchOpenedValuesCountMismatch", "MatrixWithoutOpeningPoints", "PointEvaluationCountMismatch",
    "MissingInitialReducedOpening", "InitialReducedOpeningHeightMismatch", "SiblingValuesLengthMismatch",
    "UnconsumedReducedOpenings",
}


def _blocks(path):
    out, cur = [], []
    for l in open(path):
        l = l.rstrip("\n")
        if l.startswith("fri ") and cur:
            out.append(cur); cur = []
        cur.append(l)
    if cur:
        out.append(cur)
    return out


def run(ctx):
    tier, seed, work, root = ctx["tier"], ctx["seed"], ctx["work"], ctx["root"]
    driver = os.path.join(ctx["driver_dir"], "p3r_driver_c07")
    corpus = f"{root}/corpus/c07"
    if ctx.get("replay"):
        rp = json.load(open(ctx["replay"]))
        os.makedirs(f"{work}/replay_corpus", exist_ok=True)
        json.dump(rp.get("replay", rp), open(f"{work}/replay_corpus/r.json", "w"))
        runs = [dict(scenarios=0, alterations=18, shape=0, full=0, full_alt=10, max_log=5, corpus=f"{work}/replay_corpus")]
    elif tier == "quick":
        runs = [dict(scenarios=240, alterations=18, shape=8, full=60, full_alt=12, max_log=6, corpus=corpus)]
    else:
        runs = [dict(scenarios=4000, alterations=36, shape=20, full=800, full_alt=30, max_log=6, corpus=corpus),
                dict(scenarios=300, alterations=36, shape=20, full=100, full_alt=30, max_log=9, corpus=None)]
    violations, hist, samples = [], {}, []
    evaluations = distinct = disagreements = blocks = scen = full_evals = arith_evals = 0
    for n, r in enumerate(runs):
        out = f"{work}/run{n}"
        cmd = [ctx["harness"], "fri", "--seed", str(seed + 1000 * n), "--scenarios", str(r["scenarios"]),
               "--alterations", str(r["alterations"]), "--shape-alterations", str(r["shape"]),
               "--full-scenarios", str(r["full"]), "--full-alterations", str(r["full_alt"]),
               "--max-log-size", str(r["max_log"]), "--out", out]
        if r["corpus"]:
            cmd += ["--corpus", r["corpus"]]
        rc, o = ctx["sh"](cmd, timeout=7200)
        if rc != 0:
            violations.append({"class": "harness-crash", "what": f"harness fri exited {rc}: {o[-300:]}",
                               "replay": {"cmd": cmd}, "no_input": True})
            continue
        rep = json.load(open(f"{out}/fri.report.json"))
        evaluations += rep["evaluations"]; distinct += rep["distinct"]; scen += rep["scenarios"]
        full_evals += rep["full_evaluations"]; arith_evals += rep["arith_evaluations"]
        for k, v in rep["hist"].items():
            hist[k] = hist.get(k, 0) + v
        samples += rep["samples"][:2]
        for v in rep["violations"]:
            d = v.get("detail", {})
            violations.append({"class": v["class"],
                               "what": f"{v['kind']} native={d.get('native')} circuit={d.get('circuit')} on {d.get('alteration')}",
                               "replay": v["replay"]})
        # model stream
        with open(f"{out}/fri.cases") as fin:
            rc, mo = ctx["sh"]([driver], stdin=fin, timeout=7200)
        with open(f"{out}/fri.model.full", "w") as fh:
            fh.write(mo)
        ib = _blocks(f"{out}/fri.impl")
        mb = _blocks(f"{out}/fri.model.full")
        cases = [l.rstrip("\n") for l in open(f"{out}/fri.cases")]
        blocks += len(ib)
        shown = 0
        for k in range(max(len(ib), len(mb))):
            a = ib[k] if k < len(ib) else []
            b = mb[k] if k < len(mb) else []
            bm = [l for l in b if not l.startswith("shape ")]
            bad = None
            if a != bm:
                bad = ("verdict lines", a, bm)
            else:
                # shape predicates of Props/C07 (fri_shape_iff) against the real verdicts
                sh = next((l for l in b if l.startswith("shape ")), "")
                nat = next((l[7:] for l in a if l.startswith("native ")), "")
                cir = next((l[8:] for l in a if l.startswith("circuit ")), "")
                want_n = "1" if nat == "ok" else ("0" if nat.startswith("err:") and nat[4:] in SHAPE_VARIANTS else None)
                want_c = "1" if cir in ("ok", "unsat") else ("0" if cir == "build-err" else None)
                got = dict(x.split("=") for x in sh.split()[1:]) if sh else {}
                if (want_n is not None and got.get("native") != want_n) or (want_c is not None and got.get("circuit") != want_c):
                    bad = ("shape predicates", a, [sh])
            if bad:
                disagreements += 1
                if shown < 3:
                    shown += 1
                    violations.append({"class": "model-disagreement",
                                       "what": f"correspondence fri-model (L10: FriNative/FriCircuit/FriShape vs p3_fri::verify_fri and verify_fri_circuit) "
                                               f"no longer checks on {bad[0]}: impl={bad[1]!r} model={bad[2]!r}",
                                       "replay": {"correspondence": "arith mode: real verify_fri (mock MMCS, scripted challenger) and "
                                                                    "verify_fri_circuit(None)+runner vs lean/P3R/Model/Fri{Native,Circuit,Shape}",
                                                  "case_line": cases[k] if k < len(cases) else None, "impl": bad[1], "model": bad[2]},
                                       "no_input": True})
    # the other PCS entry point (HidingFriPcs, ZK) and the whole-proof path: under-ground proofs (each PoW phase ground for
    # fewer bits than the verifier demands, asymmetric commit / query bits) and honest proofs of every PCS flavour of the
    # C01 campaign through the real native verifier and the real recursive verifier. Only PCS-level divergences count here.
    pcs_cov = {}
    if not ctx.get("replay"):
        pout = f"{work}/pcs"
        os.makedirs(f"{pout}/empty_corpus", exist_ok=True)
        cmd = [ctx["harness"], "starkfaults", "--seed", str(seed), "--per-kind", "1", "--values", "1", "--out", pout,
               "--corpus", f"{pout}/empty_corpus", "--generate", "1", "--forge-all", "0", "--grind-only", "1"]
        rc, o = ctx["sh"](cmd, timeout=7200)
        if rc != 0 or not os.path.exists(f"{pout}/c01.report.json"):
            violations.append({"class": "harness-crash", "what": f"harness starkfaults (PCS entry points) exited {rc}: {o[-300:]}",
                               "replay": {"cmd": cmd}, "no_input": True})
        else:
            prep = json.load(open(f"{pout}/c01.report.json"))
            shown = {}
            for v in prep["violations"]:
                c = v["class"]
                if "forged-grind" in c or (":honest" in c and ("zk" in c.split(":")[1] if len(c.split(":")) > 1 else False)):
                    shown[c] = shown.get(c, 0) + 1
                    if shown[c] <= 2:
                        violations.append({"class": "pcs-entry:" + c,
                                           "what": f"{v['kind']}: native={v['detail'].get('native')} circuit={v['detail'].get('circuit')} at {json.dumps(v['replay'])[:160]}",
                                           "replay": v["replay"]})
            gh = {k: n for k, n in prep["hist"].items() if "grind" in k or "Pow" in k}
            pcs_cov = {"evaluations": prep.get("evaluations", 0), "grind_hist": gh}
            evaluations += prep.get("evaluations", 0)
    cov = {"evaluations": evaluations, "programs": scen, "distinct_nontrivial": distinct,
           "arith_evaluations": arith_evals, "full_evaluations": full_evals, "pcs_entry_points": pcs_cov,
           "cap_heights": {k: n for k, n in hist.items() if "cap" in k},
           "rule": "scenario = FRI parameter set (blow-up 1-3, queries 1-3, max_log_arity 1-4 giving mixed arity schedules incl. the empty "
                   "one (every matrix of height one: 1 in 24 generated scenarios + 4 corpus scenarios), final poly "
                   "length 1-8, PoW bits 0-4) x 1-3 batches of 1-3 matrices of mixed heights/widths, opening points shared or not; the "
                   "real prover makes an honest proof; each case is that proof or one single-element / single-shape alteration of it. "
                   "arith cases go to the real native verify_fri (mock MMCS, scripted challenger), to verify_fri_circuit(None)+runner and to "
                   "the Lean models; full cases go to TwoAdicFriPcs::verify and to get_challenges_circuit+verify_circuit (Poseidon2 MMCS, "
                   "in-circuit challenger, PoW, index sampling); full scenarios draw the Merkle cap height of the input MMCS and of the "
                   "commit-phase MMCS independently from 0-4 (incl. exactly the height of the shortest tree: empty Merkle path, leaf hash "
                   "against the selected cap entry; seed C07-d) and are judged a second time in fixch mode: real verify_fri with the real "
                   "MMCSs and the honest transcript's challenges scripted vs verify_fri_circuit(Some(perm)) with the same challenges as "
                   "public inputs, on alterations of every cap (entry addressed by a query / by no query), of sibling rows at the phase "
                   "whose folded height equals / exceeds the cap height, Merkle digests, opened values, final poly, claims. distinct = distinct arith case lines (every case has a real proof, so all "
                   "are non-trivial); full cases are counted in evaluations only",
           "samples": samples[:3], "input_distribution": hist,
           "traces_validated_against_impl": blocks, "disagreements_checked": disagreements,
           "known_not_reproduced": []}
    return violations, cov


CHECK = {
    "lean_modules": ["P3R.Props.C07", "P3R.Witness.C07"],
    "lean_exes": ["p3r_driver_c07"],
    "theorems": [
        "P3R.C07.fri_shape_iff",
        "P3R.C07.height_above_two_adicity_rejected_by_both", "P3R.C07.sibling_count_mismatch_rejected_by_both",
        "P3R.C07.fold_chain_zero_phase", "P3R.C07.subgroup_starts_zero_phase", "P3R.C07.final_point_zero_phase",
        "P3R.C07.verify_query_zero_phase", "P3R.C07.roll_ins_zero_phase", "P3R.C07.query_tail_zero_phase",
        "P3R.C07.query_check_zero_phase", "P3R.C07.zero_phase_query_agree",
        "P3R.C07.selChain_eq_pow", "P3R.C07.reverseBits_eq_bitsToNat", "P3R.C07.query_index_eq",
        "P3R.C07.query_index_prefix_eq", "P3R.C07.expPow2_eq",
        "P3R.C07.reconstruct_arity2_eq", "P3R.C07.reconstruct_arity4_eq", "P3R.C07.reconstruct_arity8_eq",
        "P3R.C07.fold_arity2_eq", "P3R.C07.fold_arity2_path_eq", "P3R.C07.fold_arity4_eq", "P3R.C07.fold_general_eq",
        "P3R.C07.horner_cols_eq", "P3R.C07.native_cols_eq", "P3R.C07.open_input_fast_path_eq",
        "P3R.C07.final_poly_eq", "P3R.C07.final_point_eq",
        "P3R.C07.Witness.shape_needs_num_queries", "P3R.C07.Witness.arity_zero_rejected_by_both",
        "P3R.C07.Witness.shape_needs_arity_upper_bound",
        "P3R.C07.Witness.shape_needs_matched_heights",
        # regression records of C07-F4 (repo fix 0e5036a); the former witness `shape_needs_phase`
        # (native accepts, circuit refuses) is restated as acceptance by both
        "P3R.C07.Witness.zero_phase_accepted_by_both",
        "P3R.C07.Witness.zero_phase_altered_final_poly_rejected_by_both",
        "P3R.C07.Witness.zero_phase_honest_final_poly_accepted_by_both",
    ],
    "run": run,
    "trusted_base": [
        "executable fields of the driver: PF p and the degree-4 binomial extension BE4 p W (Model/Ext4), validated against p3-field by every verdict of the run",
        "Merkle (MMCS) openings, the duplex challenger, PoW and index sampling are not modelled in Lean here (C08, C05, C12); they are exercised on the real code in the full-mode runs only",
        "the arithmetic-only native run uses the real p3_fri::verifier::verify_fri with an accept-everything MMCS and a scripted challenger written in the harness",
    ],
    "assumptions": [
        "fri_shape_iff holds under its listed hypotheses H1-H6 only; H1, H2, H4 are shown necessary by a Witness theorem and by a corpus case replayed on the real code (known findings C07-F2, F3, F5); H3/H5 describe how the real flow calls the function, H6 (two-adicity <= 31) is a fact about the field. The former hypotheses 'at least one fold phase' and 'log_max_height <= two-adicity' are gone (repo fixes 0e5036a, c030fca): the statement covers proofs without fold phase",
        "zero_phase_query_agree compares the two per-query checks after open_input for a proof without fold phase whose only reduced opening is at the maximum height (what H4 gives); further reduced openings are the C07-F5 divergence (query_tail_zero_phase states the circuit side for them)",
        "arith mode calls verify_fri_circuit directly; the two height bounds of verify_circuit (31 bits, two-adicity) are re-stated in the harness (build_arith) and in the model; the real verify_circuit is exercised in full mode (full shape kind 2)",
        "general-arity fold: proved as 'sequential arity-2 folds of the evaluations of any polynomial of degree < 2^k on the bit-reversed coset give its value at beta' (fold_general_eq); equality with native lagrange_interpolate_at's barycentric formula is proved for arity 2 and 4 (fold_arity2_eq, fold_arity4_eq) and rests on the correspondence for arity >= 8",
        "log_blowup >= 1 (for log_folded_height = 0 the circuit skips the commit-phase MMCS check; unreachable for valid parameters)",
        "Merkle caps (cap height > 0) are outside the Lean arithmetic model; native = circuit for them is judged on the real code (full and fixch modes, cap heights 0-4)",
    ],
}

MANIFEST_ENTRY = {
    "property_id": "C07",
    "quick_cmd": "bin/check C07 --tier quick",
    "thorough_cmd": "bin/check C07 --tier thorough",
    "evidence_file": "evidence/C07.json",
    "replay_cmd_template": "bin/check C07 --replay {path}",
    "engine": "lean-models",
    "technique": "Lean 4 theorems over hand-written models of the native FRI verifier arithmetic and of the circuit emitted by verify_fri_circuit + exact differential correspondence (verdict and FriError variant) + end-to-end native-vs-circuit oracle with real Merkle trees and challenger",
    "level_claimed": {
        "category": "proof",
        "text": "Lean theorems about the L10 models: shape-validation equivalence under explicit hypotheses (H1, H2, H4 shown necessary; proofs without fold phase included), the per-query comparison of a proof without fold phase (circuit tail = native check), index/point arithmetic for every arity schedule, reconstruct_evals closed forms, arity-2/4 fold = native Lagrange formula, general-arity sequential fold = polynomial value, Horner chains and fast path, final polynomial. Models tied to the Rust by line-by-line equality of native verdict (with error variant) and circuit outcome on generated honest proofs and single alterations; whole-PCS agreement (MMCS, PoW, index sampling) judged on the real code only.",
        "design_ref": "4/C07",
    },
    "level_note": "Lean kernel + 3 standard axioms; models hand-written (correspondence-tested); executable field instances unverified; Merkle/transcript parts not modelled here; known defects C07-F2, F3, F5 where circuit and native verdicts differ; C07-F1, C07-F3c and C07-F4/F4b fixed (/repo 93b4a80, f783d84, 0e5036a), their witnesses in corpus/c07 are regression cases (f4*: `expect_honest: accept`); corpus/c07/f9_fri_shape_regressions.json replays the repaired F9i / F9d / F9e panics on the FRI path (both verifiers must refuse, no panic)",
}
