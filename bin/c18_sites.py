#!/usr/bin/env python3
"""C18 source-site inventory oracle.

Scans the Rust files on the compile / key-generation path of /repo for places where an *unordered*
hash container (hashbrown / std `HashMap` / `HashSet`, or a type alias of one) is ITERATED, and
compares the set of sites with the committed inventory `design_notes/C18_sites.json`.

A site is the triple (file, enclosing fn, "<container>.<kind>") where kind is one of
  iter | iter_mut | keys | values | values_mut | drain | into_iter | into_keys | into_values |
  retain | for | extend_from | collect_from (…)
The scanner is a heuristic, name-driven type inference (no rustc): an identifier is a hash container
when it is
  * a struct field / fn parameter / `let` whose declared type mentions HashMap/HashSet or an alias,
  * a `let` initialised with `HashMap::new()/with_capacity/default()/from…` (or HashSet),
  * a `let` bound to the result of a fn whose declared return type mentions a hash container,
  * a `let` whose initialiser is a `.collect()` with a hash-container turbofish / annotation.
`#[cfg(test)] mod … { … }` blocks are skipped.  Iteration over `Vec`/slice/BTreeMap is not reported.

Usage:
  bin/c18_sites.py scan   [--repo /repo]                 # print the sites found (JSON)
  bin/c18_sites.py check  [--repo /repo] [--inventory f] # compare with the inventory (JSON report)
  bin/c18_sites.py update [--repo /repo] [--inventory f] # add unknown sites as "unreviewed" entries
An inventory mismatch is *not* a violation (see bin/checks_c18.py): it is reported in the evidence
coverage and intensifies the differential search.
"""
import json, os, re, sys

HERE = os.path.dirname(os.path.abspath(__file__))
ROOT = os.path.dirname(HERE)
DEFAULT_INVENTORY = os.path.join(ROOT, "design_notes", "C18_sites.json")

# files (globs relative to the repo root) on the path program -> Circuit -> preprocessed columns -> AIRs -> CommonData
SCAN = [
    "circuit/src",          # builder, lowerer, optimiser, expr graph, Circuit, runner + trace builders, NPO plug-ins, symbolic compiler
    "circuit-prover/src",   # common.rs (AIR list / degrees / preprocessed), batch_stark_prover(.rs|/), prover, config
    # program-construction path of the recursion front end (the verifier circuits are builder programs whose
    # call order must itself be deterministic: seed C18-b switched `height_groups` to a hash map here)
    "recursion/src",
]

HASH_T = r"(?:hashbrown::|std::collections::|alloc::collections::)?Hash(?:Map|Set)\b"
ITER_METHODS = ["iter", "iter_mut", "keys", "values", "values_mut", "drain", "into_iter", "into_keys",
                "into_values", "retain", "extract_if"]


def rust_files(repo):
    out = []
    for ent in SCAN:
        p = os.path.join(repo, ent)
        if os.path.isdir(p):
            for d, _, fs in os.walk(p):
                for f in sorted(fs):
                    if f.endswith(".rs") and f != "tests.rs":
                        out.append(os.path.join(d, f))
        elif os.path.isfile(p):
            out.append(p)
    return sorted(set(out))


def strip_comments_and_strings(src):
    """Replace comments and string/char literals by spaces (same length, newlines kept)."""
    out, i, n = [], 0, len(src)
    while i < n:
        c = src[i]
        if src.startswith("//", i):
            j = src.find("\n", i)
            j = n if j < 0 else j
            out.append(" " * (j - i)); i = j
        elif src.startswith("/*", i):
            depth, j = 1, i + 2
            while j < n and depth:
                if src.startswith("/*", j): depth += 1; j += 2
                elif src.startswith("*/", j): depth -= 1; j += 2
                else: j += 1
            out.append("".join(ch if ch == "\n" else " " for ch in src[i:j])); i = j
        elif c == '"':
            j = i + 1
            while j < n and src[j] != '"':
                j += 2 if src[j] == "\\" else 1
            j = min(j + 1, n)
            out.append('"' + "".join(ch if ch == "\n" else " " for ch in src[i + 1:j - 1]) + '"'); i = j
        elif c == "'" and re.match(r"'(\\.|[^\\'])'", src[i:i + 4]):
            m = re.match(r"'(\\.|[^\\'])'", src[i:i + 4])
            out.append(" " * m.end()); i += m.end()
        else:
            out.append(c); i += 1
    return "".join(out)


def blank_test_modules(src):
    """Blank out `#[cfg(test)] mod x { … }` (and cfg(test) fns) keeping line structure."""
    res = src
    for m in list(re.finditer(r"#\[cfg\(test\)\]\s*(?:pub(?:\([a-z]+\))?\s+)?(?:mod|fn|impl)\b[^{;]*\{", src)):
        start = m.end() - 1
        depth, j = 0, start
        while j < len(src):
            if src[j] == "{": depth += 1
            elif src[j] == "}":
                depth -= 1
                if depth == 0: break
            j += 1
        seg = src[m.start():j + 1]
        res = res[:m.start()] + "".join(ch if ch == "\n" else " " for ch in seg) + res[j + 1:]
    return res


def aliases(all_src):
    """type aliases of hash containers, across all scanned files (e.g. NonPrimitivePreprocessedMap)."""
    al = set()
    for src in all_src:
        for m in re.finditer(r"\btype\s+(\w+)\s*(?:<[^=]*>)?\s*=\s*([^;]+);", src):
            if re.search(HASH_T, m.group(2)):
                al.add(m.group(1))
    return al


def hash_returning_fns(all_src, hash_re):
    fns = set()
    for src in all_src:
        for m in re.finditer(r"\bfn\s+(\w+)\s*(?:<[^>(]*>)?\s*\(", src):
            # find the return type: text between the matching ')' and the body '{' or ';'
            j, depth = m.end(), 1
            while j < len(src) and depth:
                depth += src[j] == "("; depth -= src[j] == ")"; j += 1
            k = j
            while k < len(src) and src[k] not in "{;":
                k += 1
            ret = src[j:k]
            ret = ret.split(" where ")[0].split("\nwhere")[0]
            if "->" in ret and re.search(hash_re, ret.split("->", 1)[1]):
                fns.add(m.group(1))
    return fns


def enclosing_fns(src):
    """list of (start, end, name) for every fn body."""
    spans = []
    for m in re.finditer(r"\bfn\s+(\w+)\b", src):
        k = m.end()
        depth_par = 0
        while k < len(src):
            ch = src[k]
            if ch == "(": depth_par += 1
            elif ch == ")": depth_par -= 1
            elif ch == ";" and depth_par == 0: break
            elif ch == "{" and depth_par == 0: break
            k += 1
        if k >= len(src) or src[k] == ";":
            continue
        depth, j = 0, k
        while j < len(src):
            if src[j] == "{": depth += 1
            elif src[j] == "}":
                depth -= 1
                if depth == 0: break
            j += 1
        spans.append((k, j, m.group(1)))
    return spans


def fn_at(spans, pos):
    best = None
    for s, e, name in spans:
        if s <= pos <= e and (best is None or s > best[0]):
            best = (s, name)
    return best[1] if best else "<top>"


def scan(repo):
    files = rust_files(repo)
    cleaned = {}
    for f in files:
        cleaned[f] = blank_test_modules(strip_comments_and_strings(open(f, encoding="utf-8").read()))
    al = aliases(cleaned.values())
    hash_re = HASH_T + ("|" + "|".join(r"\b%s\b" % a for a in sorted(al)) if al else "")
    hfns = hash_returning_fns(cleaned.values(), hash_re)
    # field names are global (a field of a struct in one file is iterated in another)
    fields = set()
    for src in cleaned.values():
        for m in re.finditer(r"^\s*(?:pub(?:\([a-z]+\))?\s+)?(\w+)\s*:\s*([^,\n]+(?:<[^\n]*>)?)\s*,?\s*$", src, re.M):
            if re.search(hash_re, m.group(2)) and not re.search(r"\bfn\b|->", m.group(2)):
                fields.add(m.group(1))
    sites = []
    decl_re = r"\b(?:let\s+(?:mut\s+)?)?(\w+)\s*:\s*&?\s*(?:'\w+\s+)?(?:mut\s+)?([A-Za-z_:]+(?:<|\b))"
    for f, src in cleaned.items():
        rel = os.path.relpath(f, repo)
        spans = enclosing_fns(src)
        # fields this file declares itself, by hash-ness: a file-local non-hash declaration of a field name
        # overrides a same-named hash field of another file
        local_fields_hash, local_fields_other = set(), set()
        for m in re.finditer(r"^\s*(?:pub(?:\([a-z]+\))?\s+)?(\w+)\s*:\s*([^,\n]+(?:<[^\n]*>)?)\s*,?\s*$", src, re.M):
            if re.search(r"\bfn\b|->", m.group(2)):
                continue
            (local_fields_hash if re.search(hash_re, m.group(2)) else local_fields_other).add(m.group(1))
        field_names = {n for n in fields if n in local_fields_hash or n not in local_fields_other}

        def local_hash_names(lo, hi):
            """identifiers declared (param / let) as hash containers inside src[lo:hi] (one fn, signature included)."""
            seg = src[lo:hi]
            names = set()
            for m in re.finditer(decl_re, seg):
                if re.search("^(?:%s)" % hash_re, m.group(2)) or (m.group(2) == "Option<" and re.search(hash_re, seg[m.end():m.end() + 40])):
                    names.add(m.group(1))
            for m in re.finditer(r"\blet\s+(?:mut\s+)?(\w+)\s*(?::[^=;]+)?=\s*([^;]+);", seg):
                init = m.group(2)
                if re.match(r"\s*(?:%s)\s*(?:::<[^>]*>)?::(?:new|with_capacity|default|from|from_iter|with_hasher)\b" % hash_re, init):
                    names.add(m.group(1))
                elif re.search(r"collect::<\s*(?:%s)" % hash_re, init):
                    names.add(m.group(1))
                else:
                    for fn in hfns:
                        mm = re.search(r"\b%s\s*\(" % fn, init)
                        if mm and not re.search(r"\.\s*(get|len|contains\w*|is_empty|remove)\s*\(", init[mm.end():]):
                            names.add(m.group(1))
            # `let (ops, rewrite) = hash_returning_fn(..)`: every tuple component is a candidate (over-approximation;
            # a Vec component that is iterated shows up as an unknown site once and is then recorded as `vec` in the inventory)
            for m in re.finditer(r"\blet\s+\(([^)]*)\)\s*=\s*([^;]+);", seg):
                if any(re.search(r"\b%s\s*\(" % fn, m.group(2)) for fn in hfns):
                    for nm in re.findall(r"\b(\w+)\b", m.group(1)):
                        if nm not in ("mut", "_", "ops"):
                            names.add(nm)
            # `if let Some(x) = self.hash_field.take()` / `… = &self.hash_field` (Option<HashMap>)
            for m in re.finditer(r"\b(?:if|while)\s+let\s+Some\(\s*(?:ref\s+)?(?:mut\s+)?(\w+)\s*\)\s*=\s*([^{]+)\{", seg):
                rhs = m.group(2)
                mm = re.search(r"\.\s*(\w+)\s*(?:\.\s*(?:take|as_ref|as_mut|clone)\s*\(\s*\)\s*)*$", rhs.strip())
                if mm and mm.group(1) in field_names:
                    names.add(m.group(1))
            # struct-pattern lets / matches binding a hash field by its own name: `let Foo { expr_to_widx, .. } = …`
            for m in re.finditer(r"\blet\s+\w+\s*\{([^}]*)\}\s*=", seg):
                for nm in re.findall(r"\b(\w+)\b", m.group(1)):
                    if nm in field_names:
                        names.add(nm)
            return names

        fn_locals = {}
        def locals_at(pos):
            best = None
            for s0, e0, name in spans:
                if s0 <= pos <= e0 and (best is None or s0 > best[0]):
                    best = (s0, e0, name)
            if best is None:
                return set()
            if best not in fn_locals:
                # include the signature: back up to the `fn` keyword
                sig = src.rfind("fn " + best[2], 0, best[0])
                fn_locals[best] = local_hash_names(sig if sig >= 0 else best[0], best[1])
            # closures / nested fns: also the enclosing fns' locals
            acc = set(fn_locals[best])
            for s0, e0, name in spans:
                if s0 < best[0] and e0 > best[1]:
                    k = (s0, e0, name)
                    if k not in fn_locals:
                        sig = src.rfind("fn " + name, 0, s0)
                        fn_locals[k] = local_hash_names(sig if sig >= 0 else s0, e0)
                    acc |= fn_locals[k]
            return acc

        def is_hash(recv_chain, name, pos):
            if recv_chain.strip():
                return name in field_names
            return name in locals_at(pos)

        ident = r"[A-Za-z_]\w*"
        recv = r"((?:%s(?:\(\))?\s*\.\s*)*)(%s)" % (ident, ident)
        for m in re.finditer(r"(?<![\w.])%s\s*\.\s*(%s)\s*\(" % (recv, "|".join(ITER_METHODS)), src):
            if is_hash(m.group(1), m.group(2), m.start()):
                sites.append((rel, fn_at(spans, m.start()), m.group(2) + "." + m.group(3), src.count("\n", 0, m.start()) + 1))
        for m in re.finditer(r"\bfor\s+[^{;]*?\bin\s+(?:&\s*(?:mut\s+)?)?%s\s*\{" % recv, src):
            if is_hash(m.group(1), m.group(2), m.start()):
                sites.append((rel, fn_at(spans, m.start()), m.group(2) + ".for", src.count("\n", 0, m.start()) + 1))
        for m in re.finditer(r"\.\s*extend\s*\(\s*(?:&\s*)?%s\s*\)" % recv, src):
            if is_hash(m.group(1), m.group(2), m.start()):
                sites.append((rel, fn_at(spans, m.start()), m.group(2) + ".extend_from", src.count("\n", 0, m.start()) + 1))
        for fn in hfns:
            for m in re.finditer(r"\b%s\s*\([^;{}]*?\)\s*\??\s*\.\s*(%s)\s*\(" % (fn, "|".join(ITER_METHODS)), src):
                sites.append((rel, fn_at(spans, m.start()), fn + "()." + m.group(1), src.count("\n", 0, m.start()) + 1))
    # de-duplicate by key, keep all lines
    by = {}
    for rel, fn, expr, line in sites:
        by.setdefault((rel, fn, expr), []).append(line)
    return [{"file": k[0], "fn": k[1], "expr": k[2], "lines": sorted(set(v))} for k, v in sorted(by.items())]


def key(s):
    return (s["file"], s["fn"], s["expr"])


def check(repo, inventory_path):
    found = scan(repo)
    inv = json.load(open(inventory_path)) if os.path.exists(inventory_path) else {"sites": []}
    inv_keys = {key(s): s for s in inv["sites"]}
    found_keys = {key(s): s for s in found}
    unknown = [found_keys[k] for k in sorted(found_keys) if k not in inv_keys]
    gone = [inv_keys[k] for k in sorted(inv_keys) if k not in found_keys and not inv_keys[k].get("manual")]
    sensitive = [s for s in inv["sites"] if s.get("class", "").startswith("order-sensitive")]
    unreviewed = [s for s in inv["sites"] if s.get("class") == "unreviewed"]
    return {"scanned_files": len(rust_files(repo)), "found": len(found), "inventory": len(inv["sites"]),
            "unknown_sites": [{"file": s["file"], "fn": s["fn"], "expr": s["expr"], "lines": s["lines"]} for s in unknown],
            "vanished_sites": [{"file": s["file"], "fn": s["fn"], "expr": s["expr"]} for s in gone],
            "unreviewed_sites": [{"file": s["file"], "fn": s["fn"], "expr": s["expr"]} for s in unreviewed],
            "order_sensitive_sites": [{"file": s["file"], "fn": s["fn"], "expr": s["expr"], "theorem": s.get("theorem"),
                                       "hypothesis": s.get("hypothesis")} for s in sensitive],
            "line_drift": [{"file": k[0], "fn": k[1], "expr": k[2], "inventory": inv_keys[k].get("lines"), "found": found_keys[k]["lines"]}
                           for k in sorted(found_keys) if k in inv_keys and inv_keys[k].get("lines") != found_keys[k]["lines"]]}


def main():
    args = sys.argv[1:]
    cmd = args[0] if args else "check"
    repo = args[args.index("--repo") + 1] if "--repo" in args else "/repo"
    invp = args[args.index("--inventory") + 1] if "--inventory" in args else DEFAULT_INVENTORY
    if cmd == "scan":
        print(json.dumps(scan(repo), indent=1))
    elif cmd == "check":
        print(json.dumps(check(repo, invp), indent=1))
    elif cmd == "update":
        inv = json.load(open(invp)) if os.path.exists(invp) else {"sites": []}
        have = {key(s) for s in inv["sites"]}
        found = scan(repo)
        for s in found:
            if key(s) not in have:
                inv["sites"].append({**s, "class": "unreviewed", "why": "", "theorem": None})
            else:
                for t in inv["sites"]:
                    if key(t) == key(s):
                        t["lines"] = s["lines"]
        inv["sites"].sort(key=key)
        json.dump(inv, open(invp, "w"), indent=1)
        print(f"inventory now has {len(inv['sites'])} sites")
    else:
        print(__doc__); sys.exit(2)


if __name__ == "__main__":
    main()
