/-
Certificate checker for lowering (translation validation of `ExpressionLowerer::lower`).

`lowerCheck b l` inspects one concrete lowering: for every node of the expression graph it
looks for the emitted op that carries the node's defining relation over the witness slots
assigned by `expr_to_widx`, and for every `connect` it checks that both sides share a slot.
`P3R.Props.C03Lower.lower_check_sound` proves that when the check passes, any assignment
satisfying the emitted ops satisfies every source relation under `v e := w (slot e)`. The
driver runs it on every compiled program of the correspondence run.
-/
import P3R.Model.Lower

namespace P3R

variable {K : Type}

/-- Slot of expression `e` (0 when unmapped; the checker requires mapped slots where used). -/
def Lowered.slot (l : Lowered K) (e : Nat) : Nat := (l.e2w.getD e none).getD 0

def Lowered.mapped (l : Lowered K) (e : Nat) : Bool := (l.e2w.getD e none).isSome

section
variable [DecidableEq K] [Neg K]

def nodeOk (nodes : Array (Expr K)) (l : Lowered K) (ops : List (Op K)) (i : Nat) (e : Expr K) : Bool :=
  let S := l.slot
  match e with
  | .const c => ops.contains (.const (S i) c)
  | .pub pos => ops.contains (.pub (S i) pos)
  | .priv _ => true
  | .add a b => ops.contains (Op.add (S a) (S b) (S i))
  | .sub a b =>
    ops.contains (Op.add (S b) (S i) (S a)) ||
    (match nodes[b]? with
     | some (.const c) => ops.contains (.const (S b) c) &&
        ops.any fun op => match op with
          | .const nw v => v == -c && ops.contains (Op.add (S a) nw (S i))
          | _ => false
     | _ => false)
  | .mul a b => ops.contains (Op.mul (S a) (S b) (S i))
  | .div a b => ops.contains (Op.mul (S b) (S i) (S a))
  | .horner acc al pz px => ops.contains (Op.horner (S px) (S al) (S pz) (S i) (S acc))
  | .boolCheck v => ops.any fun op => match op with
      | .alu .boolCheck a _ _ _ _ => a == S v
      | _ => false
  | .mulAdd a b c => ops.contains (Op.mulAdd (S a) (S b) (S c) (S i))
  | .npCall _ _ => true
  | .npOut _ _ => true

/-- The certificate check for one lowering. -/
def lowerCheck (b : BState K) (l : Lowered K) : Bool :=
  let ops := l.ops.toList
  ((List.range b.nodes.size).all fun i =>
    match b.nodes[i]? with
    | some e => nodeOk b.nodes l ops i e
    | none => true) &&
  (b.connects.all fun ab => l.mapped ab.1 && l.mapped ab.2 && l.slot ab.1 == l.slot ab.2)

end

/-- Arithmetic children of a node (the nodes its value is computed from). -/
def Expr.arithChildren : Expr K → List Nat
  | .add a b | .sub a b | .mul a b | .div a b => [a, b]
  | .horner acc al pz px => [acc, al, pz, px]
  | .mulAdd a b c => [a, b, c]
  | _ => []

/-- The expression graph is topologically ordered: every arithmetic child precedes its node
(`ExprId`s are handed out in creation order by `ExpressionBuilder`). -/
def dagOk (nodes : Array (Expr K)) : Bool :=
  (List.range nodes.size).all fun i =>
    match nodes[i]? with
    | some e => e.arithChildren.all (· < i)
    | none => true

/-- Executable form of `P3R.C03.Op.WF`: `MulAdd` has its `c`, `HornerAcc` its `c` and accumulator. -/
def opWF : Op K → Bool
  | .alu .mulAdd _ _ c _ _ => c.isSome
  | .alu .horner _ _ c _ io => c.isSome && io.isSome
  | _ => true

end P3R
