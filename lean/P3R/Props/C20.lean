/-
C20 — verifier arithmetic gadgets equal their native counterparts.

Property theorems for the models of `P3R.Model.Gadgets` (L11). Every theorem is for an arbitrary
field `K` (or commutative ring / monoid where no division occurs) and quantifies over every
domain size `2^logN` (including 1), every shift, every number of quotient chunks, every period
(= number of coefficients), every polynomial length, every exponent, every evaluation point and
every index bit vector. `…C` is the value the circuit built by the Rust gadget computes
(`none`: the circuit cannot be run, `DivisionByZero`), `…N` the value p3 computes natively
(`none`: native panic on `inverse()` of zero).

* `exp_pow2_eq`            — `exp_power_of_2`: k squarings give `x^(2^k)` (k = 0 included);
* `exp_by_constant_eq`     — `circuit_exp_by_constant(x, n) = xⁿ = ` native repeated product, all n ≥ 1;
                             `exp_by_constant_zero`: n = 0 is the function's `debug_assert` panic;
* `vanishing_eq`           — `Z_D(x) = (x·g⁻¹)^(2^logN) − 1`, circuit, build-time native and p3 alike;
* `selectors_eq`           — all four selector values *and* definedness agree with p3 at every
                             point, every log size (incl. 0, where the builder folds `e/e` to 1);
                             `selectors_spec` gives the closed forms where defined;
* `quotient_recompose_eq_partial` — circuit = native **if `Zᵢ(ζ) ≠ 0` for every chunk domain
                             (needed only when there are ≥ 2 chunks)**; the full statement (every ζ)
                             is false of the current code: `P3R.Witness.C20.quotient_recompose_full_false`;
  `quotient_recompose_single` — single chunk (no hypothesis), `lagrange_native_spec` — the native
                             coefficient is `∏_{j≠i} Zⱼ(ζ)/Zⱼ(gᵢ)`;
* `periodic_eq`            — Horner over the coefficient vector = `Σ cᵢ·(x^(2^folds))ⁱ`, every period ≥ 1;
  `periodic_interpolates`  — hence it takes the column's values on the sub-coset whenever the
                             build-time iDFT output does (checked per case by the harness);
  `periodic_eq_interpolant`— and at *every* point it is the value of the unique interpolant of
                             degree < period through the column (Mathlib `Lagrange.interpolate`),
                             i.e. the specification of p3's `evaluate_periodic_column_at`;
  (`P3R.Props.C20Idft`: the build-time inverse coset DFT is modelled and its postcondition proved —
   `periodic_interpolates_total` / `periodic_eq_interpolant_total` are the two statements above with
   the coefficients computed by the model and without the `hidft` / `hinj` hypotheses)
* `horner_poly_eq`         — `evaluate_polynomial` = `Σ cᵢ xⁱ` = native `horner`, every length ≥ 1;
* `domain_point_eq`        — `compute_final_query_point` on boolean bits = `g^(reversed index)`;
  `eval_point_eq`          — `precompute_evaluation_points` for every captured height.
-/
import P3R.Model.Gadgets
import P3R.Lemmas.Gadgets
import Mathlib.Algebra.Field.Basic
import Mathlib.Tactic.Ring
import Mathlib.Tactic.FieldSimp
import Mathlib.LinearAlgebra.Lagrange

namespace P3R.C20
open P3R P3R.Gadgets

/-! ### exponentiation -/

/-- **C20 / exp_power_of_2.** -/
theorem exp_pow2_eq {M : Type} [Monoid M] (x : M) (k : Nat) : expPow2 x k = x ^ (2 ^ k) :=
  expPow2_eq x k

/-- **C20 / exponentiation by a constant**: for every exponent `n ≥ 1` the circuit's
square-and-multiply chain returns `xⁿ`, which is what the native verifier's `n`-fold
`alpha_pow *= alpha` computes. -/
theorem exp_by_constant_eq {M : Type} [Monoid M] (x : M) (n : Nat) (hn : 1 ≤ n) :
    expByConst x n = some (x ^ n) ∧ x ^ n = powNat x n := by
  refine ⟨?_, (powNat_eq x n).symm⟩
  unfold expByConst
  rw [if_neg (by omega), expByConstGo_eq x n hn]

/-- Exponent zero is outside the function's domain (`debug_assert!(n > 0)`); natively `x⁰ = 1`.
Every caller guards `n = 0` (see design notes). -/
theorem exp_by_constant_zero {M : Type} [Monoid M] (x : M) :
    expByConst x 0 = none ∧ powNat x 0 = 1 := ⟨rfl, rfl⟩

example : (1 : Nat) ≤ 5 := by decide  -- non-vacuity of `hn`

/-! ### vanishing polynomial and selectors -/

/-- **C20 / vanishing polynomial**: every log size (0 included), every first point. The circuit
(`vanishing_poly_at_point_circuit`), the build-time native helper and p3's
`vanishing_poly_at_point` are the same straight-line computation, equal to the closed form. -/
theorem vanishing_eq {R : Type} [Ring R] (d : Dom R) (x : R) :
    vanishing d x = (x * d.gInv) ^ (2 ^ d.logN) - 1 := by
  unfold vanishing
  rw [expPow2_eq]

section field
variable {K : Type} [Field K] [DecidableEq K]

/-- **C20 / selectors.** For every shift inverse, generator inverse, log size and point the
circuit gadget and p3's `selectors_at_point` agree — same four values, and the circuit fails to
run (`DivisionByZero`) exactly where the native code panics. No side condition. -/
theorem selectors_eq (shiftInv genInv : K) (logN : Nat) (x : K) :
    selectorsC shiftInv genInv logN x = selectorsN shiftInv genInv logN x := by
  unfold selectorsC selectorsN
  rw [mul_comm shiftInv x]
  generalize x * shiftInv = u
  by_cases hk : logN = 0
  · subst hk
    simp only [expPow2]
    by_cases h1 : u - 1 = 0
    · simp [cdiv, ninv, h1]
    · by_cases hg : genInv = 1
      · subst hg; simp [cdiv, ninv, h1]
      · simp [cdiv, ninv, h1, hg]
  · simp only [hk, false_and, if_false]
    by_cases hz : expPow2 u logN - 1 = 0
    · simp [cdiv, ninv, hz]
    · simp [cdiv, ninv, hz]

/-- Closed forms where the selectors are defined (`u = x·shift⁻¹`, `Z = u^(2^logN) − 1`). -/
theorem selectors_spec (shiftInv genInv : K) (logN : Nat) (x : K)
    (hz : (x * shiftInv) ^ (2 ^ logN) - 1 ≠ 0) (h1 : x * shiftInv - 1 ≠ 0)
    (hg : x * shiftInv - genInv ≠ 0) :
    selectorsN shiftInv genInv logN x = some
      { isFirst := ((x * shiftInv) ^ (2 ^ logN) - 1) / (x * shiftInv - 1)
        isLast := ((x * shiftInv) ^ (2 ^ logN) - 1) / (x * shiftInv - genInv)
        isTrans := x * shiftInv - genInv
        invVan := ((x * shiftInv) ^ (2 ^ logN) - 1)⁻¹ } := by
  unfold selectorsN
  simp [cdiv, ninv, expPow2_eq, hz, h1, hg, div_eq_mul_inv]

-- non-vacuity of the hypotheses of `selectors_spec` (ℚ is not available here without more
-- imports; any field with 3 ≠ 0, 1 works — stated over `K` with explicit facts)
example : ((1 + 1 : K) * 1) ^ (2 ^ 0) - 1 ≠ 0 := by
  have : ((1 + 1 : K) * 1) ^ (2 ^ 0) - 1 = 1 := by ring
  rw [this]; exact one_ne_zero

/-! ### quotient recomposition -/

theorem foldlM_zp {α : Type} (l : List α) (f h : α → K) (a : K) :
    l.foldlM (fun acc d => (ninv (f d)).bind fun inv => some (acc * (h d * inv))) a
    = if ∀ d ∈ l, f d ≠ 0 then some (a * (l.map fun d => h d * (f d)⁻¹).prod) else none := by
  induction l generalizing a with
  | nil => simp
  | cons x l ih =>
    rw [List.foldlM_cons]
    by_cases hx : f x = 0
    · simp [ninv, hx]
    · have hn : ninv (f x) = some (f x)⁻¹ := by simp [ninv, hx]
      simp only [hn, Option.bind_eq_bind, Option.bind_some]
      rw [ih]
      by_cases hall : ∀ d ∈ l, f d ≠ 0
      · have : ∀ d ∈ x :: l, f d ≠ 0 := by
          intro d hd; rcases List.mem_cons.mp hd with rfl | hd
          · exact hx
          · exact hall d hd
        rw [if_pos hall, if_pos this, List.map_cons, List.prod_cons, mul_assoc]
      · have : ¬ ∀ d ∈ x :: l, f d ≠ 0 := fun hh => hall fun d hd => hh d (List.mem_cons_of_mem _ hd)
        rw [if_neg hall, if_neg this]

omit [DecidableEq K] in
theorem prod_mul_inv {α : Type} (l : List α) (f h : α → K) :
    (l.map fun d => h d * (f d)⁻¹).prod = (l.map h).prod * ((l.map f).prod)⁻¹ := by
  induction l with
  | nil => simp
  | cons x l ih =>
    simp only [List.map_cons, List.prod_cons, ih, mul_inv]
    ring

/-- The native Lagrange coefficient is `∏_{j≠i} Zⱼ(ζ) / Zⱼ(gᵢ)` (defined iff no `Zⱼ(gᵢ)` is 0). -/
theorem lagrange_native_spec (doms : List (Dom K)) (i : Nat) (gi zeta : K)
    (hden : ∀ d ∈ others doms i, vanishing d gi ≠ 0) :
    zpN doms i gi zeta
      = some (((others doms i).map fun d => vanishing d zeta / vanishing d gi).prod) := by
  unfold zpN
  rw [foldlM_zp (others doms i) (fun d => vanishing d gi) (fun d => vanishing d zeta) 1, if_pos hden,
    one_mul]
  simp only [div_eq_mul_inv]

/-- One coefficient: circuit (`(∏ⱼ Zⱼ(ζ) / Zᵢ(ζ)) / ∏_{j≠i} Zⱼ(gᵢ)`) = native, provided
`Zᵢ(ζ) ≠ 0` when a division by it is emitted (≥ 2 chunks). -/
theorem lagrange_one_eq (doms : List (Dom K)) (zeta : K) (i : Nat) (d : Dom K)
    (hi : doms[i]? = some d) (hz : 2 ≤ doms.length → vanishing d zeta ≠ 0) :
    lagrangeOneC doms.length (mulMany (doms.map fun d => vanishing d zeta)) (vanishing d zeta)
        (denConst doms i d.g)
      = zpN doms i d.g zeta := by
  unfold lagrangeOneC zpN
  rw [foldlM_zp (others doms i) (fun d' => vanishing d' d.g) (fun d' => vanishing d' zeta) 1]
  by_cases h1 : doms.length = 1
  · -- single chunk: no division in the circuit, empty product natively
    rw [if_pos h1]
    obtain ⟨a, rfl⟩ := List.length_eq_one_iff.mp h1
    have hi0 : i = 0 := by
      cases i with
      | zero => rfl
      | succ i => simp at hi
    subst hi0
    simp [others]
  · rw [if_neg h1]
    have hlen : 2 ≤ doms.length := by
      have : i < doms.length := by
        by_contra hc
        rw [List.getElem?_eq_none (by omega)] at hi
        cases hi
      omega
    have hvp := hz hlen
    have htot : mulMany (doms.map fun d => vanishing d zeta)
        = vanishing d zeta * ((others doms i).map fun d => vanishing d zeta).prod := by
      rw [mulMany_eq]
      exact prod_eq_mul_others doms (fun d => vanishing d zeta) i d hi
    have hden : denConst doms i d.g = ((others doms i).map fun d' => vanishing d' d.g).prod := by
      unfold denConst
      rw [foldl_mul_eq, one_mul]
    rw [htot, hden]
    simp only [cdiv, hvp, if_false]
    by_cases hall : ∀ d' ∈ others doms i, vanishing d' d.g ≠ 0
    · have hne : ((others doms i).map fun d' => vanishing d' d.g).prod ≠ 0 := by
        rw [Ne, List.prod_eq_zero_iff]
        simp only [List.mem_map, not_exists, not_and]
        intro d' hd' h0
        exact hall d' hd' h0
      simp only [Option.bind_some]
      rw [if_neg hne, if_pos hall, prod_mul_inv, one_mul]
      congr 1
      field_simp
    · have h0 : ((others doms i).map fun d' => vanishing d' d.g).prod = 0 := by
        rw [List.prod_eq_zero_iff]
        push Not at hall
        obtain ⟨d', hd', hv⟩ := hall
        exact List.mem_map.mpr ⟨d', hd', hv⟩
      simp only [Option.bind_some]
      rw [if_pos h0, if_neg hall]

theorem mapM_congr_mem {α β : Type} (l : List α) (f g : α → Option β) (h : ∀ a ∈ l, f a = g a) :
    l.mapM f = l.mapM g := by
  induction l with
  | nil => rfl
  | cons a l ih =>
    rw [List.mapM_cons, List.mapM_cons, h a List.mem_cons_self,
      ih fun b hb => h b (List.mem_cons_of_mem _ hb)]

theorem mem_zipIdx_getElem? {α : Type} (l : List α) (d : α) (i : Nat) (h : (d, i) ∈ l.zipIdx) :
    l[i]? = some d := by
  have := List.mem_zipIdx h
  simp only [Nat.zero_le, Nat.sub_zero, true_and] at this
  obtain ⟨hlt, hd⟩ := this
  simp only [Nat.zero_add] at hlt
  rw [List.getElem?_eq_getElem hlt]
  simpa using hd.symm

omit [DecidableEq K] in
theorem innerProduct_fromBasis_aux (a b : List K) (acc : K) :
    (a.zip b).foldl (fun acc xy => xy.1 * xy.2 + acc) acc
      = (b.zip a).foldl (fun acc ec => acc + ec.1 * ec.2) acc := by
  induction a generalizing b acc with
  | nil => simp
  | cons x a ih =>
    cases b with
    | nil => simp
    | cons y b =>
      simp only [List.zip_cons_cons, List.foldl_cons]
      rw [ih]
      congr 1
      ring

omit [DecidableEq K] in
theorem innerProduct_fromBasis (ch basis : List K) : innerProduct ch basis = fromBasis basis ch :=
  innerProduct_fromBasis_aux ch basis 0

omit [DecidableEq K] in
theorem combine_eq (chunks : List (List K)) (basis zps : List K) (acc : K) :
    ((chunks.map fun ch => innerProduct ch basis).zip zps).foldl (fun acc xy => xy.1 * xy.2 + acc) acc
      = (zps.zip chunks).foldl (fun acc zc => acc + zc.1 * fromBasis basis zc.2) acc := by
  induction chunks generalizing zps acc with
  | nil => simp
  | cons ch chunks ih =>
    cases zps with
    | nil => simp
    | cons z zps =>
      simp only [List.map_cons, List.zip_cons_cons, List.foldl_cons]
      rw [ih, innerProduct_fromBasis]
      congr 1
      ring

/-- **C20 / quotient recomposition (partial).**
Full statement (false of the current code, see `P3R.Witness.C20.quotient_recompose_full_false`):
`∀ doms chunks basis ζ, chunks.length = doms.length → recomposeC … ζ = recomposeN … ζ`.
Proved: the same with the extra hypothesis `hz` — *when there are at least two chunks, ζ is
not a root of any chunk domain's vanishing polynomial*. Everything else is unrestricted: any
number of chunks (0, 1, 2^k with or without the ZK doubling — the list is arbitrary), any
domain sizes and first points (if some constant `Zⱼ(gᵢ)` is 0 both sides fail), any chunk
values, any basis. What is missing for the full statement is exactly `hz`: at `Zᵢ(ζ) = 0` the
circuit's `div(total, Zᵢ(ζ))` fails while p3 multiplies over `j ≠ i` without dividing. -/
theorem quotient_recompose_eq_partial (doms : List (Dom K)) (chunks : List (List K))
    (basis : List K) (zeta : K) (hlen : chunks.length = doms.length)
    (hz : 2 ≤ doms.length → ∀ d ∈ doms, vanishing d zeta ≠ 0) :
    recomposeC doms chunks basis zeta = recomposeN doms chunks basis zeta := by
  unfold recomposeC recomposeN lagrangeC
  have hmap : doms.zipIdx.mapM (fun di =>
        lagrangeOneC doms.length (mulMany (doms.map fun d => vanishing d zeta))
          (vanishing di.1 zeta) (denConst doms di.2 di.1.g))
      = doms.zipIdx.mapM (fun di => zpN doms di.2 di.1.g zeta) := by
    apply mapM_congr_mem
    rintro ⟨d, i⟩ hmem
    have hi := mem_zipIdx_getElem? doms d i hmem
    exact lagrange_one_eq doms zeta i d hi fun h2 => hz h2 d (List.mem_of_getElem? hi)
  simp only [hmap]
  cases doms.zipIdx.mapM (fun di => zpN doms di.2 di.1.g zeta) with
  | none => rfl
  | some zps =>
    simp only []
    by_cases hempty : chunks.isEmpty
    · have : chunks = [] := List.isEmpty_iff.mp hempty
      subst this
      simp
    · rw [if_neg hempty]
      have h1 : (chunks.length != doms.length) = false := by simp [hlen]
      have h2 : decide (doms.length < chunks.length) = false := by simp [hlen]
      simp only [h1, h2, Bool.or_false]
      split
      · rfl
      · exact congrArg some (combine_eq chunks basis zps 0)

/-- Single chunk: no hypothesis at all (the builder folds `Z₀(ζ)/Z₀(ζ)` to 1). -/
theorem quotient_recompose_single (d : Dom K) (ch : List K) (basis : List K) (zeta : K) :
    recomposeC [d] [ch] basis zeta = recomposeN [d] [ch] basis zeta :=
  quotient_recompose_eq_partial [d] [[ch].head!] basis zeta rfl (fun h => by simp at h)

end field

/-! ### periodic columns and polynomial evaluation -/

section ring
variable {R : Type} [CommRing R]

/-- **C20 / periodic column.** For every non-empty coefficient vector (period `= |coeffs| ≥ 1`,
period 1 included: the constant branch) and every `folds`, the gadget returns the coefficient
polynomial at `x^(2^folds)`: `Σ cᵢ·(x^(2^folds))ⁱ`. -/
theorem periodic_eq (coeffs : List R) (folds : Nat) (x : R) (hne : coeffs ≠ []) :
    periodicC coeffs folds x = some (polyEval coeffs (x ^ (2 ^ folds)))
    ∧ polyEval coeffs (x ^ (2 ^ folds))
        = ∑ i ∈ Finset.range coeffs.length, coeffs.getD i 0 * (x ^ (2 ^ folds)) ^ i := by
  refine ⟨?_, polyEval_eq_sum _ _⟩
  unfold periodicC
  have hrev : coeffs = coeffs.reverse.reverse := (List.reverse_reverse coeffs).symm
  cases hr : coeffs.reverse with
  | nil => exact absurd (List.reverse_eq_nil_iff.mp hr) hne
  | cons lead rest =>
    rw [hrev, hr]
    simp only [List.reverse_cons]
    by_cases he : rest.isEmpty
    · have : rest = [] := List.isEmpty_iff.mp he
      subst this
      simp [polyEval]
    · rw [if_neg he, foldl_horner, expPow2_eq]

/-- The gadget's value on the sub-coset: if the build-time coefficients reproduce the column on
the sub-coset points `pts` (the inverse-DFT postcondition, re-checked by the harness for every
case), then at any `x` with `x^(2^folds) = ptsⱼ` the gadget returns `colⱼ` — the defining
property of the native interpolant `evaluate_periodic_column_at`. -/
theorem periodic_interpolates (coeffs : List R) (folds : Nat) (x : R) (hne : coeffs ≠ [])
    (pts col : List R) (hidft : ∀ (j : Nat) (p v : R), pts[j]? = some p → col[j]? = some v → polyEval coeffs p = v)
    (j : Nat) (p v : R) (hp : pts[j]? = some p) (hv : col[j]? = some v) (hx : x ^ (2 ^ folds) = p) :
    periodicC coeffs folds x = some v := by
  rw [(periodic_eq coeffs folds x hne).1, hx, hidft j p v hp hv]

/-- **C20 / polynomial evaluation** (`evaluate_polynomial`, FRI final polynomial): for every
length ≥ 1 (length 1: the coefficient itself is returned) the gadget equals the native Horner
value `Σ cᵢ xⁱ`. -/
theorem horner_poly_eq (cs : List R) (x : R) (hne : cs ≠ []) :
    evalPolyC cs x = some (polyEval cs x)
    ∧ polyEval cs x = ∑ i ∈ Finset.range cs.length, cs.getD i 0 * x ^ i := by
  refine ⟨?_, polyEval_eq_sum _ _⟩
  unfold evalPolyC
  match cs, hne with
  | [c], _ => simp [polyEval]
  | c :: c' :: cs, _ =>
    simp only []
    have h : ∀ (l : List R) (r : R), l.foldl (fun r c => r * x + c - 0) r
        = l.foldl (fun acc c => acc * x + c) r := by
      intro l; induction l with
      | nil => intro r; rfl
      | cons a l ih => intro r; simp only [List.foldl_cons, sub_zero]
    rw [h]
    have := foldl_horner (c :: c' :: cs).reverse 0 x
    rw [this]
    simp [polyEval, List.foldr_append]

example : ([1, 2] : List R) ≠ [] := by simp  -- non-vacuity of `hne`

/-! ### index-dependent domain points -/

/-- **C20 / final query point.** For every `logMax`, every number of consumed bits and every
boolean index-bit vector of the remaining length, the select–multiply chain returns
`g^(reverse_bits_len(index >> consumed, logMax))`. -/
theorem domain_point_eq (g : R) (logMax consumed : Nat) (bits : List Bool)
    (hlen : consumed + bits.length = logMax) :
    finalQueryPointC g logMax consumed (bits.map toK) = finalQueryPointN g consumed bits := by
  unfold finalQueryPointC finalQueryPointN
  have : List.replicate consumed (0 : R) ++ (bits.map toK).reverse
      = (List.replicate consumed false ++ bits.reverse).map toK := by
    simp [toK, List.map_reverse]
  rw [this, selectChain_eq _ g logMax (by simp; omega), powNat_eq]

/-- **C20 / evaluation points per height.** For every `h ≤ hMax` the captured prefix product,
raised to `2^(hMax − h)` and multiplied by the coset generator, is
`GENERATOR · g_h^(reverse_bits_len(index >> (logGlobalMax − h), h))` with
`g_h = g_{hMax}^(2^(hMax−h))` (the relation between p3's two-adic generators). -/
theorem eval_point_eq (gen g : R) (hMax h : Nat) (revBits : List Bool) (hh : h ≤ hMax) :
    evalPointC gen g hMax h (revBits.map toK)
      = evalPointN gen (g ^ (2 ^ (hMax - h))) h revBits := by
  unfold evalPointC evalPointN
  rw [← List.map_take, selectChain_eq _ g hMax (by simp; omega), expPow2_eq, powNat_eq,
    ← pow_mul, ← pow_mul, Nat.mul_comm]

end ring

/-! ### periodic column = native interpolant -/

section interpolant
open Polynomial
variable {K : Type} [Field K]

/-- The polynomial with ascending coefficient list `cs`. -/
noncomputable def toPoly : List K → K[X]
  | [] => 0
  | c :: cs => toPoly cs * X + C c

theorem eval_toPoly (cs : List K) (x : K) : (toPoly cs).eval x = polyEval cs x := by
  induction cs with
  | nil => simp [toPoly, polyEval]
  | cons c cs ih => simp [toPoly, polyEval_cons, ih]

theorem coeff_toPoly_of_le (cs : List K) : ∀ k, cs.length ≤ k → (toPoly cs).coeff k = 0 := by
  induction cs with
  | nil => intro k _; simp [toPoly]
  | cons c cs ih =>
    intro k hk
    obtain ⟨j, rfl⟩ : ∃ j, k = j + 1 := ⟨k - 1, by simp at hk; omega⟩
    simp only [toPoly, coeff_add, coeff_mul_X, coeff_C_succ, add_zero]
    exact ih j (by simp at hk; omega)

theorem degree_toPoly_lt (cs : List K) : (toPoly cs).degree < cs.length :=
  (degree_lt_iff_coeff_zero _ _).mpr fun k hk => coeff_toPoly_of_le cs k hk

/-- **C20 / periodic column = the native interpolant, at every point.** If the build-time
coefficient vector (length = period `m ≥ 1`) reproduces the column on the `m` pairwise distinct
sub-coset points (the inverse-DFT postcondition; re-checked by the harness for every case), then
for *every* `x` and every `folds` the gadget returns the value at `x^(2^folds)` of the unique
polynomial of degree `< m` interpolating the column on those points — which is what p3's
`evaluate_periodic_column_at` (`interpolate_coset` over the sub-coset) is specified to return.
(The gadget, having no division, is also defined at the sub-coset points themselves, where the
p3 0.6.3 implementation panics.) -/
theorem periodic_eq_interpolant (coeffs : List K) (folds : Nat) (x : K) (hne : coeffs ≠ [])
    (pts col : Fin coeffs.length → K) (hinj : Function.Injective pts)
    (hidft : ∀ j, polyEval coeffs (pts j) = col j) :
    periodicC coeffs folds x
      = some ((Lagrange.interpolate Finset.univ pts col).eval (x ^ (2 ^ folds))) := by
  have hP : toPoly coeffs = Lagrange.interpolate Finset.univ pts col := by
    apply Lagrange.eq_interpolate_of_eval_eq
    · exact hinj.injOn
    · simpa using degree_toPoly_lt coeffs
    · intro i _; rw [eval_toPoly]; exact hidft i
  rw [← hP, eval_toPoly]
  exact (periodic_eq coeffs folds x hne).1

end interpolant

end P3R.C20
