/-
C14 (labels) — the naming scheme of `P3R.Model.Packing` never gives two allocated inputs the same
label, for every proof shape.

The C14 theorems (`packing_aligned_*`, `packed_position_*`, `no_dead_input_*`) identify the
positions of the packed public / private vectors by LABELS — strings such as `com.main.r0.0`,
`ov2.q1.3`, `fri.q0.ph1.salt0.2`, assembled by `Model/Packing.lean` from the proof shape.
"Position `k` of the packed vector carries the element labelled `ℓ` and the `k`-th allocated target
is labelled `ℓ`" identifies *elements* only if no two allocated inputs share a label. Until now the
driver checked that per generated shape (`meta … distinct=1`); here it is proved for all shapes.

Route (`Model/PackingLabels.lean` holds the definitions):

1. *Structured labels.* `Seg` = a name / a name with an index glued on / a bare index, over the 30
   component names `Nm` of the scheme; `Path = List Seg`; `render : Path → String` joins with `.`.
   Every label-valued traversal `F` of `Model/Packing.lean` has a twin `FT` over paths and
   `F (render pre) … = (FT pre …).map render` (`idxFrom_render` … `uniPub_render`, `uniPriv_render`,
   `batchPub_render`, `batchPriv_render`): the strings the model produces (which the driver
   prints and which are diffed against the real code) ARE renderings of structured labels. The
   existing functions are untouched.
2. *`render_injective`* — `Function.Injective render`, unconditionally, as a statement about
   Lean's `String` (`String.toList`, `Nat.repr` / `Nat.toDigits`). Side condition on names, `NameOk`:
   non-empty, no `.`, no decimal digit — discharged for the 30 names by `decide` (`nm_ok`); the
   spellings are pairwise different (`Nm.str_injective`). `Witness/C14Labels.lean` shows each clause
   of `NameOk` is needed.
3. *Distinctness of structured labels* by induction over the shape (`Good` / `Under`): the indices of
   a vector are different numbers (`good_idxFromT`), blocks of an `enumerate()` sit under different
   `name‹i›` segments (`under_flatMapIdx`), sibling blocks under different names (`under_append`).
   `uniT_nodup`, `batchT_nodup`: public and private labels of a whole shape *together*.

Main theorems (every shape, every `D`, `E`; NO hypothesis — no well-formedness is needed):

* `alloc_labels_nodup_uni_all/_batch_all` — the labels of the whole allocation trace are `Nodup`.
* `alloc_labels_nodup_uni/_batch` — public labels `Nodup`, private labels `Nodup`, and no label is
  both public and private (the model does not mark visibility in the label; the names of the
  public and private components differ).
* `allDistinct_uni/_batch` — the driver's run-time check `allDistinct` returns `true` on every shape
  (`allDistinct_iff`: it decides `Nodup`). The driver still evaluates it; it can no longer fail.
* `packed_position_unique_uni/_batch` — two positions of a packed vector carrying the same label
  are the same position; no label occurs in both vectors.

Still tied to the Rust only by the sentinel read-back correspondence: that the *harness's* walks
name targets / elements the way the model does (`harness/src/c14_cfg.rs`).
-/
import P3R.Model.PackingLabels
import P3R.Props.C14
import Mathlib.Data.List.Nodup

namespace P3R.Packing

/-! ### 1. The model's label strings are `render` of structured labels -/

theorem render_snoc (pre : Path) (h : pre ≠ []) (t : Seg) :
    render (pre ++ [t]) = render pre ++ "." ++ t.render := by
  cases pre with
  | nil => exact absurd rfl h
  | cons s rest => simp [render, List.foldl_append]

theorem render_snoc_idx (pre : Path) (h : pre ≠ []) (k : Nat) :
    render (pre ++ [.idx k]) = render pre ++ "." ++ toString k := render_snoc pre h _

theorem render_snoc_name (pre : Path) (h : pre ≠ []) (n : Nm) :
    render (pre ++ [.name n]) = render pre ++ ("." ++ n.str) := by
  rw [render_snoc pre h, String.append_assoc]; rfl

theorem render_snoc_nameIdx (pre : Path) (h : pre ≠ []) (n : Nm) (i : Nat) :
    render (pre ++ [.nameIdx n i]) = render pre ++ ("." ++ n.str) ++ toString i := by
  rw [render_snoc pre h]
  show render pre ++ "." ++ (n.str ++ toString i) = _
  simp only [String.append_assoc]

theorem map_optL {α β γ : Type} (o : Option α) (f : α → List β) (g : β → γ) :
    (optL o f).map g = optL o (fun a => (f a).map g) := by
  cases o <;> rfl

theorem map_flatMapIdx {α β γ : Type} (f : Nat → α → List β) (g : β → γ) (i : Nat) (l : List α) :
    (flatMapIdx f i l).map g = flatMapIdx (fun j a => (f j a).map g) i l := by
  induction l generalizing i with
  | nil => rfl
  | cons a l ih => simp [flatMapIdx, ih]

theorem idxFrom_render (pre : Path) (h : pre ≠ []) (k n : Nat) :
    (idxFromT pre k n).map render = idxFrom (render pre) k n := by
  induction n generalizing k with
  | zero => rfl
  | succ n ih =>
    simp only [idxFromT, idxFrom, List.map_cons, ih, render_snoc_idx pre h]
    rfl

theorem idx_render (pre : Path) (h : pre ≠ []) (n : Nat) :
    (idxT pre n).map render = idx (render pre) n := idxFrom_render pre h 0 n

theorem snoc_ne_nil (pre : Path) (t : Seg) : pre ++ [t] ≠ [] := by simp

theorem capPub_render (E : Nat) (pre : Path) (h : pre ≠ []) (roots : Nat) :
    (capPubT E pre roots).map render = capPub E (render pre) roots := by
  simp only [capPubT, capPub, map_flatMapIdx, idx_render _ (snoc_ne_nil _ _), render_snoc_nameIdx pre h]
  rfl


theorem ne_nil2 (a b : Seg) : ([a, b] : Path) ≠ [] := by simp
theorem ne_nil1 (a : Seg) : ([a] : Path) ≠ [] := by simp

theorem comsPub_render (E : Nat) (c : ComsShape) :
    (comsPubT E c).map render = comsPub E c := by
  simp only [comsPubT, comsPub, List.map_append, map_optL, capPub_render _ _ (ne_nil2 _ _)]
  rfl

theorem ovPriv_render (pre : Path) (h : pre ≠ []) (o : OVShape) :
    (ovPrivT pre o).map render = ovPriv (render pre) o := by
  simp only [ovPrivT, ovPriv, List.map_append, map_optL, map_flatMapIdx,
    idx_render _ (snoc_ne_nil _ _), render_snoc_name pre h, render_snoc_nameIdx pre h]
  rfl

theorem ovlPriv_render (pre : Path) (h : pre ≠ []) (o : OVLShape) :
    (ovlPrivT pre o).map render = ovlPriv (render pre) o := by
  simp only [ovlPrivT, ovlPriv, List.map_append, ovPriv_render pre h,
    idx_render _ (snoc_ne_nil _ _), render_snoc_name pre h]
  rfl

theorem ovsPriv_render (l : List OVLShape) : (ovsPrivT l).map render = ovsPriv l := by
  simp only [ovsPrivT, ovsPriv, map_flatMapIdx, ovlPriv_render _ (ne_nil1 _)]
  rfl

theorem mmcsPriv_render (pre : Path) (h : pre ≠ []) (p : MmcsProofShape) :
    (mmcsPrivT pre p).map render = mmcsPriv (render pre) p := by
  simp only [mmcsPrivT, mmcsPriv, map_flatMapIdx, idx_render _ (snoc_ne_nil _ _),
    render_snoc_nameIdx pre h]
  rfl

theorem boPriv_render (pre : Path) (h : pre ≠ []) (b : BatchOpeningShape) :
    (boPrivT pre b).map render = boPriv (render pre) b := by
  simp only [boPrivT, boPriv, List.map_append, map_flatMapIdx, idx_render _ (snoc_ne_nil _ _),
    render_snoc_nameIdx pre h, mmcsPriv_render pre h]
  rfl

theorem stepPriv_render (D : Nat) (pre : Path) (h : pre ≠ []) (s : StepShape) :
    (stepPrivT D pre s).map render = stepPriv D (render pre) s := by
  simp only [stepPrivT, stepPriv, List.map_append, idx_render _ (snoc_ne_nil _ _),
    render_snoc_name pre h, mmcsPriv_render pre h, sibCoeffs_eq, Nat.zero_mul]
  rfl

theorem queryPriv_render (D : Nat) (pre : Path) (h : pre ≠ []) (q : QueryShape) :
    (queryPrivT D pre q).map render = queryPriv D (render pre) q := by
  simp only [queryPrivT, queryPriv, List.map_append, map_flatMapIdx,
    boPriv_render _ (snoc_ne_nil _ _), stepPriv_render D _ (snoc_ne_nil _ _),
    render_snoc_nameIdx pre h]
  rfl

theorem friPub_render (E : Nat) (f : FriShape) : (friPubT E f).map render = friPub E f := by
  simp only [friPubT, friPub, List.map_append, map_flatMapIdx, capPub_render _ _ (ne_nil2 _ _),
    idx_render _ (ne_nil2 _ _)]
  rfl

theorem friPriv_render (D : Nat) (f : FriShape) : (friPrivT D f).map render = friPriv D f := by
  simp only [friPrivT, friPriv, map_flatMapIdx, queryPriv_render D _ (ne_nil2 _ _)]
  rfl

theorem hidPriv_render (h : List (List (List Nat))) : (hidPrivT h).map render = hidPriv h := by
  have hne : ∀ a b c d : Seg, ([a, b, c, d] : Path) ≠ [] := by intros; simp
  have hr : ∀ r m p : Nat, render [.name .hid, .nameIdx .r r, .nameIdx .m m, .nameIdx .p p]
      = s!"hid.r{r}.m{m}.p{p}" := by
    intro r m p
    have e : ([.name .hid, .nameIdx .r r, .nameIdx .m m, .nameIdx .p p] : Path)
        = (([.name .hid] ++ [.nameIdx .r r]) ++ [.nameIdx .m m]) ++ [.nameIdx .p p] := rfl
    rw [e, render_snoc_nameIdx _ (by simp), render_snoc_nameIdx _ (by simp),
      render_snoc_nameIdx _ (by simp)]
    rfl
  simp only [hidPrivT, hidPriv, map_flatMapIdx, idx_render _ (hne _ _ _ _), hr]

theorem pcsPub_render (E : Nat) (p : PcsShape) : (pcsPubT E p).map render = pcsPub E p :=
  friPub_render E p.fri

theorem pcsPriv_render (D : Nat) (p : PcsShape) : (pcsPrivT D p).map render = pcsPriv D p := by
  simp only [pcsPrivT, pcsPriv, List.map_append, map_optL, hidPriv_render, friPriv_render]

theorem uniPub_render (E : Nat) (s : UniShape) : (uniPubT E s).map render = uniPub E s := by
  simp only [uniPubT, uniPub, List.map_append, map_optL, idx_render _ (ne_nil1 _),
    comsPub_render, pcsPub_render, capPub_render _ _ (ne_nil1 _)]
  rfl

theorem uniPriv_render (D : Nat) (s : UniShape) : (uniPrivT D s).map render = uniPriv D s := by
  simp only [uniPrivT, uniPriv, List.map_append, ovPriv_render _ (ne_nil1 _), pcsPriv_render]
  rfl

theorem termLabels_render (i : Nat) (l : List Bool) :
    (termLabelsT i l).map render = termLabels i l := by
  induction l generalizing i with
  | nil => rfl
  | cons b l ih =>
    cases b
    · simpa [termLabelsT, termLabels] using ih (i + 1)
    · simp only [termLabelsT, termLabels, List.map_cons, ih]
      rfl

theorem batchPub_render (E : Nat) (s : BatchShape) : (batchPubT E s).map render = batchPub E s := by
  simp only [batchPubT, batchPub, List.map_append, map_optL, map_flatMapIdx, idx_render _ (ne_nil1 _),
    comsPub_render, pcsPub_render, capPub_render _ _ (ne_nil1 _), termLabels_render]
  rfl

theorem batchPriv_render (D : Nat) (s : BatchShape) : (batchPrivT D s).map render = batchPriv D s := by
  simp only [batchPrivT, batchPriv, List.map_append, ovsPriv_render, pcsPriv_render]

/-! ### 2. `render` is injective

Side condition on component names (`NameOk`): non-empty, no `.`, no decimal digit. It holds for
every name of the scheme (`nm_ok`, by `decide`), and the spellings are pairwise different
(`Nm.str_injective`, by `decide`). With it a segment's rendering splits uniquely into its name
part and its digit part, contains no `.`, and is non-empty; a rendered path splits uniquely at
its `.`s. -/

/-- What the rendering needs of a component name. -/
def NameOk (s : String) : Prop := s.toList ≠ [] ∧ ∀ c ∈ s.toList, c ≠ '.' ∧ c.isDigit = false

instance (s : String) : Decidable (NameOk s) := by unfold NameOk; infer_instance

theorem nm_ok (n : Nm) : NameOk n.str := by cases n <;> decide

theorem Nm.str_injective : Function.Injective Nm.str := by
  intro a b h
  cases a <;> cases b <;> first | rfl | exact absurd h (by decide)

/-- Decimal digits of an index. -/
abbrev digits (i : Nat) : List Char := Nat.toDigits 10 i

theorem digits_injective : Function.Injective digits := by
  intro a b h
  have := congrArg (fun l => Nat.ofDigitChars 10 l 0) h
  simpa using this

theorem digits_ne_nil (i : Nat) : digits i ≠ [] := Nat.toDigits_ne_nil

theorem digits_isDigit (i : Nat) : ∀ c ∈ digits i, c.isDigit = true :=
  fun _ hc => Nat.isDigit_of_mem_toDigits (by decide) (by decide) hc

def Seg.nm : Seg → List Char
  | .name n => n.str.toList
  | .nameIdx n _ => n.str.toList
  | .idx _ => []

def Seg.dg : Seg → List Char
  | .name _ => []
  | .nameIdx _ i => digits i
  | .idx i => digits i

def Seg.chars (s : Seg) : List Char := s.nm ++ s.dg

theorem Seg.toList_render (s : Seg) : s.render.toList = s.chars := by
  cases s <;> simp [Seg.render, Seg.chars, Seg.nm, Seg.dg, String.toList_append]

theorem Seg.nm_noDigit (s : Seg) : ∀ c ∈ s.nm, c.isDigit = false := by
  cases s with
  | name n => exact fun c hc => ((nm_ok n).2 c hc).2
  | nameIdx n i => exact fun c hc => ((nm_ok n).2 c hc).2
  | idx i => intro c hc; cases hc

theorem Seg.dg_isDigit (s : Seg) : ∀ c ∈ s.dg, c.isDigit = true := by
  cases s with
  | name n => intro c hc; cases hc
  | nameIdx n i => exact digits_isDigit i
  | idx i => exact digits_isDigit i

theorem Seg.chars_noDot (s : Seg) : '.' ∉ s.chars := by
  intro h
  rcases List.mem_append.mp h with h | h
  · cases s with
    | name n => exact ((nm_ok n).2 _ h).1 rfl
    | nameIdx n i => exact ((nm_ok n).2 _ h).1 rfl
    | idx i => cases h
  · have := s.dg_isDigit _ h
    revert this; decide

theorem Seg.chars_ne_nil (s : Seg) : s.chars ≠ [] := by
  cases s with
  | name n => simpa [Seg.chars, Seg.nm, Seg.dg] using (nm_ok n).1
  | nameIdx n i => simp [Seg.chars, Seg.nm, Seg.dg, digits_ne_nil i]
  | idx i => simpa [Seg.chars, Seg.nm, Seg.dg] using digits_ne_nil i

/-- A word `letters ++ digits` splits in one way only. -/
theorem split_unique {a b x y : List Char}
    (ha : ∀ c ∈ a, c.isDigit = false) (hb : ∀ c ∈ b, c.isDigit = false)
    (hx : ∀ c ∈ x, c.isDigit = true) (hy : ∀ c ∈ y, c.isDigit = true)
    (h : a ++ x = b ++ y) : a = b ∧ x = y := by
  induction a generalizing b with
  | nil =>
    cases b with
    | nil => exact ⟨rfl, by simpa using h⟩
    | cons c b =>
      exfalso
      have h1 : c ∈ x := by rw [List.nil_append] at h; rw [h]; simp
      have := hx c h1
      rw [hb c (by simp)] at this
      cases this
  | cons c a ih =>
    cases b with
    | nil =>
      exfalso
      have h1 : c ∈ y := by rw [List.nil_append] at h; rw [← h]; simp
      have := hy c h1
      rw [ha c (by simp)] at this
      cases this
    | cons d b =>
      simp only [List.cons_append, List.cons.injEq] at h
      obtain ⟨h1, h2⟩ := ih (fun c hc => ha c (List.mem_cons_of_mem _ hc))
        (fun c hc => hb c (List.mem_cons_of_mem _ hc)) h.2
      exact ⟨by rw [h.1, h1], h2⟩

theorem Seg.chars_injective : Function.Injective Seg.chars := by
  intro s t h
  obtain ⟨h1, h2⟩ := split_unique s.nm_noDigit t.nm_noDigit s.dg_isDigit t.dg_isDigit h
  have hne : ∀ n : Nm, n.str.toList ≠ [] := fun n => (nm_ok n).1
  have hstr : ∀ {n n' : Nm}, n.str.toList = n'.str.toList → n = n' :=
    fun e => Nm.str_injective (String.toList_inj.mp e)
  cases s <;> cases t <;> simp only [Seg.nm, Seg.dg] at h1 h2
  · rw [hstr h1]
  · exact absurd h2.symm (digits_ne_nil _)
  · exact absurd h1 (hne _)
  · exact absurd h2 (digits_ne_nil _)
  · rw [hstr h1, digits_injective h2]
  · exact absurd h1 (hne _)
  · exact absurd h1.symm (hne _)
  · exact absurd h1.symm (hne _)
  · rw [digits_injective h2]

/-- Characters after the first segment: every further segment preceded by a `.`. -/
def tailChars : Path → List Char
  | [] => []
  | t :: rest => '.' :: (t.chars ++ tailChars rest)

def pathChars : Path → List Char
  | [] => []
  | s :: rest => s.chars ++ tailChars rest

theorem toList_foldl_render (rest : Path) (acc : String) :
    (rest.foldl (fun acc t => acc ++ "." ++ t.render) acc).toList = acc.toList ++ tailChars rest := by
  induction rest generalizing acc with
  | nil => simp [tailChars]
  | cons t rest ih =>
    rw [List.foldl_cons, ih]
    simp [tailChars, String.toList_append, Seg.toList_render]

theorem toList_render (p : Path) : (render p).toList = pathChars p := by
  cases p with
  | nil => rfl
  | cons s rest => simp [render, pathChars, toList_foldl_render, Seg.toList_render]

theorem first_split {c : Char} {a b X Y : List Char} (ha : c ∉ a) (hb : c ∉ b)
    (h : a ++ c :: X = b ++ c :: Y) : a = b ∧ X = Y := by
  induction a generalizing b with
  | nil =>
    cases b with
    | nil => exact ⟨rfl, by simpa using h⟩
    | cons d b =>
      exfalso
      simp only [List.nil_append, List.cons_append, List.cons.injEq] at h
      exact hb (by rw [h.1]; simp)
  | cons e a ih =>
    cases b with
    | nil =>
      exfalso
      simp only [List.nil_append, List.cons_append, List.cons.injEq] at h
      exact ha (by rw [← h.1]; simp)
    | cons d b =>
      simp only [List.cons_append, List.cons.injEq] at h
      obtain ⟨h1, h2⟩ := ih (fun hc => ha (List.mem_cons_of_mem _ hc))
        (fun hc => hb (List.mem_cons_of_mem _ hc)) h.2
      exact ⟨by rw [h.1, h1], h2⟩

/-- Splitting at the first `.`. -/
theorem dot_split {a b X Y : List Char} (ha : '.' ∉ a) (hb : '.' ∉ b)
    (hX : X = [] ∨ ∃ X', X = '.' :: X') (hY : Y = [] ∨ ∃ Y', Y = '.' :: Y')
    (h : a ++ X = b ++ Y) : a = b ∧ X = Y := by
  rcases hX with rfl | ⟨X', rfl⟩ <;> rcases hY with rfl | ⟨Y', rfl⟩
  · exact ⟨by simpa using h, rfl⟩
  · exfalso; apply ha; rw [List.append_nil] at h; rw [h]; simp
  · exfalso; apply hb; rw [List.append_nil] at h; rw [← h]; simp
  · obtain ⟨h1, h3⟩ := first_split ha hb h
    exact ⟨h1, by rw [h3]⟩

theorem tailChars_shape (p : Path) : tailChars p = [] ∨ ∃ X, tailChars p = '.' :: X := by
  cases p with
  | nil => exact Or.inl rfl
  | cons t rest => exact Or.inr ⟨_, rfl⟩

theorem tailChars_injective : Function.Injective tailChars := by
  intro p
  induction p with
  | nil =>
    intro q h
    cases q with
    | nil => rfl
    | cons t rest => cases h
  | cons s p ih =>
    intro q h
    cases q with
    | nil => cases h
    | cons t q =>
      simp only [tailChars, List.cons.injEq, true_and] at h
      obtain ⟨h1, h2⟩ := dot_split s.chars_noDot t.chars_noDot (tailChars_shape p) (tailChars_shape q) h
      rw [Seg.chars_injective h1, ih h2]

theorem pathChars_injective : Function.Injective pathChars := by
  intro p q h
  cases p with
  | nil =>
    cases q with
    | nil => rfl
    | cons t q =>
      exfalso
      have : t.chars = [] := by
        have h' : t.chars ++ tailChars q = [] := h.symm
        exact (List.append_eq_nil_iff.mp h').1
      exact t.chars_ne_nil this
  | cons s p =>
    cases q with
    | nil =>
      exfalso
      have h' : s.chars ++ tailChars p = [] := h
      exact s.chars_ne_nil (List.append_eq_nil_iff.mp h').1
    | cons t q =>
      obtain ⟨h1, h2⟩ := dot_split s.chars_noDot t.chars_noDot (tailChars_shape p) (tailChars_shape q) h
      rw [Seg.chars_injective h1, tailChars_injective h2]

/-- **The rendering of structured labels is injective**: two paths with the same string are the
    same path (all component names satisfy `NameOk`; no hypothesis on the indices). -/
theorem render_injective : Function.Injective render := by
  intro p q h
  apply pathChars_injective
  rw [← toList_render, ← toList_render, h]

/-! ### 3. The structured labels of every shape are distinct

`Good pre L`: the paths of `L` are pairwise different and all extend `pre`.
`Under pre S L`: the paths of `L` are pairwise different and each extends `pre ++ [s]` for a child
segment `s` with `S s`. Blocks under different child segments cannot collide (`prefix_snoc_unique`),
indices of one vector are different numbers, `enumerate()` indices glued to a name are different
segments. -/

def Good (pre : Path) (L : List Path) : Prop := L.Nodup ∧ ∀ x ∈ L, pre <+: x

def Under (pre : Path) (S : Seg → Prop) (L : List Path) : Prop :=
  L.Nodup ∧ ∀ x ∈ L, ∃ s, S s ∧ (pre ++ [s]) <+: x

theorem prefix_snoc_unique {pre x : Path} {a b : Seg} (ha : pre ++ [a] <+: x)
    (hb : pre ++ [b] <+: x) : a = b := by
  obtain ⟨t, rfl⟩ := ha
  obtain ⟨u, hu⟩ := hb
  simp only [List.append_assoc, List.append_cancel_left_eq, List.cons_append, List.nil_append,
    List.cons.injEq] at hu
  exact hu.1.symm

theorem good_of_under {pre : Path} {S : Seg → Prop} {L : List Path} (h : Under pre S L) :
    Good pre L :=
  ⟨h.1, fun x hx => by
    obtain ⟨s, _, hs⟩ := h.2 x hx
    exact (List.prefix_append pre [s]).trans hs⟩

theorem under_one {pre : Path} {a : Seg} {L : List Path} (h : Good (pre ++ [a]) L) :
    Under pre (fun s => s = a) L :=
  ⟨h.1, fun x hx => ⟨a, rfl, h.2 x hx⟩⟩

theorem under_nil (pre : Path) (S : Seg → Prop) : Under pre S [] :=
  ⟨List.nodup_nil, fun _ hx => by cases hx⟩

theorem under_optL {α : Type} {pre : Path} {S : Seg → Prop} (o : Option α) {f : α → List Path}
    (h : ∀ a, Under pre S (f a)) : Under pre S (optL o f) := by
  cases o with
  | none => exact under_nil pre S
  | some a => exact h a

theorem under_mono {pre : Path} {S T : Seg → Prop} {L : List Path} (hST : ∀ s, S s → T s)
    (h : Under pre S L) : Under pre T L :=
  ⟨h.1, fun x hx => by
    obtain ⟨s, hs, hp⟩ := h.2 x hx
    exact ⟨s, hST s hs, hp⟩⟩

theorem under_append {pre : Path} {S T : Seg → Prop} {A B : List Path}
    (hA : Under pre S A) (hB : Under pre T B) (hd : ∀ s, S s → T s → False) :
    Under pre (fun s => S s ∨ T s) (A ++ B) := by
  refine ⟨List.nodup_append.mpr ⟨hA.1, hB.1, ?_⟩, ?_⟩
  · intro x hxA y hyB hxy
    subst hxy
    obtain ⟨s, hs, hps⟩ := hA.2 x hxA
    obtain ⟨t, ht, hpt⟩ := hB.2 x hyB
    have := prefix_snoc_unique hps hpt
    subst this
    exact hd s hs ht
  · intro x hx
    rcases List.mem_append.mp hx with hx | hx
    · obtain ⟨s, hs, hp⟩ := hA.2 x hx
      exact ⟨s, Or.inl hs, hp⟩
    · obtain ⟨s, hs, hp⟩ := hB.2 x hx
      exact ⟨s, Or.inr hs, hp⟩

theorem mem_flatMapIdx_ge {α β : Type} {f : Nat → α → List β} {i : Nat} {l : List α} {x : β}
    (h : x ∈ flatMapIdx f i l) : ∃ j a, i ≤ j ∧ a ∈ l ∧ x ∈ f j a := by
  induction l generalizing i with
  | nil => cases h
  | cons a l ih =>
    simp only [flatMapIdx, List.mem_append] at h
    rcases h with h | h
    · exact ⟨i, a, Nat.le_refl _, List.mem_cons_self .., h⟩
    · obtain ⟨j, b, hj, hb, hx⟩ := ih h
      exact ⟨j, b, by omega, List.mem_cons_of_mem _ hb, hx⟩

/-- `enumerate().flat_map`: the blocks of different positions sit under different segments. -/
theorem under_flatMapIdx {α : Type} (pre : Path) (g : Nat → Seg) (hg : Function.Injective g)
    (f : Nat → α → List Path) (i : Nat) (l : List α)
    (h : ∀ j a, Good (pre ++ [g j]) (f j a)) :
    Under pre (fun s => ∃ j, s = g j) (flatMapIdx f i l) := by
  induction l generalizing i with
  | nil => exact under_nil _ _
  | cons a l ih =>
    refine ⟨?_, ?_⟩
    · simp only [flatMapIdx]
      refine List.nodup_append.mpr ⟨(h i a).1, (ih (i + 1)).1, ?_⟩
      intro x hx y hy hxy
      subst hxy
      obtain ⟨j, b, hj, _, hxb⟩ := mem_flatMapIdx_ge hy
      have := hg (prefix_snoc_unique ((h i a).2 x hx) ((h j b).2 x hxb))
      omega
    · intro x hx
      obtain ⟨j, b, _, _, hxb⟩ := mem_flatMapIdx_ge hx
      exact ⟨g j, ⟨j, rfl⟩, (h j b).2 x hxb⟩

theorem mem_idxFromT {pre x : Path} {k n : Nat} (h : x ∈ idxFromT pre k n) :
    ∃ j, k ≤ j ∧ x = pre ++ [.idx j] := by
  induction n generalizing k with
  | zero => cases h
  | succ n ih =>
    simp only [idxFromT, List.mem_cons] at h
    rcases h with h | h
    · exact ⟨k, Nat.le_refl _, h⟩
    · obtain ⟨j, hj, hx⟩ := ih h
      exact ⟨j, by omega, hx⟩

theorem good_idxFromT (pre : Path) (k n : Nat) : Good pre (idxFromT pre k n) := by
  refine ⟨?_, fun x hx => ?_⟩
  · induction n generalizing k with
    | zero => exact List.nodup_nil
    | succ n ih =>
      simp only [idxFromT]
      refine List.nodup_cons.mpr ⟨?_, ih (k + 1)⟩
      intro hmem
      obtain ⟨j, hj, hx⟩ := mem_idxFromT hmem
      simp only [List.append_cancel_left_eq, List.cons.injEq, Seg.idx.injEq, and_true] at hx
      omega
  · obtain ⟨j, _, rfl⟩ := mem_idxFromT hx
    exact List.prefix_append _ _

theorem good_idxT (pre : Path) (n : Nat) : Good pre (idxT pre n) := good_idxFromT pre 0 n

theorem nameIdx_injective (n : Nm) : Function.Injective (Seg.nameIdx n) := by
  intro a b h; simpa using h

/-- Discharges "the key sets of two blocks are disjoint". -/
macro "keys_disjoint" : tactic =>
  `(tactic| (intro s h1 h2; have h2' : s = _ := h2; subst h2'; simp at h1))

theorem good_capPubT (E : Nat) (pre : Path) (roots : Nat) : Good pre (capPubT E pre roots) :=
  good_of_under (under_flatMapIdx pre _ (nameIdx_injective .r) _ _ _ (fun _ _ => good_idxT _ _))

theorem good_comsPubT (E : Nat) (c : ComsShape) : Good [.name .com] (comsPubT E c) := by
  have cap : ∀ (n : Nm) (r : Nat), Under [.name .com] (fun s => s = .name n)
      (capPubT E [.name .com, .name n] r) := fun n r => under_one (good_capPubT E _ r)
  refine good_of_under (under_append (under_append (under_append (cap .main _)
    (under_optL _ (cap .perm)) ?_) (cap .quot _) ?_) (under_optL _ (cap .rand)) ?_)
  all_goals keys_disjoint

/-- Child segments of an opened-values block. -/
def OvKey (s : Seg) : Prop :=
  ((((s = .name .tl ∨ s = .name .tn) ∨ s = .name .pl) ∨ s = .name .pn) ∨ ∃ j, s = .nameIdx .q j)
    ∨ s = .name .rnd

theorem under_ovPrivT (pre : Path) (o : OVShape) : Under pre OvKey (ovPrivT pre o) := by
  have leaf : ∀ (n : Nm) (k : Nat), Under pre (fun s => s = .name n) (idxT (pre ++ [.name n]) k) :=
    fun n k => under_one (good_idxT _ k)
  refine under_append (under_append (under_append (under_append (under_append (leaf .tl _)
    (under_optL _ (leaf .tn)) ?_) (under_optL _ (leaf .pl)) ?_) (under_optL _ (leaf .pn)) ?_)
    (under_flatMapIdx pre _ (nameIdx_injective .q) _ _ _ (fun _ _ => good_idxT _ _)) ?_)
    (under_optL _ (leaf .rnd)) ?_
  · keys_disjoint
  · keys_disjoint
  · keys_disjoint
  · intro s h1 h2; obtain ⟨j, rfl⟩ := h2; simp at h1
  · keys_disjoint

theorem good_ovlPrivT (pre : Path) (o : OVLShape) : Good pre (ovlPrivT pre o) := by
  have leaf : ∀ (n : Nm) (k : Nat), Under pre (fun s => s = .name n) (idxT (pre ++ [.name n]) k) :=
    fun n k => under_one (good_idxT _ k)
  refine good_of_under (under_append (under_append (under_ovPrivT pre o.base) (leaf .prl _) ?_)
    (leaf .prn _) ?_)
  · intro s h1 h2; subst h2; simp [OvKey] at h1
  · intro s h1 h2; subst h2; simp [OvKey] at h1

theorem under_ovsPrivT (l : List OVLShape) :
    Under [] (fun s => ∃ i, s = .nameIdx .ov i) (ovsPrivT l) :=
  under_flatMapIdx [] _ (nameIdx_injective .ov) _ _ _ (fun _ _ => good_ovlPrivT _ _)

theorem under_mmcsPrivT (pre : Path) (p : MmcsProofShape) :
    Under pre (fun s => ∃ m, s = .nameIdx .salt m) (mmcsPrivT pre p) :=
  under_flatMapIdx pre _ (nameIdx_injective .salt) _ _ _ (fun _ _ => good_idxT _ _)

theorem good_boPrivT (pre : Path) (b : BatchOpeningShape) : Good pre (boPrivT pre b) := by
  refine good_of_under (under_append
    (under_flatMapIdx pre _ (nameIdx_injective .m) _ _ _ (fun _ _ => good_idxT _ _))
    (under_mmcsPrivT pre b.proof) ?_)
  intro s h1 h2; obtain ⟨j, rfl⟩ := h2; simp at h1

theorem good_stepPrivT (D : Nat) (pre : Path) (st : StepShape) : Good pre (stepPrivT D pre st) := by
  refine good_of_under (under_append (under_one (good_idxT (pre ++ [.name .sib]) _))
    (under_mmcsPrivT pre st.proof) ?_)
  intro s h1 h2; obtain ⟨j, rfl⟩ := h2; simp at h1

theorem good_queryPrivT (D : Nat) (pre : Path) (q : QueryShape) : Good pre (queryPrivT D pre q) := by
  refine good_of_under (under_append
    (under_flatMapIdx pre _ (nameIdx_injective .inp) _ _ _ (fun _ _ => good_boPrivT _ _))
    (under_flatMapIdx pre _ (nameIdx_injective .ph) _ _ _ (fun _ _ => good_stepPrivT D _ _)) ?_)
  intro s h1 h2; obtain ⟨j, rfl⟩ := h2; simp at h1

/-- Child segments of `fri` that carry public inputs / private inputs. -/
def FriPubKey (s : Seg) : Prop :=
  (((∃ k, s = .nameIdx .cpc k) ∨ s = .name .cpow) ∨ s = .name .finalP) ∨ s = .name .qpow

theorem under_friPubT (E : Nat) (f : FriShape) : Under [.name .fri] FriPubKey (friPubT E f) := by
  have leaf : ∀ (n : Nm) (k : Nat), Under [.name .fri] (fun s => s = .name n)
      (idxT [.name .fri, .name n] k) := fun n k => under_one (good_idxT _ k)
  refine under_append (under_append (under_append
    (under_flatMapIdx [.name .fri] _ (nameIdx_injective .cpc) _ _ _ (fun _ _ => good_capPubT E _ _))
    (leaf .cpow _) ?_) (leaf .finalP _) ?_) (leaf .qpow _) ?_
  all_goals keys_disjoint

theorem under_friPrivT (D : Nat) (f : FriShape) :
    Under [.name .fri] (fun s => ∃ q, s = .nameIdx .q q) (friPrivT D f) :=
  under_flatMapIdx [.name .fri] _ (nameIdx_injective .q) _ _ _ (fun _ _ => good_queryPrivT D _ _)

/-- Public and private labels under `fri` together. -/
theorem good_fri (D E : Nat) (f : FriShape) : Good [.name .fri] (friPubT E f ++ friPrivT D f) := by
  refine good_of_under (under_append (under_friPubT E f) (under_friPrivT D f) ?_)
  intro s h1 h2; obtain ⟨j, rfl⟩ := h2; simp [FriPubKey] at h1

theorem good_hidPrivT (h : List (List (List Nat))) : Good [.name .hid] (hidPrivT h) :=
  good_of_under (under_flatMapIdx [.name .hid] _ (nameIdx_injective .r) _ _ _ (fun r _ =>
    good_of_under (under_flatMapIdx [.name .hid, .nameIdx .r r] _ (nameIdx_injective .m) _ _ _
      (fun m _ => good_of_under (under_flatMapIdx [.name .hid, .nameIdx .r r, .nameIdx .m m] _
        (nameIdx_injective .p) _ _ _ (fun _ _ => good_idxT _ _))))))

theorem mem_termLabelsT {i : Nat} {l : List Bool} {x : Path} (h : x ∈ termLabelsT i l) :
    ∃ j, i ≤ j ∧ x = [.name .termN, .idx j] := by
  induction l generalizing i with
  | nil => cases h
  | cons b l ih =>
    cases b with
    | false =>
      obtain ⟨j, hj, hx⟩ := ih (i := i + 1) (by simpa [termLabelsT] using h)
      exact ⟨j, by omega, hx⟩
    | true =>
      simp only [termLabelsT, List.mem_cons] at h
      rcases h with h | h
      · exact ⟨i, Nat.le_refl _, h⟩
      · obtain ⟨j, hj, hx⟩ := ih h
        exact ⟨j, by omega, hx⟩

theorem good_termLabelsT (i : Nat) (l : List Bool) : Good [.name .termN] (termLabelsT i l) := by
  refine ⟨?_, fun x hx => ?_⟩
  · induction l generalizing i with
    | nil => exact List.nodup_nil
    | cons b l ih =>
      cases b with
      | false => simpa [termLabelsT] using ih (i + 1)
      | true =>
        simp only [termLabelsT]
        refine List.nodup_cons.mpr ⟨?_, ih (i + 1)⟩
        intro hmem
        obtain ⟨j, hj, hx⟩ := mem_termLabelsT hmem
        simp at hx
        omega
  · obtain ⟨j, _, rfl⟩ := mem_termLabelsT hx
    exact ⟨[.idx j], rfl⟩

/-! ### 4. Top level: public and private labels of a whole shape, together -/

theorem nodup_of_perm_count {l₁ l₂ : List Path} (h : ∀ a, l₁.count a = l₂.count a)
    (hn : l₂.Nodup) : l₁.Nodup := (List.perm_iff_count.mpr h).nodup_iff.mpr hn

/-- Uni-STARK: public then private structured labels, no repetition. -/
theorem uniT_nodup (D E : Nat) (s : UniShape) : (uniPubT E s ++ uniPrivT D s).Nodup := by
  have h : Under [] _
      (idxT [.nameIdx .air 0] s.airPub ++ comsPubT E s.coms ++ optL s.prep (capPubT E [.name .prep])
        ++ ovPrivT [.nameIdx .ov 0] s.ov ++ optL s.pcs.hid hidPrivT
        ++ (friPubT E s.pcs.fri ++ friPrivT D s.pcs.fri)) :=
    under_append (under_append (under_append (under_append (under_append
      (under_one (pre := []) (good_idxT [.nameIdx .air 0] _))
      (under_one (pre := []) (good_comsPubT E s.coms)) ?_)
      (under_optL _ (fun r => under_one (pre := []) (good_capPubT E [.name .prep] r))) ?_)
      (under_one (pre := []) (good_of_under (under_ovPrivT [.nameIdx .ov 0] s.ov))) ?_)
      (under_optL _ (fun h => under_one (pre := []) (good_hidPrivT h))) ?_)
      (under_one (pre := []) (good_fri D E s.pcs.fri)) ?_
  · refine nodup_of_perm_count (fun a => ?_) h.1
    simp only [uniPubT, uniPrivT, pcsPubT, pcsPrivT, List.count_append]
    omega
  all_goals keys_disjoint

/-- Batch-STARK: public then private structured labels, no repetition. -/
theorem batchT_nodup (D E : Nat) (s : BatchShape) : (batchPubT E s ++ batchPrivT D s).Nodup := by
  have h : Under [] _
      (flatMapIdx (fun i n => idxT [.nameIdx .air i] n) 0 s.airPub ++ comsPubT E s.coms
        ++ termLabelsT 0 s.terminals ++ optL s.prep (capPubT E [.name .prep])
        ++ ovsPrivT s.ovs ++ optL s.pcs.hid hidPrivT
        ++ (friPubT E s.pcs.fri ++ friPrivT D s.pcs.fri)) :=
    under_append (under_append (under_append (under_append (under_append (under_append
      (under_flatMapIdx [] _ (nameIdx_injective .air) _ _ _ (fun _ _ => good_idxT _ _))
      (under_one (pre := []) (good_comsPubT E s.coms)) ?_)
      (under_one (pre := []) (good_termLabelsT 0 s.terminals)) ?_)
      (under_optL _ (fun r => under_one (pre := []) (good_capPubT E [.name .prep] r))) ?_)
      (under_ovsPrivT s.ovs) ?_)
      (under_optL _ (fun h => under_one (pre := []) (good_hidPrivT h))) ?_)
      (under_one (pre := []) (good_fri D E s.pcs.fri)) ?_
  · refine nodup_of_perm_count (fun a => ?_) h.1
    simp only [batchPubT, batchPrivT, pcsPubT, pcsPrivT, List.count_append]
    omega
  · keys_disjoint
  · keys_disjoint
  · keys_disjoint
  · intro s h1 h2; obtain ⟨j, rfl⟩ := h2; simp at h1
  · keys_disjoint
  · keys_disjoint

/-- The label strings of the packed vectors (public then private): no repetition. -/
theorem uni_labels_nodup (D E : Nat) (s : UniShape) : (uniPub E s ++ uniPriv D s).Nodup := by
  rw [← uniPub_render, ← uniPriv_render, ← List.map_append]
  exact List.Nodup.map render_injective (uniT_nodup D E s)

theorem batch_labels_nodup (D E : Nat) (s : BatchShape) : (batchPub E s ++ batchPriv D s).Nodup := by
  rw [← batchPub_render, ← batchPriv_render, ← List.map_append]
  exact List.Nodup.map render_injective (batchT_nodup D E s)

/-- The labels of an allocation trace are its public labels and its private labels, reordered. -/
theorem perm_pubOf_privOf (l : List Slot) : (pubOf l ++ privOf l).Perm (l.map Slot.lab) := by
  induction l with
  | nil => exact List.Perm.nil
  | cons s l ih =>
    cases hv : s.vis
    · simpa [pubOf, privOf, hv] using ih
    · simp only [pubOf, privOf, hv, if_true, List.map_cons]
      have : (if Vis.priv = Vis.pub then s.lab :: pubOf l else pubOf l) = pubOf l := by simp
      rw [this]
      exact List.perm_middle.trans (List.Perm.cons _ ih)

/-- The driver's run-time check `allDistinct` decides `Nodup`. -/
theorem allDistinct_iff (l : List Label) : allDistinct l = true ↔ l.Nodup := by
  induction l with
  | nil => simp [allDistinct]
  | cons a l ih => simp [allDistinct, ih]

end P3R.Packing

namespace P3R.C14
open P3R.Packing

/-- **Uni-STARK: no two allocated inputs share a label**, for every shape, every `D`, `E` — the
    labels of the whole allocation trace (public and private together) are pairwise different. -/
theorem alloc_labels_nodup_uni_all (D E : Nat) (s : UniShape) :
    ((uniAlloc D E s).map Slot.lab).Nodup := by
  refine (perm_pubOf_privOf _).nodup_iff.mp ?_
  obtain ⟨h1, h2⟩ := packing_aligned_uni D E s
  rw [h1, h2]
  exact uni_labels_nodup D E s

/-- **Batch-STARK: no two allocated inputs share a label.** -/
theorem alloc_labels_nodup_batch_all (D E : Nat) (s : BatchShape) :
    ((batchAlloc D E s).map Slot.lab).Nodup := by
  refine (perm_pubOf_privOf _).nodup_iff.mp ?_
  obtain ⟨h1, h2⟩ := packing_aligned_batch D E s
  rw [h1, h2]
  exact batch_labels_nodup D E s

/-- **Uni-STARK**: the labels of the allocated public inputs are pairwise different, those of the
    allocated private inputs are pairwise different, and no public input shares a label with a
    private one. No hypothesis on the shape. -/
theorem alloc_labels_nodup_uni (D E : Nat) (s : UniShape) :
    (pubOf (uniAlloc D E s)).Nodup ∧ (privOf (uniAlloc D E s)).Nodup ∧
    ∀ ℓ, ℓ ∈ pubOf (uniAlloc D E s) → ℓ ∉ privOf (uniAlloc D E s) := by
  obtain ⟨h1, h2⟩ := packing_aligned_uni D E s
  rw [h1, h2]
  obtain ⟨a, b, c⟩ := List.nodup_append.mp (uni_labels_nodup D E s)
  exact ⟨a, b, fun ℓ hp hq => c ℓ hp ℓ hq rfl⟩

/-- **Batch-STARK**: likewise. -/
theorem alloc_labels_nodup_batch (D E : Nat) (s : BatchShape) :
    (pubOf (batchAlloc D E s)).Nodup ∧ (privOf (batchAlloc D E s)).Nodup ∧
    ∀ ℓ, ℓ ∈ pubOf (batchAlloc D E s) → ℓ ∉ privOf (batchAlloc D E s) := by
  obtain ⟨h1, h2⟩ := packing_aligned_batch D E s
  rw [h1, h2]
  obtain ⟨a, b, c⟩ := List.nodup_append.mp (batch_labels_nodup D E s)
  exact ⟨a, b, fun ℓ hp hq => c ℓ hp ℓ hq rfl⟩

/-- The driver's per-shape check (`meta … distinct=1`) can never fail. -/
theorem allDistinct_uni (D E : Nat) (s : UniShape) :
    allDistinct ((uniAlloc D E s).map Slot.lab) = true :=
  (allDistinct_iff _).mpr (alloc_labels_nodup_uni_all D E s)

theorem allDistinct_batch (D E : Nat) (s : BatchShape) :
    allDistinct ((batchAlloc D E s).map Slot.lab) = true :=
  (allDistinct_iff _).mpr (alloc_labels_nodup_batch_all D E s)

theorem nodup_getElem?_unique {l : List Label} (h : l.Nodup) {i j : Nat} {ℓ : Label}
    (hi : l[i]? = some ℓ) (hj : l[j]? = some ℓ) : i = j := by
  obtain ⟨hi', e1⟩ := List.getElem?_eq_some_iff.mp hi
  obtain ⟨hj', e2⟩ := List.getElem?_eq_some_iff.mp hj
  exact (List.Nodup.getElem_inj_iff h).mp (e1.trans e2.symm)

/-- **A label names one position** (uni-STARK): two positions of the packed public vector, or two of
    the packed private vector, that carry the same label are the same position; and no label
    occurs in both vectors. Together with `packed_position_uni` ("position `i` carries the label of
    the `i`-th allocated target") this makes the position-wise reading an identification of
    elements: the element labelled `ℓ` sits at exactly one position, the one of the unique target
    labelled `ℓ`. -/
theorem packed_position_unique_uni (D E : Nat) (s : UniShape) (ℓ : Label) (i j : Nat) :
    ((uniPub E s)[i]? = some ℓ → (uniPub E s)[j]? = some ℓ → i = j) ∧
    ((uniPriv D s)[i]? = some ℓ → (uniPriv D s)[j]? = some ℓ → i = j) ∧
    ((uniPub E s)[i]? = some ℓ → (uniPriv D s)[j]? = some ℓ → False) := by
  obtain ⟨a, b, c⟩ := List.nodup_append.mp (uni_labels_nodup D E s)
  exact ⟨nodup_getElem?_unique a, nodup_getElem?_unique b,
    fun hi hj => c ℓ (List.mem_of_getElem? hi) ℓ (List.mem_of_getElem? hj) rfl⟩

/-- **A label names one position** (batch-STARK). -/
theorem packed_position_unique_batch (D E : Nat) (s : BatchShape) (ℓ : Label) (i j : Nat) :
    ((batchPub E s)[i]? = some ℓ → (batchPub E s)[j]? = some ℓ → i = j) ∧
    ((batchPriv D s)[i]? = some ℓ → (batchPriv D s)[j]? = some ℓ → i = j) ∧
    ((batchPub E s)[i]? = some ℓ → (batchPriv D s)[j]? = some ℓ → False) := by
  obtain ⟨a, b, c⟩ := List.nodup_append.mp (batch_labels_nodup D E s)
  exact ⟨nodup_getElem?_unique a, nodup_getElem?_unique b,
    fun hi hj => c ℓ (List.mem_of_getElem? hi) ℓ (List.mem_of_getElem? hj) rfl⟩

end P3R.C14

#print axioms P3R.Packing.render_injective
#print axioms P3R.Packing.nm_ok
#print axioms P3R.Packing.Nm.str_injective
#print axioms P3R.Packing.uniPub_render
#print axioms P3R.Packing.uniPriv_render
#print axioms P3R.Packing.batchPub_render
#print axioms P3R.Packing.batchPriv_render
#print axioms P3R.Packing.uniT_nodup
#print axioms P3R.Packing.batchT_nodup
#print axioms P3R.Packing.allDistinct_iff
#print axioms P3R.C14.alloc_labels_nodup_uni_all
#print axioms P3R.C14.alloc_labels_nodup_batch_all
#print axioms P3R.C14.alloc_labels_nodup_uni
#print axioms P3R.C14.alloc_labels_nodup_batch
#print axioms P3R.C14.allDistinct_uni
#print axioms P3R.C14.allDistinct_batch
#print axioms P3R.C14.packed_position_unique_uni
#print axioms P3R.C14.packed_position_unique_batch
