/-
C01 — in-circuit STARK verification agrees with native verification (composition level).

Model: `P3R.Model.VerifierScript` (transcript events + checks of both verifiers per proof shape).

Full statement of the script agreement (FALSE of the current code, see `P3R.Witness.C01`):
  ∀ s, circuitBatch s = .ok (nativeBatch s)   and   ∀ s, circuitUni s = .ok (nativeUni s)
i.e. for *every* supported shape (ZK on/off, any AIR) the circuit can be built and runs the same
transcript and the same checks as the native verifier. Proved here:

* `batch_scripts_equal_partial`  under `WFBatch` (every instance with preprocessed columns also opens
  the preprocessed next row);
* `uni_scripts_equal_partial`    under `WFUni` (if the AIR has preprocessed columns it opens their next
  row); hiding PCS included since /repo b026681, AIRs that open no next trace row since fixes/C01-1;
* `every_element_checked`, `every_element_bound` — no proof element is ignored;
* `verdict_agree` — composition: equal scripts + component agreement ⇒ equal verdicts.
-/
import P3R.Lemmas.VerifierScript

namespace P3R.C01
open P3R.VerifierScript

/-- Shapes on which the batch circuit can be built. -/
def WFBatch (s : Shape) : Prop :=
  s.insts ≠ [] ∧ ∀ x ∈ s.insts, hasPre x = true → x.preNext = true

/-- Shapes on which the uni circuit can be built (then it has the native transcript, with or
without the hiding PCS, whether or not the AIR opens the next trace row). -/
def WFUni (s : Shape) : Prop :=
  hasPre (uniInst s) = true → (uniInst s).preNext = true

/-! ### FRI part -/

theorem fri_events_equal (s : Shape) : circuitFri s = nativeFri s := by
  cases hz : s.zk <;> simp [circuitFri, getChallengesPlain, getChallengesHiding, nativeFri, hz, List.append_assoc]

/-! ### batch: rounds -/

theorem batch_rounds_equal (s : Shape) (h : WFBatch s) : circuitBatchRounds s = nativeBatchRounds s := by
  unfold circuitBatchRounds nativeBatchRounds randRound traceRound quotRound preRound permRound
  have hpre : ((s.insts.zipIdx.filter fun xi => hasPre xi.1).map fun (xi : Inst × Nat) =>
        ({ logSize := xi.1.degreeBits,
           openings := [⟨Pt.zeta, preLocalNs xi.2 xi.1⟩, ⟨Pt.zetaNext xi.2, preNextNs xi.2 xi.1⟩] } : Mat))
      = ((s.insts.zipIdx.filter fun xi => hasPre xi.1).map fun (xi : Inst × Nat) =>
        ({ logSize := xi.1.degreeBits,
           openings := [⟨Pt.zeta, preLocalNs xi.2 xi.1⟩]
             ++ (if xi.1.preNext then [⟨Pt.zetaNext xi.2, preNextNs xi.2 xi.1⟩] else []) } : Mat)) := by
    apply List.map_congr_left
    intro xi hxi
    have hm := List.mem_filter.mp hxi
    have hin : xi.1 ∈ s.insts := by
      have := hm.1
      rcases xi with ⟨x, i⟩
      exact (List.mem_zipIdx' this).2 ▸ List.getElem_mem _
    have := h.2 xi.1 hin hm.2
    simp [this]
  simp only [hpre]

/-! ### batch: the explicit observation loops equal "observe every round / matrix / point" -/

theorem trace_mat_obs (s : Shape) (hz : s.zk = true) (r : Nat) (x : Inst) (i : Nat) :
    observeMat (mergeMat s.nrc r
        { logSize := x.degreeBits,
          openings := ⟨Pt.zeta, traceLocalNs i x⟩
            :: (if x.hasNext then [⟨Pt.zetaNext i, traceNextNs i x⟩] else []) } i)
      = observePoint s (traceLocalNs i x) r i 0
        ++ (if x.hasNext then observePoint s (traceNextNs i x) r i 1 else []) := by
  cases hx : x.hasNext <;>
    simp [observePoint, hz, observeMat, mergeMat, mergeOpening]

theorem pre_mat_obs (s : Shape) (hz : s.zk = true) (r : Nat) (x : Inst) (i m : Nat) :
    observeMat (mergeMat 0 r
        { logSize := x.degreeBits,
          openings := ⟨Pt.zeta, preLocalNs i x⟩
            :: (if x.preNext then [⟨Pt.zetaNext i, preNextNs i x⟩] else []) } m)
      = observePoint { s with nrc := 0 } (preLocalNs i x) r m 0
        ++ (if x.preNext then observePoint { s with nrc := 0 } (preNextNs i x) r m 1 else []) := by
  cases hx : x.preNext <;>
    simp [observePoint, hz, observeMat, mergeMat, mergeOpening]

/-- ZK (hiding PCS): the circuit's five sections with their `round_idx` / `mat_idx` counters are
exactly the observation of the merged rounds. -/
theorem observe_opened_zk (s : Shape) (hz : s.zk = true) :
    circuitObserveOpened s = observeRounds (mergeRandom s.nrc (nativeBatchRounds s)) := by
  unfold circuitObserveOpened nativeBatchRounds randRound traceRound quotRound preRound permRound
  by_cases hp : s.insts.any hasPre = true <;> by_cases hl : s.insts.any hasLookup = true <;>
    simp only [hz, hp, hl, if_true, if_false, Bool.false_eq_true, List.append_nil, List.nil_append,
      List.singleton_append, List.cons_append, mergeRandom, List.zipIdx_cons, List.zipIdx_nil,
      List.map_cons, List.map_nil, observeRounds, List.flatMap_cons, List.flatMap_nil,
      observeRound_merge_map, numberFrom_eq, Nat.zero_add, roundNrc, reduceCtorEq, Nat.reduceAdd, zipIdx_zipIdx,
      List.flatMap_map, trace_mat_obs s hz, pre_mat_obs s hz, observeMat_merge_one,
      observeMat_merge_two, observePoint, List.append_assoc] <;>
    simp [observePoint, hz, Function.comp_def]

/-- No ZK: plain observation, the counters play no role. -/
theorem observe_opened_nozk (s : Shape) (hz : s.zk = false) :
    circuitObserveOpened s = observeRounds (nativeBatchRounds s) := by
  unfold circuitObserveOpened nativeBatchRounds randRound traceRound quotRound preRound permRound
  by_cases hp : s.insts.any hasPre = true <;> by_cases hl : s.insts.any hasLookup = true <;>
    simp [hz, hp, hl, observeRounds, observeRound_map, numberFrom_ignore, observePoint, observeMat,
      List.flatMap_map, Function.comp_def, List.flatMap_append, apply_ite, List.map_append]


/-! ### batch: scripts equal -/

/-- `verify_batch_circuit` = `verify_batch` as scripts: the circuit can be built, observes the same
constants and proof elements in the same order with the same encodings, samples the same
challenges at the same positions and performs the same checks on the same operands — for every
number of instances, widths, chunk counts, lookups, preprocessed columns, ZK on or off, every FRI
parameter set. Hypothesis `WFBatch`: see `Witness.C01.batch_prenonext_rejected`. -/
theorem batch_scripts_equal_partial (s : Shape) (h : WFBatch s) :
    circuitBatch s = .ok (nativeBatch s) := by
  have hv : circuitBatchValidate s = .ok () := by
    unfold circuitBatchValidate
    have h1 : s.insts.isEmpty = false := by
      cases hs : s.insts with
      | nil => exact absurd hs h.1
      | cons a t => rfl
    have h2 : s.insts.all (fun x => !hasPre x || x.preNext) = true := by
      rw [List.all_eq_true]
      intro x hx
      cases hpx : hasPre x with
      | false => simp
      | true => simp [h.2 x hx hpx]
    simp [h1, h2]
  have hr := batch_rounds_equal s h
  have hobs : circuitObserveOpened s
      = observeRounds (if s.zk then mergeRandom s.nrc (nativeBatchRounds s) else nativeBatchRounds s) := by
    cases hz : s.zk with
    | true => simpa [hz] using observe_opened_zk s hz
    | false => simpa [hz] using observe_opened_nozk s hz
  unfold circuitBatch nativeBatch
  simp only [hv, hr, hobs, fri_events_equal, filterMap_ite (fun xi : Inst × Nat => hasLookup xi.1)]
  rfl

/-! ### uni: scripts equal -/

/-- For one instance without lookups the batch rounds are the uni rounds. -/
theorem uniAsBatch_rounds (s : Shape) : nativeBatchRounds (uniAsBatch s) = nativeUniRounds s := by
  unfold nativeBatchRounds nativeUniRounds randRound traceRound quotRound preRound permRound
  by_cases hpx : hasPre (uniInst s) = true
  · simp [uniAsBatch, chunkList, hasPre, hasLookup, List.zipIdx_cons] at hpx ⊢
    simp [hpx, traceLocalNs, traceNextNs, preLocalNs, preNextNs]
  · simp [uniAsBatch, chunkList, hasPre, hasLookup, List.zipIdx_cons] at hpx ⊢
    simp [hpx, traceLocalNs, traceNextNs, preLocalNs, preNextNs]

theorem uni_scripts_equal_partial (s : Shape) (h : WFUni s) :
    circuitUni s = .ok (nativeUni s) := by
  have hp := h
  have hv : circuitUniValidate s = .ok () := by
    unfold circuitUniValidate
    by_cases hpx : hasPre (uniInst s) = true
    · simp [hpx, hp hpx]
    · simp [hpx]
  have hr : circuitUniRounds s = nativeUniRounds s := by
    unfold circuitUniRounds nativeUniRounds
    by_cases hpx : hasPre (uniInst s) = true
    · simp [hpx, hp hpx]
    · simp [hpx]
  have hobs : circuitUniObserveOpened s
      = observeRounds (if s.zk then mergeRandom s.nrc (nativeUniRounds s) else nativeUniRounds s) := by
    have hzk : (uniAsBatch s).zk = s.zk := rfl
    have hnrc : (uniAsBatch s).nrc = s.nrc := rfl
    unfold circuitUniObserveOpened
    cases hz : s.zk with
    | true =>
      rw [observe_opened_zk (uniAsBatch s) (by rw [hzk, hz]), uniAsBatch_rounds, hnrc]; simp
    | false =>
      rw [observe_opened_nozk (uniAsBatch s) (by rw [hzk, hz]), uniAsBatch_rounds]; simp
  unfold circuitUni nativeUni
  simp only [hv, hr, hobs, fri_events_equal]
  rfl

/-! ### composition -/

/-- What a verifier *does* with a script: `chal` derives every challenge from the transcript prefix
(Fiat–Shamir; C05), `powOk` judges a proof-of-work event given the prefix, `holds` judges a check
given the challenges (C07/C08: `pcs`; C13/C20: `ood`; lookup gadget: `terminalSum`). -/
structure Sem (V : Type) where
  chal : List Ev → (Name → V) → Chal → V
  powOk : List Ev → (Name → V) → Nat → Name → Prop
  holds : Check → (Name → V) → (Chal → V) → Prop

/-- Every proof-of-work event of the script passes. -/
def powsOk {V : Type} (sem : Sem V) (env : Name → V) (evs : List Ev) : Prop :=
  ∀ k bits w, evs[k]? = some (Ev.pow bits w) → sem.powOk (evs.take k) env bits w

/-- The verdict of a verifier with semantics `sem` running script `sc` on proof data `env`. -/
def accepts {V : Type} (sem : Sem V) (sc : Script) (env : Name → V) : Prop :=
  powsOk sem env sc.events ∧ ∀ c ∈ sc.checks, sem.holds c env (sem.chal sc.events env)

/-- Composition theorem. If the circuit's script is the native script (`*_scripts_equal_partial`)
and the components agree — same challenges from the same transcript (C05 `challenger_sim`), same
proof-of-work verdicts (C05/C12), every check satisfiable in-circuit iff it passes natively (C07,
C08, C13, C14, C20) — then the circuit is satisfiable by the packed proof data iff the native verifier
accepts. -/
theorem verdict_agree {V : Type} (semC semN : Sem V) (scC scN : Script) (env : Name → V)
    (hs : scC = scN)
    (hchal : ∀ evs c, semC.chal evs env c = semN.chal evs env c)
    (hpow : ∀ evs bits w, semC.powOk evs env bits w ↔ semN.powOk evs env bits w)
    (hchk : ∀ c ch, semC.holds c env ch ↔ semN.holds c env ch) :
    accepts semC scC env ↔ accepts semN scN env := by
  subst hs
  have hc : semC.chal scC.events env = semN.chal scC.events env := funext (hchal _)
  unfold accepts powsOk
  constructor
  · rintro ⟨hp, hk⟩
    exact ⟨fun k b w e => (hpow _ b w).mp (hp k b w e), fun c hc' => by
      have := hk c hc'; rw [hc] at this; exact (hchk c _).mp this⟩
  · rintro ⟨hp, hk⟩
    exact ⟨fun k b w e => (hpow _ b w).mpr (hp k b w e), fun c hc' => by
      have := hk c hc'; rw [hc]; exact (hchk c _).mpr this⟩

/-- Batch verdict agreement for every well-formed shape. -/
theorem batch_verdict_agree {V : Type} (semC semN : Sem V) (s : Shape) (h : WFBatch s) (env : Name → V)
    (hchal : ∀ evs c, semC.chal evs env c = semN.chal evs env c)
    (hpow : ∀ evs bits w, semC.powOk evs env bits w ↔ semN.powOk evs env bits w)
    (hchk : ∀ c ch, semC.holds c env ch ↔ semN.holds c env ch) :
    ∃ scC, circuitBatch s = .ok scC ∧ (accepts semC scC env ↔ accepts semN (nativeBatch s) env) :=
  ⟨nativeBatch s, batch_scripts_equal_partial s h,
    verdict_agree semC semN _ _ env rfl hchal hpow hchk⟩


/-! ### no proof element is ignored -/

def roundNames (r : Round) : List Name :=
  r.com :: r.mats.flatMap fun m => m.openings.flatMap (·.values)

theorem mem_zipIdx_of_mem {α : Type} {l : List α} {a : α} (h : a ∈ l) : ∃ i, (a, i) ∈ l.zipIdx := by
  obtain ⟨i, hi, rfl⟩ := List.getElem_of_mem h
  exact ⟨i, by simp [List.mem_zipIdx_iff_getElem?, hi]⟩

/-- Merging the hiding PCS's random values keeps every commitment and every claimed value. -/
theorem mem_mergeRound (nrc ri : Nat) (r : Round) (n : Name) (h : n ∈ roundNames r) :
    n ∈ roundNames (mergeRound nrc r ri) := by
  simp only [roundNames, List.mem_cons, List.mem_flatMap] at h ⊢
  rcases h with h | ⟨m, hm, o, ho, hn⟩
  · exact Or.inl h
  · right
    obtain ⟨mi, hmi⟩ := mem_zipIdx_of_mem hm
    obtain ⟨pi, hpi⟩ := mem_zipIdx_of_mem ho
    refine ⟨mergeMat nrc ri m mi, ?_, mergeOpening nrc ri mi o pi, ?_, ?_⟩
    · simp only [mergeRound, List.mem_map]
      exact ⟨(m, mi), hmi, rfl⟩
    · simp only [mergeMat, List.mem_map]
      exact ⟨(o, pi), hpi, rfl⟩
    · simp [mergeOpening, hn]

theorem mem_merged (zk : Bool) (nrc : Nat) (rs : List Round) (r : Round) (hr : r ∈ rs) (n : Name)
    (h : n ∈ roundNames r) :
    n ∈ (if zk then mergeRandom nrc rs else rs).flatMap roundNames := by
  cases zk with
  | false => exact List.mem_flatMap.mpr ⟨r, hr, h⟩
  | true =>
    obtain ⟨ri, hri⟩ := mem_zipIdx_of_mem hr
    simp only [if_true, mergeRandom, List.mem_flatMap, List.mem_map]
    exact ⟨mergeRound (roundNrc nrc r) r ri, ⟨(r, ri), hri, rfl⟩, mem_mergeRound _ ri r n h⟩

theorem pcs_names (rounds : List Round) (fri : List Name) :
    (Check.pcs rounds fri).names = rounds.flatMap roundNames ++ fri := by
  simp only [Check.names]
  rfl

/-- Every proof element other than a proof-of-work witness is an operand of a check of the native
verifier (hence, by `batch_scripts_equal_partial`, of the circuit): a verifier following the script
cannot "silently stop checking" a commitment word, an opened value, a public value, a lookup
terminal, a FRI commitment, a final-polynomial coefficient or a query proof. -/
theorem every_element_checked (s : Shape) (n : Name) (hn : n ∈ elements s)
    (hpow : (∀ r, n ≠ Name.commitPow r) ∧ n ≠ Name.queryPow) :
    n ∈ (nativeBatch s).checked := by
  have hidx : ∀ xi ∈ s.insts.zipIdx, ∀ m ∈ oodOperands s.D xi.2 xi.1, m ∈ (nativeBatch s).checked := by
    intro xi hxi m hm
    simp only [Script.checked, nativeBatch, List.mem_flatMap]
    refine ⟨Check.ood xi.2 (oodOperands s.D xi.2 xi.1), ?_, by simpa [Check.names] using hm⟩
    simp only [List.mem_append, List.mem_map]
    exact Or.inl (Or.inr ⟨xi, hxi, by rcases xi with ⟨x, i⟩; rfl⟩)
  have hpcs : ∀ r ∈ nativeBatchRounds s, ∀ m ∈ roundNames r, m ∈ (nativeBatch s).checked := by
    intro r hr m hm
    simp only [Script.checked, nativeBatch, List.mem_flatMap]
    refine ⟨Check.pcs (if s.zk then mergeRandom s.nrc (nativeBatchRounds s) else nativeBatchRounds s) (friElems s), by simp, ?_⟩
    rw [pcs_names]
    exact List.mem_append_left _ (mem_merged s.zk s.nrc _ r hr m hm)
  have hfri : ∀ m ∈ friElems s, m ∈ (nativeBatch s).checked := by
    intro m hm
    simp only [Script.checked, nativeBatch, List.mem_flatMap]
    refine ⟨Check.pcs (if s.zk then mergeRandom s.nrc (nativeBatchRounds s) else nativeBatchRounds s) (friElems s), by simp, ?_⟩
    rw [pcs_names]
    exact List.mem_append_right _ hm
  simp only [elements, List.mem_append, List.mem_flatMap] at hn
  rcases hn with ((((((h | h) | h) | h) | ⟨xi, hxi, h⟩) | h) | h) | h
  · -- trace / quotient commitments
    simp only [List.mem_cons, List.not_mem_nil, or_false] at h
    rcases h with rfl | rfl
    · exact hpcs (traceRound s) (by simp [nativeBatchRounds]) _ (by simp [roundNames, traceRound])
    · exact hpcs (quotRound s) (by simp [nativeBatchRounds]) _ (by simp [roundNames, quotRound])
  · by_cases hz : s.zk = true
    · simp only [hz, if_true, List.mem_singleton] at h
      subst h
      exact hpcs (randRound s) (by simp [nativeBatchRounds, hz]) _ (by simp [roundNames, randRound])
    · simp [hz] at h
  · by_cases hl : s.insts.any hasLookup = true
    · simp only [hl, if_true, List.mem_singleton] at h
      subst h
      exact hpcs (permRound s) (by simp [nativeBatchRounds, hl]) _ (by simp [roundNames, permRound])
    · simp [hl] at h
  · by_cases hp : s.insts.any hasPre = true
    · simp only [hp, if_true, List.mem_singleton] at h
      subst h
      exact hpcs (preRound s) (by simp [nativeBatchRounds, hp]) _ (by simp [roundNames, preRound])
    · simp [hp] at h
  · -- per-instance elements
    rcases xi with ⟨x, i⟩
    simp only [List.mem_append] at h
    have ho := hidx (x, i) hxi
    simp only [oodOperands, List.mem_append] at ho
    rcases h with ((((((((h | h) | h) | h) | h) | h) | h) | h) | h) | h
    · exact ho n (by simp [h])
    · exact ho n (by simp [h])
    · exact ho n (by simp [h])
    · exact ho n (by simp [h])
    · exact ho n (by simp [h])
    · exact ho n (Or.inr (List.mem_flatMap.mpr h))
    · -- random opened values (ZK): operands of the PCS check, random round
      by_cases hz : s.zk = true
      · simp only [hz, if_true] at h
        refine hpcs (randRound s) (by simp [nativeBatchRounds, hz]) n ?_
        simp only [roundNames, randRound, List.mem_cons, List.mem_flatMap, List.mem_map]
        exact Or.inr ⟨_, ⟨(x, i), hxi, rfl⟩, ⟨Pt.zeta, randNs s.D i⟩, by simp, h⟩
      · simp [hz] at h
    · exact ho n (by simp [h])
    · exact ho n (by simp [h])
    · exact ho n (by simp [h])
  · exact hfri n h
  · exfalso
    by_cases hc : s.commitPowBits = 0
    · simp [hc] at h
    · simp only [hc, if_false, List.mem_map] at h
      obtain ⟨r, _, rfl⟩ := h
      exact hpow.1 r rfl
  · exfalso
    by_cases hc : s.queryPowBits = 0
    · simp [hc] at h
    · simp only [hc, if_false, List.mem_singleton] at h
      exact hpow.2 h

/-- The proof-of-work witnesses (present as elements only when their bit count is positive) are
absorbed into the transcript and judged by a `pow` event. -/
theorem pow_witness_bound (s : Shape) (n : Name) (hn : n ∈ elements s)
    (hpow : (∃ r, n = Name.commitPow r) ∨ n = Name.queryPow) :
    n ∈ (nativeBatch s).observed := by
  have hfri : ∀ m, m ∈ (nativeFri s).flatMap Ev.names → m ∈ (nativeBatch s).observed := by
    intro m hm
    simp only [Script.observed, nativeBatch, List.flatMap_append, List.mem_append]
    exact Or.inr hm
  apply hfri
  rcases hpow with ⟨r, rfl⟩ | rfl
  · have hr : r < s.friRounds ∧ s.commitPowBits ≠ 0 := by
      simp only [elements, List.mem_append, List.mem_flatMap] at hn
      rcases hn with ((((((h | h) | h) | h) | ⟨xi, _, h⟩) | h) | h) | h
      · simp at h
      · split at h <;> simp at h
      · split at h <;> simp at h
      · split at h <;> simp at h
      · exfalso
        simp only [List.mem_append, pubNs, traceLocalNs, traceNextNs, preLocalNs, preNextNs, quotNs, randNs,
          permLocalNs, permNextNs, List.mem_flatMap, List.mem_map] at h
        rcases h with ((((((((h | h) | h) | h) | h) | h) | h) | h) | h) | h <;>
          first
            | (simp at h; done)
            | (split at h <;> simp at h; done)
      · simp [friElems] at h
      · by_cases hc : s.commitPowBits = 0
        · simp [hc] at h
        · simp only [hc, if_false, List.mem_map, List.mem_range] at h
          obtain ⟨r', hr', h⟩ := h
          cases h
          exact ⟨hr', hc⟩
      · split at h <;> simp at h
    simp only [nativeFri, List.flatMap_append, List.mem_append, List.mem_flatMap]
    refine Or.inl (Or.inl (Or.inl (Or.inl (Or.inr ⟨Ev.pow s.commitPowBits (Name.commitPow r), ?_, by simp [Ev.names]⟩))))
    simp only [List.mem_flatMap, List.mem_range]
    exact ⟨r, hr.1, by simp [powEv, hr.2]⟩
  · have hq : s.queryPowBits ≠ 0 := by
      intro hc
      simp only [elements, List.mem_append, List.mem_flatMap] at hn
      rcases hn with ((((((h | h) | h) | h) | ⟨xi, _, h⟩) | h) | h) | h
      · simp at h
      · split at h <;> simp at h
      · split at h <;> simp at h
      · split at h <;> simp at h
      · simp only [List.mem_append, pubNs, traceLocalNs, traceNextNs, preLocalNs, preNextNs, quotNs, randNs,
          permLocalNs, permNextNs, List.mem_flatMap, List.mem_map] at h
        rcases h with ((((((((h | h) | h) | h) | h) | h) | h) | h) | h) | h <;>
          first
            | (simp at h; done)
            | (split at h <;> simp at h; done)
      · simp [friElems] at h
      · split at h <;> simp at h
      · simp [hc] at h
    simp only [nativeFri, List.flatMap_append, List.mem_append, List.mem_flatMap]
    exact Or.inl (Or.inr ⟨Ev.pow s.queryPowBits Name.queryPow, by simp [powEv, hq], by simp [Ev.names]⟩)

/-! ### the cross-AIR LogUp terminal-sum check (soundness direction, any mix of instances)

The seeded regression C01-a (`verify_batch_circuit` emitting `verify_terminal_sum_circuit` only when
*every* instance declares lookups) is a circuit script without this check on mixed batches. The
statements below say what the modelled circuit does: the check is there for every well-formed
shape, it ranges over the terminal of every instance that declares lookups (whether or not the
other instances do), and a proof whose present terminals do not pass it does not satisfy the
circuit. On the real code the same is exercised by prover-side forgeries (`c01_forge_prover.rs`),
and the driver command `checks` ties the model's check list to the checks seen decisive there. -/

/-- The terminals present in a proof: one per instance that declares lookups, in instance order. -/
def presentTerminals (s : Shape) : List Name :=
  (s.insts.zipIdx.filter fun xi => hasLookup xi.1).map fun (_, i) => Name.terminal i

/-- Every instance with lookups contributes its terminal, whatever the other instances declare. -/
theorem terminal_mem_present (s : Shape) (x : Inst) (i : Nat) (hx : (x, i) ∈ s.insts.zipIdx)
    (hl : hasLookup x = true) : Name.terminal i ∈ presentTerminals s := by
  unfold presentTerminals
  exact List.mem_map.mpr ⟨(x, i), List.mem_filter.mpr ⟨hx, hl⟩, rfl⟩

/-- The circuit (when it can be built) performs the terminal-sum check over all present terminals. -/
theorem terminal_sum_checked (s : Shape) (h : WFBatch s) :
    ∃ sc, circuitBatch s = .ok sc ∧ Check.terminalSum (presentTerminals s) ∈ sc.checks := by
  refine ⟨nativeBatch s, batch_scripts_equal_partial s h, ?_⟩
  simp [nativeBatch, presentTerminals]

/-- The out-of-domain check of every instance is performed by the circuit. -/
theorem ood_checked (s : Shape) (h : WFBatch s) (x : Inst) (i : Nat) (hx : (x, i) ∈ s.insts.zipIdx) :
    ∃ sc, circuitBatch s = .ok sc ∧ Check.ood i (oodOperands s.D i x) ∈ sc.checks := by
  refine ⟨nativeBatch s, batch_scripts_equal_partial s h, ?_⟩
  simp only [nativeBatch, List.mem_append, List.mem_map]
  exact Or.inl (Or.inr ⟨(x, i), hx, rfl⟩)

/-- Soundness of the composition for a failing check: if some check of the script does not hold for
the proof data (under the circuit's own semantics), the circuit is not satisfied. -/
theorem failing_check_rejected {V : Type} (sem : Sem V) (sc : Script) (env : Name → V) (c : Check)
    (hc : c ∈ sc.checks) (hbad : ¬ sem.holds c env (sem.chal sc.events env)) : ¬ accepts sem sc env :=
  fun ha => hbad (ha.2 c hc)

/-- An unbalanced bus (the present terminals do not pass the terminal-sum check) is rejected by the
circuit for every well-formed batch — in particular for batches that mix instances with and without
lookups. -/
theorem unbalanced_bus_rejected {V : Type} (sem : Sem V) (s : Shape) (h : WFBatch s) (env : Name → V)
    (hbad : ¬ sem.holds (Check.terminalSum (presentTerminals s)) env (sem.chal (nativeBatch s).events env)) :
    ∃ sc, circuitBatch s = .ok sc ∧ ¬ accepts sem sc env := by
  refine ⟨nativeBatch s, batch_scripts_equal_partial s h, ?_⟩
  apply failing_check_rejected sem _ env _ _ hbad
  simp [nativeBatch, presentTerminals]

/-! ### proof-of-work: which witness is judged against how many bits (both directions)

The seeded regression C01-b (the hiding PCS's `get_challenges_circuit` handing `params.commit_pow_bits` to
the *query-phase* `check_pow_witness`) is a circuit script whose query `pow` event carries the wrong bit
count: invisible whenever the two counts are equal (every symmetric test default), unsound when
`0 < commit < query` (a lazy prover's witness passes), incomplete when `commit = 0 < query` (the event
disappears: the witness is not even absorbed) or `commit > query`. The statements below say what the
modelled circuit does for *every* pair of bit counts and for both PCS flavours; on the real code the
same is exercised by targets whose verifying parameters are asymmetric and by an adversarial prover
that grinds fewer / more bits than demanded (`grind:c:q`), and the driver command `pows` ties the model's
`pow` events to the phases seen decisive there. -/

/-- The `pow` events a verifier of shape `s` has to carry: every commit-phase witness against
`commitPowBits`, the query-phase witness against `queryPowBits`, nothing for a count of 0. -/
def PowSpec (s : Shape) (bits : Nat) (w : Name) : Prop :=
  (bits = s.commitPowBits ∧ bits ≠ 0 ∧ ∃ r, r < s.friRounds ∧ w = Name.commitPow r)
    ∨ (bits = s.queryPowBits ∧ bits ≠ 0 ∧ w = Name.queryPow)

/-- The native FRI transcript judges exactly the witnesses of `PowSpec`, each against its own bit count. -/
theorem native_fri_pow (s : Shape) (bits : Nat) (w : Name) :
    Ev.pow bits w ∈ nativeFri s ↔ PowSpec s bits w := by
  unfold nativeFri PowSpec powEv
  by_cases hc : s.commitPowBits = 0 <;> by_cases hq : s.queryPowBits = 0 <;>
    simp [hc, hq]
  · exact ⟨fun h h' => absurd h h', fun h h' => absurd h h'⟩
  · constructor
    · rintro ⟨rfl, rfl⟩; exact Or.inr ⟨rfl, hq, rfl⟩
    · rintro (⟨h, h', _⟩ | ⟨h, _, h'⟩)
      · exact absurd h h'
      · exact ⟨h, h'⟩
  · constructor
    · rintro ⟨r, hr, rfl, rfl⟩; exact Or.inl ⟨rfl, hc, r, hr, rfl⟩
    · rintro (⟨h, _, r, hr, h'⟩ | ⟨h, h', _⟩)
      · exact ⟨r, hr, h, h'⟩
      · exact absurd h h'
  · constructor
    · rintro (⟨r, hr, rfl, rfl⟩ | ⟨rfl, rfl⟩)
      · exact Or.inl ⟨rfl, hc, r, hr, rfl⟩
      · exact Or.inr ⟨rfl, hq, rfl⟩
    · rintro (⟨h, _, r, hr, h'⟩ | ⟨h, _, h'⟩)
      · exact Or.inl ⟨r, hr, h, h'⟩
      · exact Or.inr ⟨h, h'⟩

/-- Observing opened values carries no proof-of-work event. -/
theorem observe_rounds_no_pow (rounds : List Round) (bits : Nat) (w : Name) :
    Ev.pow bits w ∉ observeRounds rounds := by
  simp [observeRounds, observeRound, observeMat]

/-- The `pow` events of the native batch verifier: exactly `PowSpec`. -/
theorem native_batch_pow (s : Shape) (bits : Nat) (w : Name) :
    Ev.pow bits w ∈ (nativeBatch s).events ↔ PowSpec s bits w := by
  rw [← native_fri_pow]
  simp [nativeBatch, observe_rounds_no_pow]

/-- The `pow` events of the native uni verifier: exactly `PowSpec`. -/
theorem native_uni_pow (s : Shape) (bits : Nat) (w : Name) :
    Ev.pow bits w ∈ (nativeUni s).events ↔ PowSpec s bits w := by
  rw [← native_fri_pow]
  simp [nativeUni, observe_rounds_no_pow]

/-- The batch circuit (plain or hiding PCS, any pair of bit counts) judges the query-phase witness against
`queryPowBits` and every commit-phase witness against `commitPowBits` — no other `pow` event, none missing. -/
theorem circuit_batch_pow (s : Shape) (h : WFBatch s) :
    ∃ sc, circuitBatch s = .ok sc ∧ ∀ bits w, Ev.pow bits w ∈ sc.events ↔ PowSpec s bits w :=
  ⟨nativeBatch s, batch_scripts_equal_partial s h, native_batch_pow s⟩

/-- The same for the uni circuit. -/
theorem circuit_uni_pow (s : Shape) (h : WFUni s) :
    ∃ sc, circuitUni s = .ok sc ∧ ∀ bits w, Ev.pow bits w ∈ sc.events ↔ PowSpec s bits w :=
  ⟨nativeUni s, uni_scripts_equal_partial s h, native_uni_pow s⟩

/-- Soundness of the composition for a failing proof-of-work: if the script judges `w` against `bits` and
that judgement fails for the proof data (under the circuit's own semantics), the circuit is not satisfied. -/
theorem failing_pow_rejected {V : Type} (sem : Sem V) (sc : Script) (env : Name → V) (bits : Nat) (w : Name)
    (hmem : Ev.pow bits w ∈ sc.events)
    (hbad : ∀ k, sc.events[k]? = some (Ev.pow bits w) → ¬ sem.powOk (sc.events.take k) env bits w) :
    ¬ accepts sem sc env := by
  intro ha
  obtain ⟨k, hk⟩ := List.mem_iff_getElem?.mp hmem
  exact hbad k hk (ha.1 k bits w hk)

/-- A query-phase witness that does not satisfy `queryPowBits` bits (a lazy prover: ground for fewer bits
than the verifying parameters demand) is rejected by the batch circuit of every well-formed shape, whatever
`commitPowBits` is and whichever PCS is used. -/
theorem under_ground_query_rejected {V : Type} (sem : Sem V) (s : Shape) (h : WFBatch s) (env : Name → V)
    (hq : s.queryPowBits ≠ 0)
    (hbad : ∀ k, (nativeBatch s).events[k]? = some (Ev.pow s.queryPowBits Name.queryPow) →
      ¬ sem.powOk ((nativeBatch s).events.take k) env s.queryPowBits Name.queryPow) :
    ∃ sc, circuitBatch s = .ok sc ∧ ¬ accepts sem sc env :=
  ⟨nativeBatch s, batch_scripts_equal_partial s h,
    failing_pow_rejected sem _ env _ _ ((native_batch_pow s _ _).mpr (Or.inr ⟨rfl, hq, rfl⟩)) hbad⟩

/-- The same for the commit-phase witness of any FRI round `r`. -/
theorem under_ground_commit_rejected {V : Type} (sem : Sem V) (s : Shape) (h : WFBatch s) (env : Name → V)
    (r : Nat) (hr : r < s.friRounds) (hc : s.commitPowBits ≠ 0)
    (hbad : ∀ k, (nativeBatch s).events[k]? = some (Ev.pow s.commitPowBits (Name.commitPow r)) →
      ¬ sem.powOk ((nativeBatch s).events.take k) env s.commitPowBits (Name.commitPow r)) :
    ∃ sc, circuitBatch s = .ok sc ∧ ¬ accepts sem sc env :=
  ⟨nativeBatch s, batch_scripts_equal_partial s h,
    failing_pow_rejected sem _ env _ _ ((native_batch_pow s _ _).mpr (Or.inl ⟨rfl, hc, r, hr, rfl⟩)) hbad⟩

/-- Uni circuit: an under-ground query-phase witness is rejected. -/
theorem uni_under_ground_query_rejected {V : Type} (sem : Sem V) (s : Shape) (h : WFUni s) (env : Name → V)
    (hq : s.queryPowBits ≠ 0)
    (hbad : ∀ k, (nativeUni s).events[k]? = some (Ev.pow s.queryPowBits Name.queryPow) →
      ¬ sem.powOk ((nativeUni s).events.take k) env s.queryPowBits Name.queryPow) :
    ∃ sc, circuitUni s = .ok sc ∧ ¬ accepts sem sc env :=
  ⟨nativeUni s, uni_scripts_equal_partial s h,
    failing_pow_rejected sem _ env _ _ ((native_uni_pow s _ _).mpr (Or.inr ⟨rfl, hq, rfl⟩)) hbad⟩

/-- Uni circuit: an under-ground commit-phase witness is rejected. -/
theorem uni_under_ground_commit_rejected {V : Type} (sem : Sem V) (s : Shape) (h : WFUni s) (env : Name → V)
    (r : Nat) (hr : r < s.friRounds) (hc : s.commitPowBits ≠ 0)
    (hbad : ∀ k, (nativeUni s).events[k]? = some (Ev.pow s.commitPowBits (Name.commitPow r)) →
      ¬ sem.powOk ((nativeUni s).events.take k) env s.commitPowBits (Name.commitPow r)) :
    ∃ sc, circuitUni s = .ok sc ∧ ¬ accepts sem sc env :=
  ⟨nativeUni s, uni_scripts_equal_partial s h,
    failing_pow_rejected sem _ env _ _ ((native_uni_pow s _ _).mpr (Or.inl ⟨rfl, hc, r, hr, rfl⟩)) hbad⟩

/-- Both copies of `get_challenges_circuit` (plain and hiding PCS) carry exactly the `pow` events of `PowSpec`. -/
theorem get_challenges_pow (s : Shape) (bits : Nat) (w : Name) :
    Ev.pow bits w ∈ (if s.zk then getChallengesHiding s else getChallengesPlain s) ↔ PowSpec s bits w := by
  rw [← native_fri_pow, ← fri_events_equal]
  simp [circuitFri]

end P3R.C01
