/-
C14 (second half, hiding PCS) — a successful `merge_hiding_random_openings` consumes every hiding
random opened value the proof carries.

`HidingOpenedValuesTargets::new` allocates, and `get_private_values` packs, one private input per
value of `opening_proof.0[round][matrix][point]` — whatever shape the proof has
(`P3R.Packing.hidAlloc` / `hidPriv`, aligned by `P3R.Packing.hid_priv`). Whether those inputs
*matter* is decided by `merge_hiding_random_openings`, which zips them with the opening points of
the commitments. `P3R.Packing.hidMerge` models that function with its three length checks.

* `hidMerge_complete` — FULL STRENGTH, every opening structure, every proof shape: if the merge
  returns `ok uses` then `uses = hidPriv h`: every allocated hiding input is an operand of the FRI
  verifier. (If it returns an error no circuit is built.) No bound on rounds / matrices / points.
* `hidMerge_ok_iff` — the merge succeeds exactly when the proof's random opened values mirror the
  opening structure (`hidStructure h = o`), i.e. the three checks reject every other shape.
* `hidMerge_error_of_mismatch` — corollary in the direction the circuit relies on.
* `P3R.Witness.C14.points_check_needed` (in `Witness/C14Merge.lean`) — the zip alone is *not*
  complete: the statement of `zipPoints_full` is false without `k = rm.length`.
-/
import P3R.Model.HidingMerge
import P3R.Lemmas.Packing

namespace P3R.C14
open P3R.Packing

/-- With as many opening points as random point-vectors the zip consumes all of them. -/
theorem zipPoints_full (r m : Nat) (rm : List Nat) (p : Nat) :
    zipPoints r m p rm.length rm
      = flatMapIdx (fun p n => idx s!"hid.r{r}.m{m}.p{p}" n) p rm := by
  induction rm generalizing p with
  | nil => rfl
  | cons n rest ih => simp only [List.length_cons, zipPoints, flatMapIdx, ih]

theorem mergeMats_complete (r : Nat) (ms : List Nat) (rms : List (List Nat)) (m : Nat)
    (hl : ms.length = rms.length) (u : List Label) (h : mergeMats r m ms rms = .ok u) :
    u = flatMapIdx (fun m mat => flatMapIdx (fun p n => idx s!"hid.r{r}.m{m}.p{p}" n) 0 mat) m rms := by
  induction ms generalizing rms m u with
  | nil =>
    cases rms with
    | nil => simp only [mergeMats] at h; cases h; rfl
    | cons _ _ => simp at hl
  | cons pts ms ih =>
    cases rms with
    | nil => simp at hl
    | cons rm rms =>
      simp only [List.length_cons, Nat.add_right_cancel_iff] at hl
      simp only [mergeMats] at h
      by_cases hp : pts = rm.length
      · simp only [hp, ne_eq, not_true_eq_false, if_false] at h
        cases hrest : mergeMats r (m + 1) ms rms with
        | error e => rw [hrest] at h; cases h
        | ok rest =>
          rw [hrest] at h
          cases h
          rw [ih rms (m + 1) hl rest hrest, zipPoints_full]
          rfl
      · simp only [ne_eq, hp, not_false_eq_true, if_true] at h; cases h

theorem mergeRounds_complete (o : OpenShape) (h : List (List (List Nat))) (r : Nat)
    (hl : o.length = h.length) (u : List Label) (hm : mergeRounds r o h = .ok u) :
    u = flatMapIdx (fun r round => flatMapIdx (fun m mat =>
          flatMapIdx (fun p n => idx s!"hid.r{r}.m{m}.p{p}" n) 0 mat) 0 round) r h := by
  induction o generalizing h r u with
  | nil =>
    cases h with
    | nil => simp only [mergeRounds] at hm; cases hm; rfl
    | cons _ _ => simp at hl
  | cons mats os ih =>
    cases h with
    | nil => simp at hl
    | cons rr rrs =>
      simp only [List.length_cons, Nat.add_right_cancel_iff] at hl
      simp only [mergeRounds] at hm
      by_cases hp : mats.length = rr.length
      · simp only [hp, ne_eq, not_true_eq_false, if_false] at hm
        cases ha : mergeMats r 0 mats rr with
        | error e => rw [ha] at hm; cases hm
        | ok a =>
          rw [ha] at hm
          cases hb : mergeRounds (r + 1) os rrs with
          | error e => rw [hb] at hm; cases hm
          | ok b =>
            rw [hb] at hm
            cases hm
            rw [ih rrs (r + 1) hl b hb, mergeMats_complete r mats rr 0 hp a ha]
            rfl
      · simp only [ne_eq, hp, not_false_eq_true, if_true] at hm; cases hm

/-- **A successful merge leaves no hiding input dead.** For every opening structure `o` and every
    shape `h` of hiding random opened values: if `merge_hiding_random_openings` succeeds, the values
    it merged into the FRI openings are exactly the private inputs allocated (and packed) for `h`. -/
theorem hidMerge_complete (o : OpenShape) (h : List (List (List Nat))) (u : List Label)
    (hm : hidMerge o h = .ok u) : u = hidPriv h := by
  unfold hidMerge at hm
  by_cases hl : o.length = h.length
  · simp only [hl, ne_eq, not_true_eq_false, if_false] at hm
    exact mergeRounds_complete o h 0 hl u hm
  · simp only [ne_eq, hl, not_false_eq_true, if_true] at hm; cases hm

/-- In terms of the allocation trace: every private input of `hidAlloc h` is consumed. -/
theorem hidMerge_no_dead_input (o : OpenShape) (h : List (List (List Nat))) (u : List Label)
    (hm : hidMerge o h = .ok u) : ∀ sl ∈ hidAlloc h, sl.lab ∈ u := by
  intro sl hsl
  rw [hidMerge_complete o h u hm, ← hid_priv]
  rcases mem_pubOf_or_privOf hsl with hp | hp
  · rw [hid_pub] at hp; cases hp
  · exact hp

/-! ### The merge succeeds exactly on mirrored shapes -/

theorem mergeMats_ok_iff (r : Nat) (ms : List Nat) (rms : List (List Nat)) (m : Nat)
    (hl : ms.length = rms.length) :
    (∃ u, mergeMats r m ms rms = .ok u) ↔ ms = rms.map List.length := by
  induction ms generalizing rms m with
  | nil =>
    cases rms with
    | nil => simp [mergeMats]
    | cons _ _ => simp at hl
  | cons pts ms ih =>
    cases rms with
    | nil => simp at hl
    | cons rm rms =>
      simp only [List.length_cons, Nat.add_right_cancel_iff] at hl
      simp only [mergeMats, List.map_cons, List.cons.injEq]
      by_cases hp : pts = rm.length
      · simp only [hp, ne_eq, not_true_eq_false, if_false, true_and]
        rw [← ih rms (m + 1) hl]
        cases mergeMats r (m + 1) ms rms with
        | error e => simp
        | ok rest => simp
      · simp [hp]

theorem mergeRounds_ok_iff (o : OpenShape) (h : List (List (List Nat))) (r : Nat)
    (hl : o.length = h.length) :
    (∃ u, mergeRounds r o h = .ok u) ↔ o = hidStructure h := by
  induction o generalizing h r with
  | nil =>
    cases h with
    | nil => simp [mergeRounds, hidStructure]
    | cons _ _ => simp at hl
  | cons mats os ih =>
    cases h with
    | nil => simp at hl
    | cons rr rrs =>
      simp only [List.length_cons, Nat.add_right_cancel_iff] at hl
      simp only [mergeRounds, hidStructure, List.map_cons, List.cons.injEq]
      by_cases hp : mats.length = rr.length
      · simp only [hp, ne_eq, not_true_eq_false, if_false]
        have h1 := mergeMats_ok_iff r mats rr 0 hp
        have h2 := ih rrs (r + 1) hl
        simp only [hidStructure] at h2
        rw [← h1, ← h2]
        cases mergeMats r 0 mats rr with
        | error e => simp
        | ok a =>
          cases mergeRounds (r + 1) os rrs with
          | error e => simp
          | ok b => simp
      · have : mats ≠ rr.map List.length := by
          intro he; apply hp; rw [he, List.length_map]
        simp [hp, this]

/-- The three checks accept exactly the proofs whose random opened values mirror the opening
    structure of the commitments. -/
theorem hidMerge_ok_iff (o : OpenShape) (h : List (List (List Nat))) :
    (∃ u, hidMerge o h = .ok u) ↔ o = hidStructure h := by
  unfold hidMerge
  by_cases hl : o.length = h.length
  · simp only [hl, ne_eq, not_true_eq_false, if_false]
    exact mergeRounds_ok_iff o h 0 hl
  · have : o ≠ hidStructure h := by
      intro he; apply hl; rw [he, hidStructure, List.length_map]
    simp [hl, this]

/-- Direction the verifier relies on: any discrepancy of shape is an error (no circuit). -/
theorem hidMerge_error_of_mismatch (o : OpenShape) (h : List (List (List Nat)))
    (hne : o ≠ hidStructure h) : ∃ e, hidMerge o h = .error e := by
  cases hm : hidMerge o h with
  | error e => exact ⟨e, rfl⟩
  | ok u => exact absurd ((hidMerge_ok_iff o h).mp ⟨u, hm⟩) hne

/-- Non-vacuity: an honest ZK uni-STARK shape (random / trace at two points / two quotient
    chunks) merges, and consumes 1 + 2·1 + 2 = 5 point-vectors' worth of values. -/
example : ∃ u, hidMerge [[1], [2], [1, 1]] [[[1]], [[1, 1]], [[1], [1]]] = .ok u :=
  (hidMerge_ok_iff _ _).mpr (by decide)

end P3R.C14

#print axioms P3R.C14.hidMerge_complete
#print axioms P3R.C14.hidMerge_no_dead_input
#print axioms P3R.C14.hidMerge_ok_iff
#print axioms P3R.C14.hidMerge_error_of_mismatch
