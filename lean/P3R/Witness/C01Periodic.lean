/-
Non-vacuity of `Props/C01Periodic`: the evaluation domain matters (period 2, table of the polynomial `X`), and the
low-degree case is inhabited (period 4, interpolant `5 + 3·X`).
-/
import P3R.Props.C01Periodic

namespace P3R.Witness.C01Periodic
open P3R P3R.Gadgets

/-- Period 2, interpolant `X`, point 2: one fold more gives 4 instead of 2 — the honest proof's folded constraints no
longer match the quotient. -/
theorem domain_matters : periodicC [(0 : Int), 1] 1 2 ≠ periodicC [(0 : Int), 1] 0 2 := by decide

/-- The same through `periodic_domain_fold`: the wrong-domain value is the value at the squared point. -/
example : periodicC [(0 : Int), 1] 1 2 = periodicC [(0 : Int), 1] 0 (2 * 2) :=
  P3R.C01.periodic_domain_fold _ 0 2 (by simp)

/-- Period 4 with interpolant `5 + 3·X` (coefficients `[5, 3, 0, 0]`): folding once too often gives the native value of
the period-2 column with interpolant `[5, 3]`. -/
theorem half_sibling_inhabited :
    periodicC ([(5 : Int), 3] ++ List.replicate 2 0) 2 7 = periodicC [(5 : Int), 3] 2 7 :=
  P3R.C01.wrong_domain_is_half_sibling [5, 3] 1 7 (by simp)

end P3R.Witness.C01Periodic
