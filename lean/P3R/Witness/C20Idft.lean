/-
C20 — non-vacuity of the inverse-coset-DFT theorems (`P3R.Props.C20Idft`) at period `m = 4`
over `ZMod 5`: `ω = 2` (order 4: 2,4,3,1), `m⁻¹ = 4`, sub-coset shift `s = 3`, `s⁻¹ = 2`,
column `[1,2,3,4]` on the sub-coset `3·⟨2⟩ = [3,1,2,4]`.
-/
import P3R.Props.C20Idft
import Mathlib.Data.ZMod.Basic
import Mathlib.Algebra.Field.ZMod

namespace P3R.Witness.C20Idft
open P3R.Gadgets P3R.Idft

instance : Fact (Nat.Prime 5) := ⟨by decide⟩

def col : List (ZMod 5) := [1, 2, 3, 4]

theorem omega_primitive : IsPrimitiveRoot (2 : ZMod 5) col.length :=
  IsPrimitiveRoot.mk_of_lt 2 (by decide) (by decide) (by
    intro l h0 hl
    have hl' : l < 4 := hl
    interval_cases l <;> decide)

theorem inverses : (4 : ZMod 5) * (col.length : ZMod 5) = 1 ∧ (2 : ZMod 5) * 3 = 1 := by decide

/-- The model's coefficient vector (both row-reversal variants agree). -/
theorem coeffs_value : cosetIdft 2 4 2 col = [0, 1, 3, 3] ∧ cosetIdftLoop 2 4 2 col = [0, 1, 3, 3] := by
  decide

/-- It interpolates the column on the sub-coset — by evaluation … -/
theorem interpolates_by_eval :
    (cosetPoints (2 : ZMod 5) 3 4).map (polyEval (cosetIdft 2 4 2 col)) = col := by decide

/-- … and as an instance of the general theorem (all hypotheses satisfied). -/
theorem interpolates_instance (i : Nat) (hi : i < 4) :
    polyEval (cosetIdft 2 4 2 col) (3 * 2 ^ i) = col.getD i 0 :=
  P3R.C20.cosetIdft_interpolates 2 4 3 2 col omega_primitive inverses.1 inverses.2 i hi

/-- Instance of `periodic_eq_interpolant_total`: every `x`, every `folds`. -/
theorem interpolant_instance (folds : Nat) (x : ZMod 5) :
    periodicC (cosetIdft 2 4 2 col) folds x
      = some ((Lagrange.interpolate Finset.univ (fun j : Fin col.length => (3 : ZMod 5) * 2 ^ (j : Nat))
                (fun j : Fin col.length => col.getD j 0)).eval (x ^ (2 ^ folds))) :=
  P3R.C20.periodic_eq_interpolant_total 2 4 3 2 col (by decide) omega_primitive inverses.1 inverses.2 folds x

/-- Instance of `periodic_on_trace_domain`: trace domain of size 4 = period (folds = 0) over
`ZMod 5`, shift 3: the gadget at the `i`-th domain point returns `col[i mod 4]`, every `i`. -/
theorem trace_domain_instance (i : Nat) :
    periodicC (cosetIdft ((2 : ZMod 5) ^ (2 ^ 0)) 4 2 col) 0 (3 * 2 ^ i) = some (col.getD (i % col.length) 0) :=
  P3R.C20.periodic_on_trace_domain 2 4 3 2 col 2 0 rfl omega_primitive inverses.1 (by decide) i

/-- The row-swap loop is *not* the index reversal for an odd height ≥ 3 (hypothesis `hh` of
`swapLoop_eq_reverseRows` is needed): height 3. -/
theorem swapLoop_odd_differs : swapLoop ([1, 2, 3] : List (ZMod 5)) ≠ reverseRows [1, 2, 3] := by decide

/-- `paramsOk` (the driver's check of the theorem's hypotheses) accepts the witness. -/
example : paramsOk (2 : ZMod 5) 4 3 2 2 = true := by decide

end P3R.Witness.C20Idft
