/-
C12 — bit and coefficient decompositions admit only the canonical witness.

Property theorems for the model `P3R.Model.Decomp`, for every field/domain `K` of
characteristic `p` (so base fields and their extensions alike), every bit width `n`, every
value, and every content of the hinted slots.

FULL STATEMENT (false of the current code, see `P3R.Witness.C12`):
  `∀ n x bits, bitsAccept x bits → bits = canonBits n x.val`   and
  `∀ mode x cs, coefAccept … x cs → cs = canonCoeffs x`.

Proved here:
* `accept_iff` — complete characterisation: the accepted bit vectors of a value `v < p` are
  exactly the `n`-bit expansions of `v + k·p` that fit in `n` bits;
* `bits_unique` — hence unique (and canonical) when `2^n ≤ p`  (`…_partial` hypothesis
  `BitWidthBelowModulus`: `2^n ≤ p`);
* `bits_not_unique`, `unique_iff` — and *not* unique as soon as `v + p < 2^n`; uniqueness for
  `v` holds iff `2^n ≤ v + p`;
* `lowbit_changes` — for odd `p` the second witness differs already in bit 0, so every
  prefix (the sampled query index / PoW bits) changes;
* `alu_base_unique`, `recompose_embed` — coefficient vectors made of base-field elements
  are unique (ALU chain);  `alu_not_unique` — but the ALU chain accepts moved mass for
  every `D ≥ 2`;  `npo_accept_iff`, `npo_not_unique` — the `recompose` table binds only
  the table cells (= limb 0 of each coefficient slot), higher limbs of the slots are free;
  `npoc_bound_unique` — the `recompose/coeff` table gives uniqueness exactly when its
  per-coefficient tuple has non-zero multiplicity; `npoc_unbound_eq_npo` otherwise.
-/
import P3R.Model.Decomp
import Mathlib.Algebra.CharP.Basic
import Mathlib.Algebra.BigOperators.Group.Finset.Basic
import Mathlib.Algebra.BigOperators.Group.Finset.Piecewise
import Mathlib.Algebra.BigOperators.Ring.Finset
import Mathlib.Tactic.Ring
import Mathlib.Tactic.Linarith

set_option linter.unusedSectionVars false

namespace P3R.C12
open P3R.Decomp

/-! ## bits -/
section Bits
variable {K : Type} [CommRing K] [IsDomain K] [DecidableEq K]

theorem natBits_length (n v : ℕ) : (natBits n v).length = n := by
  induction n generalizing v with
  | zero => rfl
  | succ n ih => simp [natBits, ih]

theorem canonBits_length (n v : ℕ) : (canonBits n v : List K).length = n := by
  simp [canonBits, natBits_length]

theorem canonBits_succ (n v : ℕ) :
    (canonBits (n + 1) v : List K) = (if v % 2 = 1 then 1 else 0) :: canonBits n (v / 2) := by
  simp [canonBits, natBits]

theorem bitCast (v : ℕ) : (if v % 2 = 1 then (1 : K) else 0) = ((v % 2 : ℕ) : K) := by
  rcases Nat.mod_two_eq_zero_or_one v with h | h <;> simp [h]

/-- Value of the `mul_add` chain on an `n`-bit expansion. -/
theorem reconGo_canon (n v : ℕ) (pow acc : K) :
    reconGo (canonBits n v : List K) pow acc = acc + pow * ((v % 2 ^ n : ℕ) : K) := by
  induction n generalizing v pow acc with
  | zero => simp [canonBits, natBits, reconGo, Nat.mod_one]
  | succ n ih =>
    rw [canonBits_succ, reconGo, ih, bitCast]
    have h : v % 2 ^ (n + 1) = v % 2 + 2 * (v / 2 % 2 ^ n) := by
      rw [pow_succ, mul_comm, Nat.mod_mul]
    rw [h]
    push_cast
    ring

theorem reconBits_canon (n v : ℕ) (hv : v < 2 ^ n) : reconBits (canonBits n v : List K) = (v : K) := by
  unfold reconBits
  rw [reconGo_canon, Nat.mod_eq_of_lt hv]
  ring

theorem boolOk_iff (b : K) : boolOk b = true ↔ b = 0 ∨ b = 1 := by
  unfold boolOk
  rw [beq_iff_eq, mul_eq_zero, sub_eq_zero]

theorem canonBits_all_bool (n v : ℕ) : (canonBits n v : List K).all boolOk = true := by
  induction n generalizing v with
  | zero => simp [canonBits, natBits]
  | succ n ih =>
    rw [canonBits_succ, List.all_cons, ih, Bool.and_true, boolOk_iff]
    by_cases h : v % 2 = 1 <;> simp [h]

/-- Boolean slot contents are the expansion of some `m < 2^len`. -/
theorem all_bool_exists (bits : List K) (h : bits.all boolOk = true) :
    ∃ m, m < 2 ^ bits.length ∧ bits = canonBits bits.length m := by
  induction bits with
  | nil => exact ⟨0, by simp, by simp [canonBits, natBits]⟩
  | cons b bs ih =>
    rw [List.all_cons, Bool.and_eq_true] at h
    obtain ⟨m', hm', hbs⟩ := ih h.2
    rcases (boolOk_iff b).1 h.1 with hb | hb
    · refine ⟨2 * m', ?_, ?_⟩
      · rw [List.length_cons, pow_succ]; omega
      · rw [List.length_cons, canonBits_succ]
        have h1 : (2 * m') % 2 = 0 := by omega
        have h2 : (2 * m') / 2 = m' := by omega
        rw [h1, h2, ← hbs, hb]; simp
    · refine ⟨2 * m' + 1, ?_, ?_⟩
      · rw [List.length_cons, pow_succ]; omega
      · rw [List.length_cons, canonBits_succ]
        have h1 : (2 * m' + 1) % 2 = 1 := by omega
        have h2 : (2 * m' + 1) / 2 = m' := by omega
        rw [h1, h2, ← hbs, hb]; simp

theorem canonBits_inj (n a b : ℕ) (ha : a < 2 ^ n) (hb : b < 2 ^ n)
    (h : (canonBits n a : List K) = canonBits n b) : a = b := by
  induction n generalizing a b with
  | zero => simp at ha hb; omega
  | succ n ih =>
    rw [canonBits_succ, canonBits_succ, List.cons.injEq] at h
    rw [pow_succ] at ha hb
    have ht := ih (a / 2) (b / 2) (by omega) (by omega) h.2
    have hh : a % 2 = b % 2 := by
      have := h.1
      rcases Nat.mod_two_eq_zero_or_one a with h1 | h1 <;>
        rcases Nat.mod_two_eq_zero_or_one b with h2 | h2 <;> simp [h1, h2] at this ⊢
    omega

variable (p : ℕ) [CharP K p]

/-- **C12 / bits, complete characterisation.** The slot contents the circuit relation of
`decompose_to_bits(x, n)` accepts for `x = v < p` are exactly the `n`-bit expansions of the
integers `v + k·p` below `2^n`. -/
theorem accept_iff (n : ℕ) (bits : List K) (hlen : bits.length = n) (v : ℕ) (hv : v < p) :
    bitsAccept (v : K) bits = true ↔ ∃ k, v + k * p < 2 ^ n ∧ bits = canonBits n (v + k * p) := by
  unfold bitsAccept
  rw [Bool.and_eq_true, beq_iff_eq]
  constructor
  · rintro ⟨hb, hr⟩
    obtain ⟨m, hm, hbits⟩ := all_bool_exists bits hb
    rw [hlen] at hm hbits
    rw [hbits, reconBits_canon n m hm] at hr
    have hmod : m ≡ v [MOD p] := (CharP.natCast_eq_natCast K p).1 hr
    have hv' : m % p = v := by
      have := hmod
      unfold Nat.ModEq at this
      rw [Nat.mod_eq_of_lt hv] at this
      exact this
    refine ⟨m / p, ?_, ?_⟩
    · have := Nat.mod_add_div m p
      rw [mul_comm] at this
      omega
    · have := Nat.mod_add_div m p
      rw [mul_comm] at this
      rw [hbits]; congr 1; omega
  · rintro ⟨k, hk, hbits⟩
    refine ⟨by rw [hbits]; exact canonBits_all_bool _ _, ?_⟩
    rw [hbits, reconBits_canon n _ hk]
    push_cast
    rw [CharP.cast_eq_zero K p]
    ring

/-- **C12 / bits are unique when the width does not exceed the modulus**
(`BitWidthBelowModulus`). This is `bits_canonical_partial`: the full statement without the
hypothesis `2^n ≤ p` is refuted by `bits_not_unique`. -/
theorem bits_unique (n : ℕ) (h : 2 ^ n ≤ p) (bits : List K) (hlen : bits.length = n) (v : ℕ)
    (hv : v < p) (hacc : bitsAccept (v : K) bits = true) : bits = canonBits n v := by
  obtain ⟨k, hk, hbits⟩ := (accept_iff p n bits hlen v hv).1 hacc
  rcases k with _ | k
  · simpa using hbits
  · exfalso
    rw [Nat.succ_mul] at hk
    omega

/-- **C12 / second witness.** If `v + p` still fits in `n` bits, its expansion is accepted
as a decomposition of `v` and differs from the canonical one. -/
theorem bits_not_unique (n v : ℕ) (hv : v < p) (hfit : v + p < 2 ^ n) :
    bitsAccept (v : K) (canonBits n (v + p) : List K) = true ∧
      (canonBits n (v + p) : List K) ≠ canonBits n v := by
  constructor
  · rw [accept_iff p n _ (canonBits_length _ _) v hv]
    exact ⟨1, by simpa using hfit, by simp⟩
  · intro h
    have := canonBits_inj n (v + p) v hfit (by omega) h
    omega

/-- **C12 / uniqueness criterion per value.** -/
theorem unique_iff (n v : ℕ) (hv : v < p) :
    (∀ bits : List K, bits.length = n → bitsAccept (v : K) bits = true → bits = canonBits n v) ↔
      2 ^ n ≤ v + p := by
  constructor
  · intro h
    by_contra hlt
    have hfit : v + p < 2 ^ n := by omega
    obtain ⟨hacc, hne⟩ := bits_not_unique (K := K) p n v hv hfit
    exact hne (h _ (canonBits_length _ _) hacc)
  · intro h bits hlen hacc
    obtain ⟨k, hk, hbits⟩ := (accept_iff p n bits hlen v hv).1 hacc
    rcases k with _ | k
    · simpa using hbits
    · exfalso
      rw [Nat.succ_mul] at hk
      omega

/-- **C12 / the sampled index changes.** For odd `p` the expansion of `v + p` differs from
that of `v` in bit 0, hence in every non-empty prefix (`sample_bits` returns
`bits[..num_bits]`, `check_pow_witness` asserts a prefix to be zero). -/
theorem lowbit_changes (hodd : p % 2 = 1) (n v k : ℕ) :
    (canonBits (n + 1) (v + p) : List K).take (k + 1) ≠ (canonBits (n + 1) v).take (k + 1) := by
  rw [canonBits_succ, canonBits_succ, List.take_succ_cons, List.take_succ_cons]
  intro h
  have hh := (List.cons.injEq _ _ _ _ ▸ h).1
  rcases Nat.mod_two_eq_zero_or_one v with h1 | h1
  · have h2 : (v + p) % 2 = 1 := by omega
    simp [h1, h2] at hh
  · have h2 : (v + p) % 2 = 0 := by omega
    simp [h1, h2] at hh

/-- Call-site instance: `sample_bits` / `check_pow_witness` decompose with `n = BF::bits()`.
BabyBear (`p = 2^31 - 2^27 + 1`, `n = 31`): every sample below `2^27 - 1` has two witnesses. -/
theorem babybear_31_not_unique [CharP K 2013265921] (v : ℕ) (hv : v < 134217727) :
    bitsAccept (v : K) (canonBits 31 (v + 2013265921) : List K) = true ∧
      (canonBits 31 (v + 2013265921) : List K) ≠ canonBits 31 v :=
  bits_not_unique 2013265921 31 v (by omega) (by norm_num; omega)

/-- KoalaBear (`p = 2^31 - 2^24 + 1`, `n = 31`). -/
theorem koalabear_31_not_unique [CharP K 2130706433] (v : ℕ) (hv : v < 16777215) :
    bitsAccept (v : K) (canonBits 31 (v + 2130706433) : List K) = true ∧
      (canonBits 31 (v + 2130706433) : List K) ≠ canonBits 31 v :=
  bits_not_unique 2130706433 31 v (by omega) (by norm_num; omega)

/-- Goldilocks (`p = 2^64 - 2^32 + 1`, `n = 64`). -/
theorem goldilocks_64_not_unique [CharP K 18446744069414584321] (v : ℕ) (hv : v < 4294967295) :
    bitsAccept (v : K) (canonBits 64 (v + 18446744069414584321) : List K) = true ∧
      (canonBits 64 (v + 18446744069414584321) : List K) ≠ canonBits 64 v :=
  bits_not_unique 18446744069414584321 64 v (by omega) (by norm_num; omega)

/-! ### the repaired gadget (fixes/C12-1.diff): full-width limbs are compared with `p` -/

omit [CharP K p] in
/-- Expansion split at the most significant bit. -/
theorem canonBits_succ_last (n m : ℕ) :
    (canonBits (n + 1) m : List K) =
      canonBits n (m % 2 ^ n) ++ [if (m / 2 ^ n) % 2 = 1 then 1 else 0] := by
  induction n generalizing m with
  | zero => simp [canonBits, natBits]
  | succ n ih =>
    rw [canonBits_succ, ih (m / 2), canonBits_succ n (m % 2 ^ (n + 1))]
    have h1 : m % 2 ^ (n + 1) % 2 = m % 2 := by
      rw [pow_succ', Nat.mod_mul_right_mod]
    have h2 : m % 2 ^ (n + 1) / 2 = m / 2 % 2 ^ n := by
      rw [pow_succ', Nat.mod_mul_right_div_self]
    have h3 : m / 2 / 2 ^ n = m / 2 ^ (n + 1) := by
      rw [Nat.div_div_eq_div_mul, ← pow_succ']
    rw [h1, h2, h3]
    simp

omit [CharP K p] in
/-- Value of the comparison chain on an `n`-bit expansion. -/
theorem ltGo_canon (q n m : ℕ) (hm : m < 2 ^ n) (eq lt : K) :
    ltGo q (canonBits n m : List K).reverse eq lt =
      lt + eq * (if m < q % 2 ^ n then 1 else 0) := by
  induction n generalizing m eq lt with
  | zero =>
    have : m = 0 := by simpa using hm
    simp [canonBits, natBits, ltGo, Nat.mod_one, this]
  | succ n ih =>
    rw [canonBits_succ_last, List.reverse_append, List.reverse_singleton, List.singleton_append,
      ltGo, List.length_reverse, canonBits_length, Nat.shiftRight_eq_div_pow]
    have hX : 0 < 2 ^ n := Nat.pos_of_ne_zero (by positivity)
    have hm' : m % 2 ^ n < 2 ^ n := Nat.mod_lt _ hX
    have hq' : q % 2 ^ n < 2 ^ n := Nat.mod_lt _ hX
    have hsplit := Nat.mod_add_div m (2 ^ n)
    have hqs : q % 2 ^ (n + 1) = q % 2 ^ n + 2 ^ n * (q / 2 ^ n % 2) := Nat.mod_pow_succ
    have hmb : m / 2 ^ n < 2 := by
      rw [Nat.div_lt_iff_lt_mul hX]; rw [pow_succ] at hm; omega
    rcases Nat.mod_two_eq_zero_or_one (q / 2 ^ n) with hq | hq
    · -- bit of the modulus is 0
      rw [if_neg (by omega), ih _ hm', hqs, hq]
      obtain h0 | h1 : m / 2 ^ n = 0 ∨ m / 2 ^ n = 1 := by
        generalize m / 2 ^ n = z at hmb ⊢; omega
      · have hmeq : m = m % 2 ^ n := by rw [h0] at hsplit; omega
        have : (m < q % 2 ^ n + 2 ^ n * 0) ↔ (m % 2 ^ n < q % 2 ^ n) := by omega
        simp only [h0, this]; simp
      · have hge : ¬ m < q % 2 ^ n + 2 ^ n * 0 := by rw [h1] at hsplit; omega
        simp only [h1, hge]; simp
    · -- bit of the modulus is 1
      rw [if_pos hq, ih _ hm', hqs, hq]
      obtain h0 | h1 : m / 2 ^ n = 0 ∨ m / 2 ^ n = 1 := by
        generalize m / 2 ^ n = z at hmb ⊢; omega
      · have hlt : m < q % 2 ^ n + 2 ^ n * 1 := by rw [h0] at hsplit; omega
        simp only [h0, hlt]; simp
      · have : (m < q % 2 ^ n + 2 ^ n * 1) ↔ (m % 2 ^ n < q % 2 ^ n) := by
          rw [h1] at hsplit; omega
        simp only [h1, this]; simp

omit [CharP K p] in
theorem belowModulus_canon (q n m : ℕ) (hm : m < 2 ^ n) (hq : q < 2 ^ n) :
    belowModulus q (canonBits n m : List K) = true ↔ m < q := by
  unfold belowModulus
  rw [ltGo_canon q n m hm, Nat.mod_eq_of_lt hq, beq_iff_eq]
  by_cases h : m < q <;> simp [h]

/-- **C12 / bits, repaired gadget: complete characterisation.** For `w = BF::bits()`
(`2^(w-1) ≤ p < 2^w`) and every width `n ≤ w`, the only slot contents the repaired relation
accepts for `x = v < p` are the canonical bits of `v` (and `v` must fit in `n` bits). -/
theorem accept_fixed_iff (w n : ℕ) (hlow : 2 ^ (w - 1) ≤ p) (hp : p < 2 ^ w) (hn : n ≤ w)
    (bits : List K) (hlen : bits.length = n) (v : ℕ) (hv : v < p) :
    bitsAcceptFixed p w (v : K) bits = true ↔ v < 2 ^ n ∧ bits = canonBits n v := by
  unfold bitsAcceptFixed
  rw [Bool.and_eq_true, Bool.or_eq_true, bne_iff_ne, hlen]
  constructor
  · rintro ⟨hacc, hfull⟩
    obtain ⟨k, hk, hbits⟩ := (accept_iff p n bits hlen v hv).1 hacc
    have hk0 : k = 0 := by
      rcases Nat.lt_or_ge n w with hlt | hge
      · -- short limb: 2^n ≤ 2^(w-1) ≤ p
        have : 2 ^ n ≤ 2 ^ (w - 1) := Nat.pow_le_pow_right (by norm_num) (by omega)
        rcases k with _ | k
        · rfl
        · exfalso; rw [Nat.succ_mul] at hk; omega
      · have hnw : n = w := by omega
        rcases hfull with h | h
        · exact absurd hnw h
        · rw [hbits, belowModulus_canon p n _ hk (by rw [hnw]; exact hp)] at h
          rcases k with _ | k
          · rfl
          · exfalso; rw [Nat.succ_mul] at h; omega
    subst hk0
    simp only [Nat.zero_mul, Nat.add_zero] at hk hbits
    exact ⟨hk, hbits⟩
  · rintro ⟨hfit, hbits⟩
    refine ⟨(accept_iff p n bits hlen v hv).2 ⟨0, by simpa using hfit, by simpa using hbits⟩, ?_⟩
    by_cases hnw : n = w
    · right
      rw [hbits, belowModulus_canon p n v hfit (by rw [hnw]; exact hp)]
      exact hv
    · exact Or.inl hnw

/-- **C12 / bits: the full statement holds for the repaired gadget** (single limb, every
width `n ≤ BF::bits()`, every field of characteristic `p`, every slot content). -/
theorem bits_canonical_fixed (w n : ℕ) (hlow : 2 ^ (w - 1) ≤ p) (hp : p < 2 ^ w) (hn : n ≤ w)
    (bits : List K) (hlen : bits.length = n) (v : ℕ) (hv : v < p)
    (hacc : bitsAcceptFixed p w (v : K) bits = true) : bits = canonBits n v :=
  ((accept_fixed_iff p w n hlow hp hn bits hlen v hv).1 hacc).2

/-- Completeness of the repair: the honest hint is still accepted. -/
theorem fixed_canon_accept (w n : ℕ) (hlow : 2 ^ (w - 1) ≤ p) (hp : p < 2 ^ w) (hn : n ≤ w)
    (v : ℕ) (hv : v < p) (hfit : v < 2 ^ n) :
    bitsAcceptFixed p w (v : K) (canonBits n v : List K) = true :=
  (accept_fixed_iff p w n hlow hp hn _ (canonBits_length _ _) v hv).2 ⟨hfit, rfl⟩

/-- Call sites after the repair (`sample_bits`, `check_pow_witness`, WHIR: `n = w = BF::bits()`). -/
theorem babybear_31_unique_fixed [CharP K 2013265921] (bits : List K) (hlen : bits.length = 31)
    (v : ℕ) (hv : v < 2013265921) (hacc : bitsAcceptFixed 2013265921 31 (v : K) bits = true) :
    bits = canonBits 31 v :=
  bits_canonical_fixed 2013265921 31 31 (by norm_num) (by norm_num) le_rfl bits hlen v hv hacc

theorem koalabear_31_unique_fixed [CharP K 2130706433] (bits : List K) (hlen : bits.length = 31)
    (v : ℕ) (hv : v < 2130706433) (hacc : bitsAcceptFixed 2130706433 31 (v : K) bits = true) :
    bits = canonBits 31 v :=
  bits_canonical_fixed 2130706433 31 31 (by norm_num) (by norm_num) le_rfl bits hlen v hv hacc

theorem goldilocks_64_unique_fixed [CharP K 18446744069414584321] (bits : List K)
    (hlen : bits.length = 64) (v : ℕ) (hv : v < 18446744069414584321)
    (hacc : bitsAcceptFixed 18446744069414584321 64 (v : K) bits = true) :
    bits = canonBits 64 v :=
  bits_canonical_fixed 18446744069414584321 64 64 (by norm_num) (by norm_num) le_rfl bits hlen v hv
    hacc

end Bits

/-! ## coefficients -/
section Coeffs
variable {K : Type} [CommRing K] [DecidableEq K]

theorem foldl_add_eq_sum (f : ℕ → K) (D : ℕ) :
    (List.range D).foldl (fun acc i => f i + acc) 0 = ∑ i ∈ Finset.range D, f i := by
  induction D with
  | zero => simp
  | succ D ih => rw [List.range_succ, List.foldl_append, ih, Finset.sum_range_succ]; simp [add_comm]

theorem extRecompose_eq_sum (W : K) (D : ℕ) (cs : ℕ → ℕ → K) (j : ℕ) :
    extRecompose W D cs j = ∑ i ∈ Finset.range D, mulBasis W D i (cs i) j := by
  unfold extRecompose
  exact foldl_add_eq_sum (fun i => mulBasis W D i (cs i) j) D

theorem limbsEq_iff (D : ℕ) (a b : ℕ → K) : limbsEq D a b = true ↔ ∀ j < D, a j = b j := by
  simp [limbsEq, List.all_eq_true]

/-- A coefficient slot whose limbs `1 … D-1` vanish contributes its limb 0 at position `i`. -/
theorem mulBasis_base (W : K) (D i j : ℕ) (hi : i < D) (hj : j < D) (c : ℕ → K)
    (hc : ∀ l, 0 < l → l < D → c l = 0) :
    mulBasis W D i c j = if i = j then c 0 else 0 := by
  unfold mulBasis
  by_cases hij : i ≤ j
  · rw [if_pos hij]
    by_cases h : i = j
    · subst h; simp
    · rw [if_neg h]; exact hc _ (by omega) (by omega)
  · rw [if_neg hij, if_neg (by omega), hc _ (by omega) (by omega), mul_zero]

/-- The ALU chain on embedded base-field coefficients returns them limb by limb. -/
theorem recompose_embed (W : K) (D : ℕ) (a : ℕ → K) (j : ℕ) (hj : j < D) :
    extRecompose W D (fun i => embed (a i)) j = a j := by
  rw [extRecompose_eq_sum]
  have : ∀ i ∈ Finset.range D, mulBasis W D i (embed (a i)) j = if i = j then a i else 0 := by
    intro i hi
    rw [mulBasis_base W D i j (Finset.mem_range.1 hi) hj]
    · simp [embed]
    · intro l hl _; simp [embed]; omega
  rw [Finset.sum_congr rfl this, Finset.sum_ite_eq' (Finset.range D) j a]
  simp [hj]

/-- **C12 / coefficients, ALU chain: base-field coefficient vectors are unique.** If every
hinted slot holds a base-field element (limbs `1 … D-1` zero) and the chain recomposes to
`x`, the slots are the canonical coefficients of `x`. -/
theorem alu_base_unique (W : K) (D : ℕ) (bd : Bool) (x : ℕ → K) (cs : ℕ → ℕ → K)
    (hbase : ∀ i < D, ∀ l, 0 < l → l < D → cs i l = 0)
    (hacc : coefAccept W D .alu bd x cs = true) : ∀ i < D, cs i 0 = x i := by
  intro j hj
  have h := (limbsEq_iff D _ _).1 hacc j hj
  rw [extRecompose_eq_sum] at h
  have : ∀ i ∈ Finset.range D, mulBasis W D i (cs i) j = if i = j then cs i 0 else 0 := by
    intro i hi
    exact mulBasis_base W D i j (Finset.mem_range.1 hi) hj (cs i) (hbase i (Finset.mem_range.1 hi))
  rw [Finset.sum_congr rfl this, Finset.sum_ite_eq' (Finset.range D) j (fun i => cs i 0)] at h
  simpa [hj] using h

/-- The canonical coefficients are accepted by the ALU chain (completeness). -/
theorem alu_canon_accept (W : K) (D : ℕ) (bd : Bool) (x : ℕ → K) :
    coefAccept W D .alu bd x (canonCoeffs x) = true := by
  refine (limbsEq_iff D _ _).2 fun j hj => ?_
  exact recompose_embed W D x j hj

/-- Mass `t` moved from coefficient 1 into limb 1 of coefficient 0. -/
def massMove (x : ℕ → K) (t : K) : ℕ → ℕ → K := fun i j =>
  if i = 0 then (if j = 0 then x 0 else if j = 1 then t else 0)
  else if i = 1 then (if j = 0 then x 1 - t else 0)
  else embed (x i) j

/-- **C12 / coefficients, ALU chain: not unique.** For every `D ≥ 2`, every `x`, every
`t ≠ 0` the chain accepts `c₀ = x₀ + t·X`, `c₁ = x₁ - t`, and `c₀` is not a base-field
element. -/
theorem alu_not_unique (W : K) (D : ℕ) (hD : 2 ≤ D) (bd : Bool) (x : ℕ → K) (t : K) (ht : t ≠ 0) :
    coefAccept W D .alu bd x (massMove x t) = true ∧ massMove x t 0 1 ≠ 0 ∧
      isBase D (massMove x t 0) = false := by
  refine ⟨(limbsEq_iff D _ _).2 fun j hj => ?_, by simp [massMove, ht], ?_⟩
  · rw [extRecompose_eq_sum]
    -- each term = canonical contribution + correction supported on i ∈ {0, 1}
    let g : ℕ → K := fun i =>
      if i = 0 then (if j = 1 then t else 0) else if i = 1 then (if j = 1 then -t else 0) else 0
    have hterm : ∀ i ∈ Finset.range D,
        mulBasis W D i (massMove x t i) j = (if i = j then x i else 0) + g i := by
      intro i hi
      have hiD := Finset.mem_range.1 hi
      obtain rfl | rfl | h2 : i = 0 ∨ i = 1 ∨ 2 ≤ i := by omega
      · · -- i = 0
          simp only [mulBasis, massMove, g, Nat.zero_le, if_true, Nat.sub_zero]
          by_cases h0 : j = 0
          · subst h0; simp
          · by_cases h1 : j = 1
            · subst h1; simp
            · simp [h0, h1, Ne.symm h0]
      · · -- i = 1
          simp only [mulBasis, massMove, g]
          by_cases h0 : j = 0
          · subst h0
            have : D - 1 ≠ 0 := by omega
            simp [this]
          · by_cases h1 : j = 1
            · subst h1; simp; ring
            · have h1' : 1 ≤ j := by omega
              have : j - 1 ≠ 0 := by omega
              simp [h1', this, h1, Ne.symm h1]
      · have hi0 : i ≠ 0 := by omega
        have hi1 : i ≠ 1 := by omega
        have : massMove x t i = embed (x i) := by
          funext l; simp [massMove, hi0, hi1]
        rw [this, mulBasis_base W D i j hiD hj]
        · simp [g, hi0, hi1, embed]
        · intro l hl _; simp [embed]; omega
    rw [Finset.sum_congr rfl hterm, Finset.sum_add_distrib,
      Finset.sum_ite_eq' (Finset.range D) j x]
    have hg : ∑ i ∈ Finset.range D, g i = g 0 + g 1 := by
      refine Finset.sum_eq_add 0 1 (by omega) ?_ ?_ ?_
      · intro c _ hc; simp [g, hc.1, hc.2]
      · intro h; exact absurd (Finset.mem_range.2 (by omega)) h
      · intro h; exact absurd (Finset.mem_range.2 (by omega)) h
    rw [hg]
    simp only [Finset.mem_range, hj, if_true, g]
    by_cases h1 : j = 1 <;> simp [h1]
  · simp only [isBase, List.all_eq_false]
    exact ⟨1, List.mem_range.2 (by omega), by simp [massMove, ht]⟩

/-- **C12 / coefficients, `recompose` table.** The table's only bus tuple is
`(idx_out, v_0 … v_{D-1})`: acceptance is exactly "limb 0 of every coefficient slot (the
runner's cell `v_i`) equals limb `i` of `x`". -/
theorem npo_accept_iff (W : K) (D : ℕ) (bd : Bool) (x : ℕ → K) (cs : ℕ → ℕ → K) :
    coefAccept W D .npo bd x cs = true ↔ ∀ i < D, cs i 0 = x i := by
  simp [coefAccept, limbsEq_iff]

/-- The table cells themselves are unique (and canonical). -/
theorem npo_cells_unique (W : K) (D : ℕ) (bd : Bool) (x : ℕ → K) (cs cs' : ℕ → ℕ → K)
    (h : coefAccept W D .npo bd x cs = true) (h' : coefAccept W D .npo bd x cs' = true) :
    ∀ i < D, cs i 0 = cs' i 0 := fun i hi =>
  ((npo_accept_iff W D bd x cs).1 h i hi).trans ((npo_accept_iff W D bd x cs').1 h' i hi).symm

/-- Junk `t` in limb 1 of coefficient slot 0. -/
def tailJunk (x : ℕ → K) (t : K) : ℕ → ℕ → K := fun i j =>
  if i = 0 ∧ j = 1 then t else embed (x i) j

/-- **C12 / coefficients, `recompose` table: the slots are not unique.** The higher limbs
of the hinted slots are not constrained by the table. -/
theorem npo_not_unique (W : K) (D : ℕ) (hD : 2 ≤ D) (bd : Bool) (x : ℕ → K) (t : K) (ht : t ≠ 0) :
    coefAccept W D .npo bd x (tailJunk x t) = true ∧ isBase D (tailJunk x t 0) = false := by
  constructor
  · rw [npo_accept_iff]; intro i _; simp [tailJunk, embed]
  · simp only [isBase, List.all_eq_false]
    exact ⟨1, List.mem_range.2 (by omega), by simp [tailJunk, ht]⟩

theorem isBase_iff (D : ℕ) (c : ℕ → K) : isBase D c = true ↔ ∀ l, 0 < l → l < D → c l = 0 := by
  simp only [isBase, List.all_eq_true, List.mem_range, Bool.or_eq_true, beq_iff_eq]
  constructor
  · intro h l hl hlD; rcases h l hlD with h0 | h0
    · omega
    · exact h0
  · intro h l hlD
    by_cases h0 : l = 0
    · exact Or.inl h0
    · exact Or.inr (h l (by omega) hlD)

/-- **C12 / coefficients, `recompose/coeff` table with the per-coefficient tuple on the
bus: unique and canonical.** -/
theorem npoc_bound_unique (W : K) (D : ℕ) (x : ℕ → K) (cs : ℕ → ℕ → K)
    (h : coefAccept W D .npoCoeff true x cs = true) :
    ∀ i < D, ∀ j < D, cs i j = canonCoeffs x i j := by
  simp only [coefAccept, Bool.not_true, Bool.false_or, Bool.and_eq_true, limbsEq_iff,
    List.all_eq_true, List.mem_range] at h
  intro i hi j hj
  by_cases h0 : j = 0
  · subst h0; simpa [canonCoeffs, embed] using h.1 i hi
  · have := (isBase_iff D (cs i)).1 (h.2 i hi) j (by omega) hj
    simp [canonCoeffs, embed, h0, this]

/-- … and with multiplicity 0 (no reader of the coefficient slot besides the ALU row that
creates it) the `recompose/coeff` table constrains exactly what `recompose` does. -/
theorem npoc_unbound_eq_npo (W : K) (D : ℕ) (x : ℕ → K) (cs : ℕ → ℕ → K) :
    coefAccept W D .npoCoeff false x cs = coefAccept W D .npo false x cs := by
  simp [coefAccept]

end Coeffs

end P3R.C12
