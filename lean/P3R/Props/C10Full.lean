/-
C10 — completeness at model level: the honest trace is accepted.

The converse direction of `C04.accepted_sat`, over the same abstract accepted-trace notion:
take the trace whose every operand cell holds the witness value of its slot (`cells = w ∘ slot`,
which is what `Traces` built by the runner contain). Then

* `honest_rows` — if the witness satisfies every op relation (this is `C02.run_ok_sat` for a
  successful run, plus booleanity of the asserted booleans), the ops are well-formed and the
  Horner steps form chains (`hornerChained`, the model of `validate_horner_chains`: a step's
  accumulator is the preceding Horner step's output, or a zero constant at the start of a run —
  the hypothesis whose failure was findings F7 / F20), every row constraint vanishes on the cells;
* `honest_tupleNet` — the net multiplicity of every tuple `(s, v)` is the slot's net
  multiplicity `netOf` when `v = w s` and 0 otherwise, hence (`honest_bus`) the bus balances
  whenever the per-slot multiplicities cancel, which C09 proves for every circuit whose read
  slots are all created (`C09.bus_balanced`).
STARK completeness and the packed / scheduled layout of the real tables are outside this model
(exercised by the real prover in every run, and by C11's scheduled-trace oracle).
-/
import P3R.Props.C04Full
import P3R.Props.C10
import P3R.Model.LowerCheck
import P3R.Props.C02Run

namespace P3R.C10
open P3R P3R.C04 P3R.C09

variable {F : Type} [Field F] [DecidableEq F]

theorem holds_rowOk (w pub : Nat → F) (prev : Option (Nat × F)) (op : Op F)
    (hwf : opWF op = true)
    (hchain : ∀ a b c out acc, op = .alu .horner a b c out (some acc) → prevAcc prev = w acc)
    (h : op.holds w pub) : rowOkVals pub prev op ((opSlots op).map w) := by
  cases op with
  | const out v => simpa [rowOkVals, opSlots, Op.holds] using h
  | pub out pos => simpa [rowOkVals, opSlots, Op.holds] using h
  | hint _ _ _ => simp [rowOkVals]
  | npo _ _ _ _ => simp [rowOkVals]
  | alu k a b c out io =>
    cases k with
    | add =>
      have : ∀ x ∈ laneAdd 1 (1 : F) [w a] [w b] [w out], x = 0 := by
        rw [C11.laneAdd_iff 1 (1 : F) one_ne_zero]
        intro i hi; have : i = 0 := by omega
        subst this; simpa [Op.holds, vget] using h
      cases c <;> simpa [rowOkVals, opSlots] using this
    | mul =>
      have : ∀ x ∈ laneEq 1 (1 : F) [w a * w b] [w out], x = 0 := by
        rw [C11.laneEq_iff 1 (1 : F) one_ne_zero]
        intro i hi; have : i = 0 := by omega
        subst this; simpa [Op.holds, vget] using h
      cases c <;> simpa [rowOkVals, opSlots] using this
    | boolCheck =>
      have : ∀ x ∈ laneBool 1 (1 : F) [w a], x = 0 := by
        rw [C11.laneBool_iff 1 (1 : F) one_ne_zero]
        simp only [Op.holds] at h
        refine ⟨?_, by intro i hi; omega⟩
        simp only [vget, List.getD_cons_zero]
        rcases mul_eq_zero.mp h with h0 | h1
        · exact Or.inl h0
        · exact Or.inr (sub_eq_zero.mp h1)
      cases c <;> simpa [rowOkVals, opSlots] using this
    | mulAdd =>
      cases c with
      | none => simp [opWF] at hwf
      | some cv =>
        have : ∀ x ∈ laneMulAdd 1 (1 : F) [w a * w b] [w cv] [w out], x = 0 := by
          rw [C11.laneMulAdd_iff 1 (1 : F) one_ne_zero]
          intro i hi; have : i = 0 := by omega
          subst this; simpa [Op.holds, vget] using h
        simpa [rowOkVals, opSlots] using this
    | horner =>
      cases c with
      | none => simp [opWF] at hwf
      | some cv =>
        cases io with
        | none => simp [opWF] at hwf
        | some acc =>
          simp only [rowOkVals, opSlots, List.map, List.cons_append, List.nil_append]
          rw [hchain a b (some cv) out acc rfl]
          rw [C11.hornerSingle_iff 1 (1 : F) one_ne_zero]
          intro i hi; have : i = 0 := by omega
          subst this
          simp only [Op.holds] at h
          simp only [vget, List.getD_cons_zero]
          rw [← h]

/-- **Honest rows.** -/
theorem honest_rows (w pub : Nat → F) (zs : List Nat) (hz : ∀ x ∈ zs, w x = 0)
    (ops : List (Op F)) (prev : Option (Nat × F))
    (hprev : ∀ s v, prev = some (s, v) → v = w s)
    (hsat : Sat w pub ops) (hwf : ∀ o ∈ ops, opWF o = true)
    (hchain : hornerChainedFrom zs ops (prev.map Prod.fst) = true) :
    rowsOk pub ops ((ops.flatMap opSlots).map w) prev := by
  induction ops generalizing prev with
  | nil => trivial
  | cons op ops ih =>
    simp only [rowsOk, List.flatMap_cons, List.map_append]
    rw [List.take_left' (by simp), List.drop_left' (by simp)]
    have hop := hsat op (by simp)
    have hsat' : Sat w pub ops := fun o ho => hsat o (by simp [ho])
    have hwf' : ∀ o ∈ ops, opWF o = true := fun o ho => hwf o (by simp [ho])
    have hwfo := hwf op (by simp)
    refine ⟨holds_rowOk w pub prev op hwfo ?_ hop, ?_⟩
    · intro a b c out acc he
      subst he
      simp only [hornerChainedFrom, Bool.and_eq_true] at hchain
      cases prev with
      | none =>
        simp only [prevAcc]
        exact (hz acc (by simpa using hchain.1)).symm
      | some sv =>
        obtain ⟨s, v⟩ := sv
        simp only [prevAcc]
        have hs : acc = s := by simpa using hchain.1
        rw [hprev s v rfl, hs]
    · cases op with
      | alu k a b c out io =>
        cases k with
        | horner =>
          rw [nextPrev_horner]
          refine ih (some (out, w out)) (by intro s v h; cases h; rfl) hsat' hwf' ?_
          cases io with
          | none => simp [hornerChainedFrom] at hchain
          | some acc =>
            simp only [hornerChainedFrom, Bool.and_eq_true] at hchain
            simpa using hchain.2
        | add =>
          rw [nextPrev_alu_other _ _ (by decide)]
          exact ih none (fun _ _ h => by cases h) hsat' hwf' (by simpa [hornerChainedFrom] using hchain)
        | mul =>
          rw [nextPrev_alu_other _ _ (by decide)]
          exact ih none (fun _ _ h => by cases h) hsat' hwf' (by simpa [hornerChainedFrom] using hchain)
        | boolCheck =>
          rw [nextPrev_alu_other _ _ (by decide)]
          exact ih none (fun _ _ h => by cases h) hsat' hwf' (by simpa [hornerChainedFrom] using hchain)
        | mulAdd =>
          rw [nextPrev_alu_other _ _ (by decide)]
          exact ih none (fun _ _ h => by cases h) hsat' hwf' (by simpa [hornerChainedFrom] using hchain)
      | const _ _ => simpa [nextPrev] using ih prev hprev hsat' hwf' (by simpa [hornerChainedFrom] using hchain)
      | pub _ _ => simpa [nextPrev] using ih prev hprev hsat' hwf' (by simpa [hornerChainedFrom] using hchain)
      | hint _ _ _ => simpa [nextPrev] using ih prev hprev hsat' hwf' (by simpa [hornerChainedFrom] using hchain)
      | npo _ _ _ _ => simpa [nextPrev] using ih prev hprev hsat' hwf' (by simpa [hornerChainedFrom] using hchain)

/-- The honest cells: every occurrence holds its slot's witness value. -/
def honestCells (w : Nat → F) (evs : List (Nat × Role)) : List (Cell F) :=
  evs.map fun e => ⟨e.1, e.2, w e.1⟩

/-- Net multiplicity of a tuple on the honest bus. -/
theorem honest_tupleNet (w : Nat → F) (reads : List (Nat × Nat)) (evs : List (Nat × Role))
    (s : Nat) (v : F) :
    tupleNet (busOf reads (honestCells w evs)) s v = if v = w s then netOf reads evs s else 0 := by
  unfold tupleNet busOf honestCells netOf
  induction evs with
  | nil => simp
  | cons e es ih =>
    obtain ⟨x, r⟩ := e
    simp only [List.map_cons, List.filterMap_cons]
    by_cases hx : x = s
    · subst hx
      by_cases hv : v = w x
      · subst hv
        cases r <;> simp_all [interOf, eventMult, List.filter_cons]
      · have hv' : ¬ w x = v := fun h => hv h.symm
        cases r <;> simp_all [interOf, eventMult, List.filter_cons]
    · have hx' : ¬ (x == s) = true := by simpa using hx
      by_cases hv : v = w s
      · cases r <;> simp_all [interOf, eventMult, List.filter_cons]
      · cases r <;> simp_all [interOf, eventMult, List.filter_cons]

/-- **Honest bus.** If every slot's net multiplicity is zero (C09.bus_balanced), the honest
trace's bus balances tuple by tuple. -/
theorem honest_bus (w : Nat → F) (reads : List (Nat × Nat)) (evs : List (Nat × Role))
    (hnet : ∀ s, netOf reads evs s = 0) :
    ∀ s v, tupleNet (busOf reads (honestCells w evs)) s v = 0 := by
  intro s v
  rw [honest_tupleNet]
  split
  · exact hnet s
  · rfl

/-- **C10 / model-level completeness.** For the roles of `genPrep`, a witness satisfying every
op relation, with well-formed ops, Horner chains and every read slot created, gives a trace that
meets both acceptance conditions of `C04.accepted_sat`. -/
theorem honest_accepted (pub w : Nat → F) (c : Circuit F) (p : Prep) (h : genPrep c = some p)
    (hsat : Sat w pub c.ops.toList) (hwf : ∀ o ∈ c.ops.toList, opWF o = true)
    (hchain : hornerChained c.ops.toList = true)
    (hcreated : ∀ s, readsOf p.reads s ≠ 0 → s ∈ p.defined) :
    rowsOk pub c.ops.toList ((p.events.map Prod.fst).map w) none ∧
    ∀ s v, tupleNet (busOf p.reads (honestCells w p.events)) s v = 0 := by
  refine ⟨?_, honest_bus w p.reads p.events (fun s => C09.bus_balanced c p h hcreated s)⟩
  rw [genPrep_slots c p h]
  have hconst : ∀ out v, Op.const out v ∈ c.ops.toList → w out = v := by
    intro out v hm
    simpa [Op.holds] using hsat _ hm
  exact honest_rows w pub (zeroConsts c.ops.toList) (zeroConsts_zero w pub _ hconst) c.ops.toList none
    (fun _ _ h => by cases h) hsat hwf (by simpa [hornerChained] using hchain)

/-- **C10 / from a successful run to an accepted trace.** Whenever the modelled `run` succeeds,
the public rows carry the public inputs and the asserted booleans are boolean (i.e. the inputs
satisfy the program), the trace built from the returned witness meets both acceptance conditions,
provided the circuit's Horner steps form chains (else: finding F7) and every read slot is created
(decided per circuit; the driver prints the per-slot net multiplicity in every C09 run). -/
theorem run_honest_accepted (canon : F → Nat) (c : Circuit F) (p : Prep) (h : genPrep c = some p)
    (w0 : Array (Option F)) (t : Traces F) (hrun : runFrom canon c w0 = .ok t) (pub : Nat → F)
    (hpub : ∀ out pos, Op.pub out pos ∈ c.ops.toList → t.witness.getD out 0 = pub pos)
    (hbool : ∀ a bb cc out io, Op.alu .boolCheck a bb cc out io ∈ c.ops.toList →
      t.witness.getD a 0 * (t.witness.getD a 0 - 1) = 0)
    (hwf : ∀ o ∈ c.ops.toList, opWF o = true)
    (hchain : hornerChained c.ops.toList = true)
    (hcreated : ∀ s, readsOf p.reads s ≠ 0 → s ∈ p.defined) :
    rowsOk pub c.ops.toList ((p.events.map Prod.fst).map fun j => t.witness.getD j 0) none ∧
    ∀ s v, tupleNet (busOf p.reads (honestCells (fun j => t.witness.getD j 0) p.events)) s v = 0 := by
  have hwfh : ∀ op ∈ c.ops.toList, ∀ a bb cc out io, op = .alu .horner a bb cc out io →
      cc.isSome ∧ io.isSome := by
    intro op hop a bb cc out io he
    have := hwf op hop
    subst he
    simpa [opWF] using this
  obtain ⟨_, _, hs⟩ := C02.run_ok_sat canon c w0 t hrun pub hwfh
  have hSat : Sat (fun j => t.witness.getD j 0) pub c.ops.toList := by
    intro op hop
    by_cases hp : ∃ out pos, op = .pub out pos
    · obtain ⟨out, pos, rfl⟩ := hp
      simpa [Op.holds] using hpub out pos hop
    · refine hs op hop (fun out pos he => hp ⟨out, pos, he⟩) ?_
      intro a bb cc out io he
      subst he
      exact hbool a bb cc out io hop
  exact honest_accepted pub _ c p h hSat hwf hchain hcreated

end P3R.C10
