"""C16 — proof metadata cannot weaken verification; serialization preserves the verdict.

Plug-in for bin/check. One harness run (`p3r-harness metadata`, *release* build: the p3 prover
checks constraints under debug_assertions, so proofs of invalid traces only exist in release)
produces real circuit proofs of honest and of forged traces in 7 configurations, applies every
single alteration (and sampled / all pairs, plus directed same-width pairs) of the metadata to
other well-formed values, runs the real `verify_all_tables` on each, and round-trips proofs
through postcard and serde_json. The Lean driver `p3r_driver_c16` evaluates the model
`P3R.Model.Metadata` (`verify`, `encodeMeta`/`decodeMeta`, AIR widths) on the same lines.

Manifest leg (harness/src/c16_manifest.rs, lean/P3R/Model/Manifest.lean, Props/C16Manifest.lean): for every base
proof the manifest a verifier writes for that circuit is derived; the real `VerifierManifest::matches` is called on
the unaltered proof, on every single alteration of the proof, on every single alteration of the manifest (op types
relabelled to every id the code base can name and to near-miss strings of the same family), on compensating and
sampled pairs; the verdict is compared with `manifestMatches` (`manifest …` lines) and with an expectation computed
on the JSON; whenever `matches` accepts something it should not, `verify_all_tables` is asked too (combined verdict).
"""
import json, os

PROPERTY = "C16"

CORRESPONDENCE = ("metadata handling of native verification (circuit-prover/src/batch_stark_prover.rs "
                  "BatchStarkProof::validate / verify_all_tables / verify, packing.rs TablePacking::validate, "
                  "the metadata-dependent checks of p3_batch_stark::verify_batch, postcard encoding of the proof's "
                  "metadata, AIR widths of air/{const,public,alu}_air.rs) vs lean/P3R/Model/Metadata.lean; "
                  "circuit-prover/src/manifest.rs VerifierManifest::matches vs lean/P3R/Model/Manifest.lean manifestMatches "
                  "(`manifest` lines: first failing comparison, with index)")

PANIC_CLASS = "verifier-panic:declared-preprocessed-width-below-air-demand"
DIFFSYS_CLASS = "different-constraint-system-reaches-stark-check"


def _read(p):
    with open(p) as fh:
        return [l.rstrip("\n") for l in fh]


CONFIGS = ["bb1", "bb4", "kb1", "kb8", "kb5q", "gl2", "kb4npo", "kb4w32", "kb5qnpo"]


def _part(ctx, out, rep_acc, violations, counters):
    """Model side + comparison for one harness output directory."""
    rep = json.load(open(f"{out}/c16.report.json"))
    detail = {d["line"]: d for d in json.load(open(f"{out}/c16.detail.json"))}
    driver = os.path.join(ctx["driver_dir"], "p3r_driver_c16")
    with open(f"{out}/c16.cases") as fin:
        rc, mo = ctx["sh"]([driver], stdin=fin, timeout=3600)
    with open(f"{out}/c16.model", "w") as fh:
        fh.write(mo)
    impl, model, cases = _read(f"{out}/c16.impl"), _read(f"{out}/c16.model"), _read(f"{out}/c16.cases")
    while model and model[-1] == "":
        model.pop()
    for k in range(max(len(impl), len(model))):
        a = impl[k] if k < len(impl) else None
        b_full = model[k] if k < len(model) else None
        b = b_full.split(" ; ")[0] if b_full is not None else None
        extra = b_full.split(" ; ")[1] if b_full and " ; " in b_full else ""
        if a != b:
            counters["disagreements"] += 1
            # the property itself: metadata that contradicts the verifier's expected parameters / table set (the
            # model's `meta:*` rejections) must be rejected. An accepting implementation is a concrete failing input.
            if a == "verdict accept" and b and b.startswith("verdict meta:") and counters.get("meta_accept", 0) < 3:
                counters["meta_accept"] = counters.get("meta_accept", 0) + 1
                d = detail.get(k, {})
                violations.append({"class": "accepts-contradicting-metadata:" + b.split("meta:")[1].split()[0],
                                   "what": f"a proof whose metadata contradicts the verifier's expectation ({b}) is accepted; "
                                           f"altered fields={d.get('fields')}",
                                   "replay": {"case_line": (cases[k] if k < len(cases) else "")[:4000], "altered": d.get("fields"),
                                              "model_verdict": b_full, "replay": d.get("replay")}})
            # manifest leg: `matches` = Ok where the model (proved exact: manifest_matches_iff) names the comparison that fails
            if a == "matches ok" and b and b.startswith("matches err:") and counters.get("manifest_accept", 0) < 3:
                counters["manifest_accept"] = counters.get("manifest_accept", 0) + 1
                d = detail.get(k, {})
                violations.append({"class": "manifest-accepts-contradicting-metadata:" + b.split("err:")[1].split("@")[0],
                                   "what": f"VerifierManifest::matches returns Ok for a proof whose declared metadata contradicts the manifest "
                                           f"(model: {b}); altered fields={d.get('fields')}",
                                   "replay": {"case_line": (cases[k] if k < len(cases) else "")[:4000], "altered": d.get("fields"),
                                              "model_verdict": b_full, "replay": d.get("replay")}})
            if counters["disagreements"] <= 3:
                d = detail.get(k, {})
                violations.append({"class": "model-disagreement",
                                   "what": f"correspondence {CORRESPONDENCE} no longer checks: impl={a!r} model={b_full!r} "
                                           f"fields={d.get('fields')} reason={d.get('reason')}",
                                   "replay": {"correspondence": CORRESPONDENCE, "case_line": (cases[k] if k < len(cases) else "")[:4000],
                                              "first_difference": [a, b_full], "replay": d.get("replay")},
                                   "no_input": True})
            continue
        if a is not None and a.startswith("matches "):
            counters["manifest_lines"] = counters.get("manifest_lines", 0) + 1
            mk = a.split("@")[0]
            counters["manifest_hist"][mk] = counters["manifest_hist"].get(mk, 0) + 1
        if extra:
            key = f"{b} {extra}"
            counters["stage"][key] = counters["stage"].get(key, 0) + 1
        # the verifier evaluated a constraint system different from the one the proof was made
        # for, and nothing but the STARK check itself stood in the way
        if k in detail and "stage=crypto airs-changed=1" in extra:
            reason = detail[k].get("reason", "")
            # PermutationWidthMismatch / TerminalPresenceMismatch are structural checks of verify_batch (number of packed
            # lookups of the rebuilt AIR vs the opened permutation row), which the model does not contain
            if reason.startswith("crypto:") or reason == "lookup:TerminalSumNonZero":
                counters["diffsys"] += 1
                if counters["diffsys"] <= 2:
                    d = detail[k]
                    violations.append({"class": DIFFSYS_CLASS,
                                       "what": f"{d['cfg']} {d['kind']}: alteration of {d['fields']} makes verify_all_tables rebuild a different AIR list "
                                               f"that passes every metadata and shape check; only the STARK check itself rejects it ({reason})",
                                       "replay": d["replay"]})
            else:
                counters["same_width_rejected_structurally"] += 1
    by_line = {json.dumps(d["replay"], sort_keys=True): k for k, d in detail.items()}
    for v in rep["violations"]:
        cls = v["class"]
        k = by_line.get(json.dumps(v["replay"], sort_keys=True))
        if cls.startswith("panic:"):
            # F-C16-1 is fixed (declared preprocessed width is compared with the rebuilt AIR before verify_batch);
            # the model proves the verifier never panics on metadata (verify_never_panics), so every panic is a
            # violation again. Panics of the old kind are given the old finding's class so that a return of the
            # defect is recognisable; known_findings.json lists it as "fixed", which suppresses nothing.
            counters["panics"] += 1
            det = str(v.get("detail", ""))
            if "out of bounds" in det or "out of range" in det or "WindowAccess" in det:
                cls = PANIC_CLASS
            if counters["panics"] > 3:
                continue
        violations.append({"class": cls,
                           "what": f"{v['kind']} {v['class']} {str(v.get('detail', ''))[:120]} case: {str(v.get('line', ''))[:100]}",
                           "replay": v["replay"]})
    rep_acc["evaluations"] += rep["evaluations"]
    rep_acc["distinct"] += rep["distinct"]
    rep_acc["lines"] += len(impl)
    rep_acc["serde_checks"] += rep.get("serde_checks", 0)
    rep_acc["samples"] += rep["samples"][:2]
    rep_acc["corpus"] += rep.get("corpus_witnesses_reproduced", [])
    for k, v in rep["hist"].items():
        rep_acc["hist"][k] = rep_acc["hist"].get(k, 0) + v


def run(ctx):
    import subprocess
    tier, seed, work = ctx["tier"], ctx["seed"], ctx["work"]
    violations = []
    empty = {"evaluations": 0, "distinct_nontrivial": 0, "rule": "", "samples": [], "input_distribution": {},
             "traces_validated_against_impl": 0, "disagreements_checked": 0}
    rc, o = ctx["build_harness"]("release")
    if rc != 0:
        return [{"class": "harness-build", "what": "release harness does not build against /repo working tree",
                 "replay": {"log": o[-2000:]}, "no_input": True}], empty
    harness = os.path.join(ctx["harness_dir"], "target/release/p3r-harness")
    jobs = []  # (out dir, cmd)
    if ctx.get("replay"):
        rp = json.load(open(ctx["replay"]))
        os.makedirs(f"{work}/replay_corpus", exist_ok=True)
        json.dump(rp.get("replay", rp), open(f"{work}/replay_corpus/r.json", "w"))
        jobs.append((f"{work}/run_replay", [harness, "metadata", "--seed", str(seed), "--out", f"{work}/run_replay",
                                            "--corpus", f"{work}/replay_corpus", "--generate", "0"]))
    else:
        jobs.append((f"{work}/run_corpus", [harness, "metadata", "--seed", str(seed), "--out", f"{work}/run_corpus",
                                            "--corpus", f"{ctx['root']}/corpus/c16", "--generate", "0"]))
        for cfg in CONFIGS:
            cmd = [harness, "metadata", "--seed", str(seed), "--out", f"{work}/run_{cfg}", "--generate", "1", "--only", cfg]
            cmd += ["--bases", "2", "--pairs", "60"] if tier == "quick" else ["--bases", "3", "--pairs", "400", "--all-pairs", "1"]
            jobs.append((f"{work}/run_{cfg}", cmd))
    procs = [(out, cmd, subprocess.Popen(cmd, stdout=subprocess.PIPE, stderr=subprocess.STDOUT)) for out, cmd in jobs]
    rep_acc = {"evaluations": 0, "distinct": 0, "lines": 0, "serde_checks": 0, "samples": [], "corpus": [], "hist": {}}
    counters = {"disagreements": 0, "diffsys": 0, "panics": 0, "same_width_rejected_structurally": 0, "stage": {}, "manifest_hist": {}}
    for out, cmd, p in procs:
        so, _ = p.communicate(timeout=7200)
        if p.returncode != 0 or not os.path.exists(f"{out}/c16.report.json"):
            violations.append({"class": "harness-crash", "what": f"harness metadata exited {p.returncode}: {so.decode(errors='replace')[-300:]}",
                               "replay": {"cmd": cmd}, "no_input": True})
            continue
        _part(ctx, out, rep_acc, violations, counters)
    # one representative per class first (concrete inputs before pure model disagreements), at most 3 per class:
    # bin/check prints the first five violations, which should show five different classes when there are that many
    seen, first, rest = {}, [], []
    for v in violations:
        n = seen.get(v["class"], 0)
        seen[v["class"]] = n + 1
        if n == 0:
            first.append(v)
        elif n < 3:
            rest.append(v)
    first.sort(key=lambda v: (bool(v.get("no_input")), not v["class"].startswith("table-set-contradiction-accepted-end-to-end")))
    violations = first + rest
    if rep_acc["lines"] == 0:
        return violations, empty
    disagreements, diffsys, panics = counters["disagreements"], counters["diffsys"], counters["panics"]
    stage_hist = counters["stage"]
    rep = {"hist": rep_acc["hist"], "evaluations": rep_acc["evaluations"], "distinct": rep_acc["distinct"], "samples": rep_acc["samples"],
           "serde_checks": rep_acc["serde_checks"], "corpus_witnesses_reproduced": rep_acc["corpus"]}
    impl = [None] * rep_acc["lines"]
    hist = {k: v for k, v in rep["hist"].items() if not k.startswith("field.") and not k.startswith("manifest.")}
    man_hist = {k[9:]: v for k, v in rep["hist"].items() if k.startswith("manifest.")}
    field_hist = {k[6:]: v for k, v in rep["hist"].items() if k.startswith("field.") and v > 0 and "+" not in k}
    cov = {"evaluations": rep["evaluations"], "distinct_nontrivial": rep["distinct"],
           "rule": "real BatchStarkProofs (release prover) of honest and of forged traces (ALU output / operand cell, public value) of random "
                   "arithmetic circuits in 9 configurations (BabyBear D=1, D=4; KoalaBear D=1, D=8, quintic D=5, D=4 with Poseidon2 W16 + recompose "
                   "tables, D=4 with Poseidon2 W32 + recompose (W16 prover registered too), quintic D=5 with base-field Poseidon2 D1 W16 + "
                   "recompose + recompose/coeff (D4 W16 prover registered too); Goldilocks D=2) x packings (lanes 1..3, K 2..5, min height 1..8); every single alteration of ext_degree, w_binomial, "
                   "quintic flag, alu_variant, each packing field incl. npo_lanes, each row count, table list (drop / duplicate / swap / retag / "
                   "append), per-entry rows / lanes / variant / public values, stark_common (absent, commitment, instance None, width, degree_bits, "
                   "matrix_index, instances length, matrix_to_instance) to other well-formed values incl. ones validate() rejects; pairs on distinct "
                   "fields (quick: 60 sampled per proof; thorough: all pairs for one honest + its invalid proofs per configuration, 400 sampled for "
                   "the others) + every ALU (lanes,K) with the same main width; each altered proof is "
                   "deserialized into the real type and verified by the real verify_all_tables under catch_unwind; distinct = distinct "
                   "(proof, altered metadata) pairs; every base and 3 altered proofs per base are round-tripped through postcard and serde_json; "
                   "table retags go to every registered op type, every Poseidon1/Poseidon2 configuration id, both recompose ids and near-miss strings "
                   "of the entry's own family; MANIFEST LEG: per base the derived VerifierManifest, real `matches` on the unaltered proof, on every "
                   "single alteration of the proof, on every single alteration of the manifest (degree, reduction kind / w, ALU variant, per-entry op "
                   "type to all those ids, variant, public-value length, drop / duplicate / swap / append), compensating pairs (same relabel on both "
                   "sides) and sampled pairs; expected answer computed on the JSON (whole-string op types); `matches`=Ok on a contradicting proof is "
                   "followed by verify_all_tables (combined verdict)",
           "samples": rep["samples"][:6], "input_distribution": hist, "per_field_outcomes_single": field_hist,
           "model_stage_histogram": stage_hist,
           "manifest_leg_lines_compared_with_model": counters.get("manifest_lines", 0),
           "manifest_leg_outcomes": counters["manifest_hist"],
           "manifest_leg_per_config": man_hist,
           "serde_round_trip_checks": rep.get("serde_checks", 0),
           "verifier_panics": panics,
           "different_system_reaching_stark_check": diffsys,
           "same_main_width_alterations_rejected_by_permutation_width_check": counters["same_width_rejected_structurally"],
           "traces_validated_against_impl": len(impl), "disagreements_checked": disagreements,
           "corpus_witnesses_reproduced": rep.get("corpus_witnesses_reproduced", []),
           "known_not_reproduced": []}
    return violations, cov


CHECK = {
    "lean_modules": ["P3R.Props.C16", "P3R.Witness.C16", "P3R.Props.C16Manifest", "P3R.Witness.C16Manifest"],
    "lean_exes": ["p3r_driver_c16"],
    "theorems": [
        "P3R.C16.field_params_bound", "P3R.C16.reduction_verifier_chosen", "P3R.C16.missing_w_unreachable",
        "P3R.C16.table_set_bound", "P3R.C16.accept_iff_crypto", "P3R.C16.irrelevant_fields",
        "P3R.C16.alu_sig_injective", "P3R.C16.public_sig_injective", "P3R.C16.prep_exact_enforced",
        "P3R.C16.airs_determined", "P3R.C16.verify_never_panics",
        "P3R.C16.no_accept_flip", "P3R.C16.serde_roundtrip",
        "P3R.Witness.C16.same_main_width_now_rejected", "P3R.Witness.C16.underdeclared_width_rejected",
        "P3R.C16.manifest_matches_iff", "P3R.C16.manifest_ok_pointwise", "P3R.C16.manifest_matches_self",
        "P3R.C16.manifest_npoOp_at", "P3R.C16.manifest_npoVariant_at", "P3R.C16.manifest_npoPvLen_at",
        "P3R.C16.manifest_op_relabel_rejected", "P3R.C16.manifest_expected_relabel_rejected",
        "P3R.C16.manifest_insensitive", "P3R.C16.manifest_verify_table_set",
        "P3R.Witness.C16Manifest.honest_matches", "P3R.Witness.C16Manifest.same_family_relabel_rejected",
        "P3R.Witness.C16Manifest.recompose_coeff_not_recompose", "P3R.Witness.C16Manifest.other_config_manifest_rejects",
    ],
    "run": run,
    "trusted_base": [
        "cryptographic part of verify_batch (PCS opening, out-of-domain evaluation, LogUp terminal sum, Fiat-Shamir) is a parameter "
        "`crypto : Sys -> Bool` of the model; theorems hold for every such function; the driver instantiates the ideal one (a proof body "
        "verifies against exactly the system it was produced for)",
        "plug-in AIRs (Poseidon permutation tables, recompose table) are parameters of the model: widths are read off the honest proof "
        "(Poseidon) or are lanes x (D, 2) (recompose) / lanes x (D, 2 + 2D) (recompose/coeff); their constraints are not modelled here (C11)",
        "postcard varint layer: the model encodes to tokens (one varint each); the harness varint-decodes the real bytes",
    ],
    "assumptions": [
        "verify_all_tables takes the preprocessed commitment from the proof itself (proof.stark_common): binding a proof to a particular "
        "circuit is the caller's comparison of that commitment; public values of "
        "primitive tables are main-trace cells (C04)",
        "airs_determined: hypothesis on plug-ins only (distinct registered plug-ins have distinct (main, preprocessed) widths for all "
        "lane counts); PrepExact (declared preprocessed width = width the rebuilt AIR reads) is enforced by verify since the fix of "
        "F-C16-1 and proved (prep_exact_enforced); the real verify_batch additionally compares the number of packed lookups of the "
        "rebuilt AIR with the opened permutation row (not modelled)",
        "no_accept_flip: ideal-crypto hypothesis (a body rejected for the system it was produced for is not accepted for that system with "
        "other public values / commitment) - Fiat-Shamir binding of public values and commitment is assumed, exercised on every case",
        "lookup packing (pack_same_bus) and quotient-degree inference are not modelled; matrix_to_instance entries beyond the instance "
        "count (an index panic in verify_batch) are not generated",
    ],
}

MANIFEST_ENTRY = {
    "property_id": "C16",
    "quick_cmd": "bin/check C16 --tier quick",
    "thorough_cmd": "bin/check C16 --tier thorough",
    "evidence_file": "evidence/C16.json",
    "replay_cmd_template": "bin/check C16 --replay {path}",
    "engine": "lean-models",
    "technique": "Lean 4 theorems over a model of metadata validation / AIR reconstruction / shape checks / postcard codec with the "
                 "cryptographic check as a parameter + differential correspondence against the real verify_all_tables on every single "
                 "and sampled/all pair metadata alteration of real proofs of honest and invalid traces",
    "level_claimed": {
        "category": "proof",
        "text": "accepted => field parameters are the verifier's, reduction is verifier-chosen, every table is registered and in entry order; "
                "rows / min height / alu_variant / npo_lanes / entry rows / entry variant cannot influence the verdict; (lanes, K) are "
                "determined by (main, preprocessed) widths; for a fixed proof body at most one AIR list passes the checks (declared "
                "preprocessed widths are enforced to be exact); the verifier never panics on metadata; decode(encode m) = m; "
                "VerifierManifest::matches = Ok iff degree / w / quintic flag / ALU variant are the expected ones and the proof's list of "
                "(op type string, variant, #public values) IS the manifest's list; matches ∧ verify accept => the AIR list verified is the "
                "manifest's table list through the registered plug-ins; model "
                "tied to the Rust by line-exact verdict comparison (a panic of the real verifier is a disagreement and a violation), real "
                "postcard bytes and real AIR widths",
        "design_ref": "4/C16",
    },
    "level_note": "Lean kernel + 3 standard axioms; STARK/FRI/Fiat-Shamir soundness assumed (parameter); plug-in AIR widths are parameters; "
                  "F-C16-1 (verifier panic on an under-declared preprocessed width) fixed; its corpus case is a passing regression case",
}
