/-
C12 — generalisation of the coefficient theorems of `P3R.Props.C12` to every extension degree
`D ≥ 1` and every monic modulus `X^D = Σ_{k<D} r_k X^k` (binomial of any degree, the KoalaBear
quintic trinomial `X^5 = 1 - X^2`, …), model `P3R.Model.DecompGen`.

* `mulBasisG_binomial`, `extRecomposeG_binomial`, `coefAcceptG_binomial` — for `r = binR W` the
  general model is the binomial model of `P3R.Model.Decomp` (the one the D ∈ {2,4} runs test);
* `mulBasisG_unit`, `recomposeG_embed` — `X^i · a = a·X^i` without reduction for `i < D`:
  the chain on embedded base-field coefficients returns them limb by limb;
* `coeff_vectors_unique` — **basis independence in the model**: two base-field coefficient
  vectors with the same recomposition are equal;
* `aluG_base_unique`, `aluG_canon_accept` — the ALU chain restricted to base-field slot
  contents accepts exactly the canonical coefficients;
* `aluG_accept_iff` — **complete characterisation of what the ALU chain accepts**: the slots
  `c_1 … c_{D-1}` are free *extension* elements, `c_0` is then determined
  (`c_0 = x - Σ_{i≥1} X^i·c_i`): an affine family of dimension `D·(D-1)` over the base field
  of which the canonical vector is one point (`aluG_any_tail_accepted`);
* `aluG_not_unique` — explicit second witness (moved mass) for every `D ≥ 2` and modulus;
* `npoG_accept_iff`, `npoG_not_unique`, `npocG_bound_unique`, `npocG_unbound_eq_npo` — the
  table relations do not depend on the modulus; restated for `coefAcceptG`.

The non-canonical acceptance sets are the known findings F16 (`alu`), F17 (`npo`),
F18 (`npoCoeff` with `bound = false`); they are properties of the code, not of the model.
-/
import P3R.Model.DecompGen
import P3R.Props.C12

set_option linter.unusedSectionVars false

namespace P3R.C12
open P3R.Decomp

section CoeffsGen
variable {K : Type} [CommRing K] [DecidableEq K]

/-! ### the general model specialises to the binomial one -/

theorem mulBasisG_binomial (W : K) (D i : ℕ) (hi : i ≤ D) (c : ℕ → K) (j : ℕ) (hj : j < D) :
    mulBasisG (binR W) D i c j = mulBasis W D i c j := by
  induction i generalizing j with
  | zero => simp [mulBasisG, mulBasis]
  | succ i ih =>
    have hD : D - 1 < D := by omega
    simp only [mulBasisG, mulX]
    by_cases h0 : j = 0
    · subst h0
      rw [ih (by omega) (D - 1) hD]
      simp only [binR, mulBasis, if_true]
      have h1 : i ≤ D - 1 := by omega
      have h2 : ¬ (i + 1 ≤ 0) := by omega
      rw [if_pos h1, if_neg h2]
      have : D - 1 - i = D + 0 - (i + 1) := by omega
      rw [this]; ring
    · rw [if_neg h0, ih (by omega) (j - 1) (by omega)]
      simp only [binR, if_neg h0, zero_mul, add_zero, mulBasis]
      by_cases hij : i ≤ j - 1
      · rw [if_pos hij, if_pos (by omega)]; congr 1; omega
      · rw [if_neg hij, if_neg (by omega)]
        have : D + (j - 1) - i = D + j - (i + 1) := by omega
        rw [this]

theorem foldl_congr_range {β : Type} (f g : β → ℕ → β) (D : ℕ) (b : β)
    (h : ∀ acc, ∀ i < D, f acc i = g acc i) :
    (List.range D).foldl f b = (List.range D).foldl g b := by
  induction D generalizing b with
  | zero => rfl
  | succ D ih =>
    rw [List.range_succ, List.foldl_append, List.foldl_append,
      ih b (fun acc i hi => h acc i (by omega))]
    simp [h _ D (by omega)]

theorem extRecomposeG_binomial (W : K) (D : ℕ) (cs : ℕ → ℕ → K) (j : ℕ) (hj : j < D) :
    extRecomposeG (binR W) D cs j = extRecompose W D cs j := by
  unfold extRecomposeG extRecompose
  exact foldl_congr_range _ _ D 0 fun acc i hi => by
    rw [mulBasisG_binomial W D i (by omega) (cs i) j hj]

theorem limbsEq_congr (D : ℕ) (a a' b : ℕ → K) (h : ∀ j < D, a j = a' j) :
    limbsEq D a b = limbsEq D a' b := by
  rw [Bool.eq_iff_iff, limbsEq_iff, limbsEq_iff]
  exact ⟨fun H j hj => (h j hj) ▸ H j hj, fun H j hj => (h j hj).symm ▸ H j hj⟩

/-- For a binomial modulus the general relation *is* the relation of `P3R.Model.Decomp`. -/
theorem coefAcceptG_binomial (W : K) (D : ℕ) (m : Mode) (bd : Bool) (x : ℕ → K) (cs : ℕ → ℕ → K) :
    coefAcceptG (binR W) D m bd x cs = coefAccept W D m bd x cs := by
  cases m
  · exact limbsEq_congr D _ _ x fun j hj => extRecomposeG_binomial W D cs j hj
  · rfl
  · rfl

/-! ### the power basis -/

theorem extRecomposeG_eq_sum (r : ℕ → K) (D : ℕ) (cs : ℕ → ℕ → K) (j : ℕ) :
    extRecomposeG r D cs j = ∑ i ∈ Finset.range D, mulBasisG r D i (cs i) j := by
  unfold extRecomposeG
  exact foldl_add_eq_sum (fun i => mulBasisG r D i (cs i) j) D

/-- `X^i · a = a · X^i` needs no reduction while `i < D`. -/
theorem mulBasisG_unit (r : ℕ → K) (D i : ℕ) (hi : i < D) (a : K) (j : ℕ) :
    mulBasisG r D i (embed a) j = if j = i then a else 0 := by
  induction i generalizing j with
  | zero => simp [mulBasisG, embed]
  | succ i ih =>
    have hne : ¬ (D - 1 = i) := by omega
    simp only [mulBasisG, mulX]
    rw [ih (by omega) (D - 1), if_neg hne, mul_zero, add_zero]
    by_cases h0 : j = 0
    · subst h0; simp
    · rw [if_neg h0, ih (by omega) (j - 1)]
      by_cases h : j = i + 1
      · have h' : j - 1 = i := by omega
        rw [if_pos h, if_pos h']
      · have h' : ¬ (j - 1 = i) := by omega
        rw [if_neg h, if_neg h']

/-- A slot holding a base-field element contributes its limb 0 at position `i`. -/
theorem mulBasisG_base (r : ℕ → K) (D i j : ℕ) (hi : i < D) (hj : j < D) (c : ℕ → K)
    (hc : ∀ l, 0 < l → l < D → c l = 0) :
    mulBasisG r D i c j = if i = j then c 0 else 0 := by
  -- `mulBasisG` only reads limbs `< D`
  have hread : ∀ (i : ℕ) (c c' : ℕ → K), (∀ l < D, c l = c' l) →
      ∀ j < D, mulBasisG r D i c j = mulBasisG r D i c' j := by
    intro i
    induction i with
    | zero => intro c c' h j hj; exact h j hj
    | succ i ih =>
      intro c c' h j hj
      simp only [mulBasisG, mulX]
      rw [ih c c' h (D - 1) (by omega)]
      by_cases h0 : j = 0
      · simp [h0]
      · rw [if_neg h0, if_neg h0, ih c c' h (j - 1) (by omega)]
  rw [hread i c (embed (c 0)) (fun l hl => by
    by_cases h0 : l = 0
    · subst h0; simp [embed]
    · rw [hc l (by omega) hl]; simp [embed, h0]) j hj, mulBasisG_unit r D i hi]
  by_cases h : i = j
  · rw [if_pos h, if_pos h.symm]
  · rw [if_neg h, if_neg (Ne.symm h)]

/-- The ALU chain on embedded base-field coefficients returns them limb by limb. -/
theorem recomposeG_embed (r : ℕ → K) (D : ℕ) (a : ℕ → K) (j : ℕ) (hj : j < D) :
    extRecomposeG r D (fun i => embed (a i)) j = a j := by
  rw [extRecomposeG_eq_sum]
  have : ∀ i ∈ Finset.range D, mulBasisG r D i (embed (a i)) j = if i = j then a i else 0 := by
    intro i hi
    rw [mulBasisG_unit r D i (Finset.mem_range.1 hi)]
    by_cases h : i = j
    · rw [if_pos h, if_pos h.symm]
    · rw [if_neg h, if_neg (Ne.symm h)]
  rw [Finset.sum_congr rfl this, Finset.sum_ite_eq' (Finset.range D) j a]
  simp [hj]

/-- **C12 / basis independence (model).** Base-field coefficient vectors are determined by
their recomposition, for every degree and every monic modulus:
`Σ cᵢ·Xⁱ = Σ c'ᵢ·Xⁱ → c = c'`. -/
theorem coeff_vectors_unique (r : ℕ → K) (D : ℕ) (a a' : ℕ → K)
    (h : ∀ j < D, extRecomposeG r D (fun i => embed (a i)) j =
      extRecomposeG r D (fun i => embed (a' i)) j) : ∀ j < D, a j = a' j := fun j hj => by
  have := h j hj
  rwa [recomposeG_embed r D a j hj, recomposeG_embed r D a' j hj] at this

/-- **C12 / coefficients, ALU chain, any modulus: base-field coefficient vectors are unique.** -/
theorem aluG_base_unique (r : ℕ → K) (D : ℕ) (bd : Bool) (x : ℕ → K) (cs : ℕ → ℕ → K)
    (hbase : ∀ i < D, ∀ l, 0 < l → l < D → cs i l = 0)
    (hacc : coefAcceptG r D .alu bd x cs = true) : ∀ i < D, cs i 0 = x i := by
  intro j hj
  have h := (limbsEq_iff D _ _).1 hacc j hj
  rw [extRecomposeG_eq_sum] at h
  have : ∀ i ∈ Finset.range D, mulBasisG r D i (cs i) j = if i = j then cs i 0 else 0 := by
    intro i hi
    exact mulBasisG_base r D i j (Finset.mem_range.1 hi) hj (cs i) (hbase i (Finset.mem_range.1 hi))
  rw [Finset.sum_congr rfl this, Finset.sum_ite_eq' (Finset.range D) j (fun i => cs i 0)] at h
  simpa [hj] using h

/-- Completeness: the canonical coefficients are accepted by the ALU chain. -/
theorem aluG_canon_accept (r : ℕ → K) (D : ℕ) (bd : Bool) (x : ℕ → K) :
    coefAcceptG r D .alu bd x (canonCoeffs x) = true :=
  (limbsEq_iff D _ _).2 fun j hj => recomposeG_embed r D x j hj

/-- **C12 / coefficients, ALU chain: complete characterisation.** The slots `c_1 … c_{D-1}`
are unconstrained extension elements; `c_0` is determined by them and `x`. -/
theorem aluG_accept_iff (r : ℕ → K) (D : ℕ) (bd : Bool) (x : ℕ → K) (cs : ℕ → ℕ → K) :
    coefAcceptG r (D + 1) .alu bd x cs = true ↔
      ∀ j < D + 1, cs 0 j =
        x j - ∑ i ∈ Finset.range D, mulBasisG r (D + 1) (i + 1) (cs (i + 1)) j := by
  simp only [coefAcceptG, limbsEq_iff]
  refine forall_congr' fun j => forall_congr' fun _ => ?_
  rw [extRecomposeG_eq_sum, Finset.sum_range_succ']
  simp only [mulBasisG]
  constructor
  · intro h; rw [← h]; ring
  · intro h; rw [h]; ring

/-- Slot contents with an arbitrary tail `c_1 … c_{D-1}` and the matching head. -/
def aluHead (r : ℕ → K) (D : ℕ) (x : ℕ → K) (tail : ℕ → ℕ → K) : ℕ → ℕ → K := fun i j =>
  if i = 0 then x j - ∑ k ∈ Finset.range D, mulBasisG r (D + 1) (k + 1) (tail (k + 1)) j
  else tail i j

/-- **Every** choice of extension elements for `c_1 … c_{D-1}` extends to an accepted
decomposition: the acceptance set of the ALU chain is an affine space of dimension
`D·(D-1)` over the base field, not a point. -/
theorem aluG_any_tail_accepted (r : ℕ → K) (D : ℕ) (bd : Bool) (x : ℕ → K) (tail : ℕ → ℕ → K) :
    coefAcceptG r (D + 1) .alu bd x (aluHead r D x tail) = true ∧
      ∀ i, 0 < i → aluHead r D x tail i = tail i := by
  refine ⟨(aluG_accept_iff r D bd x _).2 fun j _ => ?_, fun i hi => ?_⟩
  · have hk : ∀ k, aluHead r D x tail (k + 1) = tail (k + 1) := fun k => by
      funext l; simp [aluHead]
    simp only [hk]; simp [aluHead]
  · funext j; simp [aluHead, Nat.pos_iff_ne_zero.1 hi]

/-- **C12 / coefficients, ALU chain, any modulus: not unique.** For every `D ≥ 2`, every
modulus, every `x`, every `t ≠ 0` the chain accepts `c₀ = x₀ + t·X`, `c₁ = x₁ - t`. -/
theorem aluG_not_unique (r : ℕ → K) (D : ℕ) (hD : 2 ≤ D) (bd : Bool) (x : ℕ → K) (t : K)
    (ht : t ≠ 0) :
    coefAcceptG r D .alu bd x (massMove x t) = true ∧ massMove x t 0 1 ≠ 0 ∧
      isBase D (massMove x t 0) = false := by
  refine ⟨(limbsEq_iff D _ _).2 fun j hj => ?_, by simp [massMove, ht], ?_⟩
  · rw [extRecomposeG_eq_sum]
    let g : ℕ → K := fun i =>
      if i = 0 then (if j = 1 then t else 0) else if i = 1 then (if j = 1 then -t else 0) else 0
    have hterm : ∀ i ∈ Finset.range D,
        mulBasisG r D i (massMove x t i) j = (if i = j then x i else 0) + g i := by
      intro i hi
      have hiD := Finset.mem_range.1 hi
      obtain rfl | rfl | h2 : i = 0 ∨ i = 1 ∨ 2 ≤ i := by omega
      · simp only [mulBasisG, massMove, g, if_true]
        by_cases h0 : j = 0
        · subst h0; simp
        · by_cases h1 : j = 1
          · subst h1; simp
          · simp [h0, h1, Ne.symm h0]
      · have : massMove x t 1 = embed (x 1 - t) := by
          funext l; simp [massMove, embed]
        rw [this, mulBasisG_unit r D 1 (by omega)]
        by_cases h1 : j = 1
        · subst h1; simp [g, sub_eq_add_neg]
        · simp [g, h1, Ne.symm h1]
      · have hi0 : i ≠ 0 := by omega
        have hi1 : i ≠ 1 := by omega
        have : massMove x t i = embed (x i) := by
          funext l; simp [massMove, hi0, hi1]
        rw [this, mulBasisG_unit r D i hiD]
        by_cases h : i = j
        · subst h; simp [g, hi1]
        · simp [g, hi0, hi1, h, Ne.symm h]
    rw [Finset.sum_congr rfl hterm, Finset.sum_add_distrib,
      Finset.sum_ite_eq' (Finset.range D) j x]
    have hg : ∑ i ∈ Finset.range D, g i = g 0 + g 1 := by
      refine Finset.sum_eq_add 0 1 (by omega) ?_ ?_ ?_
      · intro c _ hc; simp [g, hc.1, hc.2]
      · intro h; exact absurd (Finset.mem_range.2 (by omega)) h
      · intro h; exact absurd (Finset.mem_range.2 (by omega)) h
    rw [hg]
    simp only [Finset.mem_range, hj, if_true, g]
    by_cases h1 : j = 1 <;> simp [h1]
  · simp only [isBase, List.all_eq_false]
    exact ⟨1, List.mem_range.2 (by omega), by simp [massMove, ht]⟩

/-! ### the tables: independent of the modulus -/

theorem coefAcceptG_npo (r : ℕ → K) (W : K) (D : ℕ) (bd : Bool) (x : ℕ → K) (cs : ℕ → ℕ → K) :
    coefAcceptG r D .npo bd x cs = coefAccept W D .npo bd x cs := rfl

theorem coefAcceptG_npoc (r : ℕ → K) (W : K) (D : ℕ) (bd : Bool) (x : ℕ → K) (cs : ℕ → ℕ → K) :
    coefAcceptG r D .npoCoeff bd x cs = coefAccept W D .npoCoeff bd x cs := rfl

/-- `recompose` table, any degree / modulus: acceptance is exactly "limb 0 of every coefficient
slot equals limb `i` of `x`". -/
theorem npoG_accept_iff (r : ℕ → K) (D : ℕ) (bd : Bool) (x : ℕ → K) (cs : ℕ → ℕ → K) :
    coefAcceptG r D .npo bd x cs = true ↔ ∀ i < D, cs i 0 = x i :=
  npo_accept_iff (0 : K) D bd x cs

/-- `recompose` table: the higher limbs of the hinted slots are free. -/
theorem npoG_not_unique (r : ℕ → K) (D : ℕ) (hD : 2 ≤ D) (bd : Bool) (x : ℕ → K) (t : K)
    (ht : t ≠ 0) :
    coefAcceptG r D .npo bd x (tailJunk x t) = true ∧ isBase D (tailJunk x t 0) = false :=
  npo_not_unique (0 : K) D hD bd x t ht

/-- `recompose/coeff` table with the per-coefficient tuple on the bus: unique and canonical. -/
theorem npocG_bound_unique (r : ℕ → K) (D : ℕ) (x : ℕ → K) (cs : ℕ → ℕ → K)
    (h : coefAcceptG r D .npoCoeff true x cs = true) :
    ∀ i < D, ∀ j < D, cs i j = canonCoeffs x i j :=
  npoc_bound_unique (0 : K) D x cs h

/-- … with multiplicity 0 it constrains exactly what `recompose` does. -/
theorem npocG_unbound_eq_npo (r : ℕ → K) (D : ℕ) (x : ℕ → K) (cs : ℕ → ℕ → K) :
    coefAcceptG r D .npoCoeff false x cs = coefAcceptG r D .npo false x cs :=
  npoc_unbound_eq_npo (0 : K) D x cs

end CoeffsGen

end P3R.C12
