/-
C12 — generalised decomposition models (import-free, executable).

1. Coefficients over an arbitrary monic modulus `X^D = Σ_{k<D} r_k · X^k`
   (`recompose_base_coeffs_to_ext_impl`, ALU path: `acc := c_i * e_i + acc` with
   `e_i = F::from_basis_coefficients_slice(unit_i)`, i.e. the power basis `X^i` of whatever
   `ExtensionField<BF>` the circuit is built over):
     * binomial `X^D = W` (BabyBear D=4/5/8, KoalaBear D=4/8, Goldilocks D=2/5): `r = binR W`;
     * quintic trinomial `X^5 = 1 - X^2` (KoalaBear, `QuinticTrinomialExtensionField`):
       `r = [1, 0, -1, 0, 0]`.
   `mulX` is multiplication by `X`, `mulBasisG i` its `i`-fold iterate (= product with `e_i`),
   `extRecomposeG` the ALU chain, `coefAcceptG` the relation on the hinted slots. The
   `recompose` / `recompose/coeff` tables have no local constraint and a `D`-generic bus
   tuple (`recompose_air.rs`), so their relation does not depend on the modulus.

2. Bits, all limbs (`decompose_to_bits(x, n)` with `n ≤ F::bits()`, `F` an extension of `BF`):
   `reconstruct_index_from_bits` cuts the bits into chunks of `w = BF::bits()`, chunk `i`
   accumulates `b_j * (e_i * 2^j)`; every bit gets a `BoolCheck` row; every *full* chunk is
   compared with the bits of `p` (`assert_bits_below_modulus`). The honest
   `BinaryDecompositionHint` writes, coefficient after coefficient, `w` bits of the canonical
   value, truncated to `n` outputs. No call site in `/repo/recursion` uses more than one limb
   (all pass `n = BF::bits()`), but the builder and the hint implement the general case and
   it is public API.
-/
import P3R.Model.Decomp

namespace P3R.Decomp

/-! ## coefficients: arbitrary monic modulus -/

section
variable {K : Type} [Zero K] [One K] [Add K] [Mul K] [DecidableEq K]

/-- Multiplication by `X` in `K[X]/(X^D - Σ r_k X^k)`, limb `j < D`. -/
def mulX (r : Nat → K) (D : Nat) (c : Nat → K) : Nat → K :=
  fun j => (if j = 0 then 0 else c (j - 1)) + r j * c (D - 1)

/-- Product with the basis element `e_i = X^i`. -/
def mulBasisG (r : Nat → K) (D : Nat) : Nat → (Nat → K) → Nat → K
  | 0, c => c
  | i + 1, c => mulX r D (mulBasisG r D i c)

/-- The ALU chain `acc := c_i * e_i + acc`, `i = 0 … D-1`, from `acc = 0`, limb `j`. -/
def extRecomposeG (r : Nat → K) (D : Nat) (cs : Nat → Nat → K) : Nat → K :=
  fun j => (List.range D).foldl (fun acc i => mulBasisG r D i (cs i) j + acc) 0

/-- Reduction vector of a binomial modulus `X^D = W`. -/
def binR (W : K) : Nat → K := fun k => if k = 0 then W else 0

/-- `coefAccept` for an arbitrary monic modulus (see `Decomp.coefAccept` for `bound`). -/
def coefAcceptG (r : Nat → K) (D : Nat) (m : Mode) (bound : Bool) (x : Nat → K)
    (cs : Nat → Nat → K) : Bool :=
  match m with
  | .alu => limbsEq D (extRecomposeG r D cs) x
  | .npo => limbsEq D (fun i => cs i 0) x
  | .npoCoeff => limbsEq D (fun i => cs i 0) x && (!bound || (List.range D).all fun i => isBase D (cs i))

/-- What the runner checks (`connect(x, acc)` for the chain; the executor's `set_witness` of
the recomposed cells for the tables). -/
def coefRunOkG (r : Nat → K) (D : Nat) (m : Mode) (x : Nat → K) (cs : Nat → Nat → K) : Bool :=
  match m with
  | .alu => limbsEq D (extRecomposeG r D cs) x
  | _ => limbsEq D (fun i => cs i 0) x

/-- Full product in the extension (used by the executable instance of the driver):
`a * b = Σ_i a_i · (X^i · b)`. -/
def extMul (r : Nat → K) (D : Nat) (a b : Nat → K) : Nat → K :=
  fun j => (List.range D).foldl (fun acc i => a i * mulBasisG r D i b j + acc) 0

end

/-! ## bits: all limbs -/

section
variable {K : Type} [Zero K] [One K] [Add K] [Mul K] [Sub K] [DecidableEq K]

/-- `bits.chunks(w)`, chunk number `i` (empty beyond the end). -/
def chunkAt (w i : Nat) (bits : List K) : List K := (bits.drop (i * w)).take w

/-- `reconstruct_index_from_bits`, all limbs: chunk `i` runs the `mul_add` chain with the
constants `e_i * 2^j` on the shared accumulator. -/
def reconMulti (w D : Nat) (e : Nat → K) (bits : List K) : K :=
  (List.range D).foldl (fun acc i => reconGo (chunkAt w i bits) (e i) acc) 0

/-- Relation the circuit imposes on the hinted bit slots of `decompose_to_bits(x, n)` for
`n = bits.length ≤ w·D`: boolean checks, recomposition identity over the basis `e`, and the
comparison with the modulus for every full-width chunk. -/
def bitsAcceptMulti (p w D : Nat) (e : Nat → K) (x : K) (bits : List K) : Bool :=
  bits.all boolOk && reconMulti w D e bits == x &&
    (List.range D).all fun i => (chunkAt w i bits).length != w || belowModulus p (chunkAt w i bits)

/-- What the runner checks (no booleanity test). -/
def bitsRunOkMulti (p w D : Nat) (e : Nat → K) (x : K) (bits : List K) : Bool :=
  reconMulti w D e bits == x &&
    (List.range D).all fun i => (chunkAt w i bits).length != w || belowModulus p (chunkAt w i bits)

/-- Output of the honest `BinaryDecompositionHint` for canonical coefficients `v_i`. -/
def canonBitsMulti (w D n : Nat) (v : Nat → Nat) : List K :=
  ((List.range D).flatMap fun i => (canonBits w (v i) : List K)).take n

end

end P3R.Decomp
