/-
C20 — the build-time inverse coset DFT of the periodic-column gadget, and the periodic theorems
without the `hidft` hypothesis.
-/
import P3R.Model.Idft
import P3R.Props.C20
import Mathlib.RingTheory.RootsOfUnity.PrimitiveRoots

namespace P3R.C20
open P3R P3R.Gadgets P3R.Idft

/-! ### entries of the model lists -/

section lists
variable {R : Type} [CommRing R]

theorem dft_length (ω : R) (col : List R) : (dft ω col).length = col.length := by
  simp [dft]

theorem dft_getD (ω : R) (col : List R) (k : Nat) (hk : k < col.length) :
    (dft ω col).getD k 0 = polyEval col (ω ^ k) := by
  simp [dft, hk, powNat_eq]

theorem scale_length (a : R) (l : List R) : (scale a l).length = l.length := by
  simp [scale]

theorem scale_getD (a : R) (l : List R) (k : Nat) : (scale a l).getD k 0 = l.getD k 0 * a := by
  unfold scale
  by_cases hk : k < l.length
  · simp [hk]
  · have hk' : l.length ≤ k := Nat.le_of_not_lt hk
    simp [hk']

theorem reverseRows_length (l : List R) : (reverseRows l).length = l.length := by
  simp [reverseRows]

theorem reverseRows_getD (l : List R) (k : Nat) (hk : k < l.length) :
    (reverseRows l).getD k 0 = l.getD ((l.length - k) % l.length) 0 := by
  simp [reverseRows, hk]

theorem cosetShiftGo_length (t : R) (l : List R) (w : R) : (cosetShiftGo t l w).length = l.length := by
  induction l generalizing w with
  | nil => rfl
  | cons c cs ih => simp [cosetShiftGo, ih]

theorem cosetShiftGo_getD (t : R) (l : List R) (w : R) (k : Nat) :
    (cosetShiftGo t l w).getD k 0 = l.getD k 0 * (w * t ^ k) := by
  induction l generalizing w k with
  | nil => simp [cosetShiftGo]
  | cons c cs ih =>
    cases k with
    | zero => simp [cosetShiftGo]
    | succ k =>
      simp only [cosetShiftGo, List.getD_cons_succ]
      rw [ih]; ring

theorem cosetShift_getD (t : R) (l : List R) (k : Nat) :
    (cosetShift t l).getD k 0 = l.getD k 0 * t ^ k := by
  unfold cosetShift; rw [cosetShiftGo_getD, one_mul]

theorem cosetIdft_length (ω mInv sInv : R) (col : List R) :
    (cosetIdft ω mInv sInv col).length = col.length := by
  simp [cosetIdft, cosetShift, cosetShiftGo_length, idft, reverseRows_length, scale_length, dft_length]

/-- Entry `k` of the model's coefficient vector:
`c_k = (Σ_j col_j · (ω^((m−k) mod m))^j) · m⁻¹ · (s⁻¹)^k`. -/
theorem cosetIdft_getD (ω mInv sInv : R) (col : List R) (k : Nat) (hk : k < col.length) :
    (cosetIdft ω mInv sInv col).getD k 0
      = polyEval col (ω ^ ((col.length - k) % col.length)) * mInv * sInv ^ k := by
  unfold cosetIdft idft
  have hlen : (scale mInv (dft ω col)).length = col.length := by rw [scale_length, dft_length]
  rw [cosetShift_getD, reverseRows_getD _ _ (by rw [hlen]; exact hk), hlen, scale_getD,
    dft_getD _ _ _ (Nat.mod_lt _ (by omega))]

end lists

/-! ### the literal row-swap loop -/

section swaploop
variable {R : Type} [CommRing R]

theorem swapRows_length (l : List R) (a b : Nat) : (swapRows l a b).length = l.length := by
  simp [swapRows]

theorem swapRows_getD (l : List R) (a b k : Nat) (ha : a < l.length) (hb : b < l.length) :
    (swapRows l a b).getD k 0
      = if k = b then l.getD a 0 else if k = a then l.getD b 0 else l.getD k 0 := by
  unfold swapRows
  simp only [List.getD_eq_getElem?_getD, List.getElem?_set, List.length_set]
  by_cases h1 : k = b
  · subst h1; simp [hb]
  · by_cases h2 : k = a
    · subst h2; simp [ha, Ne.symm h1, h1]
    · simp [h1, h2, Ne.symm h1, Ne.symm h2]

/-- Invariant of `for row in 1..=n { swap_rows(row, h − row) }` while `2n < h`. -/
theorem swapLoop_inv (l : List R) (n : Nat) (hn : 2 * n < l.length) :
    ((List.range' 1 n).foldl (fun acc row => swapRows acc row (l.length - row)) l).length = l.length
    ∧ ∀ k, ((List.range' 1 n).foldl (fun acc row => swapRows acc row (l.length - row)) l).getD k 0
        = if (1 ≤ k ∧ k ≤ n) ∨ (l.length - n ≤ k ∧ k < l.length) then l.getD (l.length - k) 0
          else l.getD k 0 := by
  induction n with
  | zero =>
    refine ⟨rfl, fun k => ?_⟩
    have : ¬ ((1 ≤ k ∧ k ≤ 0) ∨ (l.length - 0 ≤ k ∧ k < l.length)) := by omega
    rw [if_neg this]; rfl
  | succ n ih =>
    obtain ⟨ihl, ihv⟩ := ih (by omega)
    rw [List.range'_1_concat, List.foldl_append, List.foldl_cons, List.foldl_nil]
    refine ⟨by rw [swapRows_length, ihl], fun k => ?_⟩
    rw [swapRows_getD _ _ _ _ (by rw [ihl]; omega) (by rw [ihl]; omega), ihv, ihv, ihv]
    have e1 : ¬ ((1 ≤ 1 + n ∧ 1 + n ≤ n) ∨ (l.length - n ≤ 1 + n ∧ 1 + n < l.length)) := by omega
    have e2 : ¬ ((1 ≤ l.length - (1 + n) ∧ l.length - (1 + n) ≤ n)
        ∨ (l.length - n ≤ l.length - (1 + n) ∧ l.length - (1 + n) < l.length)) := by omega
    rw [if_neg e1, if_neg e2]
    by_cases h1 : k = l.length - (1 + n)
    · rw [if_pos h1, if_pos (by omega)]
      congr 1; omega
    · rw [if_neg h1]
      by_cases h2 : k = 1 + n
      · rw [if_pos h2, if_pos (by omega)]
        congr 1; omega
      · rw [if_neg h2]
        by_cases h3 : (1 ≤ k ∧ k ≤ n) ∨ (l.length - n ≤ k ∧ k < l.length)
        · rw [if_pos h3, if_pos (by omega)]
        · rw [if_neg h3, if_neg (by omega)]

theorem swapLoop_length (l : List R) (hl : l ≠ []) : (swapLoop l).length = l.length := by
  have hpos : 0 < l.length := List.length_pos_iff.mpr hl
  exact (swapLoop_inv l (l.length / 2 - 1) (by omega)).1

/-- **The p3 row-swap loop is the index reversal `k ↦ (h − k) mod h`** for every even height and
for height 1 (p3 only calls it with powers of two: `divide_by_height` panics otherwise). For an
odd height `h ≥ 3` the loop `1..h/2` stops one pair short and the statement is false. -/
theorem swapLoop_eq_reverseRows (l : List R) (hh : l.length % 2 = 0 ∨ l.length = 1) :
    swapLoop l = reverseRows l := by
  by_cases hl : l = []
  · subst hl; simp [swapLoop, reverseRows]
  have hpos : 0 < l.length := List.length_pos_iff.mpr hl
  obtain ⟨hlen, hv⟩ := swapLoop_inv l (l.length / 2 - 1) (by omega)
  apply List.ext_getElem?
  intro k
  by_cases hk : k < l.length
  · have h1 : (swapLoop l)[k]? = some ((swapLoop l).getD k 0) := by
      rw [List.getD_eq_getElem?_getD, List.getElem?_eq_getElem (by rw [swapLoop_length l hl]; exact hk)]
      rfl
    have h2 : (reverseRows l)[k]? = some ((reverseRows l).getD k 0) := by
      rw [List.getD_eq_getElem?_getD, List.getElem?_eq_getElem (by rw [reverseRows_length]; exact hk)]
      rfl
    rw [h1, h2, reverseRows_getD l k hk]
    congr 1
    show ((List.range' 1 (l.length / 2 - 1)).foldl (fun acc row => swapRows acc row (l.length - row)) l).getD k 0 = _
    rw [hv k]
    rcases Nat.eq_zero_or_pos k with rfl | hk0
    · rw [if_neg (by omega)]; simp
    · rw [Nat.mod_eq_of_lt (by omega)]
      split
      · rfl
      · congr 1; omega
  · rw [List.getElem?_eq_none (by rw [swapLoop_length l hl]; omega),
      List.getElem?_eq_none (by rw [reverseRows_length]; omega)]

theorem cosetIdftLoop_eq (ω mInv sInv : R) (col : List R) (hh : col.length % 2 = 0 ∨ col.length = 1) :
    cosetIdftLoop ω mInv sInv col = cosetIdft ω mInv sInv col := by
  unfold cosetIdftLoop cosetIdft idftLoop idft
  rw [swapLoop_eq_reverseRows _ (by rw [scale_length, dft_length]; exact hh)]

end swaploop

/-! ### DFT inversion -/

section inversion
variable {K : Type} [Field K]

/-- Geometric sum of an `m`-th root of unity other than 1. -/
theorem geom_sum_root (ζ : K) (m : Nat) (h1 : ζ ≠ 1) (hm : ζ ^ m = 1) :
    ∑ k ∈ Finset.range m, ζ ^ k = 0 := by
  have h := geom_sum_mul ζ m
  rw [hm, sub_self] at h
  exact (mul_eq_zero.mp h).resolve_right (sub_ne_zero.mpr h1)

/-- Orthogonality of the characters of `⟨ω⟩`: `Σ_{k<m} (ω^i / ω^j)^k = m·[i = j]`. -/
theorem orthogonality (ω : K) (m : Nat) (hω : IsPrimitiveRoot ω m) (i j : Nat) (hi : i < m) (hj : j < m) :
    ∑ k ∈ Finset.range m, (ω ^ i * (ω ^ j)⁻¹) ^ k = if j = i then (m : K) else 0 := by
  have hm : 0 < m := by omega
  have hω0 : ω ≠ 0 := hω.ne_zero (by omega)
  by_cases hij : j = i
  · subst hij
    rw [if_pos rfl, mul_inv_cancel₀ (pow_ne_zero _ hω0)]
    simp
  · rw [if_neg hij]
    apply geom_sum_root
    · intro h
      have : ω ^ i = ω ^ j := by
        have h2 := congrArg (· * ω ^ j) h
        simpa [mul_assoc, inv_mul_cancel₀ (pow_ne_zero j hω0)] using h2
      exact hij (hω.pow_inj hj hi this.symm)
    · rw [mul_pow, inv_pow, ← pow_mul, ← pow_mul, mul_comm i, mul_comm j, pow_mul, pow_mul,
        hω.pow_eq_one, one_pow, one_pow, inv_one, mul_one]

/-- `ω^((m−k) mod m) = (ω^k)⁻¹` for `k < m`: the row reversal turns the forward transform into
the inverse one. -/
theorem pow_reverse_index (ω : K) (m : Nat) (hω : IsPrimitiveRoot ω m) (k : Nat) (hk : k < m) :
    ω ^ ((m - k) % m) = (ω ^ k)⁻¹ := by
  have hω0 : ω ≠ 0 := hω.ne_zero (by omega)
  apply eq_inv_of_mul_eq_one_left
  rw [← pow_add]
  rcases Nat.eq_zero_or_pos k with rfl | hpos
  · simp
  · rw [Nat.mod_eq_of_lt (by omega), Nat.sub_add_cancel hk.le, hω.pow_eq_one]

/-- **C20 / inverse coset DFT postcondition.** For every period `m = |col| ≥ 1`, every field in
which `m` is invertible (`mInv·m = 1`), every primitive `m`-th root of unity `ω` and every
invertible shift `s` (`sInv·s = 1`): the coefficient vector produced by the model of
`Radix2Dit::coset_idft(col, s)` evaluates to `col_i` at the sub-coset point `s·ω^i`, for every
`i < m`. This is the hypothesis `hidft` of `periodic_interpolates` / `periodic_eq_interpolant`. -/
theorem cosetIdft_interpolates (ω mInv s sInv : K) (col : List K)
    (hω : IsPrimitiveRoot ω col.length) (hm : mInv * (col.length : K) = 1) (hs : sInv * s = 1)
    (i : Nat) (hi : i < col.length) :
    polyEval (cosetIdft ω mInv sInv col) (s * ω ^ i) = col.getD i 0 := by
  set m := col.length with hmdef
  rw [polyEval_eq_sum, cosetIdft_length]
  have hterm : ∀ k ∈ Finset.range m,
      (cosetIdft ω mInv sInv col).getD k 0 * (s * ω ^ i) ^ k
        = mInv * ∑ j ∈ Finset.range m, col.getD j 0 * (ω ^ i * (ω ^ j)⁻¹) ^ k := by
    intro k hk
    have hk' : k < m := Finset.mem_range.mp hk
    rw [cosetIdft_getD _ _ _ _ _ hk', ← hmdef, pow_reverse_index ω m hω k hk', polyEval_eq_sum,
      ← hmdef, Finset.mul_sum, Finset.sum_mul, Finset.sum_mul, Finset.sum_mul]
    apply Finset.sum_congr rfl
    intro j _
    have hss : sInv ^ k * s ^ k = 1 := by rw [← mul_pow, hs, one_pow]
    calc col.getD j 0 * ((ω ^ k)⁻¹) ^ j * mInv * sInv ^ k * (s * ω ^ i) ^ k
        = mInv * (col.getD j 0 * (((ω ^ k)⁻¹) ^ j * (ω ^ i) ^ k)) * (sInv ^ k * s ^ k) := by
          rw [mul_pow]; ring
      _ = mInv * (col.getD j 0 * (ω ^ i * (ω ^ j)⁻¹) ^ k) := by
          rw [hss, mul_one, mul_pow (ω ^ i), inv_pow, inv_pow, ← pow_mul, ← pow_mul, ← pow_mul,
            mul_comm k j, mul_comm (_⁻¹)]
  rw [Finset.sum_congr rfl hterm, ← Finset.mul_sum, Finset.sum_comm]
  have horth : ∀ j ∈ Finset.range m,
      ∑ k ∈ Finset.range m, col.getD j 0 * (ω ^ i * (ω ^ j)⁻¹) ^ k
        = if j = i then col.getD j 0 * (m : K) else 0 := by
    intro j hj
    rw [← Finset.mul_sum, orthogonality ω m hω i j hi (Finset.mem_range.mp hj)]
    split <;> simp
  rw [Finset.sum_congr rfl horth, Finset.sum_ite_eq' (Finset.range m) i, if_pos (Finset.mem_range.mpr hi)]
  rw [mul_comm (col.getD i 0), ← mul_assoc, hm, one_mul]

end inversion

/-! ### the periodic-column theorems without `hidft` -/

section total
open Polynomial
variable {K : Type} [Field K]

theorem cosetIdft_ne_nil (ω mInv sInv : K) (col : List K) (hne : col ≠ []) :
    cosetIdft ω mInv sInv col ≠ [] := by
  intro h
  have := cosetIdft_length ω mInv sInv col
  rw [h] at this
  exact hne (List.eq_nil_of_length_eq_zero this.symm)

/-- The sub-coset points `s·ω^j`, `j < m`, are pairwise distinct (`hinj`). -/
theorem cosetPoints_injective (ω s sInv : K) (m : Nat) (hω : IsPrimitiveRoot ω m) (hs : sInv * s = 1) :
    Function.Injective (fun j : Fin m => s * ω ^ (j : Nat)) := by
  intro a b hab
  have hs0 : s ≠ 0 := right_ne_zero_of_mul_eq_one hs
  exact Fin.ext (hω.pow_inj a.isLt b.isLt (mul_left_cancel₀ hs0 hab))

/-- **C20 / periodic column on the sub-coset, no iDFT hypothesis.** `coeffs` is *computed* from the
column by the model of `Radix2Dit::coset_idft`; for every period `m = |col| ≥ 1` invertible in
`K`, every primitive `m`-th root `ω`, every invertible sub-coset shift `s`, every `folds` and
every `x` with `x^(2^folds) = s·ω^j` the gadget returns `col_j`. -/
theorem periodic_interpolates_total (ω mInv s sInv : K) (col : List K) (hne : col ≠ [])
    (hω : IsPrimitiveRoot ω col.length) (hm : mInv * (col.length : K) = 1) (hs : sInv * s = 1)
    (folds : Nat) (x : K) (j : Nat) (hj : j < col.length) (hx : x ^ (2 ^ folds) = s * ω ^ j) :
    periodicC (cosetIdft ω mInv sInv col) folds x = some (col.getD j 0) := by
  refine periodic_interpolates (cosetIdft ω mInv sInv col) folds x (cosetIdft_ne_nil ω mInv sInv col hne)
    (cosetPoints ω s col.length) col ?_ j (s * ω ^ j) (col.getD j 0) ?_ ?_ hx
  · intro i p v hp hv
    have hi : i < col.length := by
      by_contra hc
      rw [List.getElem?_eq_none (by omega)] at hv
      cases hv
    have hp' : p = s * ω ^ i := by
      simp only [cosetPoints, List.getElem?_map, List.getElem?_range hi, Option.map_some,
        Option.some.injEq, powNat_eq] at hp
      exact hp.symm
    have hv' : col.getD i 0 = v := by
      rw [List.getD_eq_getElem?_getD, hv]; rfl
    rw [hp', cosetIdft_interpolates ω mInv s sInv col hω hm hs i hi, hv']
  · simp [cosetPoints, hj, powNat_eq]
  · rw [List.getD_eq_getElem?_getD, List.getElem?_eq_getElem hj]; rfl

/-- **C20 / periodic column = the native interpolant at every point, no iDFT hypothesis.** With
the coefficient vector computed by the model of `Radix2Dit::coset_idft(col, s)`, for *every* `x`
and `folds` the gadget returns the value at `x^(2^folds)` of the unique polynomial of degree
`< m` through `(s·ω^j, col_j)`, `j < m` — the specification of p3's
`evaluate_periodic_column_at`. Distinctness of the points follows from primitivity. -/
theorem periodic_eq_interpolant_total (ω mInv s sInv : K) (col : List K) (hne : col ≠ [])
    (hω : IsPrimitiveRoot ω col.length) (hm : mInv * (col.length : K) = 1) (hs : sInv * s = 1)
    (folds : Nat) (x : K) :
    periodicC (cosetIdft ω mInv sInv col) folds x
      = some ((Lagrange.interpolate Finset.univ (fun j : Fin col.length => s * ω ^ (j : Nat))
                (fun j : Fin col.length => col.getD j 0)).eval (x ^ (2 ^ folds))) := by
  have hP : toPoly (cosetIdft ω mInv sInv col)
      = Lagrange.interpolate Finset.univ (fun j : Fin col.length => s * ω ^ (j : Nat))
          (fun j : Fin col.length => col.getD j 0) := by
    apply Lagrange.eq_interpolate_of_eval_eq
    · exact (cosetPoints_injective ω s sInv col.length hω hs).injOn
    · have := degree_toPoly_lt (cosetIdft ω mInv sInv col)
      rw [cosetIdft_length] at this
      simpa using this
    · intro i _
      rw [eval_toPoly]
      exact cosetIdft_interpolates ω mInv s sInv col hω hm hs i i.isLt
  rw [← hP, eval_toPoly]
  exact (periodic_eq _ folds x (cosetIdft_ne_nil ω mInv sInv col hne)).1

/-- The same two statements with the field's own inverses (`(m : K) ≠ 0`, `s ≠ 0`). -/
theorem periodic_eq_interpolant_total' (ω s : K) (col : List K) (hne : col ≠ [])
    (hω : IsPrimitiveRoot ω col.length) (hm : (col.length : K) ≠ 0) (hs : s ≠ 0)
    (folds : Nat) (x : K) :
    periodicC (cosetIdft ω (col.length : K)⁻¹ s⁻¹ col) folds x
      = some ((Lagrange.interpolate Finset.univ (fun j : Fin col.length => s * ω ^ (j : Nat))
                (fun j : Fin col.length => col.getD j 0)).eval (x ^ (2 ^ folds))) :=
  periodic_eq_interpolant_total ω _ s _ col hne hω (inv_mul_cancel₀ hm) (inv_mul_cancel₀ hs) folds x

/-- **C20 / periodic column on the trace domain.** The situation of `evaluate_one`: trace domain
`shift·⟨g⟩` of size `2^logN` (`g` a primitive `2^logN`-th root), column of length
`m = 2^logP`, `folds = logN − logP`, `ω = g^(2^folds)` (p3: `two_adic_generator(logP)`),
`sub_shift = shift^(2^folds)` computed by `exp_power_of_2`. At the `i`-th trace-domain point
`shift·g^i` the gadget returns `col[i mod m]`: the column, repeated with period `m`. -/
theorem periodic_on_trace_domain (g mInv shift subInv : K) (col : List K) (logP folds : Nat)
    (hlen : col.length = 2 ^ logP) (hg : IsPrimitiveRoot g (2 ^ (logP + folds)))
    (hm : mInv * (col.length : K) = 1) (hs : subInv * expPow2 shift folds = 1) (i : Nat) :
    periodicC (cosetIdft (g ^ (2 ^ folds)) mInv subInv col) folds (shift * g ^ i)
      = some (col.getD (i % col.length) 0) := by
  have hpos : 0 < col.length := by rw [hlen]; exact Nat.pos_of_ne_zero (by positivity)
  have hne : col ≠ [] := List.length_pos_iff.mp hpos
  have hω : IsPrimitiveRoot (g ^ (2 ^ folds)) col.length := by
    rw [hlen]
    exact hg.pow (Nat.pos_of_ne_zero (by positivity)) (by rw [pow_add, mul_comm])
  apply periodic_interpolates_total _ mInv (expPow2 shift folds) subInv col hne hω hm hs folds _
    (i % col.length) (Nat.mod_lt _ hpos)
  rw [expPow2_eq, mul_pow]
  congr 1
  rw [← pow_mul, mul_comm i, pow_mul]
  conv_lhs => rw [← Nat.div_add_mod i col.length, pow_add, pow_mul, hω.pow_eq_one, one_pow, one_mul]

/-- What the driver runs (`cosetIdftLoop`: the literal p3 row-swap loop) meets the same
postcondition for every power-of-two period (the only lengths `evaluate_one` accepts). -/
theorem cosetIdftLoop_interpolates (ω mInv s sInv : K) (col : List K) (logP : Nat)
    (hlen : col.length = 2 ^ logP)
    (hω : IsPrimitiveRoot ω col.length) (hm : mInv * (col.length : K) = 1) (hs : sInv * s = 1)
    (i : Nat) (hi : i < col.length) :
    polyEval (cosetIdftLoop ω mInv sInv col) (s * ω ^ i) = col.getD i 0 := by
  rw [cosetIdftLoop_eq, cosetIdft_interpolates ω mInv s sInv col hω hm hs i hi]
  rw [hlen]
  cases logP with
  | zero => right; rfl
  | succ n => left; rw [pow_succ]; omega

end total

end P3R.C20
