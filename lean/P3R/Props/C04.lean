/-
C04 — an accepted circuit proof attests a satisfying assignment.
Under the ideal-STARK assumption of DESIGN §2, "accepted" means: every table row satisfies the
row constraints (C11) and the WitnessChecks bus is balanced as a signed multiset of
`(slot, value)` tuples. Proved here for the model, for every field and every trace:

* `readers_agree` — on a slot with one creator (C09.one_creator) whose readers all have
  multiplicity −1, a balanced bus forces every reader's value to be the creator's value: the
  bus defines a single assignment `w : slot → value`;
* `row_sat_add/mul/bool/muladd` — a row whose constraints vanish and whose operand cells are
  the bus values `w a, w b, w c, w out` satisfies the op's relation `Op.holds w` (D = 1);
* `accepted_alu_sat_partial` — composition for a list of non-Horner ALU ops.
The full statement of the property is *false* of the current code in one respect, shown by
`const_not_bound`: constant values are main-trace cells sent on the bus; nothing in the
acceptance conditions ties them to the circuit's constants (finding F4). Horner rows need
`HornerChainsWF` (finding F7, see C10) and are not part of the partial theorem.
-/
import P3R.Props.C11
import P3R.Lemmas.Sat
import Mathlib.Tactic.Linarith

namespace P3R.C04
open P3R

/-- One bus interaction: a tuple `(slot, value)` with a signed multiplicity. -/
structure Inter (K : Type) where
  slot : Nat
  val : K
  mult : Int

variable {K : Type} [DecidableEq K]

/-- Net multiplicity of the tuple `(s, v)`. -/
def tupleNet (is : List (Inter K)) (s : Nat) (v : K) : Int :=
  ((is.filter fun i => i.slot = s ∧ i.val = v).map (·.mult)).sum

theorem sum_neg_one (l : List (Inter K)) (h : ∀ i ∈ l, i.mult = -1) :
    (l.map (·.mult)).sum = -(l.length : Int) := by
  induction l with
  | nil => simp
  | cons x xs ih =>
    simp only [List.map_cons, List.sum_cons, List.length_cons]
    rw [h x (by simp), ih (fun i hi => h i (by simp [hi]))]
    push_cast; ring

/-- **C04 / the bus defines one value per slot.** `c` is the slot's creator; every other
interaction on the slot is a reader (multiplicity −1). If every tuple's net multiplicity is
zero then every reader carries the creator's value. -/
theorem readers_agree (is : List (Inter K)) (s : Nat) (c : Inter K)
    (hread : ∀ i ∈ is, i.slot = s → i.val ≠ c.val → i.mult = -1)
    (hbal : ∀ v, tupleNet is s v = 0) :
    ∀ i ∈ is, i.slot = s → i.val = c.val := by
  intro i hi hs
  by_contra hne
  have hb := hbal i.val
  unfold tupleNet at hb
  set l := is.filter fun j => j.slot = s ∧ j.val = i.val with hl
  have hall : ∀ j ∈ l, j.mult = -1 := by
    intro j hj
    have hj' := List.mem_filter.mp hj
    have hjs : j.slot = s ∧ j.val = i.val := by simpa using hj'.2
    exact hread j hj'.1 hjs.1 (by rw [hjs.2]; exact hne)
  have hmem : i ∈ l := List.mem_filter.mpr ⟨hi, by simp [hs]⟩
  have hlen : 0 < l.length := List.length_pos_of_mem hmem
  rw [sum_neg_one l hall] at hb
  omega

section Rows
variable {F : Type} [Field F]

/-- **ADD row.** -/
theorem row_sat_add (w pub : Nat → F) (a b out : Nat) (c io : Option Nat)
    (h : ∀ x ∈ laneAdd 1 (1 : F) [w a] [w b] [w out], x = 0) :
    (Op.alu .add a b c out io : Op F).holds w pub := by
  have := (C11.laneAdd_iff 1 (1 : F) one_ne_zero [w a] [w b] [w out]).mp h 0 (by omega)
  simpa [Op.holds, vget] using this

/-- **MUL row** (`ab` is the product column computed by the constraint, D = 1). -/
theorem row_sat_mul (w pub : Nat → F) (a b out : Nat) (c io : Option Nat)
    (h : ∀ x ∈ laneEq 1 (1 : F) [w a * w b] [w out], x = 0) :
    (Op.alu .mul a b c out io : Op F).holds w pub := by
  have := (C11.laneEq_iff 1 (1 : F) one_ne_zero [w a * w b] [w out]).mp h 0 (by omega)
  simpa [Op.holds, vget] using this

/-- **BOOL_CHECK row.** -/
theorem row_sat_bool (w pub : Nat → F) (a b out : Nat) (c io : Option Nat)
    (h : ∀ x ∈ laneBool 1 (1 : F) [w a], x = 0) :
    (Op.alu .boolCheck a b c out io : Op F).holds w pub := by
  have := ((C11.laneBool_iff 1 (1 : F) one_ne_zero [w a]).mp h).1
  simp only [vget, List.getD_cons_zero] at this
  simp only [Op.holds]
  rcases this with h0 | h1
  · rw [h0]; ring
  · rw [h1]; ring

/-- **MUL_ADD row.** -/
theorem row_sat_muladd (w pub : Nat → F) (a b c out : Nat) (io : Option Nat)
    (h : ∀ x ∈ laneMulAdd 1 (1 : F) [w a * w b] [w c] [w out], x = 0) :
    (Op.alu .mulAdd a b (some c) out io : Op F).holds w pub := by
  have := (C11.laneMulAdd_iff 1 (1 : F) one_ne_zero [w a * w b] [w c] [w out]).mp h 0 (by omega)
  simpa [Op.holds, vget] using this

/-- **HORNER row** (single step): the cross-row constraint `out' = prev_out·b' + c' − a'`, with the
previous row's `out` column carrying the accumulator slot's value (the schedule places a chain's
steps on consecutive rows; `C10`'s `horner-chain-not-wf` finding is the completeness side). -/
theorem row_sat_horner (w pub : Nat → F) (a b c out acc : Nat)
    (h : ∀ x ∈ hornerSingle 1 (1 : F) [w acc * w b] [w c] [w a] [w out], x = 0) :
    (Op.alu .horner a b (some c) out (some acc) : Op F).holds w pub := by
  have := (C11.hornerSingle_iff 1 (1 : F) one_ne_zero [w acc * w b] [w c] [w a] [w out]).mp h 0 (by omega)
  simp only [vget, List.getD_cons_zero] at this
  simp only [Op.holds]
  rw [this]

/-- The row constraints of one ALU op on the bus values (selector one-hot, D = 1). -/
def rowOk (w : Nat → F) : Op F → Prop
  | .alu .add a b _ out _ => ∀ x ∈ laneAdd 1 (1 : F) [w a] [w b] [w out], x = 0
  | .alu .mul a b _ out _ => ∀ x ∈ laneEq 1 (1 : F) [w a * w b] [w out], x = 0
  | .alu .boolCheck a _ _ _ _ => ∀ x ∈ laneBool 1 (1 : F) [w a], x = 0
  | .alu .mulAdd a b (some c) out _ => ∀ x ∈ laneMulAdd 1 (1 : F) [w a * w b] [w c] [w out], x = 0
  | .alu .mulAdd _ _ none _ _ => False
  | .alu .horner a b (some c) out (some acc) =>
    ∀ x ∈ hornerSingle 1 (1 : F) [w acc * w b] [w c] [w a] [w out], x = 0
  | .alu .horner _ _ _ _ _ => False
  | _ => True

/-- **C04 (partial).** If every ALU row (single-step Horner rows included) satisfies its constraints on the
values the bus assigns to its operand slots, the assignment satisfies every op relation. The
`Const`/`Public` clauses are hypotheses: `hconst` is exactly what the current code does *not*
enforce (finding F4), `hpub` is the caller's comparison of public values. -/
theorem accepted_alu_sat_partial (w pub : Nat → F) (ops : List (Op F))
    (hrows : ∀ op ∈ ops, rowOk w op)
    (hconst : ∀ out v, Op.const out v ∈ ops → w out = v)
    (hpub : ∀ out pos, Op.pub out pos ∈ ops → w out = pub pos) :
    Sat w pub ops := by
  intro op hop
  have hr := hrows op hop
  cases op with
  | const out v => exact hconst out v hop
  | pub out pos => exact hpub out pos hop
  | hint _ _ _ => trivial
  | npo _ _ _ _ => trivial
  | alu k a b c out io =>
    cases k with
    | add => exact row_sat_add w pub a b out c io hr
    | mul => exact row_sat_mul w pub a b out c io hr
    | boolCheck => exact row_sat_bool w pub a b out c io hr
    | mulAdd =>
      cases c with
      | none => exact absurd hr (by simp [rowOk])
      | some cv => exact row_sat_muladd w pub a b cv out io hr
    | horner =>
      cases c with
      | none => exact absurd hr (by simp [rowOk])
      | some cv =>
        cases io with
        | none => exact absurd hr (by simp [rowOk])
        | some acc => exact row_sat_horner w pub a b cv out acc hr

end Rows

/-- **Finding F4 as a theorem about the acceptance conditions.** A Const row's value is a
main-trace cell sent on the bus; with the readers following it the bus still balances, so
acceptance cannot imply `w out = v` for the circuit's constant `v`. Concretely: slot 0 is
created with value 4 (the circuit says 3) and read once with value 4 — balanced. -/
theorem const_not_bound :
    let is : List (Inter Int) := [⟨0, 4, 1⟩, ⟨0, 4, -1⟩]
    (∀ v, tupleNet is 0 v = 0) ∧ (4 : Int) ≠ 3 := by
  refine ⟨fun v => ?_, by decide⟩
  unfold tupleNet
  by_cases hv : v = 4
  · subst hv; simp
  · have : ¬ (4 : Int) = v := fun h => hv h.symm
    simp [this]

/-- Non-vacuity of `readers_agree`: a balanced slot with one creator and two readers. -/
example : ∀ i ∈ ([⟨7, 5, 2⟩, ⟨7, 5, -1⟩, ⟨7, 5, -1⟩] : List (Inter Int)), i.slot = 7 → i.val = 5 := by
  intro i hi _; simp at hi; rcases hi with rfl | rfl | rfl <;> rfl

end P3R.C04
