/-
C11 — packed Horner rows of every arity (D = 1).

`packedLegs` is the model of the `while s < kk` loop of `AluAir::eval` (intra-row legs of a
packed Horner row of arity `kk`); the correspondence run compares its values with the real AIR
on random windows for K_max up to 6. Here, for *every* arity `kk` and every starting point:

* `packedLegs_sound` — if all leg constraints vanish (selector non-zero, `b²` column equal to
  `b·b`), the row's `out` is the value of the chain of single Horner steps
  `x ↦ x·b + c_t − a_t`, `t = s … kk−1`, started from the intermediate cell `int[slot]`;
* `packedLegs_complete` — conversely, if the intermediate cells hold the honest partial values
  (every second accumulator) and `out` the chain's value, every leg constraint vanishes.
Together: a packed row accepts exactly the cells of `kk − s` chained single steps.
-/
import P3R.Props.C11

namespace P3R.C11
open P3R

section PackedAny
variable {K : Type} [Field K]

/-- `n` chained single Horner steps `x ↦ x·b + C t − A t` for `t = s, s+1, …`. -/
def hchain (b : K) (A C : Nat → K) : Nat → Nat → K → K
  | 0, _, x => x
  | n + 1, s, x => hchain b A C n (s + 1) (x * b + C s - A s)

theorem vget_seg_one (ml : List K) (off : Nat) : vget (seg ml off 1) 0 = vget ml off := by
  unfold vget seg
  simp [List.getD_eq_getElem?_getD, List.getElem?_take, List.getElem?_drop]

theorem vget_extMul_one (x y : List K) :
    vget (extMul 1 (ExtKind.base : ExtKind K) x y) 0 = vget x 0 * vget y 0 := by
  simp [extMul, extMulBinomial, lsum, vget]

/-- Values read by the legs (D = 1). -/
def legI (ml : List K) (extraMain j : Nat) : K := vget ml (extraMain + j)
def legA (ml : List K) (acBase t : Nat) : K := vget ml (acBase + 2 * (t - 1))
def legC (ml : List K) (acBase t : Nat) : K := vget ml (acBase + 2 * (t - 1) + 1)

theorem vget_singleton (x : K) : vget [x] 0 = x := rfl

/-- The double-step polynomial of the legs (D = 1). -/
def legP (ml : List K) (extraMain acBase : Nat) (b : K) (s slot : Nat) : K :=
  legI ml extraMain slot * (b * b) + legC ml acBase s * b - legA ml acBase s * b +
    legC ml acBase (s + 1) - legA ml acBase (s + 1)

/-- `packedLegs` at D = 1, one unfolding, in scalar form. -/
theorem packedLegs_one_succ (kmax : Nat) (ml : List K) (extraMain acBase : Nat) (b out sel : K)
    (kk fuel s slot : Nat) :
    packedLegs 1 kmax (ExtKind.base : ExtKind K) ml extraMain acBase [b] [b * b] [out] sel kk
        (fuel + 1) s slot =
      if s < kk then
        if s + 1 < kk then
          if s + 2 ≥ kk then
            [sel * (legP ml extraMain acBase b s slot - out)] ++
              packedLegs 1 kmax (ExtKind.base : ExtKind K) ml extraMain acBase [b] [b * b] [out] sel kk
                fuel (s + 2) slot
          else
            [sel * (legP ml extraMain acBase b s slot - legI ml extraMain (slot + 1))] ++
              packedLegs 1 kmax (ExtKind.base : ExtKind K) ml extraMain acBase [b] [b * b] [out] sel kk
                fuel (s + 2) (slot + 1)
        else
          [sel * (legI ml extraMain slot * b + legC ml acBase s - legA ml acBase s - out)] ++
            packedLegs 1 kmax (ExtKind.base : ExtKind K) ml extraMain acBase [b] [b * b] [out] sel kk
              fuel (s + 1) slot
      else [] := by
  rw [packedLegs]
  have e1 : acBase + 2 * (s + 1 - 1) = acBase + 2 * s := by congr 2
  simp only [Nat.mul_one, List.range_one, List.map_cons, List.map_nil, vget_extMul_one,
    vget_seg_one, vget_singleton, legP, legI, legA, legC, e1]

theorem packedLegs_done (kmax : Nat) (ml : List K) (extraMain acBase : Nat) (b out sel : K)
    (kk fuel s slot : Nat) (h : ¬ s < kk) :
    packedLegs 1 kmax (ExtKind.base : ExtKind K) ml extraMain acBase [b] [b * b] [out] sel kk
        fuel s slot = [] := by
  cases fuel with
  | zero => rfl
  | succ f => rw [packedLegs_one_succ, if_neg h]

theorem packedLegs_sound (kmax : Nat) (ml : List K) (extraMain acBase : Nat) (b out sel : K)
    (hs : sel ≠ 0) (kk : Nat) :
    ∀ (fuel s slot : Nat), s < kk → kk - s ≤ fuel →
      (∀ x ∈ packedLegs 1 kmax (ExtKind.base : ExtKind K) ml extraMain acBase [b] [b * b] [out] sel kk
          fuel s slot, x = 0) →
      out = hchain b (legA ml acBase) (legC ml acBase) (kk - s) s (legI ml extraMain slot) := by
  intro fuel
  induction fuel with
  | zero => intro s slot h1 h2; omega
  | succ fuel ih =>
    intro s slot hlt hfuel hz
    rw [packedLegs_one_succ, if_pos hlt] at hz
    by_cases h1 : s + 1 < kk
    · rw [if_pos h1] at hz
      by_cases h2 : s + 2 ≥ kk
      · rw [if_pos h2] at hz
        have h0 := hz _ (List.mem_append_left _ (List.mem_singleton.mpr rfl))
        have hk : kk - s = 2 := by omega
        rw [hk]
        simp only [hchain]
        rcases mul_eq_zero.mp h0 with h | h
        · exact absurd h hs
        · unfold legP at h
          linear_combination -h
      · rw [if_neg h2] at hz
        have h0 := hz _ (List.mem_append_left _ (List.mem_singleton.mpr rfl))
        have hrest := ih (s + 2) (slot + 1) (by omega) (by omega)
          (fun x hx => hz x (List.mem_append_right _ hx))
        have hk : kk - s = (kk - (s + 2)) + 2 := by omega
        rw [hk]
        simp only [hchain]
        rw [hrest]
        congr 1
        rcases mul_eq_zero.mp h0 with h | h
        · exact absurd h hs
        · unfold legP at h
          linear_combination -h
    · rw [if_neg h1] at hz
      have h0 := hz _ (List.mem_append_left _ (List.mem_singleton.mpr rfl))
      have hk : kk - s = 1 := by omega
      rw [hk]
      simp only [hchain]
      rcases mul_eq_zero.mp h0 with h | h
      · exact absurd h hs
      · linear_combination -h

theorem hchain_add (b : K) (A C : Nat → K) (m n s : Nat) (x : K) :
    hchain b A C (m + n) s x = hchain b A C n (s + m) (hchain b A C m s x) := by
  induction m generalizing s x with
  | zero => simp [hchain]
  | succ m ih =>
    have : m + 1 + n = (m + n) + 1 := by omega
    rw [this]
    simp only [hchain]
    rw [ih]
    congr 1
    omega

theorem packedLegs_complete (kmax : Nat) (ml : List K) (extraMain acBase : Nat) (b out sel : K)
    (kk : Nat) :
    ∀ (fuel s slot : Nat), s < kk →
      (∀ j, s + 2 * j < kk → legI ml extraMain (slot + j) =
        hchain b (legA ml acBase) (legC ml acBase) (2 * j) s (legI ml extraMain slot)) →
      out = hchain b (legA ml acBase) (legC ml acBase) (kk - s) s (legI ml extraMain slot) →
      ∀ x ∈ packedLegs 1 kmax (ExtKind.base : ExtKind K) ml extraMain acBase [b] [b * b] [out] sel kk
          fuel s slot, x = 0 := by
  intro fuel
  induction fuel with
  | zero => intro s slot _ _ _ x hx; simp [packedLegs] at hx
  | succ fuel ih =>
    intro s slot hlt hint hout x hx
    rw [packedLegs_one_succ, if_pos hlt] at hx
    by_cases h1 : s + 1 < kk
    · rw [if_pos h1] at hx
      by_cases h2 : s + 2 ≥ kk
      · rw [if_pos h2, packedLegs_done _ _ _ _ _ _ _ _ _ _ _ (by omega)] at hx
        have hk : kk - s = 2 := by omega
        rw [hk] at hout
        simp only [hchain] at hout
        simp only [List.append_nil, List.mem_singleton] at hx
        rw [hx, hout]; unfold legP; ring
      · rw [if_neg h2] at hx
        have hnext := hint 1 (by omega)
        simp only [Nat.mul_one, hchain] at hnext
        rcases List.mem_append.mp hx with hx' | hx'
        · simp only [List.mem_singleton] at hx'
          rw [hx', hnext]; unfold legP; ring
        · refine ih (s + 2) (slot + 1) (by omega) ?_ ?_ x hx'
          · intro j hj
            have h := hint (j + 1) (by omega)
            have e : 2 * (j + 1) = 2 + 2 * j := by ring
            rw [e, hchain_add] at h
            have e' : slot + (j + 1) = slot + 1 + j := by omega
            rw [e'] at h
            rw [h]
            congr 1
            simp only [hchain]
            exact hnext.symm
          · have hk : kk - s = 2 + (kk - (s + 2)) := by omega
            rw [hk, hchain_add] at hout
            rw [hout]
            congr 1
            simp only [hchain]
            exact hnext.symm
    · rw [if_neg h1, packedLegs_done _ _ _ _ _ _ _ _ _ _ _ (by omega)] at hx
      have hk : kk - s = 1 := by omega
      rw [hk] at hout
      simp only [hchain] at hout
      simp only [List.append_nil, List.mem_singleton] at hx
      rw [hx, hout]; ring

/-- Step operands of a packed row seen as one chain: step 0 uses the lane's own `a`, `c` cells, step
`t ≥ 1` the extra columns. -/
def rowA (a0 : K) (ml : List K) (acBase : Nat) : Nat → K
  | 0 => a0
  | t + 1 => legA ml acBase (t + 1)

def rowC (c0 : K) (ml : List K) (acBase : Nat) : Nat → K
  | 0 => c0
  | t + 1 => legC ml acBase (t + 1)

theorem hchain_congr (b : K) (A C A' C' : Nat → K) :
    ∀ n s x, (∀ t, s ≤ t → A t = A' t ∧ C t = C' t) → hchain b A C n s x = hchain b A' C' n s x := by
  intro n
  induction n with
  | zero => intro s x _; rfl
  | succ n ih =>
    intro s x h
    simp only [hchain]
    rw [(h s (Nat.le_refl _)).1, (h s (Nat.le_refl _)).2]
    exact ih (s + 1) _ (fun t ht => h t (by omega))

/-- **A packed Horner row of any arity `kk ≥ 2` (D = 1) is `kk` chained single steps.** `prev` is the
accumulator the row starts from (the previous row's `out`), `first` the value the inter-row
constraint produces for the first two steps (`out` itself when `kk = 2`, the first intermediate
cell otherwise): if that constraint holds (`hfirst`), the `b²` column is `b·b`, and every intra-row
leg vanishes, then `out` is the value of the `kk`-step chain. -/
theorem packed_row_sound (kmax : Nat) (ml : List K) (extraMain acBase : Nat) (prev a0 c0 b out sel : K)
    (hs : sel ≠ 0) (kk : Nat) (hk : 2 ≤ kk)
    (hfirst : prev * (b * b) + c0 * b - a0 * b + legC ml acBase 1 - legA ml acBase 1 =
      (if kk = 2 then out else legI ml extraMain 0))
    (hlegs : ∀ x ∈ packedLegs 1 kmax (ExtKind.base : ExtKind K) ml extraMain acBase [b] [b * b] [out] sel kk
        (kk + 1) 2 0, x = 0) :
    out = hchain b (rowA a0 ml acBase) (rowC c0 ml acBase) kk 0 prev := by
  have h2 : hchain b (rowA a0 ml acBase) (rowC c0 ml acBase) 2 0 prev =
      prev * (b * b) + c0 * b - a0 * b + legC ml acBase 1 - legA ml acBase 1 := by
    simp only [hchain, rowA, rowC]; ring
  by_cases hk2 : kk = 2
  · subst hk2
    rw [h2, hfirst, if_pos rfl]
  · rw [if_neg hk2] at hfirst
    have hk3 : 2 < kk := by omega
    have := packedLegs_sound kmax ml extraMain acBase b out sel hs kk (kk + 1) 2 0 hk3 (by omega) hlegs
    have e : kk = 2 + (kk - 2) := by omega
    rw [e, hchain_add, h2, hfirst]
    rw [this]
    simp only [Nat.zero_add]
    exact hchain_congr b _ _ _ _ (kk - 2) 2 _ (fun t ht => by
      cases t with
      | zero => omega
      | succ t => simp [rowA, rowC])

end PackedAny

end P3R.C11
