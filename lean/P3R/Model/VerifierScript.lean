/-
L13 — verifier skeleton ("script") of the STARK verifiers.

For a proof *shape* both verifiers are modelled as a script: the list of Fiat–Shamir transcript
events (observe a shape constant, observe a proof element, sample a challenge, proof-of-work
check, sample a query index) followed by the list of checks (PCS opening check with its rounds
of (commitment, matrices, opening points, claimed values); per instance the out-of-domain
check `folded·inv_vanishing = quotient`; the LogUp terminal-sum check). Proof elements are
*symbolic names*.

* `nativeUni`, `nativeBatch`  — transcribed from `p3_uni_stark::verify_with_preprocessed`,
  `p3_batch_stark::verify_batch` (+ `BatchTranscript`), `TwoAdicFriPcs::verify`,
  `HidingFriPcs::verify` (random opened values are appended to every point's values before
  they are observed), `p3_fri::verifier::verify_fri` (commit phase / final polynomial /
  arity schedule / query grinding / query indices), all 0.6.3.
* `circuitUni`, `circuitBatch` — transcribed from `recursion/src/verifier/stark.rs`
  (`verify_p3_uni_proof_circuit`, `get_circuit_challenges`, `validate_proof_shape`,
  `StarkChallenges::allocate`; opened values through the batch routine `observe_opened_values_circuit`),
  `verifier/batch_stark.rs` (`verify_batch_circuit`, `get_perm_challenges`,
  `observe_opened_values_circuit` with its `round_idx` / `mat_idx` / `flat_mat_idx` counters),
  `pcs/fri/targets.rs` (`get_challenges_circuit`, `verify_circuit`,
  `merge_hiding_random_openings`). The circuit side can fail at build time
  (`InvalidProofShape`): `Except String Script`.

Import-free (core only). What is *not* in a script: the arithmetic inside a check (C07, C08,
C13, C20), the sponge (C05), packing (C14).
-/
namespace P3R.VerifierScript

/-- Symbolic names of proof / verifying-data / public-value elements. -/
inductive Name where
  | traceCom | quotCom | randCom | permCom | preCom
  | pub (i j : Nat)
  | traceLocal (i j : Nat) | traceNext (i j : Nat)
  | preLocal (i j : Nat) | preNext (i j : Nat)
  | quot (i c k : Nat)
  | rand (i k : Nat)
  | permLocal (i j : Nat) | permNext (i j : Nat)
  | terminal (i : Nat)
  /-- hiding PCS: random opened value `k` of (round, matrix, point) -/
  | friRand (r m p k : Nat)
  | friCommit (r : Nat) | commitPow (r : Nat)
  | finalPoly (k : Nat) | queryPow
  /-- everything inside query proof `q` (input openings, Merkle paths, commit-phase openings) -/
  | query (q : Nat)
  deriving DecidableEq, Repr

inductive Chal where
  | permAlpha | permBeta | alpha | zeta | friAlpha | beta (r : Nat)
  deriving DecidableEq, Repr

/-- How a value enters the sponge: as one base element, or as the `D` coefficients of an
extension element. -/
inductive Enc where
  | base | ext
  deriving DecidableEq, Repr

inductive Ev where
  /-- a shape constant (instance count, degree bits, widths, chunk counts, log-arities) -/
  | obsConst (e : Enc) (n : Nat)
  | obs (n : Name)
  | sample (c : Chal)
  /-- `check_witness` with `bits > 0`: observe the witness, sample `bits` bits, require 0 -/
  | pow (bits : Nat) (w : Name)
  | sampleIndex (q : Nat)
  deriving DecidableEq, Repr

/-- An opening point: `zeta`, or `zeta · g_i` for the trace domain of instance `i`. -/
inductive Pt where
  | zeta | zetaNext (i : Nat)
  deriving DecidableEq, Repr

structure Opening where
  point : Pt
  values : List Name
  deriving DecidableEq, Repr

structure Mat where
  logSize : Nat
  openings : List Opening
  deriving DecidableEq, Repr

structure Round where
  com : Name
  mats : List Mat
  deriving DecidableEq, Repr

inductive Check where
  /-- PCS verification of the rounds, with the FRI proof elements it consumes -/
  | pcs (rounds : List Round) (fri : List Name)
  /-- instance `i`: folded constraints · inv_vanishing = recomposed quotient, over these operands -/
  | ood (i : Nat) (operands : List Name)
  | terminalSum (ts : List Name)
  deriving DecidableEq, Repr

structure Script where
  events : List Ev
  checks : List Check
  deriving DecidableEq, Repr

/-- One AIR instance of the shape. `degreeBits` is the (extended, if ZK) log trace height,
`nChunks` the number of quotient chunks *including* the ZK doubling, `preW = 0` means no
preprocessed columns, `nLookups = 0` no lookups. -/
structure Inst where
  width : Nat
  nPub : Nat
  preW : Nat
  hasNext : Bool
  preNext : Bool
  nChunks : Nat
  nLookups : Nat
  degreeBits : Nat
  deriving DecidableEq, Repr

structure Shape where
  zk : Bool
  /-- extension degree -/
  D : Nat
  /-- random codewords per matrix of the hiding PCS (values appended per opening point) -/
  nrc : Nat
  insts : List Inst
  friRounds : Nat
  finalPolyLen : Nat
  queries : Nat
  commitPowBits : Nat
  queryPowBits : Nat
  deriving DecidableEq, Repr

/-! ### element names of one instance -/

def traceLocalNs (i : Nat) (x : Inst) : List Name := (List.range x.width).map (Name.traceLocal i)
def traceNextNs (i : Nat) (x : Inst) : List Name :=
  if x.hasNext then (List.range x.width).map (Name.traceNext i) else []
def preLocalNs (i : Nat) (x : Inst) : List Name := (List.range x.preW).map (Name.preLocal i)
def preNextNs (i : Nat) (x : Inst) : List Name :=
  if x.preNext then (List.range x.preW).map (Name.preNext i) else []
def quotNs (D i c : Nat) : List Name := (List.range D).map (Name.quot i c)
def randNs (D i : Nat) : List Name := (List.range D).map (Name.rand i)
def pubNs (i : Nat) (x : Inst) : List Name := (List.range x.nPub).map (Name.pub i)
/-- flattened width of the permutation (LogUp) opening: `(nLookups + 1) · D`, or 0 -/
def permW (D : Nat) (x : Inst) : Nat := if x.nLookups = 0 then 0 else (x.nLookups + 1) * D
def permLocalNs (D i : Nat) (x : Inst) : List Name := (List.range (permW D x)).map (Name.permLocal i)
def permNextNs (D i : Nat) (x : Inst) : List Name := (List.range (permW D x)).map (Name.permNext i)
def friRandNs (nrc r m p : Nat) : List Name := (List.range nrc).map (Name.friRand r m p)

def hasPre (x : Inst) : Bool := x.preW != 0
def hasLookup (x : Inst) : Bool := x.nLookups != 0
def zkNat (s : Shape) : Nat := if s.zk then 1 else 0

/-- operands of the out-of-domain check of instance `i` -/
def oodOperands (D i : Nat) (x : Inst) : List Name :=
  pubNs i x ++ traceLocalNs i x ++ traceNextNs i x ++ preLocalNs i x ++ preNextNs i x
    ++ permLocalNs D i x ++ permNextNs D i x ++ (if hasLookup x then [Name.terminal i] else [])
    ++ (List.range x.nChunks).flatMap (quotNs D i)

/-! ### FRI part of the transcript (both sides) -/

def powEv (bits : Nat) (w : Name) : List Ev := if bits = 0 then [] else [Ev.pow bits w]

/-- native `verify_fri` (after the opened values were observed). -/
def nativeFri (s : Shape) : List Ev :=
  [Ev.sample Chal.friAlpha]
    ++ (List.range s.friRounds).flatMap (fun r =>
          [Ev.obs (Name.friCommit r)] ++ powEv s.commitPowBits (Name.commitPow r) ++ [Ev.sample (Chal.beta r)])
    ++ (List.range s.finalPolyLen).map (fun k => Ev.obs (Name.finalPoly k))
    ++ (List.range s.friRounds).map (fun _ => Ev.obsConst Enc.base 0)   -- log-arity schedule (values abstracted)
    ++ powEv s.queryPowBits Name.queryPow
    ++ (List.range s.queries).map Ev.sampleIndex

/-- `get_challenges_circuit` of `impl RecursivePcs for TwoAdicFriPcs` (pcs/fri/targets.rs): α, then per
commit-phase commitment observe / `check_pow_witness(params.commit_pow_bits, ·)` / β, the final
polynomial, the log-arity schedule, `check_pow_witness(params.query_pow_bits, ·)`.
`check_pow_witness` with 0 bits leaves the challenger untouched (`powEv`). -/
def getChallengesPlain (s : Shape) : List Ev :=
  let commitPhase := (List.range s.friRounds).flatMap (fun r =>
    [Ev.obs (Name.friCommit r)] ++ powEv s.commitPowBits (Name.commitPow r) ++ [Ev.sample (Chal.beta r)])
  let final := (List.range s.finalPolyLen).map (fun k => Ev.obs (Name.finalPoly k))
  let arities := (List.range s.friRounds).map (fun _ => Ev.obsConst Enc.base 0)
  [Ev.sample Chal.friAlpha] ++ commitPhase ++ final ++ arities ++ powEv s.queryPowBits Name.queryPow

/-- `get_challenges_circuit` of `impl RecursivePcs for HidingFriPcs` — a second copy of the routine in the
source (it reads the inner FRI proof of the hiding opening proof); transcribed separately, with the bit
count each of its two `check_pow_witness` calls is given. -/
def getChallengesHiding (s : Shape) : List Ev :=
  let commitPhase := (List.range s.friRounds).flatMap (fun r =>
    [Ev.obs (Name.friCommit r)] ++ powEv s.commitPowBits (Name.commitPow r) ++ [Ev.sample (Chal.beta r)])
  let final := (List.range s.finalPolyLen).map (fun k => Ev.obs (Name.finalPoly k))
  let arities := (List.range s.friRounds).map (fun _ => Ev.obsConst Enc.base 0)
  [Ev.sample Chal.friAlpha] ++ commitPhase ++ final ++ arities ++ powEv s.queryPowBits Name.queryPow

/-- circuit `get_challenges_circuit` (of the PCS in use) followed by the index sampling of `verify_circuit`. -/
def circuitFri (s : Shape) : List Ev :=
  (if s.zk then getChallengesHiding s else getChallengesPlain s)
    ++ (List.range s.queries).map Ev.sampleIndex

def friElems (s : Shape) : List Name :=
  (List.range s.friRounds).map Name.friCommit ++ (List.range s.finalPolyLen).map Name.finalPoly
    ++ (List.range s.queries).map Name.query

/-! ### hiding PCS: random opened values appended per (round, matrix, point) -/

def mergeOpening (nrc ri mi : Nat) (o : Opening) (pi : Nat) : Opening :=
  { o with values := o.values ++ friRandNs nrc ri mi pi }

def mergeMat (nrc ri : Nat) (m : Mat) (mi : Nat) : Mat :=
  { m with openings := m.openings.zipIdx.map fun op => mergeOpening nrc ri mi op.1 op.2 }

/-- Random codewords of a round: `HidingFriPcs::commit_preprocessing` pads with zero columns instead
of random ones, so the preprocessed round carries *empty* random vectors
(`open_with_preprocessing`: `num_random_codewords = 0` at `PREPROCESSED_TRACE_IDX`). -/
def roundNrc (nrc : Nat) (r : Round) : Nat := if r.com = Name.preCom then 0 else nrc

def mergeRound (nrc : Nat) (r : Round) (ri : Nat) : Round :=
  { r with mats := r.mats.zipIdx.map fun mm => mergeMat nrc ri mm.1 mm.2 }

/-- `HidingFriPcs::verify` / `merge_hiding_random_openings`: round `ri`, matrix `mi`, point `pi`
gets the random opened values `friRand ri mi pi ·` appended. -/
def mergeRandom (nrc : Nat) (rounds : List Round) : List Round :=
  rounds.zipIdx.map fun rr => mergeRound (roundNrc nrc rr.1) rr.1 rr.2

def observeMat (m : Mat) : List Ev := m.openings.flatMap fun o => o.values.map Ev.obs
def observeRound (r : Round) : List Ev := r.mats.flatMap observeMat
def observeRounds (rounds : List Round) : List Ev := rounds.flatMap observeRound

/-- (instance, index, chunk) triples in commit order: the matrices of the quotient round -/
def chunkList (s : Shape) : List (Inst × Nat × Nat) :=
  s.insts.zipIdx.flatMap fun xi => (List.range xi.1.nChunks).map fun c => (xi.1, xi.2, c)

/-! ### native batch verifier -/

def randRound (s : Shape) : Round :=
  { com := Name.randCom,
    mats := s.insts.zipIdx.map fun (x, i) => { logSize := x.degreeBits, openings := [⟨Pt.zeta, randNs s.D i⟩] } }

def traceRound (s : Shape) : Round :=
  { com := Name.traceCom,
    mats := s.insts.zipIdx.map fun (x, i) =>
      { logSize := x.degreeBits,
        openings := [⟨Pt.zeta, traceLocalNs i x⟩]
          ++ (if x.hasNext then [⟨Pt.zetaNext i, traceNextNs i x⟩] else []) } }

def quotRound (s : Shape) : Round :=
  { com := Name.quotCom,
    mats := (chunkList s).map fun t =>
      { logSize := t.1.degreeBits, openings := [⟨Pt.zeta, quotNs s.D t.2.1 t.2.2⟩] } }

/-- `matrix_to_instance`: the instances with preprocessed columns, in instance order
(`ProverData::from_airs_and_degrees`); one or two opening points per matrix. -/
def preRound (s : Shape) : Round :=
  { com := Name.preCom,
    mats := (s.insts.zipIdx.filter fun xi => hasPre xi.1).map fun (x, i) =>
      { logSize := x.degreeBits,
        openings := [⟨Pt.zeta, preLocalNs i x⟩]
          ++ (if x.preNext then [⟨Pt.zetaNext i, preNextNs i x⟩] else []) } }

def permRound (s : Shape) : Round :=
  { com := Name.permCom,
    mats := (s.insts.zipIdx.filter fun xi => hasLookup xi.1).map fun (x, i) =>
      { logSize := x.degreeBits,
        openings := [⟨Pt.zeta, permLocalNs s.D i x⟩, ⟨Pt.zetaNext i, permNextNs s.D i x⟩] } }

/-- `coms_to_verify` of `verify_batch`. -/
def nativeBatchRounds (s : Shape) : List Round :=
  (if s.zk then [randRound s] else [])
  ++ [traceRound s] ++ [quotRound s]
  ++ (if s.insts.any hasPre then [preRound s] else [])
  ++ (if s.insts.any hasLookup then [permRound s] else [])

def nativeBatch (s : Shape) : Script :=
  let idx := s.insts.zipIdx
  let anyLookup := s.insts.any hasLookup
  let rounds := nativeBatchRounds s
  let merged := if s.zk then mergeRandom s.nrc rounds else rounds
  { events :=
      -- BatchTranscript: instance count, per-instance binding
      [Ev.obsConst Enc.ext s.insts.length]
      ++ idx.flatMap (fun (x, _) =>
          [Ev.obsConst Enc.ext x.degreeBits, Ev.obsConst Enc.ext (x.degreeBits - zkNat s),
           Ev.obsConst Enc.ext x.width, Ev.obsConst Enc.ext x.nChunks])
      -- observe_main
      ++ [Ev.obs Name.traceCom] ++ idx.flatMap (fun (x, i) => (pubNs i x).map Ev.obs)
      -- observe_preprocessed
      ++ idx.map (fun (x, _) => Ev.obsConst Enc.ext x.preW)
      ++ (if s.insts.any hasPre then [Ev.obs Name.preCom] else [])
      -- sample_perm_challenges, observe_perm_and_sample_alpha
      ++ (if anyLookup then [Ev.sample Chal.permAlpha, Ev.sample Chal.permBeta] else [])
      ++ (if anyLookup then
            [Ev.obs Name.permCom]
              ++ (idx.filter fun xi => hasLookup xi.1).map (fun (_, i) => Ev.obs (Name.terminal i))
          else [])
      ++ [Ev.sample Chal.alpha]
      ++ [Ev.obs Name.quotCom] ++ (if s.zk then [Ev.obs Name.randCom] else [])
      ++ [Ev.sample Chal.zeta]
      -- pcs.verify: observe every claimed value round / matrix / point, then FRI
      ++ observeRounds merged
      ++ nativeFri s,
    checks :=
      [Check.pcs merged (friElems s)]
      ++ idx.map (fun (x, i) => Check.ood i (oodOperands s.D i x))
      ++ [Check.terminalSum ((idx.filter fun xi => hasLookup xi.1).map fun (_, i) => Name.terminal i)] }

/-! ### circuit batch verifier -/

/-- A loop with a running counter starting at `k`: `f a k ++ f a' (k+1) ++ …`
(`mat_idx += 1`, `flat_mat_idx += 1`). -/
def numberFrom {α β : Type} (k : Nat) (l : List α) (f : α → Nat → List β) : List β :=
  match l with
  | [] => []
  | a :: t => f a k ++ numberFrom (k + 1) t f

/-- `observe_point`: the original values, then the FRI random values of that point if any. -/
def observePoint (s : Shape) (original : List Name) (r m p : Nat) : List Ev :=
  original.map Ev.obs ++ (if s.zk then (friRandNs s.nrc r m p).map Ev.obs else [])

/-- `observe_opened_values_circuit`. -/
def circuitObserveOpened (s : Shape) : List Ev :=
  let idx := s.insts.zipIdx
  let r0 := 0
  -- 1. random round (if ZK); mat index = instance index (enumerate)
  let sec1 := if s.zk then idx.flatMap (fun (_, i) => observePoint s (randNs s.D i) r0 i 0) else []
  let r1 := if s.zk then r0 + 1 else r0
  -- 2. trace round: two points per instance, mat index = instance index
  let sec2 := idx.flatMap (fun (x, i) =>
    observePoint s (traceLocalNs i x) r1 i 0 ++
      -- trace_next_targets is empty (and `rand_round[mat].get(1)` is None) when the AIR opens no next row
      (if x.hasNext then observePoint s (traceNextNs i x) r1 i 1 else []))
  let r2 := r1 + 1
  -- 3. quotient round: flat matrix counter across all instances' chunks
  let sec3 := numberFrom 0 (chunkList s) (fun t m => observePoint s (quotNs s.D t.2.1 t.2.2) r2 m 0)
  let r3 := r2 + 1
  -- 4. preprocessed round: counter over the instances that have preprocessed columns
  let sec4 := if s.insts.any hasPre then
      -- the random vectors found at `fri_random_rounds[r3][m][p]` are empty (zero-padded commitment)
      numberFrom 0 (idx.filter fun xi => hasPre xi.1) (fun xi m =>
        observePoint { s with nrc := 0 } (preLocalNs xi.2 xi.1) r3 m 0 ++
          (if xi.1.preNext then observePoint { s with nrc := 0 } (preNextNs xi.2 xi.1) r3 m 1 else []))
    else []
  let r4 := if s.insts.any hasPre then r3 + 1 else r3
  -- 5. permutation round
  let sec5 := if s.insts.any hasLookup then
      numberFrom 0 (idx.filter fun xi => hasLookup xi.1) (fun xi m =>
        observePoint s (permLocalNs s.D xi.2 xi.1) r4 m 0 ++ observePoint s (permNextNs s.D xi.2 xi.1) r4 m 1)
    else []
  sec1 ++ sec2 ++ sec3 ++ sec4 ++ sec5

/-- `coms_to_verify` of `verify_batch_circuit`. -/
def circuitBatchRounds (s : Shape) : List Round :=
  let idx := s.insts.zipIdx
  (if s.zk then
      [{ com := Name.randCom,
         mats := idx.map fun (x, i) => { logSize := x.degreeBits, openings := [⟨Pt.zeta, randNs s.D i⟩] } }]
    else [])
  ++ [{ com := Name.traceCom,
        mats := idx.map fun (x, i) =>
          { logSize := x.degreeBits,
            openings := [⟨Pt.zeta, traceLocalNs i x⟩]
              ++ (if x.hasNext then [⟨Pt.zetaNext i, traceNextNs i x⟩] else []) } }]
  ++ [{ com := Name.quotCom,
        mats := (chunkList s).map fun t =>
          { logSize := t.1.degreeBits, openings := [⟨Pt.zeta, quotNs s.D t.2.1 t.2.2⟩] } }]
  ++ (if s.insts.any hasPre then
      [{ com := Name.preCom,
         -- always two points: the circuit requires the next-row opening (see `circuitBatchValidate`)
         mats := (idx.filter fun xi => hasPre xi.1).map fun (x, i) =>
           { logSize := x.degreeBits,
             openings := [⟨Pt.zeta, preLocalNs i x⟩, ⟨Pt.zetaNext i, preNextNs i x⟩] } }]
    else [])
  ++ (if s.insts.any hasLookup then
      [{ com := Name.permCom,
         mats := (idx.filter fun xi => hasLookup xi.1).map fun (x, i) =>
           { logSize := x.degreeBits,
             openings := [⟨Pt.zeta, permLocalNs s.D i x⟩, ⟨Pt.zetaNext i, permNextNs s.D i x⟩] } }]
    else [])

/-- Build-time shape validation of `verify_batch_circuit` that depends on the AIRs: the
preprocessed next-row opening must have the full preprocessed width
("Instance has incorrect preprocessed width"). -/
def circuitBatchValidate (s : Shape) : Except String Unit :=
  if s.insts.isEmpty then .error "batch-STARK verification requires at least one instance"
  else if s.insts.all (fun x => !hasPre x || x.preNext) then .ok ()
  else .error "Instance has incorrect preprocessed width"

def circuitBatch (s : Shape) : Except String Script := do
  circuitBatchValidate s
  let idx := s.insts.zipIdx
  let anyLookup := s.insts.any hasLookup
  let rounds := circuitBatchRounds s
  -- merge_hiding_random_openings (HidingFriPcs::verify_circuit)
  let merged := if s.zk then mergeRandom s.nrc rounds else rounds
  pure
    { events :=
        [Ev.obsConst Enc.ext s.insts.length]
        ++ idx.flatMap (fun (x, _) =>
            [Ev.obsConst Enc.ext x.degreeBits, Ev.obsConst Enc.ext (x.degreeBits - zkNat s),
             Ev.obsConst Enc.ext x.width, Ev.obsConst Enc.ext x.nChunks])
        ++ [Ev.obs Name.traceCom] ++ idx.flatMap (fun (x, i) => (pubNs i x).map Ev.obs)
        ++ idx.map (fun (x, _) => Ev.obsConst Enc.ext x.preW)
        ++ (if s.insts.any hasPre then [Ev.obs Name.preCom] else [])
        -- get_perm_challenges
        ++ (if anyLookup then [Ev.sample Chal.permAlpha, Ev.sample Chal.permBeta] else [])
        -- permutation commitment and the present terminals
        ++ (if anyLookup then
              [Ev.obs Name.permCom]
                ++ idx.filterMap (fun (x, i) => if hasLookup x then some (Ev.obs (Name.terminal i)) else none)
            else [])
        ++ [Ev.sample Chal.alpha]
        ++ [Ev.obs Name.quotCom] ++ (if s.zk then [Ev.obs Name.randCom] else [])
        ++ [Ev.sample Chal.zeta]
        ++ circuitObserveOpened s
        ++ circuitFri s,
      checks :=
        [Check.pcs merged (friElems s)]
        ++ idx.map (fun (x, i) => Check.ood i (oodOperands s.D i x))
        ++ [Check.terminalSum (idx.filterMap fun (x, i) => if hasLookup x then some (Name.terminal i) else none)] }

/-! ### uni-STARK (one instance, no lookups) -/

def uniInst (s : Shape) : Inst := s.insts.headD ⟨0, 0, 0, true, true, 0, 0, 0⟩

def nativeUniRounds (s : Shape) : List Round :=
  let x := uniInst s
  (if s.zk then [{ com := Name.randCom, mats := [{ logSize := x.degreeBits, openings := [⟨Pt.zeta, randNs s.D 0⟩] }] }] else [])
  ++ [{ com := Name.traceCom,
        mats := [{ logSize := x.degreeBits,
                   openings := [⟨Pt.zeta, traceLocalNs 0 x⟩]
                     ++ (if x.hasNext then [⟨Pt.zetaNext 0, traceNextNs 0 x⟩] else []) }] }]
  ++ [{ com := Name.quotCom,
        mats := (List.range x.nChunks).map fun c =>
          { logSize := x.degreeBits, openings := [⟨Pt.zeta, quotNs s.D 0 c⟩] } }]
  ++ (if hasPre x then
      [{ com := Name.preCom,
         mats := [{ logSize := x.degreeBits,
                    openings := [⟨Pt.zeta, preLocalNs 0 x⟩]
                      ++ (if x.preNext then [⟨Pt.zetaNext 0, preNextNs 0 x⟩] else []) }] }]
    else [])

def nativeUni (s : Shape) : Script :=
  let x := uniInst s
  let rounds := nativeUniRounds s
  let merged := if s.zk then mergeRandom s.nrc rounds else rounds
  { events :=
      [Ev.obsConst Enc.base x.degreeBits, Ev.obsConst Enc.base (x.degreeBits - zkNat s),
       Ev.obsConst Enc.base x.preW]
      ++ [Ev.obs Name.traceCom]
      ++ (if hasPre x then [Ev.obs Name.preCom] else [])
      ++ (pubNs 0 x).map Ev.obs
      ++ [Ev.sample Chal.alpha]
      ++ [Ev.obs Name.quotCom] ++ (if s.zk then [Ev.obs Name.randCom] else [])
      ++ [Ev.sample Chal.zeta]
      ++ observeRounds merged
      ++ nativeFri s,
    checks := [Check.pcs merged (friElems s), Check.ood 0 (oodOperands s.D 0 x)] }

/-- `validate_proof_shape` of the uni circuit: the preprocessed next-row opening must have full
width. (The trace next-row opening is required only when the AIR opens the next row —
`opens_trace_next`, fixes/C01-1 — and the prover produces it exactly then, so no shape of this
model fails that test.) -/
def circuitUniValidate (s : Shape) : Except String Unit :=
  let x := uniInst s
  if hasPre x && !x.preNext then .error "Expected preprocessed width"
  else .ok ()

def circuitUniRounds (s : Shape) : List Round :=
  let x := uniInst s
  (if s.zk then [{ com := Name.randCom, mats := [{ logSize := x.degreeBits, openings := [⟨Pt.zeta, randNs s.D 0⟩] }] }] else [])
  ++ [{ com := Name.traceCom,
        mats := [{ logSize := x.degreeBits,
                   -- the `zeta_next` point only when the AIR opens the next row (fixes/C01-1)
                   openings := [⟨Pt.zeta, traceLocalNs 0 x⟩]
                     ++ (if x.hasNext then [⟨Pt.zetaNext 0, traceNextNs 0 x⟩] else []) }] }]
  ++ [{ com := Name.quotCom,
        mats := (List.range x.nChunks).map fun c =>
          { logSize := x.degreeBits, openings := [⟨Pt.zeta, quotNs s.D 0 c⟩] } }]
  ++ (if hasPre x then
      [{ com := Name.preCom,
         mats := [{ logSize := x.degreeBits,
                    openings := [⟨Pt.zeta, preLocalNs 0 x⟩, ⟨Pt.zetaNext 0, preNextNs 0 x⟩] }] }]
    else [])

/-- The shape the uni circuit hands to the batch routine: the one instance, lookups disabled
(`instances = [inst]`, `quotient_degrees = [number of chunk openings]`, `is_lookup = false`). -/
def uniAsBatch (s : Shape) : Shape :=
  { s with insts := [{ uniInst s with nLookups := 0 }] }

/-- Opened-value observation of the uni circuit (`get_circuit_challenges`, since b026681):
`observe_opened_values_circuit` of the batch verifier on the single instance, with
`fri_random_rounds = get_fri_random_opened_values(opening_proof)` — so for the hiding PCS every
(round, matrix, point) value vector is followed by its random vector, in the PCS round order
[random (ZK), trace, quotient chunks, preprocessed]. (Before b026681 this was
`OpenedValuesTargetsWithLookups::observe`, which has no random values: finding F-C01-4.) -/
def circuitUniObserveOpened (s : Shape) : List Ev := circuitObserveOpened (uniAsBatch s)

def circuitUni (s : Shape) : Except String Script := do
  circuitUniValidate s
  let x := uniInst s
  let rounds := circuitUniRounds s
  let merged := if s.zk then mergeRandom s.nrc rounds else rounds
  pure
    { events :=
        [Ev.obsConst Enc.base x.degreeBits, Ev.obsConst Enc.base (x.degreeBits - zkNat s),
         Ev.obsConst Enc.base x.preW]
        ++ [Ev.obs Name.traceCom]
        ++ (if hasPre x then [Ev.obs Name.preCom] else [])
        ++ (pubNs 0 x).map Ev.obs
        ++ [Ev.sample Chal.alpha]
        ++ [Ev.obs Name.quotCom] ++ (if s.zk then [Ev.obs Name.randCom] else [])
        ++ [Ev.sample Chal.zeta]
        ++ circuitUniObserveOpened s
        ++ circuitFri s,
      checks := [Check.pcs merged (friElems s), Check.ood 0 (oodOperands s.D 0 x)] }

/-! ### element inventory and script projections -/

/-- Every element of a batch proof of this shape (plus public values and the preprocessed
commitment of the verifying data). Proof-of-work witnesses are elements only when their
bit count is positive (with 0 bits neither verifier reads them). -/
def elements (s : Shape) : List Name :=
  let idx := s.insts.zipIdx
  [Name.traceCom, Name.quotCom]
  ++ (if s.zk then [Name.randCom] else [])
  ++ (if s.insts.any hasLookup then [Name.permCom] else [])
  ++ (if s.insts.any hasPre then [Name.preCom] else [])
  ++ idx.flatMap (fun (x, i) =>
      pubNs i x ++ traceLocalNs i x ++ traceNextNs i x ++ preLocalNs i x ++ preNextNs i x
        ++ (List.range x.nChunks).flatMap (quotNs s.D i)
        ++ (if s.zk then randNs s.D i else [])
        ++ permLocalNs s.D i x ++ permNextNs s.D i x
        ++ (if hasLookup x then [Name.terminal i] else []))
  ++ friElems s
  ++ (if s.commitPowBits = 0 then [] else (List.range s.friRounds).map Name.commitPow)
  ++ (if s.queryPowBits = 0 then [] else [Name.queryPow])

def Ev.names : Ev → List Name
  | .obs n => [n]
  | .pow _ w => [w]
  | _ => []

def Check.names : Check → List Name
  | .pcs rounds fri =>
      rounds.flatMap (fun r => r.com :: r.mats.flatMap fun m => m.openings.flatMap (·.values)) ++ fri
  | .ood _ ops => ops
  | .terminalSum ts => ts

def Script.observed (sc : Script) : List Name := sc.events.flatMap Ev.names
def Script.checked (sc : Script) : List Name := sc.checks.flatMap Check.names

/-! ### rendering for the correspondence driver -/

/-- number of base-field elements absorbed / squeezed by one event (`D` = extension degree,
`dg` = digest words per commitment) -/
def Name.baseLen (D dg : Nat) : Name → Nat
  | .traceCom | .quotCom | .randCom | .permCom | .preCom | .friCommit _ => dg
  | .pub _ _ | .commitPow _ | .queryPow => 1
  | .query _ => 0
  | _ => D

/-- compressed transcript structure: `o<n>` observed base elements, `s<n>` sampled base
elements, `b<k>` k sampled bits -/
def renderEvents (D dg logMaxH : Nat) (evs : List Ev) : List (Char × Nat) :=
  let raw : List (Char × Nat) := evs.flatMap fun e =>
    match e with
    | .obsConst .base _ => [('o', 1)]
    | .obsConst .ext _ => [('o', D)]
    | .obs n => [('o', n.baseLen D dg)]
    | .sample _ => [('s', D)]
    | .pow bits _ => [('o', 1), ('b', bits)]
    | .sampleIndex _ => [('b', logMaxH)]
  raw.foldl (fun acc (c, n) =>
    if n = 0 then acc else
    match acc.getLast? with
    | some (c', n') => if c' = c ∧ (c = 'o' ∨ c = 's') then acc.dropLast ++ [(c, n' + n)] else acc ++ [(c, n)]
    | none => [(c, n)]) []

/-! ### below script granularity: input-batch heights (L10) — record

`p3_fri::verifier::open_input` verifies each input batch at `index >> (log_global_max_height −
log_batch_max_height)`. Until 93b4a80 the circuit's `open_input` handed the unreduced index bits to
the MMCS gadget, so a commitment round whose tallest matrix is shorter than the tallest matrix
overall could not be fed the honest proof (finding F-C01-5, fixed). Now `batch_index_bits =
index_bits[bits_reduced..]`; the script model never depended on it, and the driver predicts
`accept` for such shapes (regression target `batch/*/short-pre`). -/

/-- number of base-field scalars per element class, as they appear in the serialised proof -/
def inventory (dg : Nat) (s : Shape) (rounds : List Round) : List (String × Nat) :=
  let names := elements s
  let cnt (p : Name → Bool) (w : Nat) := (names.filter p).length * w
  let merged := if s.zk then mergeRandom s.nrc rounds else rounds
  let friRand := (merged.flatMap fun r => r.mats.flatMap fun m => m.openings.flatMap (·.values)).filter
    (fun n => match n with | .friRand .. => true | _ => false)
  [("com", cnt (fun n => match n with
      | .traceCom | .quotCom | .randCom | .permCom | .preCom => true | _ => false) dg),
   ("pub", cnt (fun n => match n with | .pub .. => true | _ => false) 1),
   ("opened", cnt (fun n => match n with
      | .traceLocal .. | .traceNext .. | .preLocal .. | .preNext .. | .quot .. | .rand ..
      | .permLocal .. | .permNext .. => true | _ => false) s.D),
   ("terminal", cnt (fun n => match n with | .terminal _ => true | _ => false) s.D),
   ("fricom", cnt (fun n => match n with | .friCommit _ => true | _ => false) dg),
   ("final", cnt (fun n => match n with | .finalPoly _ => true | _ => false) s.D),
   ("pow", cnt (fun n => match n with | .commitPow _ | .queryPow => true | _ => false) 1),
   ("frirand", friRand.length * s.D)]

end P3R.VerifierScript
