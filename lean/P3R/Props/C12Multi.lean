/-
C12 — bits, all limbs: `decompose_to_bits(x, n)` over an extension field `L ⊇ F_p`, for every
width `n ≤ w·D` (`w = BF::bits()`), model `P3R.Model.DecompGen` (`bitsAcceptMulti`).

`L` is any commutative domain of characteristic `p` (so the `BoolCheck` rows force 0/1) with
elements `e_0 … e_{D-1}` that are independent over the prime field (`PrimeIndep`; for the
power basis of `F_p[X]/(m)` see `P3R.Props.C12Basis`).

* `reconMulti_eq_sum` — the multi-limb `mul_add` chain computes `Σ_i e_i · recon(chunk_i)`;
* `multi_accept_iff` — **the multi-limb relation accepts `bits` for `x = Σ v_i·e_i` iff every
  chunk is accepted by the single-limb repaired relation `bitsAcceptFixed` for `v_i`**
  (chunks beyond the end are empty and force `v_i = 0`);
* `multi_accept_iff_canon`, `multi_canonical` — hence (with `accept_fixed_iff`) iff every chunk
  is the canonical expansion of `v_i` and `v_i` fits: the full statement of C12 for bits holds
  for every width and every limb count;
* `single_limb_of_multi` — `D = 1`, `e_0 = 1` is the single-limb relation (call-site inventory:
  every `decompose_to_bits` call of `/repo/recursion` has `n = BF::bits()`, one limb).
-/
import P3R.Model.DecompGen
import P3R.Props.C12

set_option linter.unusedSectionVars false

namespace P3R.C12
open P3R.Decomp

section BitsMulti
variable {L : Type} [CommRing L] [IsDomain L] [DecidableEq L]

/-- The `mul_add` chain is affine in the accumulator and linear in the start constant. -/
theorem reconGo_linear (bs : List L) (pow acc : L) :
    reconGo bs pow acc = acc + pow * reconBits bs := by
  unfold reconBits
  induction bs generalizing pow acc with
  | nil => simp [reconGo]
  | cons b bs ih =>
    rw [reconGo, ih (pow + pow), reconGo, ih (1 + 1) (b * 1 + 0)]
    ring

theorem foldl_acc_eq_sum (f : ℕ → L) (D : ℕ) :
    (List.range D).foldl (fun acc i => acc + f i) 0 = ∑ i ∈ Finset.range D, f i := by
  induction D with
  | zero => simp
  | succ D ih => rw [List.range_succ, List.foldl_append, ih, Finset.sum_range_succ]; simp

theorem reconMulti_eq_sum (w D : ℕ) (e : ℕ → L) (bits : List L) :
    reconMulti w D e bits = ∑ i ∈ Finset.range D, e i * reconBits (chunkAt w i bits) := by
  unfold reconMulti
  have : (fun (acc : L) (i : ℕ) => reconGo (chunkAt w i bits) (e i) acc) =
      fun acc i => acc + e i * reconBits (chunkAt w i bits) := by
    funext acc i; exact reconGo_linear _ _ _
  rw [this]
  exact foldl_acc_eq_sum _ D

/-- Independence of `e_0 … e_{D-1}` over the prime field, in the form the gadget needs. -/
def PrimeIndep (e : ℕ → L) (D : ℕ) : Prop :=
  ∀ a b : ℕ → ℕ, ∑ i ∈ Finset.range D, e i * (a i : L) = ∑ i ∈ Finset.range D, e i * (b i : L) →
    ∀ i < D, (a i : L) = (b i : L)

theorem chunkAt_length_le (w i : ℕ) (bits : List L) : (chunkAt w i bits).length ≤ w := by
  simp [chunkAt, List.length_take]

theorem mem_of_mem_chunkAt (w i : ℕ) (bits : List L) (b : L) (h : b ∈ chunkAt w i bits) :
    b ∈ bits :=
  List.mem_of_mem_drop (List.mem_of_mem_take h)

/-- Every element of a list of length `≤ w·D` lies in one of the first `D` chunks. -/
theorem exists_chunk_of_mem (w D : ℕ) (hw : 0 < w) (bits : List L) (hn : bits.length ≤ w * D)
    (b : L) (h : b ∈ bits) : ∃ i < D, b ∈ chunkAt w i bits := by
  obtain ⟨k, hk, rfl⟩ := List.getElem_of_mem h
  refine ⟨k / w, ?_, ?_⟩
  · rw [Nat.div_lt_iff_lt_mul hw]; calc k < bits.length := hk
      _ ≤ w * D := hn
      _ = D * w := Nat.mul_comm _ _
  · have hk' : k / w * w + k % w = k := by rw [Nat.mul_comm]; exact Nat.div_add_mod k w
    have hlt : k % w < w := Nat.mod_lt _ hw
    unfold chunkAt
    rw [List.mem_iff_getElem]
    refine ⟨k % w, ?_, ?_⟩
    · rw [List.length_take, List.length_drop]; omega
    · rw [List.getElem_take, List.getElem_drop]
      congr 1

variable (p : ℕ) [CharP L p]

/-- **C12 / bits, all limbs: reduction to the single-limb relation.** For `x = Σ v_i·e_i`
with canonical coefficients `v_i < p` and `n = bits.length ≤ w·D`, the relation of
`decompose_to_bits(x, n)` holds iff chunk `i` satisfies the single-limb relation for `v_i`,
for every `i < D`. -/
theorem multi_accept_iff (w D : ℕ) (hw : 0 < w) (e : ℕ → L) (hind : PrimeIndep e D)
    (bits : List L) (hn : bits.length ≤ w * D) (v : ℕ → ℕ) :
    bitsAcceptMulti p w D e (∑ i ∈ Finset.range D, e i * (v i : L)) bits = true ↔
      ∀ i < D, bitsAcceptFixed p w (v i : L) (chunkAt w i bits) = true := by
  unfold bitsAcceptMulti bitsAcceptFixed bitsAccept
  simp only [Bool.and_eq_true, beq_iff_eq, List.all_eq_true, List.mem_range]
  constructor
  · rintro ⟨⟨hb, hr⟩, hm⟩ i hi
    have hbi : ∀ j < D, ∀ b ∈ chunkAt w j bits, boolOk b = true := fun j _ b hb' =>
      hb b (mem_of_mem_chunkAt w j bits b hb')
    -- every chunk is the expansion of some `m j`
    have hex : ∀ j, ∃ m : ℕ, j < D → reconBits (chunkAt w j bits) = (m : L) := by
      intro j
      by_cases hj : j < D
      · obtain ⟨m, hm', hbits⟩ := all_bool_exists (chunkAt w j bits)
          (List.all_eq_true.2 (hbi j hj))
        refine ⟨m, fun _ => ?_⟩
        rw [hbits, reconBits_canon _ m hm']
      · exact ⟨0, fun h => absurd h hj⟩
    choose m hm' using hex
    rw [reconMulti_eq_sum] at hr
    have hsum : ∑ i ∈ Finset.range D, e i * (m i : L) = ∑ i ∈ Finset.range D, e i * (v i : L) := by
      rw [← hr]
      exact Finset.sum_congr rfl fun j hj => by rw [hm' j (Finset.mem_range.1 hj)]
    have := hind m v hsum i hi
    exact ⟨⟨hbi i hi, by rw [hm' i hi, this]⟩, hm i hi⟩
  · intro h
    refine ⟨⟨fun b hb => ?_, ?_⟩, fun i hi => (h i hi).2⟩
    · obtain ⟨i, hi, hbi⟩ := exists_chunk_of_mem w D hw bits hn b hb
      exact (h i hi).1.1 b hbi
    · rw [reconMulti_eq_sum]
      exact Finset.sum_congr rfl fun j hj => by rw [(h j (Finset.mem_range.1 hj)).1.2]

/-- **C12 / bits, all limbs: complete characterisation.** With `w = BF::bits()`
(`2^(w-1) ≤ p < 2^w`) the accepted slot contents are exactly: every chunk is the canonical
expansion of the corresponding coefficient (which must fit in the chunk). -/
theorem multi_accept_iff_canon (w D : ℕ) (hw : 0 < w) (hlow : 2 ^ (w - 1) ≤ p) (hp : p < 2 ^ w)
    (e : ℕ → L) (hind : PrimeIndep e D) (bits : List L) (hn : bits.length ≤ w * D)
    (v : ℕ → ℕ) (hv : ∀ i < D, v i < p) :
    bitsAcceptMulti p w D e (∑ i ∈ Finset.range D, e i * (v i : L)) bits = true ↔
      ∀ i < D, v i < 2 ^ (chunkAt w i bits).length ∧
        chunkAt w i bits = canonBits (chunkAt w i bits).length (v i) := by
  rw [multi_accept_iff p w D hw e hind bits hn v]
  refine forall_congr' fun i => forall_congr' fun hi => ?_
  exact accept_fixed_iff p w _ hlow hp (chunkAt_length_le w i bits) _ rfl (v i) (hv i hi)

/-- **C12 / bits: the full statement holds for every width and limb count.** -/
theorem multi_canonical (w D : ℕ) (hw : 0 < w) (hlow : 2 ^ (w - 1) ≤ p) (hp : p < 2 ^ w)
    (e : ℕ → L) (hind : PrimeIndep e D) (bits : List L) (hn : bits.length ≤ w * D)
    (v : ℕ → ℕ) (hv : ∀ i < D, v i < p)
    (hacc : bitsAcceptMulti p w D e (∑ i ∈ Finset.range D, e i * (v i : L)) bits = true) :
    ∀ i < D, chunkAt w i bits = canonBits (chunkAt w i bits).length (v i) := fun i hi =>
  ((multi_accept_iff_canon p w D hw hlow hp e hind bits hn v hv).1 hacc i hi).2

omit [IsDomain L] [CharP L p] in
/-- One limb, `e_0 = 1`: the multi-limb relation is the single-limb relation of
`P3R.Model.Decomp` (what every call site in `/repo/recursion` instantiates). -/
theorem single_limb_of_multi (w : ℕ) (e : ℕ → L) (he : e 0 = 1) (x : L) (bits : List L)
    (hn : bits.length ≤ w) :
    bitsAcceptMulti p w 1 e x bits = bitsAcceptFixed p w x bits := by
  have hc : chunkAt w 0 bits = bits := by
    simp [chunkAt, List.take_of_length_le hn]
  unfold bitsAcceptMulti bitsAcceptFixed bitsAccept reconMulti
  simp [hc, he, reconBits]

omit [CharP L p] in
/-- **Call-site shape.** A decomposition of at most one limb inside a degree-`D` circuit
(`sample_bits`: `decompose_to_bits::<BF>(base_sample, BF::bits())` in a `CircuitBuilder<EF>`):
the chunks `1 … D-1` are empty and the multi-limb relation is the single-limb relation of
`P3R.Model.Decomp`, for every `D ≥ 1`. -/
theorem one_limb_of_multi (w D : ℕ) (hw : 0 < w) (hD : 0 < D) (e : ℕ → L) (he : e 0 = 1) (x : L)
    (bits : List L) (hn : bits.length ≤ w) :
    bitsAcceptMulti p w D e x bits = bitsAcceptFixed p w x bits := by
  have hc0 : chunkAt w 0 bits = bits := by
    simp [chunkAt, List.take_of_length_le hn]
  have hci : ∀ i, 0 < i → chunkAt w i bits = [] := by
    intro i hi
    have : bits.length ≤ i * w := le_trans hn (Nat.le_mul_of_pos_left w hi)
    simp [chunkAt, List.drop_of_length_le this]
  have hrec : reconMulti w D e bits = reconBits bits := by
    rw [reconMulti_eq_sum, Finset.sum_eq_single 0]
    · rw [hc0, he, one_mul]
    · intro i _ hi
      rw [hci i (Nat.pos_of_ne_zero hi)]
      simp [reconBits, reconGo]
    · intro h; exact absurd (Finset.mem_range.2 hD) h
  have hall : ((List.range D).all fun i =>
      (chunkAt w i bits).length != w || belowModulus p (chunkAt w i bits)) =
      (bits.length != w || belowModulus p bits) := by
    rw [Bool.eq_iff_iff, List.all_eq_true]
    constructor
    · intro h; simpa [hc0] using h 0 (List.mem_range.2 hD)
    · intro h i _
      by_cases hi : i = 0
      · subst hi; simpa [hc0] using h
      · rw [hci i (Nat.pos_of_ne_zero hi)]
        have : (0 : ℕ) ≠ w := by omega
        simp [this]
  unfold bitsAcceptMulti bitsAcceptFixed bitsAccept
  rw [hrec, hall]

/-! ### field instances (`w = BF::bits()`), every degree `D`, every width `n ≤ w·D` -/

/-- BabyBear (`p = 2^31 - 2^27 + 1`, `w = 31`). -/
theorem babybear_multi_canonical [CharP L 2013265921] (D : ℕ) (e : ℕ → L) (hind : PrimeIndep e D)
    (bits : List L) (hn : bits.length ≤ 31 * D) (v : ℕ → ℕ) (hv : ∀ i < D, v i < 2013265921)
    (hacc : bitsAcceptMulti 2013265921 31 D e (∑ i ∈ Finset.range D, e i * (v i : L)) bits = true) :
    ∀ i < D, chunkAt 31 i bits = canonBits (chunkAt 31 i bits).length (v i) :=
  multi_canonical 2013265921 31 D (by norm_num) (by norm_num) (by norm_num) e hind bits hn v hv hacc

/-- KoalaBear (`p = 2^31 - 2^24 + 1`, `w = 31`), in particular the quintic extension `D = 5`. -/
theorem koalabear_multi_canonical [CharP L 2130706433] (D : ℕ) (e : ℕ → L) (hind : PrimeIndep e D)
    (bits : List L) (hn : bits.length ≤ 31 * D) (v : ℕ → ℕ) (hv : ∀ i < D, v i < 2130706433)
    (hacc : bitsAcceptMulti 2130706433 31 D e (∑ i ∈ Finset.range D, e i * (v i : L)) bits = true) :
    ∀ i < D, chunkAt 31 i bits = canonBits (chunkAt 31 i bits).length (v i) :=
  multi_canonical 2130706433 31 D (by norm_num) (by norm_num) (by norm_num) e hind bits hn v hv hacc

/-- Goldilocks (`p = 2^64 - 2^32 + 1`, `w = 64`). -/
theorem goldilocks_multi_canonical [CharP L 18446744069414584321] (D : ℕ) (e : ℕ → L)
    (hind : PrimeIndep e D) (bits : List L) (hn : bits.length ≤ 64 * D) (v : ℕ → ℕ)
    (hv : ∀ i < D, v i < 18446744069414584321)
    (hacc : bitsAcceptMulti 18446744069414584321 64 D e
      (∑ i ∈ Finset.range D, e i * (v i : L)) bits = true) :
    ∀ i < D, chunkAt 64 i bits = canonBits (chunkAt 64 i bits).length (v i) :=
  multi_canonical 18446744069414584321 64 D (by norm_num) (by norm_num) (by norm_num) e hind bits hn
    v hv hacc

end BitsMulti

end P3R.C12
