/-
Helper lemmas for C05: list surgery of the sponge (`overwrite` / `zeroFill` / `modAt`),
coefficient vectors (`embed`, `vadd`, recomposition), chunking, little-endian bits.
-/
import P3R.Model.CircuitChallenger
import Mathlib.Algebra.Ring.Defs
import Mathlib.Algebra.Ring.Basic
import Mathlib.Data.Nat.Cast.Basic
import Mathlib.Data.List.Basic
import Mathlib.Tactic.Ring
import Mathlib.Tactic.Linarith

set_option linter.unusedSectionVars false
set_option linter.unusedSimpArgs false

namespace P3R.C05L
open P3R.Duplex P3R.CC

section lists
variable {α β : Type}

theorem map_overwrite (f : α → β) (s xs : List α) :
    (overwrite s xs).map f = overwrite (s.map f) (xs.map f) := by
  simp [overwrite, List.map_drop]

theorem map_zeroFill (f : α → β) (z : α) (n rate : Nat) (s : List α) :
    (zeroFill z n rate s).map f = zeroFill (f z) n rate (s.map f) := by
  simp [zeroFill, List.map_take, List.map_drop]

theorem map_modAt (f : α → α) (f' : β → β) (g : α → β) (h : ∀ x, g (f x) = f' (g x)) :
    ∀ (i : Nat) (l : List α), (modAt f i l).map g = modAt f' i (l.map g)
  | _, [] => by simp [modAt]
  | 0, x :: xs => by simp [modAt, h]
  | i + 1, x :: xs => by simp [modAt, map_modAt f f' g h i xs]

theorem length_modAt (f : α → α) : ∀ (i : Nat) (l : List α), (modAt f i l).length = l.length
  | _, [] => by simp [modAt]
  | 0, x :: xs => by simp [modAt]
  | i + 1, x :: xs => by simp [modAt, length_modAt f i xs]

theorem map_preAbsorb (f : α → β) (z : α) (rate : Nat) (s xs : List α) :
    (preAbsorb z rate s xs).map f = preAbsorb (f z) rate (s.map f) (xs.map f) := by
  unfold preAbsorb
  by_cases h : xs.length = 0
  · simp [h, map_overwrite]
  · simp [h, map_zeroFill, map_overwrite]

theorem length_overwrite (s xs : List α) (h : xs.length ≤ s.length) :
    (overwrite s xs).length = s.length := by
  simp [overwrite]; omega

theorem drop_overwrite (s xs : List α) (r : Nat) (h : xs.length ≤ r) :
    (overwrite s xs).drop r = s.drop r := by
  unfold overwrite
  obtain ⟨k, rfl⟩ := Nat.exists_eq_add_of_le h
  rw [List.drop_length_add_append, List.drop_drop]

theorem length_zeroFill (z : α) (n rate : Nat) (s : List α) (h1 : n ≤ rate) (h2 : rate ≤ s.length) :
    (zeroFill z n rate s).length = s.length := by
  simp [zeroFill]; omega

theorem drop_zeroFill (z : α) (n rate : Nat) (s : List α) (h1 : n ≤ rate) (h2 : rate ≤ s.length) :
    (zeroFill z n rate s).drop rate = s.drop rate := by
  unfold zeroFill
  apply List.drop_left'
  simp; omega

theorem length_preAbsorb (z : α) (rate : Nat) (s xs : List α) (h1 : xs.length ≤ rate)
    (h2 : rate ≤ s.length) : (preAbsorb z rate s xs).length = s.length := by
  unfold preAbsorb
  have hl : (overwrite s xs).length = s.length := length_overwrite s xs (by omega)
  split
  · exact hl
  · rw [length_zeroFill _ _ _ _ h1 (by omega), hl]

theorem drop_preAbsorb (z : α) (rate : Nat) (s xs : List α) (h1 : xs.length ≤ rate)
    (h2 : rate ≤ s.length) : (preAbsorb z rate s xs).drop rate = s.drop rate := by
  unfold preAbsorb
  have hl : (overwrite s xs).length = s.length := length_overwrite s xs (by omega)
  split
  · exact drop_overwrite s xs rate h1
  · rw [drop_zeroFill _ _ _ _ h1 (by omega), drop_overwrite s xs rate h1]

/-- rate from the new inputs, capacity from the old state = the whole pre-absorb state. -/
theorem take_pre_append_drop (z : α) (rate : Nat) (s xs : List α) (h1 : xs.length ≤ rate)
    (h2 : rate ≤ s.length) :
    (preAbsorb z rate s xs).take rate ++ s.drop rate = preAbsorb z rate s xs := by
  rw [← drop_preAbsorb z rate s xs h1 h2, List.take_append_drop]

theorem length_tagAbsorb (f : Nat → α → α) (rate n : Nat) (s : List α) :
    (tagAbsorb f rate n s).length = s.length := by
  unfold tagAbsorb; split <;> simp [length_modAt]

theorem map_tagAbsorb (f : Nat → α → α) (f' : Nat → β → β) (g : α → β)
    (h : ∀ n x, g (f n x) = f' n (g x)) (rate n : Nat) (s : List α) :
    (tagAbsorb f rate n s).map g = tagAbsorb f' rate n (s.map g) := by
  unfold tagAbsorb; split
  · rfl
  · exact map_modAt _ _ _ (h n) _ _

/-- Cutting a list of length `m * D` into `m` chunks of `D` and concatenating them is the identity. -/
theorem flatten_chunks (D : Nat) : ∀ (m : Nat) (l : List α), l.length = m * D →
    ((List.range m).map fun i => chunk D l i).flatten = l
  | 0, l, h => by
    have : l = [] := List.length_eq_zero_iff.mp (by simpa using h)
    simp [this]
  | m + 1, l, h => by
    rw [List.range_succ_eq_map, List.map_cons, List.map_map, List.flatten_cons]
    have hd : (l.drop D).length = m * D := by simp [h]; ring_nf; omega
    have ih := flatten_chunks D m (l.drop D) hd
    have e : ((fun i => chunk D l i) ∘ Nat.succ) = fun i => chunk D (l.drop D) i := by
      funext i
      simp only [Function.comp, chunk, List.drop_drop]
      congr 2; rw [Nat.succ_mul]; ring
    rw [e, ih]
    simp [chunk]

theorem length_chunk (D : Nat) (l : List α) (i m : Nat) (h : l.length = m * D) (hi : i < m) :
    (chunk D l i).length = D := by
  unfold chunk
  rw [List.length_take, List.length_drop, h]
  have : (i + 1) * D ≤ m * D := Nat.mul_le_mul_right D hi
  have : i * D + D ≤ m * D := by linarith [this, Nat.succ_mul i D]
  omega

end lists

section vectors
variable {K : Type} [CommRing K] [DecidableEq K]

@[simp] theorem coeff0_embed (D : Nat) (x : K) : coeff0 (embed D x) = x := rfl

theorem map_coeff0_embed (D : Nat) (l : List K) : (l.map (embed D)).map coeff0 = l := by
  simp [List.map_map, Function.comp_def]

theorem zeroV_eq_embed (D : Nat) (h : 0 < D) : (zeroV D : V K) = embed D 0 := by
  obtain ⟨d, rfl⟩ := Nat.exists_eq_succ_of_ne_zero (Nat.pos_iff_ne_zero.mp h)
  simp [zeroV, embed, List.replicate_succ]

theorem vadd_embed (D : Nat) (a b : K) : vadd (embed D a) (embed D b) = embed D (a + b) := by
  simp [vadd, embed, List.zipWith_replicate]

theorem addTagV_embed (D n : Nat) (x : K) : addTagV D n (embed D x) = embed D (addTag n x) := by
  simp [addTagV, addTag, vadd_embed]

/-- `x · Xⁱ` as a coefficient vector. -/
def unitV (D i : Nat) (x : K) : V K := List.replicate i 0 ++ x :: List.replicate (D - 1 - i) 0

theorem embed_eq_unitV (D : Nat) (x : K) : embed D x = unitV D 0 x := by simp [embed, unitV]

theorem mulX_unitV (W : K) (D i : Nat) (x : K) (h : i + 1 < D) :
    mulX W (unitV D i x) = unitV D (i + 1) x := by
  obtain ⟨k, hk⟩ : ∃ k, D - 1 - i = k + 1 := ⟨D - 2 - i, by omega⟩
  have hk' : D - 1 - (i + 1) = k := by omega
  unfold unitV mulX
  rw [hk, hk', List.replicate_succ', ← List.cons_append, ← List.append_assoc,
    List.getLastD_concat, List.dropLast_concat, mul_zero, List.replicate_succ]
  simp

theorem mulBasis_embed (W : K) (D : Nat) (x : K) : ∀ i, i < D → mulBasis W i (embed D x) = unitV D i x
  | 0, _ => by simp [mulBasis, embed_eq_unitV]
  | i + 1, h => by
    rw [mulBasis, mulBasis_embed W D x i (by omega), mulX_unitV W D i x h]

theorem zipWith_zero_left : ∀ (l : List K), List.zipWith (· + ·) (List.replicate l.length (0 : K)) l = l
  | [] => rfl
  | a :: l => by simp [List.replicate_succ, zipWith_zero_left l]

theorem recomposeAluGo_embed (W : K) (D : Nat) : ∀ (xs done : List K),
    done.length + xs.length = D →
    recomposeAluGo W done.length (xs.map (embed D)) (done ++ List.replicate (D - done.length) 0)
      = done ++ xs
  | [], done, h => by
    have : D - done.length = 0 := by simp at h; omega
    simp [recomposeAluGo, this]
  | x :: xs, done, h => by
    simp only [List.length_cons] at h
    obtain ⟨k, hk⟩ : ∃ k, D - done.length = k + 1 := ⟨D - done.length - 1, by omega⟩
    have hk2 : D - 1 - done.length = k := by omega
    have step : vadd (mulBasis W done.length (embed D x)) (done ++ List.replicate (D - done.length) 0)
        = (done ++ [x]) ++ List.replicate (D - (done ++ [x]).length) 0 := by
      rw [mulBasis_embed W D x _ (by omega)]
      have hk3 : D - (done ++ [x]).length = k := by simp; omega
      unfold unitV vadd
      rw [hk, hk2, hk3, List.replicate_succ, List.zipWith_append (by simp), zipWith_zero_left]
      simp [List.zipWith_replicate]
    rw [List.map_cons, recomposeAluGo, step]
    have := recomposeAluGo_embed W D xs (done ++ [x]) (by simp; omega)
    simpa using this

/-- Recomposing the embeddings of `D` base elements gives the element with those coefficients
    — for the table closure and for the ALU chain alike. -/
theorem recompose_embed (c : Cfg K) (xs : List K) (h : xs.length = c.D) :
    recompose c (xs.map (embed c.D)) = xs := by
  unfold recompose
  split
  · have := recomposeAluGo_embed c.W c.D xs [] (by simpa using h)
    simpa [zeroV] using this
  · exact map_coeff0_embed _ _

/-- The recomposition constraint emitted by `decompose_ext_to_base_coeffs` holds for the hint. -/
theorem decomposeChecked_ok (c : Cfg K) (v : V K) (h : v.length = c.D) :
    decomposeChecked c v = (v.map (embed c.D), true) := by
  simp [decomposeChecked, decompose, recompose_embed c v h]

end vectors

section bits

theorem fromBits_bitsOf : ∀ (B v : Nat), fromBits (bitsOf v B) = v % 2 ^ B
  | 0, v => by simp [bitsOf, fromBits, Nat.mod_one]
  | B + 1, v => by
    rw [bitsOf, fromBits, fromBits_bitsOf B (v / 2), pow_succ, Nat.mul_comm (2 ^ B) 2,
      Nat.mod_mul]
    rcases Nat.mod_two_eq_zero_or_one v with h | h <;> simp [h]

theorem take_bitsOf : ∀ (n B v : Nat), n ≤ B → (bitsOf v B).take n = bitsOf v n
  | 0, _, _, _ => by simp [bitsOf]
  | n + 1, 0, _, h => by omega
  | n + 1, B + 1, v, h => by simp [bitsOf, take_bitsOf n B (v / 2) (by omega)]

theorem length_bitsOf : ∀ (B v : Nat), (bitsOf v B).length = B
  | 0, _ => rfl
  | B + 1, v => by simp [bitsOf, length_bitsOf B]

theorem bitsOf_mod (n : Nat) : ∀ (v : Nat), bitsOf (v % 2 ^ n) n = bitsOf v n := by
  induction n with
  | zero => intro v; simp [bitsOf]
  | succ n ih =>
    intro v
    have h1 : v % 2 ^ (n + 1) % 2 = v % 2 := by
      rw [pow_succ, Nat.mul_comm]; exact Nat.mod_mul_right_mod v 2 (2 ^ n)
    have h2 : v % 2 ^ (n + 1) / 2 = (v / 2) % 2 ^ n := by
      rw [pow_succ, Nat.mul_comm, Nat.mod_mul_right_div_self]
    simp only [bitsOf, h1, h2, ih]

theorem all_false_iff_zero : ∀ (n v : Nat), ((bitsOf v n).all fun b => !b) = (v % 2 ^ n == 0)
  | 0, v => by simp [bitsOf, Nat.mod_one]
  | n + 1, v => by
    rw [bitsOf, List.all_cons, all_false_iff_zero n (v / 2), pow_succ, Nat.mul_comm (2 ^ n) 2,
      Nat.mod_mul]
    rcases Nat.mod_two_eq_zero_or_one v with h | h <;> simp [h]

variable {K : Type} [CommRing K] [DecidableEq K]

theorem pow2K_eq : ∀ j : Nat, (pow2K j : K) = ((2 ^ j : Nat) : K)
  | 0 => by simp [pow2K]
  | j + 1 => by rw [pow2K, pow2K_eq j, pow_succ]; push_cast; ring

theorem ofNatK_eq : ∀ n : Nat, (ofNatK n : K) = (n : K)
  | 0 => by simp [ofNatK]
  | n + 1 => by rw [ofNatK, ofNatK_eq n]; push_cast; rfl

theorem reconK_eq : ∀ (bs : List Bool) (j : Nat) (acc : K),
    reconK j bs acc = acc + ((2 ^ j * fromBits bs : Nat) : K)
  | [], j, acc => by simp [reconK, fromBits]
  | b :: bs, j, acc => by
    rw [reconK, reconK_eq bs (j + 1), pow2K_eq, fromBits]
    cases b <;> simp [bitK] <;> push_cast <;> ring

/-- The reconstruction constraint of `decompose_to_bits` holds for the canonical bits. -/
theorem reconK_bitsOf (B v : Nat) (h : v < 2 ^ B) : (reconK 0 (bitsOf v B) (0 : K)) = (v : K) := by
  rw [reconK_eq, fromBits_bitsOf, Nat.mod_eq_of_lt h]; simp

end bits
end P3R.C05L
