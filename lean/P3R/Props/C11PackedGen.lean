/-
C11 — packed Horner rows of every arity, for EVERY extension degree `D`, at ring level.

`Props/C11Packed` proves `packedLegs_sound / packedLegs_complete / packed_row_sound` for `D = 1`.
Here the same three statements for arbitrary `D` and every multiplication kind, about the ring
elements `ev φ α D (seg ml off D)` the `D`-cell segments of the row denote (`KindRoot`: `α`
generates the extension the kind multiplies in; completeness also needs `CoeffIndep`, the
power-basis independence proved for `K[X]/(g)` in `Props/C11Gen`):

* `packedLegs_sound_gen` — all leg constraints of the model's `packedLegs` (the `while s < kk` loop of
  `AluAir::eval`) vanish, selector ≠ 0, `b²` column = `b·b` in the ring ⟹ `ev out` is the chain of
  single Horner steps `x ↦ x·b + c_t − a_t`, `t = s … kk−1`, from the intermediate element `int[slot]`;
* `packedLegs_complete_gen` — conversely honest intermediate elements and `out` make every leg vanish;
* `bsq_ring`, `firstLeg_ring` — the `b²` column constraint and the inter-row (first two steps)
  constraint of the model, lifted to the ring;
* `packed_row_sound_gen` — a packed row of arity `kk ≥ 2`: inter-row constraint + `b²` constraint +
  legs ⟹ `ev out` = `kk` chained single steps from the previous row's accumulator.
-/
import P3R.Props.C11Gen

set_option linter.unusedSectionVars false

namespace P3R.C11
open P3R

section ChainR
variable {L : Type} [CommRing L]

/-- `n` chained single Horner steps `x ↦ x·b + C t − A t`, `t = s, s+1, …`, in a commutative ring
(`hchain` of `Props/C11Packed` is the same function over a field). -/
def hchainR (b : L) (A C : ℕ → L) : ℕ → ℕ → L → L
  | 0, _, x => x
  | n + 1, s, x => hchainR b A C n (s + 1) (x * b + C s - A s)

theorem hchainR_add (b : L) (A C : ℕ → L) (m n s : ℕ) (x : L) :
    hchainR b A C (m + n) s x = hchainR b A C n (s + m) (hchainR b A C m s x) := by
  induction m generalizing s x with
  | zero => simp [hchainR]
  | succ m ih =>
    have : m + 1 + n = (m + n) + 1 := by omega
    rw [this]
    simp only [hchainR]
    rw [ih]
    congr 1
    omega

theorem hchainR_congr (b : L) (A C A' C' : ℕ → L) :
    ∀ n s x, (∀ t, s ≤ t → A t = A' t ∧ C t = C' t) →
      hchainR b A C n s x = hchainR b A' C' n s x := by
  intro n
  induction n with
  | zero => intro s x _; rfl
  | succ n ih =>
    intro s x h
    simp only [hchainR]
    rw [(h s (Nat.le_refl _)).1, (h s (Nat.le_refl _)).2]
    exact ih (s + 1) _ (fun t ht => h t (by omega))

theorem hchainR_eq_hchain {F : Type} [Field F] (b : F) (A C : ℕ → F) :
    ∀ n s x, hchainR b A C n s x = hchain b A C n s x := by
  intro n
  induction n with
  | zero => intro s x; rfl
  | succ n ih => intro s x; simp only [hchainR, hchain]; exact ih _ _

end ChainR

section PackedGen
variable {K L : Type} [Field K] [CommRing L]
variable (φ : K →+* L) (α : L) (D : ℕ)

/-- Ring elements read by the legs: intermediate slot `j`, step operands `a_t`, `c_t`. -/
def gI (ml : List K) (extraMain j : ℕ) : L := ev φ α D (seg ml (extraMain + j * D) D)
def gA (ml : List K) (acBase t : ℕ) : L := ev φ α D (seg ml (acBase + 2 * (t - 1) * D) D)
def gC (ml : List K) (acBase t : ℕ) : L := ev φ α D (seg ml (acBase + 2 * (t - 1) * D + D) D)

/-- The double-step coefficient vector of the legs
(`int·b² + c_s·b − a_s·b + c_{s+1} − a_{s+1}`, the `prod` of the model). -/
def legProd (kind : ExtKind K) (ml : List K) (extraMain acBase : ℕ) (b bSq : List K)
    (s slot : ℕ) : List K :=
  (List.range D).map fun i =>
    vget (extMul D kind (seg ml (extraMain + slot * D) D) bSq) i +
      vget (extMul D kind (seg ml (acBase + 2 * (s - 1) * D + D) D) b) i -
      vget (extMul D kind (seg ml (acBase + 2 * (s - 1) * D) D) b) i +
      vget (seg ml (acBase + 2 * s * D + D) D) i - vget (seg ml (acBase + 2 * s * D) D) i

/-- `packedLegs`, one unfolding (any `D`, any kind). -/
theorem packedLegs_succ (kmax : ℕ) (kind : ExtKind K) (ml : List K) (extraMain acBase : ℕ)
    (b bSq out : List K) (sel : K) (kk fuel s slot : ℕ) :
    packedLegs D kmax kind ml extraMain acBase b bSq out sel kk (fuel + 1) s slot =
      if s < kk then
        if s + 1 < kk then
          if s + 2 ≥ kk then
            ((List.range D).map fun i =>
                sel * (vget (legProd D kind ml extraMain acBase b bSq s slot) i - vget out i)) ++
              packedLegs D kmax kind ml extraMain acBase b bSq out sel kk fuel (s + 2) slot
          else
            ((List.range D).map fun i =>
                sel * (vget (legProd D kind ml extraMain acBase b bSq s slot) i -
                  vget (seg ml (extraMain + (slot + 1) * D) D) i)) ++
              packedLegs D kmax kind ml extraMain acBase b bSq out sel kk fuel (s + 2) (slot + 1)
        else
          ((List.range D).map fun i =>
              sel * (vget (extMul D kind (seg ml (extraMain + slot * D) D) b) i +
                vget (seg ml (acBase + 2 * (s - 1) * D + D) D) i -
                vget (seg ml (acBase + 2 * (s - 1) * D) D) i - vget out i)) ++
            packedLegs D kmax kind ml extraMain acBase b bSq out sel kk fuel (s + 1) slot
      else [] := by
  rw [packedLegs]
  rfl

theorem packedLegs_done_gen (kmax : ℕ) (kind : ExtKind K) (ml : List K) (extraMain acBase : ℕ)
    (b bSq out : List K) (sel : K) (kk fuel s slot : ℕ) (h : ¬ s < kk) :
    packedLegs D kmax kind ml extraMain acBase b bSq out sel kk fuel s slot = [] := by
  cases fuel with
  | zero => rfl
  | succ f => rw [packedLegs_succ, if_neg h]

theorem gA_succ (ml : List K) (acBase s : ℕ) :
    gA φ α D ml acBase (s + 1) = ev φ α D (seg ml (acBase + 2 * s * D) D) := by
  unfold gA; rw [Nat.add_sub_cancel]

theorem gC_succ (ml : List K) (acBase s : ℕ) :
    gC φ α D ml acBase (s + 1) = ev φ α D (seg ml (acBase + 2 * s * D + D) D) := by
  unfold gC; rw [Nat.add_sub_cancel]

/-- The ring element of the double-step vector. -/
theorem ev_legProd (kind : ExtKind K) (hk : KindRoot φ D kind α) (ml : List K)
    (extraMain acBase : ℕ) (b bSq : List K) (s slot : ℕ) :
    ev φ α D (legProd D kind ml extraMain acBase b bSq s slot) =
      gI φ α D ml extraMain slot * ev φ α D bSq + gC φ α D ml acBase s * ev φ α D b -
        gA φ α D ml acBase s * ev φ α D b + gC φ α D ml acBase (s + 1) - gA φ α D ml acBase (s + 1) := by
  unfold legProd
  rw [ev_map_range, gA_succ, gC_succ]
  rw [evF_sub φ α D (fun i =>
      vget (extMul D kind (seg ml (extraMain + slot * D) D) bSq) i +
      vget (extMul D kind (seg ml (acBase + 2 * (s - 1) * D + D) D) b) i -
      vget (extMul D kind (seg ml (acBase + 2 * (s - 1) * D) D) b) i +
      vget (seg ml (acBase + 2 * s * D + D) D) i),
    evF_add φ α D (fun i =>
      vget (extMul D kind (seg ml (extraMain + slot * D) D) bSq) i +
      vget (extMul D kind (seg ml (acBase + 2 * (s - 1) * D + D) D) b) i -
      vget (extMul D kind (seg ml (acBase + 2 * (s - 1) * D) D) b) i),
    evF_sub φ α D (fun i =>
      vget (extMul D kind (seg ml (extraMain + slot * D) D) bSq) i +
      vget (extMul D kind (seg ml (acBase + 2 * (s - 1) * D + D) D) b) i),
    evF_add]
  have e1 := extMul_eval φ α D kind hk (seg ml (extraMain + slot * D) D) bSq
  have e2 := extMul_eval φ α D kind hk (seg ml (acBase + 2 * (s - 1) * D + D) D) b
  have e3 := extMul_eval φ α D kind hk (seg ml (acBase + 2 * (s - 1) * D) D) b
  unfold ev at e1 e2 e3
  rw [e1, e2, e3]
  rfl

/-- **The `b²` column constraint at ring level** (`c1` of the model: `anyCur·(bSqᵢ − (b·b)ᵢ)`). -/
theorem bsq_ring (kind : ExtKind K) (hk : KindRoot φ D kind α) (sel : K) (hs : sel ≠ 0)
    (b bSq : List K)
    (h : ∀ x ∈ (List.range D).map (fun i => sel * (vget bSq i - vget (extMul D kind b b) i)), x = 0) :
    ev φ α D bSq = ev φ α D b * ev φ α D b := by
  rw [← extMul_eval φ α D kind hk]
  exact vec_zero_ring φ α D sel hs (vget bSq) (vget (extMul D kind b b)) h

theorem forall_mem_append_zero {β : Type} [Zero β] (l₁ l₂ : List β) :
    (∀ x ∈ l₁ ++ l₂, x = 0) ↔ (∀ x ∈ l₁, x = 0) ∧ (∀ x ∈ l₂, x = 0) :=
  List.forall_mem_append

/-- **Packed legs, soundness, every `D`.** If every leg constraint of a packed row vanishes
(selector ≠ 0, `b²` column = `b·b` in the ring), `out` denotes the value of the chain of `kk − s`
single Horner steps started from the intermediate element `int[slot]`. -/
theorem packedLegs_sound_gen (kind : ExtKind K) (hk : KindRoot φ D kind α) (kmax : ℕ)
    (ml : List K) (extraMain acBase : ℕ) (b bSq out : List K) (sel : K) (hs : sel ≠ 0)
    (hbsq : ev φ α D bSq = ev φ α D b * ev φ α D b) (kk : ℕ) :
    ∀ (fuel s slot : ℕ), s < kk → kk - s ≤ fuel →
      (∀ x ∈ packedLegs D kmax kind ml extraMain acBase b bSq out sel kk fuel s slot, x = 0) →
      ev φ α D out = hchainR (ev φ α D b) (gA φ α D ml acBase) (gC φ α D ml acBase) (kk - s) s
        (gI φ α D ml extraMain slot) := by
  intro fuel
  induction fuel with
  | zero => intro s slot h1 h2; omega
  | succ fuel ih =>
    intro s slot hlt hfuel hz
    rw [packedLegs_succ, if_pos hlt] at hz
    by_cases h1 : s + 1 < kk
    · rw [if_pos h1] at hz
      by_cases h2 : s + 2 ≥ kk
      · rw [if_pos h2, forall_mem_append_zero] at hz
        have h0 := vec_zero_ring φ α D sel hs _ _ hz.1
        change ev φ α D (legProd D kind ml extraMain acBase b bSq s slot) = ev φ α D out at h0
        rw [ev_legProd φ α D kind hk, hbsq] at h0
        have hkk : kk - s = 2 := by omega
        rw [hkk]
        simp only [hchainR]
        rw [← h0]; ring
      · rw [if_neg h2, forall_mem_append_zero] at hz
        have h0 := vec_zero_ring φ α D sel hs _ _ hz.1
        change ev φ α D (legProd D kind ml extraMain acBase b bSq s slot) =
          gI φ α D ml extraMain (slot + 1) at h0
        rw [ev_legProd φ α D kind hk, hbsq] at h0
        have hrest := ih (s + 2) (slot + 1) (by omega) (by omega) hz.2
        have hkk : kk - s = (kk - (s + 2)) + 2 := by omega
        rw [hkk, Nat.add_comm (kk - (s + 2)) 2, hchainR_add]
        simp only [hchainR]
        rw [hrest, ← h0]
        congr 1
        ring
    · rw [if_neg h1, forall_mem_append_zero] at hz
      have h0 := vec_zero_ring φ α D sel hs _ _ hz.1
      rw [evF_sub φ α D (fun i => vget (extMul D kind (seg ml (extraMain + slot * D) D) b) i +
          vget (seg ml (acBase + 2 * (s - 1) * D + D) D) i), evF_add] at h0
      have e1 := extMul_eval φ α D kind hk (seg ml (extraMain + slot * D) D) b
      unfold ev at e1
      rw [e1] at h0
      have hkk : kk - s = 1 := by omega
      rw [hkk]
      simp only [hchainR]
      exact h0.symm

/-- **Packed legs, completeness, every `D`** (under power-basis independence): honest intermediate
elements (every second accumulator) and an honest `out` make every leg constraint vanish. -/
theorem packedLegs_complete_gen (hind : CoeffIndep φ α D) (kind : ExtKind K)
    (hk : KindRoot φ D kind α) (kmax : ℕ) (ml : List K) (extraMain acBase : ℕ)
    (b bSq out : List K) (sel : K) (hs : sel ≠ 0)
    (hbsq : ev φ α D bSq = ev φ α D b * ev φ α D b) (kk : ℕ) :
    ∀ (fuel s slot : ℕ), s < kk →
      (∀ j, s + 2 * j < kk → gI φ α D ml extraMain (slot + j) =
        hchainR (ev φ α D b) (gA φ α D ml acBase) (gC φ α D ml acBase) (2 * j) s
          (gI φ α D ml extraMain slot)) →
      ev φ α D out = hchainR (ev φ α D b) (gA φ α D ml acBase) (gC φ α D ml acBase) (kk - s) s
        (gI φ α D ml extraMain slot) →
      ∀ x ∈ packedLegs D kmax kind ml extraMain acBase b bSq out sel kk fuel s slot, x = 0 := by
  intro fuel
  induction fuel with
  | zero => intro s slot _ _ _ x hx; simp [packedLegs] at hx
  | succ fuel ih =>
    intro s slot hlt hint hout
    rw [packedLegs_succ, if_pos hlt]
    by_cases h1 : s + 1 < kk
    · rw [if_pos h1]
      by_cases h2 : s + 2 ≥ kk
      · rw [if_pos h2, packedLegs_done_gen D _ _ _ _ _ _ _ _ _ _ _ _ _ (by omega), List.append_nil]
        refine (vec_zero_ring_iff φ α D hind sel hs _ _).mpr ?_
        change ev φ α D (legProd D kind ml extraMain acBase b bSq s slot) = ev φ α D out
        rw [ev_legProd φ α D kind hk, hbsq, hout]
        have hkk : kk - s = 2 := by omega
        rw [hkk]
        simp only [hchainR]
        ring
      · rw [if_neg h2, forall_mem_append_zero]
        have hnext := hint 1 (by omega)
        simp only [hchainR] at hnext
        have hstep : ev φ α D (legProd D kind ml extraMain acBase b bSq s slot) =
            gI φ α D ml extraMain (slot + 1) := by
          rw [ev_legProd φ α D kind hk, hbsq, hnext]; ring
        refine ⟨(vec_zero_ring_iff φ α D hind sel hs _ _).mpr hstep, ?_⟩
        refine ih (s + 2) (slot + 1) (by omega) ?_ ?_
        · intro j hj
          have h := hint (j + 1) (by omega)
          have e : 2 * (j + 1) = 2 + 2 * j := by ring
          rw [e, hchainR_add] at h
          have e' : slot + (j + 1) = slot + 1 + j := by omega
          rw [e'] at h
          rw [h]
          congr 1
          simp only [hchainR]
          exact hnext.symm
        · have hkk : kk - s = 2 + (kk - (s + 2)) := by omega
          rw [hkk, hchainR_add] at hout
          rw [hout]
          congr 1
          simp only [hchainR]
          exact hnext.symm
    · rw [if_neg h1, packedLegs_done_gen D _ _ _ _ _ _ _ _ _ _ _ _ _ (by omega), List.append_nil]
      refine (vec_zero_ring_iff φ α D hind sel hs _ _).mpr ?_
      rw [evF_sub φ α D (fun i => vget (extMul D kind (seg ml (extraMain + slot * D) D) b) i +
          vget (seg ml (acBase + 2 * (s - 1) * D + D) D) i), evF_add]
      have e1 := extMul_eval φ α D kind hk (seg ml (extraMain + slot * D) D) b
      unfold ev at e1
      rw [e1]
      have hkk : kk - s = 1 := by omega
      rw [hkk] at hout
      simp only [hchainR] at hout
      exact hout.symm

/-- Step operands of a packed row seen as one chain (ring elements): step 0 uses the lane's own
`a`, `c` cells, step `t ≥ 1` the extra columns. -/
def rowAg (a0 : L) (ml : List K) (acBase : ℕ) : ℕ → L
  | 0 => a0
  | t + 1 => gA φ α D ml acBase (t + 1)

def rowCg (c0 : L) (ml : List K) (acBase : ℕ) : ℕ → L
  | 0 => c0
  | t + 1 => gC φ α D ml acBase (t + 1)

theorem gA_one (ml : List K) (acBase : ℕ) : gA φ α D ml acBase 1 = ev φ α D (seg ml acBase D) := by
  unfold gA; simp

theorem gC_one (ml : List K) (acBase : ℕ) :
    gC φ α D ml acBase 1 = ev φ α D (seg ml (acBase + D) D) := by
  unfold gC; simp

theorem gI_zero (ml : List K) (extraMain : ℕ) :
    gI φ α D ml extraMain 0 = ev φ α D (seg ml extraMain D) := by
  unfold gI; simp

/-- The inter-row polynomial of the model (`c2`: `prev·b² + c₀·b − a₀·b + c₁ − a₁`, coefficient `i`). -/
def firstPoly (kind : ExtKind K) (prev a0 c0 b bSq a1 c1 : List K) (i : ℕ) : K :=
  vget (extMul D kind prev bSq) i + vget (extMul D kind c0 b) i - vget (extMul D kind a0 b) i +
    vget c1 i - vget a1 i

/-- **The inter-row constraint of a packed row at ring level.** -/
theorem firstLeg_ring (kind : ExtKind K) (hk : KindRoot φ D kind α) (sel : K) (hs : sel ≠ 0)
    (prev a0 c0 b bSq a1 c1 tgt : List K)
    (h : ∀ x ∈ (List.range D).map
      (fun i => sel * (firstPoly D kind prev a0 c0 b bSq a1 c1 i - vget tgt i)), x = 0) :
    ev φ α D prev * ev φ α D bSq + ev φ α D c0 * ev φ α D b - ev φ α D a0 * ev φ α D b +
      ev φ α D c1 - ev φ α D a1 = ev φ α D tgt := by
  have h0 := vec_zero_ring φ α D sel hs _ _ h
  unfold firstPoly at h0
  rw [evF_sub φ α D (fun i => vget (extMul D kind prev bSq) i + vget (extMul D kind c0 b) i -
        vget (extMul D kind a0 b) i + vget c1 i),
    evF_add φ α D (fun i => vget (extMul D kind prev bSq) i + vget (extMul D kind c0 b) i -
        vget (extMul D kind a0 b) i),
    evF_sub φ α D (fun i => vget (extMul D kind prev bSq) i + vget (extMul D kind c0 b) i),
    evF_add] at h0
  have e1 := extMul_eval φ α D kind hk prev bSq
  have e2 := extMul_eval φ α D kind hk c0 b
  have e3 := extMul_eval φ α D kind hk a0 b
  unfold ev at e1 e2 e3
  rw [e1, e2, e3] at h0
  exact h0

/-- **A packed Horner row of any arity `kk ≥ 2`, any degree `D`, is `kk` chained single steps in
the extension ring.** `prev` is the accumulator the row starts from (previous row's `out`);
`hfirst` the inter-row constraint (ring form, from `firstLeg_ring`; its target is `out` itself
when `kk = 2`, the first intermediate slot otherwise); `hbsq` from `bsq_ring`. -/
theorem packed_row_sound_gen (kind : ExtKind K) (hk : KindRoot φ D kind α) (kmax : ℕ)
    (ml : List K) (extraMain acBase : ℕ) (prev a0 c0 b bSq out : List K) (sel : K) (hs : sel ≠ 0)
    (hbsq : ev φ α D bSq = ev φ α D b * ev φ α D b) (kk : ℕ) (hkk : 2 ≤ kk)
    (hfirst : ev φ α D prev * ev φ α D bSq + ev φ α D c0 * ev φ α D b - ev φ α D a0 * ev φ α D b +
        gC φ α D ml acBase 1 - gA φ α D ml acBase 1 =
      (if kk = 2 then ev φ α D out else gI φ α D ml extraMain 0))
    (hlegs : ∀ x ∈ packedLegs D kmax kind ml extraMain acBase b bSq out sel kk (kk + 1) 2 0, x = 0) :
    ev φ α D out = hchainR (ev φ α D b) (rowAg φ α D (ev φ α D a0) ml acBase)
      (rowCg φ α D (ev φ α D c0) ml acBase) kk 0 (ev φ α D prev) := by
  have h2 : hchainR (ev φ α D b) (rowAg φ α D (ev φ α D a0) ml acBase)
      (rowCg φ α D (ev φ α D c0) ml acBase) 2 0 (ev φ α D prev) =
      ev φ α D prev * ev φ α D bSq + ev φ α D c0 * ev φ α D b - ev φ α D a0 * ev φ α D b +
        gC φ α D ml acBase 1 - gA φ α D ml acBase 1 := by
    simp only [hchainR, rowAg, rowCg]; rw [hbsq]; ring
  by_cases hk2 : kk = 2
  · subst hk2
    rw [h2, hfirst, if_pos rfl]
  · rw [if_neg hk2] at hfirst
    have hk3 : 2 < kk := by omega
    have := packedLegs_sound_gen φ α D kind hk kmax ml extraMain acBase b bSq out sel hs hbsq kk
      (kk + 1) 2 0 hk3 (by omega) hlegs
    have e : kk = 2 + (kk - 2) := by omega
    rw [e, hchainR_add, h2, hfirst]
    rw [this]
    simp only [Nat.zero_add]
    exact hchainR_congr _ _ _ _ _ (kk - 2) 2 _ (fun t ht => by
      cases t with
      | zero => omega
      | succ t => simp [rowAg, rowCg])

/-- Arity 2, every `D` (the ring-level `packed2_iff`): the folded inter-row constraint holds iff
there is the silent intermediate accumulator. -/
theorem packed2_iff_gen (prev b bSq a0 c0 a1 c1 out : L) (hb : bSq = b * b) :
    prev * bSq + c0 * b - a0 * b + c1 - a1 = out ↔
      ∃ o0, o0 = prev * b + c0 - a0 ∧ out = o0 * b + c1 - a1 := by
  subst hb
  constructor
  · intro h; exact ⟨_, rfl, by rw [← h]; ring⟩
  · rintro ⟨o0, rfl, rfl⟩; ring

end PackedGen

end P3R.C11
