/-
Helper lemmas for C07: powers, bit lists, bit reversal, select–multiply chains.
-/
import P3R.Model.FriCircuit
import Mathlib.Tactic.Ring
import Mathlib.Tactic.Linarith
import Mathlib.Algebra.Field.Basic

namespace P3R.C07
open P3R.Fri

variable {K : Type} [Field K]

theorem npow_eq (x : K) (n : Nat) : npow x n = x ^ n := by
  induction n with
  | zero => simp [npow]
  | succ n ih => simp [npow, ih, pow_succ]

/-- `exp_power_of_2(x, k) = x^(2^k)`. -/
theorem expPow2_eq (x : K) (k : Nat) : expPow2 x k = x ^ (2 ^ k) := by
  induction k generalizing x with
  | zero => simp [expPow2]
  | succ k ih =>
    simp only [expPow2, ih]
    rw [← pow_two, ← pow_mul, pow_succ, Nat.mul_comm]

/-- Little-endian value of a bit list. -/
def bitsToNat : List Bool → Nat
  | [] => 0
  | b :: bs => b.toNat + 2 * bitsToNat bs

/-- The field value a boolean index bit carries in the circuit. -/
def toK (b : Bool) : K := if b then 1 else 0

/-- The low `len` bits of `n`, little-endian. -/
def bitsLE (n : Nat) : Nat → List Bool
  | 0 => []
  | len + 1 => (n % 2 == 1) :: bitsLE (n / 2) len

theorem bitsLE_length (n len : Nat) : (bitsLE n len).length = len := by
  induction len generalizing n with
  | zero => rfl
  | succ len ih => simp [bitsLE, ih]

theorem bitsToNat_append (l : List Bool) (b : Bool) :
    bitsToNat (l ++ [b]) = bitsToNat l + 2 ^ l.length * b.toNat := by
  induction l with
  | nil => simp [bitsToNat]
  | cons a l ih => simp [bitsToNat, ih, pow_succ]; ring

/-- `reverse_bits_len(n, len)` is the value of the reversed low-bit list. -/
theorem reverseBits_eq_bitsToNat (n len : Nat) :
    reverseBitsLen n len = bitsToNat (bitsLE n len).reverse := by
  induction len generalizing n with
  | zero => simp [reverseBitsLen, bitsLE, bitsToNat]
  | succ len ih =>
    simp only [reverseBitsLen, bitsLE, List.reverse_cons, bitsToNat_append, List.length_reverse,
      bitsLE_length, ← ih]
    have : (n % 2 == 1).toNat = n % 2 := by
      rcases Nat.mod_two_eq_zero_or_one n with h | h <;> simp [h]
    rw [this]; ring

/-- The select–multiply chain over boolean bits is a power of `g`: the exponent is the
little-endian value of the bits (`powers_of_g[i] = g^(2^i)`, `select(bit, power, 1)`). -/
theorem selChain_eq_pow (g : K) (bs : List Bool) :
    selChain g (bs.map toK) = g ^ bitsToNat bs := by
  induction bs generalizing g with
  | nil => simp [selChain, bitsToNat]
  | cons b bs ih =>
    simp only [List.map_cons, selChain, ih, bitsToNat]
    cases b
    · simp [sel, toK, ← pow_two, ← pow_mul]
    · simp [sel, toK, ← pow_two, ← pow_mul, pow_add]

theorem bitsLE_getElem (n len i : Nat) (h : i < (bitsLE n len).length) :
    (bitsLE n len)[i] = ((n / 2 ^ i) % 2 == 1) := by
  induction len generalizing n i with
  | zero => simp [bitsLE] at h
  | succ len ih =>
    cases i with
    | zero => simp [bitsLE]
    | succ i =>
      simp only [bitsLE, List.getElem_cons_succ]
      rw [ih]
      simp [pow_succ, Nat.div_div_eq_div_mul, Nat.mul_comm]

/-- Value of index bit `k` as the circuit's public input. -/
def bitK (index k : Nat) : K := if (index / 2 ^ k) % 2 = 1 then 1 else 0

/-- The bits the circuit feeds to a chain — positions `p0+L−1, …, p0` of the index — are the
reversed low `L` bits of `index >> p0`. -/
theorem chainBits_eq (index p0 L : Nat) :
    (List.range L).map (fun j => (bitK index (p0 + L - 1 - j) : K)) =
      ((bitsLE (index / 2 ^ p0) L).reverse).map toK := by
  apply List.ext_getElem
  · simp [bitsLE_length]
  · intro i h1 h2
    simp only [List.length_map, List.length_range] at h1
    simp only [List.getElem_map, List.getElem_range, List.getElem_reverse, bitsLE_getElem,
      bitsLE_length]
    have : p0 + L - 1 - i = p0 + (L - 1 - i) := by omega
    simp [bitK, toK, this, pow_add, Nat.div_div_eq_div_mul]

/-- **Index arithmetic.** The chain the circuit runs over index bits `p0+L−1 … p0` with the
powers `g^(2^j)` equals native `g^{reverse_bits_len(index >> p0, L)}`. Instances:
`precompute_subgroup_starts` phase 0 (`p0 = log_arity₀`, `L = log_max − p0`,
`g = two_adic_generator(log_max)`), `compute_final_query_point` (`p0 = Σ log_arities`),
`precompute_evaluation_points` for the tallest matrix. -/
theorem query_index_eq (g : K) (index p0 L : Nat) :
    selChain g ((List.range L).map fun j => (bitK index (p0 + L - 1 - j) : K)) =
      g ^ reverseBitsLen (index / 2 ^ p0) L := by
  rw [chainBits_eq, selChain_eq_pow, reverseBits_eq_bitsToNat]

theorem bitsToNat_take_reverse (n L m : Nat) (hm : m ≤ L) :
    bitsToNat (((bitsLE n L).reverse).take m) = reverseBitsLen (n / 2 ^ (L - m)) m := by
  induction L generalizing n m with
  | zero =>
    have : m = 0 := by omega
    subst this; simp [bitsLE, bitsToNat, reverseBitsLen]
  | succ L ih =>
    by_cases hml : m = L + 1
    · subst hml
      simp only [Nat.sub_self, pow_zero, Nat.div_one]
      rw [reverseBits_eq_bitsToNat]
      congr 1
      apply List.take_of_length_le
      simp [bitsLE_length]
    · have hm' : m ≤ L := by omega
      simp only [bitsLE, List.reverse_cons]
      rw [List.take_append_of_le_length (by simp [bitsLE_length]; exact hm')]
      rw [ih (n / 2) m hm']
      congr 1
      have : L + 1 - m = (L - m) + 1 := by omega
      rw [this, pow_succ, Nat.div_div_eq_div_mul, Nat.mul_comm]

/-- **Derived phases / heights.** A prefix of `m` chain steps, raised to `2^c`
(`exp_power_of_2`), equals `(g^(2^c))^{reverse_bits_len(index >> (p0 + L − m), m)}`: with
`g^(2^c) = two_adic_generator(log_max − c)` this is native `subgroup_start` of a later phase
(`c = cumulative_bits[i]`, `m = log_folded_height_i`) and the evaluation point of a shorter
matrix (`c = h_max − h`, `m = h`). -/
theorem query_index_prefix_eq (g : K) (index p0 L m c : Nat) (hm : m ≤ L) :
    expPow2 (selChainPrefix g ((List.range L).map fun j => (bitK index (p0 + L - 1 - j) : K)) m) c =
      (g ^ 2 ^ c) ^ reverseBitsLen (index / 2 ^ (p0 + (L - m))) m := by
  rw [expPow2_eq, selChainPrefix, chainBits_eq, ← List.map_take, selChain_eq_pow,
    bitsToNat_take_reverse _ _ _ hm, Nat.div_div_eq_div_mul, ← pow_add, ← pow_mul, ← pow_mul,
    Nat.mul_comm]

end P3R.C07
