/-
Soundness of the expression-builder calls used by the symbolic compiler (`define_const`, `add`,
`sub`, `mul`, `mul_add` of `Model/Builder.lean`) with respect to the denotation
`BState.val` of `Model/SymCompile.lean`: each call returns an id whose value is the requested
operation of its operands' values, keeps the value of every existing id, and preserves the
pool invariant `BInv` (every pooled id has the value its key promises).
-/
import P3R.Model.SymCompile
import Mathlib.Algebra.Ring.Basic
import Mathlib.Tactic.Ring

set_option linter.unusedSectionVars false

namespace P3R
variable {K : Type} [CommRing K] [DecidableEq K]

/-- Existing ids keep their values. -/
def Le (ρ : Nat → K) (s s' : BState K) : Prop := ∀ i v, s.val ρ i = some v → s'.val ρ i = some v

theorem Le.refl (ρ : Nat → K) (s : BState K) : Le ρ s s := fun _ _ h => h
theorem Le.trans {ρ : Nat → K} {a b c : BState K} (h1 : Le ρ a b) (h2 : Le ρ b c) : Le ρ a c :=
  fun i v h => h2 i v (h1 i v h)

def binKindVal : BinKind → K → K → Option K
  | .add, a, b => some (a + b)
  | .mul, a, b => some (a * b)
  | .sub, a, b => some (a - b)
  | .div, _, _ => none

/-- Pool invariant of the expression builder under the input assignment `ρ`. -/
structure BInv (ρ : Nat → K) (s : BState K) : Prop where
  zero0 : s.val ρ 0 = some 0
  constNode : ∀ i v, s.nodes[i]? = some (.const v) → s.val ρ i = some v
  constPool : ∀ v id, s.constPool.lookup v = some id → s.val ρ id = some v
  cse : ∀ k l r id, s.cse.lookup (k, l, r) = some id →
    l < s.nodes.size ∧ r < s.nodes.size ∧
    ∀ a b c, s.val ρ l = some a → s.val ρ r = some b → binKindVal k a b = some c → s.val ρ id = some c
  mulAdd : ∀ a b c id, s.mulAddPool.lookup (a, b, c) = some id →
    a < s.nodes.size ∧ b < s.nodes.size ∧ c < s.nodes.size ∧
    ∀ x y z, s.val ρ a = some x → s.val ρ b = some y → s.val ρ c = some z → s.val ρ id = some (x * y + z)

theorem denote_size (ρ : Nat → K) (nodes : Array (Expr K)) : (denote ρ nodes).size = nodes.size := by
  unfold denote
  refine Array.foldl_induction (motive := fun i (vals : Array (Option K)) => vals.size = i) ?_ ?_
  · simp
  · intro i vals h; simp [h]

theorem denote_push (ρ : Nat → K) (nodes : Array (Expr K)) (e : Expr K) :
    denote ρ (nodes.push e) = (denote ρ nodes).push (evalExpr ρ (denote ρ nodes) e) := by
  simp [denote]

theorem val_lt_size {ρ : Nat → K} {s : BState K} {i : Nat} {v : K} (h : s.val ρ i = some v) :
    i < s.nodes.size := by
  by_contra hc
  have : (denote ρ s.nodes)[i]? = none := Array.getElem?_eq_none (by rw [denote_size]; omega)
  simp [BState.val, getv, this] at h

theorem val_push_lt (ρ : Nat → K) (s : BState K) (e : Expr K) {i : Nat} (h : i < s.nodes.size) :
    (s.push e).1.val ρ i = s.val ρ i := by
  have hne : i ≠ (denote ρ s.nodes).size := by rw [denote_size]; omega
  simp [BState.val, BState.push, getv, denote_push, Array.getElem?_push, hne]

theorem val_push_new (ρ : Nat → K) (s : BState K) (e : Expr K) :
    (s.push e).1.val ρ s.nodes.size = evalExpr ρ (denote ρ s.nodes) e := by
  have : s.nodes.size = (denote ρ s.nodes).size := (denote_size ρ s.nodes).symm
  simp only [BState.val, BState.push, getv, denote_push]
  rw [this, Array.getElem?_push_size]
  cases evalExpr ρ (denote ρ s.nodes) e <;> rfl

theorem le_push (ρ : Nat → K) (s : BState K) (e : Expr K) : Le ρ s (s.push e).1 := by
  intro i v h
  rw [val_push_lt ρ s e (val_lt_size h)]; exact h

theorem push_snd (s : BState K) (e : Expr K) : (s.push e).2 = s.nodes.size := rfl
theorem push_nodes_size (s : BState K) (e : Expr K) : (s.push e).1.nodes.size = s.nodes.size + 1 := by
  simp [BState.push]

/-- Pushing a node that has a value keeps the invariant (pools untouched). -/
theorem binv_push {ρ : Nat → K} {s : BState K} (h : BInv ρ s) (e : Expr K) (c : K)
    (he : evalExpr ρ (denote ρ s.nodes) e = some c) : BInv ρ (s.push e).1 := by
  have hle := le_push ρ s e
  refine ⟨hle 0 0 h.zero0, ?_, ?_, ?_, ?_⟩
  · intro i v hi
    by_cases hlt : i < s.nodes.size
    · rw [val_push_lt ρ s e hlt]
      apply h.constNode
      simpa [BState.push, Array.getElem?_push, Nat.ne_of_lt hlt] using hi
    · have hsz : i < s.nodes.size + 1 := by
        by_contra hc
        have : (s.nodes.push e)[i]? = none := Array.getElem?_eq_none (by simp; omega)
        simp [BState.push, this] at hi
      have hi' : i = s.nodes.size := by omega
      subst hi'
      rw [val_push_new]
      simp [BState.push] at hi
      subst hi
      rfl
  · intro v id hl
    exact hle _ _ (h.constPool v id hl)
  · intro k l r id hl
    obtain ⟨h1, h2, h3⟩ := h.cse k l r id hl
    refine ⟨by rw [push_nodes_size]; omega, by rw [push_nodes_size]; omega, ?_⟩
    intro a b c' ha hb hk
    rw [val_push_lt ρ s e h1] at ha
    rw [val_push_lt ρ s e h2] at hb
    exact hle _ _ (h3 a b c' ha hb hk)
  · intro a b c' id hl
    obtain ⟨h1, h2, h3, h4⟩ := h.mulAdd a b c' id hl
    refine ⟨by rw [push_nodes_size]; omega, by rw [push_nodes_size]; omega,
      by rw [push_nodes_size]; omega, ?_⟩
    intro x y z hx hy hz
    rw [val_push_lt ρ s e h1] at hx
    rw [val_push_lt ρ s e h2] at hy
    rw [val_push_lt ρ s e h3] at hz
    exact hle _ _ (h4 x y z hx hy hz)

theorem val_constVal {ρ : Nat → K} {s : BState K} (h : BInv ρ s) {i : Nat} {v : K}
    (hc : s.constVal? i = some v) : s.val ρ i = some v := by
  apply h.constNode
  unfold BState.constVal? at hc
  split at hc
  · rename_i w hw; cases hc; exact hw
  · cases hc

theorem val_isZero {ρ : Nat → K} {s : BState K} (h : BInv ρ s) {i : Nat} (hz : s.isZero i = true) :
    s.val ρ i = some 0 := by
  unfold BState.isZero at hz
  split at hz
  · rename_i v hv
    have : v = 0 := by simpa using hz
    subst this; exact val_constVal h hv
  · cases hz

theorem val_isOne {ρ : Nat → K} {s : BState K} (h : BInv ρ s) {i : Nat} (hz : s.isOne i = true) :
    s.val ρ i = some 1 := by
  unfold BState.isOne at hz
  split at hz
  · rename_i v hv
    have : v = 1 := by simpa using hz
    subst this; exact val_constVal h hv
  · cases hz

theorem val_inj {ρ : Nat → K} {s : BState K} {i : Nat} {a b : K} (h1 : s.val ρ i = some a)
    (h2 : s.val ρ i = some b) : a = b := by
  rw [h1] at h2; cases h2; rfl

/-- `define_const`. -/
theorem defineConst_sound {ρ : Nat → K} {s : BState K} (h : BInv ρ s) (v : K) :
    BInv ρ (s.defineConst v).1 ∧ Le ρ s (s.defineConst v).1 ∧
      (s.defineConst v).1.val ρ (s.defineConst v).2 = some v := by
  unfold BState.defineConst
  split
  · rename_i id hl
    exact ⟨h, Le.refl ρ s, h.constPool v id hl⟩
  · rename_i hl
    have hp := binv_push h (Expr.const v) v rfl
    have hle := le_push ρ s (Expr.const v)
    have hnew : (s.push (Expr.const v)).1.val ρ s.nodes.size = some v := by rw [val_push_new]; rfl
    refine ⟨⟨hp.zero0, hp.constNode, ?_, hp.cse, hp.mulAdd⟩, hle, hnew⟩
    intro w id hw
    simp only [List.lookup_cons] at hw
    by_cases hwv : w = v
    · subst hwv
      simp at hw
      subst hw
      exact hnew
    · have : (w == v) = false := by simpa using hwv
      simp only [this] at hw
      exact hp.constPool w id hw

/-- CSE tail shared by `add`/`sub`/`mul`. -/
theorem cseOrPush_sound {ρ : Nat → K} {s : BState K} (h : BInv ρ s) (k : BinKind) (l r : Nat)
    (e : Expr K) (a b c : K) (hl : s.val ρ l = some a) (hr : s.val ρ r = some b)
    (hk : binKindVal k a b = some c) (he : evalExpr ρ (denote ρ s.nodes) e = some c) :
    BInv ρ (s.cseOrPush (k, l, r) e).1 ∧ Le ρ s (s.cseOrPush (k, l, r) e).1 ∧
      (s.cseOrPush (k, l, r) e).1.val ρ (s.cseOrPush (k, l, r) e).2 = some c := by
  unfold BState.cseOrPush
  split
  · rename_i id hlk
    exact ⟨h, Le.refl ρ s, (h.cse k l r id hlk).2.2 a b c hl hr hk⟩
  · rename_i hlk
    have hp := binv_push h e c he
    have hle := le_push ρ s e
    have hnew : (s.push e).1.val ρ s.nodes.size = some c := by rw [val_push_new]; exact he
    refine ⟨⟨hp.zero0, hp.constNode, hp.constPool, ?_, hp.mulAdd⟩, hle, hnew⟩
    intro k' l' r' id hw
    simp only [List.lookup_cons] at hw
    by_cases hkey : (k', l', r') = (k, l, r)
    · cases hkey
      simp at hw
      subst hw
      have h1 := val_lt_size hl
      have h2 := val_lt_size hr
      refine ⟨by rw [push_nodes_size]; omega, by rw [push_nodes_size]; omega, ?_⟩
      intro a' b' c' ha' hb' hk'
      have ea : a' = a := val_inj ha' (hle _ _ hl)
      have eb : b' = b := val_inj hb' (hle _ _ hr)
      subst ea eb
      rw [hk] at hk'; cases hk'
      exact hnew
    · have : ((k', l', r') == (k, l, r)) = false := by simpa using hkey
      simp only [this] at hw
      exact hp.cse k' l' r' id hw

theorem getv_of_val {ρ : Nat → K} {s : BState K} {i : Nat} {v : K} (h : s.val ρ i = some v) :
    getv (denote ρ s.nodes) i = some v := h

/-- `add`. -/
theorem add_sound {ρ : Nat → K} {s : BState K} (h : BInv ρ s) (l r : Nat) (a b : K)
    (hl : s.val ρ l = some a) (hr : s.val ρ r = some b) :
    BInv ρ (s.add l r).1 ∧ Le ρ s (s.add l r).1 ∧ (s.add l r).1.val ρ (s.add l r).2 = some (a + b) := by
  unfold BState.add
  split
  · rename_i hz
    have := val_inj hl (val_isZero h hz)
    subst this
    exact ⟨h, Le.refl ρ s, by simpa using hr⟩
  · split
    · rename_i _ hz
      have := val_inj hr (val_isZero h hz)
      subst this
      exact ⟨h, Le.refl ρ s, by simpa using hl⟩
    · split
      · rename_i x y hx hy
        have ex := val_inj hl (val_constVal h hx)
        have ey := val_inj hr (val_constVal h hy)
        subst ex ey
        exact defineConst_sound h (a + b)
      · have he : evalExpr ρ (denote ρ s.nodes) (Expr.add l r) = some (a + b) := by
          simp [evalExpr, getv_of_val hl, getv_of_val hr]
        unfold commKey
        split
        · exact cseOrPush_sound h .add l r _ a b (a + b) hl hr rfl he
        · exact cseOrPush_sound h .add r l _ b a (a + b) hr hl (by simp [binKindVal, add_comm]) he

/-- `sub`. -/
theorem sub_sound {ρ : Nat → K} {s : BState K} (h : BInv ρ s) (l r : Nat) (a b : K)
    (hl : s.val ρ l = some a) (hr : s.val ρ r = some b) :
    BInv ρ (s.sub l r).1 ∧ Le ρ s (s.sub l r).1 ∧ (s.sub l r).1.val ρ (s.sub l r).2 = some (a - b) := by
  unfold BState.sub
  split
  · rename_i hz
    have := val_inj hr (val_isZero h hz)
    subst this
    exact ⟨h, Le.refl ρ s, by simpa using hl⟩
  · split
    · rename_i _ heq
      subst heq
      have := val_inj hl hr
      subst this
      exact ⟨h, Le.refl ρ s, by simpa using h.zero0⟩
    · split
      · rename_i x y hx hy
        have ex := val_inj hl (val_constVal h hx)
        have ey := val_inj hr (val_constVal h hy)
        subst ex ey
        exact defineConst_sound h (a - b)
      · have he : evalExpr ρ (denote ρ s.nodes) (Expr.sub l r) = some (a - b) := by
          simp [evalExpr, getv_of_val hl, getv_of_val hr]
        exact cseOrPush_sound h .sub l r _ a b (a - b) hl hr rfl he

/-- `mul`. -/
theorem mul_sound {ρ : Nat → K} {s : BState K} (h : BInv ρ s) (l r : Nat) (a b : K)
    (hl : s.val ρ l = some a) (hr : s.val ρ r = some b) :
    BInv ρ (s.mul l r).1 ∧ Le ρ s (s.mul l r).1 ∧ (s.mul l r).1.val ρ (s.mul l r).2 = some (a * b) := by
  unfold BState.mul
  split
  · rename_i hz
    refine ⟨h, Le.refl ρ s, ?_⟩
    rcases Bool.or_eq_true _ _ |>.mp hz with hz | hz
    · have := val_inj hl (val_isZero h hz)
      subst this
      simpa using h.zero0
    · have := val_inj hr (val_isZero h hz)
      subst this
      simpa using h.zero0
  · split
    · rename_i _ ho
      have := val_inj hl (val_isOne h ho)
      subst this
      exact ⟨h, Le.refl ρ s, by simpa using hr⟩
    · split
      · rename_i _ _ ho
        have := val_inj hr (val_isOne h ho)
        subst this
        exact ⟨h, Le.refl ρ s, by simpa using hl⟩
      · split
        · rename_i x y hx hy
          have ex := val_inj hl (val_constVal h hx)
          have ey := val_inj hr (val_constVal h hy)
          subst ex ey
          exact defineConst_sound h (a * b)
        · have he : evalExpr ρ (denote ρ s.nodes) (Expr.mul l r) = some (a * b) := by
            simp [evalExpr, getv_of_val hl, getv_of_val hr]
          unfold commKey
          split
          · exact cseOrPush_sound h .mul l r _ a b (a * b) hl hr rfl he
          · exact cseOrPush_sound h .mul r l _ b a (a * b) hr hl (by simp [binKindVal, mul_comm]) he

/-- `mul_add` (`add_mul_add`). -/
theorem mulAdd_sound {ρ : Nat → K} {s : BState K} (h : BInv ρ s) (a b c : Nat) (x y z : K)
    (ha : s.val ρ a = some x) (hb : s.val ρ b = some y) (hc : s.val ρ c = some z) :
    BInv ρ (s.mulAdd a b c).1 ∧ Le ρ s (s.mulAdd a b c).1 ∧
      (s.mulAdd a b c).1.val ρ (s.mulAdd a b c).2 = some (x * y + z) := by
  unfold BState.mulAdd
  split
  · rename_i va vb vc hva hvb hvc
    have e1 := val_inj ha (val_constVal h hva)
    have e2 := val_inj hb (val_constVal h hvb)
    have e3 := val_inj hc (val_constVal h hvc)
    subst e1 e2 e3
    exact defineConst_sound h (x * y + z)
  · -- pooled lookup on the commutative key
    have key : ∃ a' b' x' y', mulAddKey a b c = (a', b', c) ∧ s.val ρ a' = some x' ∧
        s.val ρ b' = some y' ∧ x' * y' = x * y := by
      unfold mulAddKey
      split
      · exact ⟨a, b, x, y, rfl, ha, hb, rfl⟩
      · exact ⟨b, a, y, x, rfl, hb, ha, mul_comm y x⟩
    obtain ⟨a', b', x', y', hkey, ha', hb', hxy⟩ := key
    rw [hkey]
    split
    · rename_i id hlk
      refine ⟨h, Le.refl ρ s, ?_⟩
      rw [← hxy]
      exact (h.mulAdd a' b' c id hlk).2.2.2 x' y' z ha' hb' hc
    · rename_i hlk
      have he : evalExpr ρ (denote ρ s.nodes) (Expr.mulAdd a b c) = some (x * y + z) := by
        simp [evalExpr, getv_of_val ha, getv_of_val hb, getv_of_val hc]
      have hp := binv_push h (Expr.mulAdd a b c) (x * y + z) he
      have hle := le_push ρ s (Expr.mulAdd a b c)
      have hnew : (s.push (Expr.mulAdd a b c)).1.val ρ s.nodes.size = some (x * y + z) := by
        rw [val_push_new]; exact he
      refine ⟨⟨hp.zero0, hp.constNode, hp.constPool, hp.cse, ?_⟩, hle, hnew⟩
      intro p q r id hw
      simp only [List.lookup_cons] at hw
      by_cases hk : (p, q, r) = (a', b', c)
      · cases hk
        simp at hw
        subst hw
        have h1 := val_lt_size ha'
        have h2 := val_lt_size hb'
        have h3 := val_lt_size hc
        refine ⟨by rw [push_nodes_size]; omega, by rw [push_nodes_size]; omega,
          by rw [push_nodes_size]; omega, ?_⟩
        intro x2 y2 z2 hx2 hy2 hz2
        have e1 : x2 = x' := val_inj hx2 (hle _ _ ha')
        have e2 : y2 = y' := val_inj hy2 (hle _ _ hb')
        have e3 : z2 = z := val_inj hz2 (hle _ _ hc)
        subst e1 e2 e3
        rw [hxy]; exact hnew
      · have : ((p, q, r) == (a', b', c)) = false := by simpa using hk
        simp only [this] at hw
        exact hp.mulAdd p q r id hw

/-- The invariant is not vacuous: it holds for a fresh builder. -/
theorem binv_init (ρ : Nat → K) : BInv ρ (BState.init : BState K) := by
  have h0 : (BState.init : BState K).val ρ 0 = some 0 := by
    simp [BState.val, BState.init, denote, getv, evalExpr]
  refine ⟨h0, ?_, ?_, ?_, ?_⟩
  · intro i v hi
    have : i = 0 := by
      by_contra hne
      have : (BState.init : BState K).nodes[i]? = none :=
        Array.getElem?_eq_none (by simp [BState.init]; omega)
      rw [this] at hi; cases hi
    subst this
    simp [BState.init] at hi
    subst hi
    exact h0
  · intro v id hl
    simp only [BState.init, List.lookup_cons] at hl
    by_cases hv : v = 0
    · subst hv; simp at hl; subst hl; exact h0
    · have : (v == (0 : K)) = false := by simpa using hv
      simp [this] at hl
  · intro k l r id hl; simp [BState.init] at hl
  · intro a b c id hl; simp [BState.init] at hl

/-- `public_input()` keeps the invariant. -/
theorem binv_allocPublic {ρ : Nat → K} {s : BState K} (h : BInv ρ s) : BInv ρ s.allocPublic.1 := by
  have hp := binv_push h (Expr.pub s.pubCount) (ρ s.pubCount) rfl
  exact ⟨hp.zero0, hp.constNode, hp.constPool, hp.cse, hp.mulAdd⟩

end P3R
