/-
L6 — the *control* part of the Poseidon circuit tables (Poseidon2 and its Poseidon1 twin).

Mirrors `poseidon2-circuit-air/src/air.rs` (`eval`, `eval_arity4`, `eval_interactions_inner`) and
`poseidon1-circuit-air/src/air.rs` (same structure, arity 2 only), with the preprocessed row layouts of
`poseidon-circuit-cols/src/preprocessed.rs` (`PoseidonPreprocessedRow`, and the compact `D = 1`
width-16 / rate-8 layout written by `extract_preprocessed_from_operations`).

Everything in `eval` *except* the call into the inner permutation AIR (`air.p3_poseidon2.eval(…)`:
S-boxes and linear layers): "outputs = Perm(inputs)" is an uninterpreted relation here — the model reads
the input cells and the output cells (post state of the last full round) of a row as independent data.

`poseidonCtlConstraints` returns the value of every control constraint, in assertion order, on a concrete
two-row window; `poseidonCtlInteractions` every WitnessChecks interaction (field tuple, multiplicity) of
the local row. The correspondence check (`harness/src/c11p.rs`) evaluates the real `Air::eval` with a
value-recording builder on the same windows, strips the inner AIR's constraints (a verified tail of the
list) and requires the two lists to be identical, value for value.

Import-free (core only).
-/
namespace P3R

/-- Shape parameters of a Poseidon circuit table (`D`, `WIDTH_EXT`, `RATE_EXT`, `CAPACITY_EXT`,
`WITNESS_EXT_D`). -/
structure PosLayout where
  D : Nat
  widthExt : Nat
  rateExt : Nat
  capExt : Nat
  witD : Nat
deriving Repr, DecidableEq

namespace PosLayout

/-- `poseidon_uses_compact_d1_preprocessed`. -/
def compact (L : PosLayout) : Bool := L.D == 1 && L.widthExt == 16 && L.rateExt == 8

/-- `4 · CAPACITY_EXT == WIDTH_EXT`: the arity-4 compression shapes. -/
def arity4 (L : PosLayout) : Bool := 4 * L.capExt == L.widthExt

/-- `poseidon_d1_compact_preprocessed_header_cols`. -/
def hdr (L : PosLayout) : Nat := L.rateExt + 2 + L.rateExt + L.rateExt

/-- Offset of the four tail flags `(mmcs_index_sum_ctl_idx, mmcs_merkle_flag, new_start, merkle_path)`. -/
def tail (L : PosLayout) : Nat :=
  if L.compact then L.hdr + L.widthExt + L.rateExt + L.rateExt
  else 4 * L.widthExt + 2 * L.rateExt

/-- `poseidon_preprocessed_row_width_for_air`. -/
def prepWidth (L : PosLayout) : Nat := L.tail + 4

end PosLayout

/-- The cells of one main-trace row that the control constraints read. -/
structure PosRow (K : Type) where
  /-- `perm.inputs` (`WIDTH = WIDTH_EXT · D` cells) -/
  inp : List K
  /-- `perm.ending_full_rounds[HALF_FULL_ROUNDS − 1].post` (`WIDTH` cells) -/
  out : List K
  /-- `mmcs_bit` -/
  bit : K
  /-- `mmcs_extra[ARITY4_BIT2_IDX]` (arity 4 only, else 0) -/
  bit2 : K
  /-- `mmcs_extra[ARITY4_BIT_X_BIT2_IDX]` (arity 4 only, else 0) -/
  bitProd : K
  /-- `mmcs_index_sum` -/
  idxSum : K

section
variable {K : Type} [Zero K] [One K] [Add K] [Sub K] [Mul K]

/-- `v[i]`, zero outside. -/
def pget (v : List K) (i : Nat) : K := v.getD i 0

/-- Preprocessed-row accessors (generic layout: 4 columns per input limb `idx, in_ctl,
normal_chain_sel, merkle_chain_sel`, 2 per output limb `idx, out_ctl`, 4 tail flags; compact layout:
see `extract_preprocessed_from_operations`). -/
def prepInIdx (L : PosLayout) (p : List K) (limb : Nat) : K :=
  if L.compact then pget p (L.hdr + limb) else pget p (4 * limb)

def prepInCtl (L : PosLayout) (p : List K) (limb : Nat) : K :=
  if L.compact then pget p limb else pget p (4 * limb + 1)

/-- sponge chain selector `(1 − new_start)(1 − merkle_path)(1 − in_ctl)` of a limb (compact: rate limbs). -/
def prepNormalSel (L : PosLayout) (p : List K) (limb : Nat) : K :=
  if L.compact then pget p (L.rateExt + 2 + limb) else pget p (4 * limb + 2)

/-- Merkle chain selector `(1 − new_start)·merkle_path·(1 − in_ctl)` of a limb (compact: rate limbs). -/
def prepMerkleSel (L : PosLayout) (p : List K) (limb : Nat) : K :=
  if L.compact then pget p (2 * L.rateExt + 2 + limb) else pget p (4 * limb + 3)

def prepOutIdx (L : PosLayout) (p : List K) (limb : Nat) : K :=
  if L.compact then pget p (L.hdr + L.widthExt + limb) else pget p (4 * L.widthExt + 2 * limb)

def prepOutCtl (L : PosLayout) (p : List K) (limb : Nat) : K :=
  if L.compact then pget p (L.hdr + L.widthExt + L.rateExt + limb) else pget p (4 * L.widthExt + 2 * limb + 1)

/-- compact layout only: the length tag carried in the former `cap_in_ctl` slot -/
def prepCapTag (L : PosLayout) (p : List K) : K := pget p L.rateExt
/-- compact layout only: `cap_chain_enable = 1 − new_start` -/
def prepCapChain (L : PosLayout) (p : List K) : K := pget p (L.rateExt + 1)

def prepSumIdx (L : PosLayout) (p : List K) : K := pget p L.tail
def prepMerkleFlag (L : PosLayout) (p : List K) : K := pget p (L.tail + 1)
def prepNewStart (L : PosLayout) (p : List K) : K := pget p (L.tail + 2)
def prepMerklePath (L : PosLayout) (p : List K) : K := pget p (L.tail + 3)

/-! ### the individual constraint polynomials -/

/-- `assert_bool(x)`: `x·(x − 1)`. -/
def boolCons (x : K) : K := x * (x - 1)

/-- `when_transition().when(gate).assert_zero(x − y)`. -/
def chainCons (tr gate x y : K) : K := tr * (gate * (x - y))

/-- the same with the length tag: `x − y − tag`. -/
def chainTagCons (tr gate x y tag : K) : K := tr * (gate * (x - y - tag))

/-- arity 2: `when_transition().when(1 − next.new_start).when(next.merkle_path)
  .assert_zero(next.sum − (local.sum·2 + next.bit))`. -/
def accCons2 (tr ns mp lsum nsum nbit : K) : K :=
  tr * (((1 : K) - ns) * (mp * (nsum - (lsum * ((1 : K) + 1) + nbit))))

/-- arity 4: `next.sum − (local.sum·4 + next.bit + 2·next.bit2)`. -/
def accCons4 (tr ns mp lsum nsum nbit nbit2 : K) : K :=
  tr * (((1 : K) - ns) * (mp * (nsum - (lsum * ((1 : K) + 1 + 1 + 1) + nbit + ((1 : K) + 1) * nbit2))))

/-- sponge chain starts, compact layout (not under `when_transition`):
`when(next.new_start).when(1 − next.merkle_path).assert_zero(next_in − tag)`. -/
def startCons (ns mp x tag : K) : K := ns * (((1 : K) - mp) * (x - tag))

/-- Sponge chaining over limbs `lo ≤ limb < hi` with a per-limb gate. -/
def spongeChain (D : Nat) (tr : K) (gate : Nat → K) (loc nxt : PosRow K) (lo hi : Nat) : List K :=
  (List.range (hi - lo)).flatMap fun k =>
    let limb := lo + k
    (List.range D).map fun d => chainCons tr (gate limb) (pget nxt.inp (limb * D + d)) (pget loc.out (limb * D + d))

/-- Merkle placement, left half: `merkle_sel_i · (1 − bit)` gates `next_in[i] = local_out[i]`. -/
def merkleLeft (D : Nat) (tr : K) (msel : Nat → K) (loc nxt : PosRow K) (i : Nat) : List K :=
  (List.range D).map fun d =>
    chainCons tr (msel i * ((1 : K) - nxt.bit)) (pget nxt.inp (i * D + d)) (pget loc.out (i * D + d))

/-- Merkle placement, right half: `merkle_sel_i · bit` gates `next_in[RATE_EXT + i] = local_out[i]`. -/
def merkleRight (D RE : Nat) (tr : K) (msel : Nat → K) (loc nxt : PosRow K) (i : Nat) : List K :=
  (List.range D).map fun d =>
    chainCons tr (msel i * nxt.bit) (pget nxt.inp ((RE + i) * D + d)) (pget loc.out (i * D + d))

/-- The four one-hot position selectors of arity 4, linear thanks to the product column:
`h0 = 1 − b0 − b1 + b0b1`, `h1 = b0 − b0b1`, `h2 = b1 − b0b1`, `h3 = b0b1`. -/
def arity4Hot (r : PosRow K) (k : Nat) : K :=
  match k with
  | 0 => (1 : K) - r.bit - r.bit2 + r.bitProd
  | 1 => r.bit - r.bitProd
  | 2 => r.bit2 - r.bitProd
  | _ => r.bitProd

/-- arity-4 running-hash placement: chunk `k` of the next input receives the digest when `h_k = 1`. -/
def arity4Place (D CE : Nat) (tr : K) (msel : Nat → K) (loc nxt : PosRow K) : List K :=
  (List.range 4).flatMap fun k =>
    (List.range CE).flatMap fun slot =>
      let g := k * CE + slot
      (List.range D).map fun d =>
        chainCons tr (msel g * arity4Hot nxt k) (pget nxt.inp (g * D + d)) (pget loc.out (slot * D + d))

/-- Generic (non-compact) layout, arity 2 and the shapes that are neither arity 2 nor arity 4. -/
def genericConstraints (L : PosLayout) (tr : K) (loc nxt : PosRow K) (pn : List K) : List K :=
  [boolCons loc.bit]
    ++ spongeChain L.D tr (prepNormalSel L pn) loc nxt 0 L.widthExt
    ++ (List.range L.rateExt).flatMap (merkleLeft L.D tr (prepMerkleSel L pn) loc nxt)
    ++ (List.range L.rateExt).flatMap (fun i =>
          -- the right-hand half exists only where it fits into the state (`2·RATE_EXT = WIDTH_EXT`: arity 2). For
          -- the width-24 shapes (`RATE_EXT = 4`, `WIDTH_EXT = 6`) the real `eval` indexes out of bounds and
          -- panics (finding F-C11-P2); the model follows the repaired code (fixes/C11P-2.diff) there.
          if L.rateExt + i < L.widthExt then merkleRight L.D L.rateExt tr (prepMerkleSel L pn) loc nxt i else [])
    ++ [accCons2 tr (prepNewStart L pn) (prepMerklePath L pn) loc.idxSum nxt.idxSum nxt.bit]

/-- Compact `D = 1` width-16 layout. -/
def compactConstraints (L : PosLayout) (tr : K) (loc nxt : PosRow K) (pn : List K) : List K :=
  let ns := prepNewStart L pn
  let mp := prepMerklePath L pn
  let tagOf := fun (limb d : Nat) => if limb = L.rateExt ∧ d = 0 then prepCapTag L pn else (0 : K)
  [boolCons loc.bit]
    ++ spongeChain L.D tr (prepNormalSel L pn) loc nxt 0 L.rateExt
    ++ ((List.range (L.widthExt - L.rateExt)).flatMap fun k =>
          let limb := L.rateExt + k
          (List.range L.D).map fun d =>
            chainTagCons tr (prepCapChain L pn * ((1 : K) - mp)) (pget nxt.inp (limb * L.D + d))
              (pget loc.out (limb * L.D + d)) (tagOf limb d))
    ++ ((List.range L.rateExt).flatMap fun i =>
          (List.range L.D).flatMap fun d =>
            [ chainCons tr (prepMerkleSel L pn i * ((1 : K) - nxt.bit)) (pget nxt.inp (i * L.D + d)) (pget loc.out (i * L.D + d)),
              chainCons tr (prepMerkleSel L pn i * nxt.bit) (pget nxt.inp ((L.rateExt + i) * L.D + d)) (pget loc.out (i * L.D + d)) ])
    ++ ((List.range (L.widthExt - L.rateExt)).flatMap fun k =>
          let slot := L.rateExt + k
          (List.range L.D).map fun d => startCons ns mp (pget nxt.inp (slot * L.D + d)) (tagOf slot d))
    ++ [accCons2 tr ns mp loc.idxSum nxt.idxSum nxt.bit]

/-- Arity-4 compression shapes (`eval_arity4`). -/
def arity4Constraints (L : PosLayout) (tr : K) (loc nxt : PosRow K) (pn : List K) : List K :=
  [boolCons loc.bit, boolCons loc.bit2, loc.bitProd - loc.bit * loc.bit2]
    ++ spongeChain L.D tr (prepNormalSel L pn) loc nxt 0 L.widthExt
    ++ arity4Place L.D L.capExt tr (prepMerkleSel L pn) loc nxt
    ++ [accCons4 tr (prepNewStart L pn) (prepMerklePath L pn) loc.idxSum nxt.idxSum nxt.bit nxt.bit2]

/-- Control constraint values of `eval` on one window, in assertion order. `tr` is the builder's
`is_transition` value; `pn` the next preprocessed row (the constraints never read the local one). -/
def poseidonCtlConstraints (L : PosLayout) (tr : K) (loc nxt : PosRow K) (pn : List K) : List K :=
  if L.arity4 then arity4Constraints L tr loc nxt pn
  else if L.compact then compactConstraints L tr loc nxt pn
  else genericConstraints L tr loc nxt pn

/-! ### WitnessChecks interactions -/

/-- `(idx :: D limb cells ++ zeros up to WITNESS_EXT_D)`. -/
def limbTuple (L : PosLayout) (idx : K) (cells : List K) (limb : Nat) : List K :=
  idx :: ((List.range L.D).map fun d => pget cells (limb * L.D + d)) ++ List.replicate (L.witD - L.D) 0

/-- `(idx, value, 0, …)` of width `WITNESS_EXT_D + 1`. -/
def scalarTuple (L : PosLayout) (idx v : K) : List K :=
  idx :: v :: List.replicate (L.witD - 1) 0

/-- Interactions pushed by `eval_interactions_inner` for the local row, in order, with the multiplicity
expression's value (`Count::bounded(−m, 1)` records `−m`): input-limb sends, output-limb receives, then the
index-accumulator send (arity 2) or the two direction-bit sends (arity 4). -/
def poseidonCtlInteractions (L : PosLayout) (loc : PosRow K) (pl pn : List K) : List (List K × K) :=
  let mp := prepMerklePath L pl
  let notMerkle := (1 : K) - mp
  let nIn := if L.compact then L.rateExt else L.widthExt
  let ins := (List.range nIn).map fun limb =>
    let inCtl := prepInCtl L pl limb
    let m := if L.arity4 then inCtl else inCtl * notMerkle
    (limbTuple L (prepInIdx L pl limb) loc.inp limb, (0 : K) - m)
  let outs := (List.range L.rateExt).map fun limb =>
    (limbTuple L (prepOutIdx L pl limb) loc.out limb, prepOutCtl L pl limb)
  let tailI :=
    if L.arity4 then
      [ (scalarTuple L (prepSumIdx L pl) loc.bit, (0 : K) - mp),
        (scalarTuple L (prepMerkleFlag L pl) loc.bit2, (0 : K) - mp) ]
    else
      [ (scalarTuple L (prepSumIdx L pl) loc.idxSum, (0 : K) - prepMerkleFlag L pl * prepNewStart L pn) ]
  ins ++ outs ++ tailI

end

end P3R
