//! Programs mixing primitive and non-primitive builder calls (text form = replay), their generator, the
//! interpreter onto the real `CircuitBuilder`, and `run_case`: real preprocessing + AIRs -> bus audit, and the
//! honest prove + verify of provable programs (the prover's debug lookup check is a second opinion on balance).
//!
//! Line grammar (operands are indices into the list of values created so far; `-` = absent):
//!   const N | pub | pubv N | priv | privv N | add a b | sub a b | mul a b | muladd a b c | abool a | azero a
//!   conn a b | connpub a            (fresh public input connected to value a)
//!   ctl 0|1                         (set_recompose_coeff_ctl_for_decompose_links)
//!   perm NS MK ALL | in.. | outbits | bit bit2 sum     (add_perm, extension-mode call; pushes width_ext values)
//!   permb NS ALL LEN | in x16 | outbits x8            (add_poseidon2_perm_base, D = 1; pushes 16 values)
//!   recomp c.. | recompc c.. | recompalu c..          (recompose table / recompose-coeff table / ALU chain)
//!   decomp x                                          (decompose_ext_to_base_coeffs; pushes D values)
//!   bits x N                                          (decompose_to_bits; pushes N values)

use std::collections::{BTreeMap, HashSet};
use std::panic::{AssertUnwindSafe, catch_unwind};

use p3_baby_bear::{BabyBear, default_babybear_poseidon2_16};
use p3_batch_stark::ProverData;
use p3_circuit::ops::poseidon2_perm::Poseidon2PermCallBase;
use p3_circuit::ops::{NpoTypeId, Op, PermCall, PermConfig, Poseidon2Config, generate_poseidon2_trace, generate_recompose_trace, perm_private_data};
use p3_circuit::{Circuit, CircuitBuilder, ExprId, NonPrimitiveOpId};
use p3_circuit_prover::batch_stark_prover::{Poseidon2Prover, poseidon2_air_builders, recompose_air_builders};
use p3_circuit_prover::common::{CircuitTableAir, NpoAirBuilder, NpoPreprocessor, get_airs_and_degrees_with_prep};
use p3_circuit_prover::config::{self, BabyBearConfig};
use p3_circuit_prover::{BatchStarkProver, CircuitProverData, ConstraintProfile, Poseidon2Preprocessor, RecomposePreprocessor, TablePacking};
use p3_field::extension::BinomialExtensionField;
use p3_field::{BasedVectorSpace, ExtensionField, Field, PrimeCharacteristicRing};
use p3_poseidon2_circuit_air::{BabyBearD1Width16, BabyBearD4Width16};
use serde_json::{Value, json};

use super::{Audit, all_buses, audit, dynamic_names, occurrences};
use crate::rng::Rng;

type F = BabyBear;
type E4 = BinomialExtensionField<F, 4>;

#[derive(Clone, Debug)]
pub struct Prog {
    pub cfg: String, // "bb4" | "bb1"
    pub lines: Vec<String>,
    pub provable: bool,
}

impl Prog {
    pub fn text(&self) -> String {
        format!("{}\n{}", self.cfg, self.lines.join("\n"))
    }
    pub fn to_json(&self, id: &str) -> Value {
        json!({"npo_program": self.lines, "cfg": self.cfg, "provable": self.provable, "id": id})
    }
    pub fn from_json(v: &Value) -> Option<Prog> {
        let lines = v["npo_program"].as_array()?.iter().filter_map(|l| l.as_str().map(String::from)).collect();
        Some(Prog { cfg: v["cfg"].as_str().unwrap_or("bb4").to_string(), lines, provable: v["provable"].as_bool().unwrap_or(false) })
    }
}

pub struct Shape {
    pub d: usize,
    pub width_ext: usize,
    pub rate_ext: usize,
}

pub fn shape_of(cfg: &str) -> Shape {
    if cfg == "bb1" { Shape { d: 1, width_ext: 16, rate_ext: 8 } } else { Shape { d: 4, width_ext: 4, rate_ext: 2 } }
}

// ---------------------------------------------------------------------------------------------
// interpreter

#[derive(Clone, Debug)]
pub enum PubSpec {
    Fixed(u64),
    Free,
    Alias(usize), // index into connpubs
}

pub struct Built<EF> {
    pub circuit: Circuit<EF>,
    pub vals: Vec<Option<ExprId>>,
    pub pubs: Vec<PubSpec>,
    pub privs: Vec<Option<u64>>,
    pub merkle_ops: Vec<NonPrimitiveOpId>,
    pub connpub_targets: Vec<ExprId>,
}

fn opt_ref(tok: &str, vals: &[Option<ExprId>]) -> Result<Option<ExprId>, String> {
    if tok == "-" {
        return Ok(None);
    }
    let i: usize = tok.parse().map_err(|_| format!("bad-token {tok}"))?;
    vals.get(i).copied().flatten().map(Some).ok_or_else(|| format!("bad-ref {i}"))
}

fn need(tok: Option<&&str>, vals: &[Option<ExprId>]) -> Result<ExprId, String> {
    let t = tok.ok_or("missing-operand")?;
    opt_ref(t, vals)?.ok_or_else(|| "absent-operand".to_string())
}

pub fn build_prog<EF>(prog: &Prog, pcfg: Poseidon2Config, enable: &dyn Fn(&mut CircuitBuilder<EF>), connect: bool) -> Result<Built<EF>, String>
where
    EF: Field + ExtensionField<F> + BasedVectorSpace<F>,
{
    let mut b = CircuitBuilder::<EF>::new();
    enable(&mut b);
    let mut vals: Vec<Option<ExprId>> = vec![];
    let mut pubs = vec![];
    let mut privs = vec![];
    let mut merkle_ops = vec![];
    let mut connpub_targets = vec![];
    let e = |x: p3_circuit::CircuitBuilderError| format!("builder: {x:?}").chars().take(120).collect::<String>();
    for line in &prog.lines {
        let parts: Vec<&str> = line.split('|').map(|s| s.trim()).collect();
        let t: Vec<&str> = parts[0].split_whitespace().collect();
        let num = |i: usize| -> Result<u64, String> { t.get(i).and_then(|x| x.parse().ok()).ok_or_else(|| format!("bad-number in {line}")) };
        match t.first().copied().unwrap_or("") {
            "const" => vals.push(Some(b.define_const(EF::from(F::from_u64(num(1)?))))),
            "pub" => {
                pubs.push(PubSpec::Free);
                vals.push(Some(b.public_input()));
            }
            "pubv" => {
                pubs.push(PubSpec::Fixed(num(1)?));
                vals.push(Some(b.public_input()));
            }
            "priv" => {
                privs.push(None);
                vals.push(Some(b.alloc_private_input("p")));
            }
            "privv" => {
                privs.push(Some(num(1)?));
                vals.push(Some(b.alloc_private_input("p")));
            }
            "add" | "sub" | "mul" => {
                let (x, y) = (need(t.get(1), &vals)?, need(t.get(2), &vals)?);
                vals.push(Some(match t[0] {
                    "add" => b.add(x, y),
                    "sub" => b.sub(x, y),
                    _ => b.mul(x, y),
                }));
            }
            "muladd" => {
                let (x, y, z) = (need(t.get(1), &vals)?, need(t.get(2), &vals)?, need(t.get(3), &vals)?);
                vals.push(Some(b.mul_add(x, y, z)));
            }
            "abool" => b.assert_bool(need(t.get(1), &vals)?),
            "azero" => b.assert_zero(need(t.get(1), &vals)?),
            "conn" => {
                let (x, y) = (need(t.get(1), &vals)?, need(t.get(2), &vals)?);
                if connect {
                    b.connect(x, y);
                }
            }
            "connpub" => {
                let x = need(t.get(1), &vals)?;
                let p = b.public_input();
                pubs.push(PubSpec::Alias(connpub_targets.len()));
                connpub_targets.push(x);
                if connect {
                    b.connect(p, x);
                }
                vals.push(Some(p));
            }
            "ctl" => b.set_recompose_coeff_ctl_for_decompose_links(num(1)? == 1),
            "perm" => {
                let (ns, mk, all) = (num(1)? == 1, num(2)? == 1, num(3)? == 1);
                let ins: Vec<&str> = parts.get(1).ok_or("perm: no inputs")?.split_whitespace().collect();
                if ins.len() != pcfg.width_ext() {
                    return Err("perm: input count".into());
                }
                let inputs = ins.iter().map(|x| opt_ref(x, &vals)).collect::<Result<Vec<_>, _>>()?;
                let out_ctl: Vec<bool> = parts.get(2).ok_or("perm: no out_ctl")?.chars().filter(|c| *c == '0' || *c == '1').map(|c| c == '1').collect();
                let tail: Vec<&str> = parts.get(3).map(|s| s.split_whitespace().collect()).unwrap_or_default();
                let g = |i: usize| -> Result<Option<ExprId>, String> { opt_ref(tail.get(i).copied().unwrap_or("-"), &vals) };
                let call = PermCall { new_start: ns, merkle_path: mk, mmcs_bit: g(0)?, mmcs_bit2: g(1)?, inputs, out_ctl, return_all_outputs: all, mmcs_index_sum: g(2)? };
                let (id, outs) = b.add_perm(PermConfig::from(pcfg), &call).map_err(e)?;
                if mk {
                    merkle_ops.push(id);
                }
                let mut outs = outs;
                outs.resize(pcfg.width_ext(), None);
                vals.extend(outs);
            }
            "permb" => {
                let (ns, all, len) = (num(1)? == 1, num(2)? == 1, num(3)? as usize);
                let ins: Vec<&str> = parts.get(1).ok_or("permb: no inputs")?.split_whitespace().collect();
                if ins.len() != 16 {
                    return Err("permb: input count".into());
                }
                let mut inputs = [None; 16];
                for (i, x) in ins.iter().enumerate() {
                    inputs[i] = opt_ref(x, &vals)?;
                }
                let oc: Vec<bool> = parts.get(2).ok_or("permb: no out_ctl")?.chars().filter(|c| *c == '0' || *c == '1').map(|c| c == '1').collect();
                let mut out_ctl = [false; 8];
                for (i, x) in oc.iter().take(8).enumerate() {
                    out_ctl[i] = *x;
                }
                let call = Poseidon2PermCallBase { config: pcfg, new_start: ns, inputs, out_ctl, return_all_outputs: all, absorb_len: len };
                let (_, outs) = b.add_poseidon2_perm_base(&call).map_err(e)?;
                vals.extend(outs);
            }
            k @ ("recomp" | "recompc" | "recompalu") => {
                let cs = t[1..].iter().map(|x| need(Some(x), &vals)).collect::<Result<Vec<_>, _>>()?;
                let r = match k {
                    "recomp" => b.recompose_base_coeffs_to_ext::<F>(&cs),
                    "recompc" => b.recompose_base_coeffs_to_ext_with_coeff_lookups::<F>(&cs),
                    _ => b.recompose_base_coeffs_to_ext_via_alu::<F>(&cs),
                };
                vals.push(Some(r.map_err(e)?));
            }
            "decomp" => {
                let x = need(t.get(1), &vals)?;
                let cs = b.decompose_ext_to_base_coeffs::<F>(x).map_err(e)?;
                vals.extend(cs.into_iter().map(Some));
            }
            "bits" => {
                let x = need(t.get(1), &vals)?;
                let bs = b.decompose_to_bits::<F>(x, num(2)? as usize).map_err(e)?;
                vals.extend(bs.into_iter().map(Some));
            }
            other => return Err(format!("bad-op {other}")),
        }
    }
    let circuit = b.build().map_err(|x| format!("build: {x:?}").chars().take(120).collect::<String>())?;
    Ok(Built { circuit, vals, pubs, privs, merkle_ops, connpub_targets })
}

// ---------------------------------------------------------------------------------------------
// one case through the real preprocessing, the audit and (optionally) the real prover

pub struct CaseResult {
    pub outcome: String,
    pub d: usize,
    pub witness_count: u32,
    pub op_lines: Vec<String>,
    pub impl_lines: Vec<String>,
    pub audit: Option<Audit>,
    pub prove: Option<String>,
    pub hist: BTreeMap<String, u64>,
}

fn bump(h: &mut BTreeMap<String, u64>, k: &str) {
    *h.entry(k.to_string()).or_default() += 1;
}

/// Poseidon2 D=1 table inside a D=1 circuit (same adapter as harness/src/c06.rs: the repository has the AIR
/// and the table prover but no public `NpoAirBuilder<_, 1>`).
struct P2D1Builder;
impl NpoAirBuilder<BabyBearConfig, 1> for P2D1Builder {
    fn try_build(&self, op_type: &NpoTypeId, prep_base: &[F], min_height: usize, _lanes: usize, profile: ConstraintProfile) -> Option<(CircuitTableAir<BabyBearConfig, 1>, usize)> {
        let suffix = op_type.as_str().strip_prefix("poseidon2_perm/")?;
        let config = Poseidon2Config::from_variant_name(suffix)?;
        let prover = Poseidon2Prover::new(config, profile);
        let wrapper = prover.wrapper_from_config_with_preprocessed::<BabyBearConfig>(prep_base.to_vec(), min_height, 1)?;
        let width = prover.preprocessed_width_from_config();
        let rows = prep_base.len().div_ceil(width);
        let degree = p3_util::log2_ceil_usize(rows.next_power_of_two().max(min_height.next_power_of_two()));
        Some((CircuitTableAir::Dynamic(wrapper), degree))
    }
}

fn embed<EF: Field + ExtensionField<F> + BasedVectorSpace<F>>(v: u64, ext: bool, d: usize) -> EF {
    if ext && d > 1 {
        let mut l = vec![F::ZERO; d];
        l[0] = F::from_u64(v);
        l[1] = F::from_u64(v / 3 + 1);
        l[d - 1] = F::from_u64(7);
        EF::from_basis_coefficients_slice(&l).unwrap()
    } else {
        EF::from(F::from_u64(v))
    }
}

fn hint_outputs<EF>(c: &Circuit<EF>) -> HashSet<u32> {
    let mut h = HashSet::new();
    for op in &c.ops {
        if let Op::Hint { outputs, .. } = op {
            h.extend(outputs.iter().map(|w| w.0));
        }
    }
    h
}

macro_rules! cfg_impl {
    ($modname:ident, $EF:ty, $D:expr, $pcfg:expr, $enable:expr, $builders:expr, $register:expr) => {
        pub mod $modname {
            use super::*;
            type EF = $EF;
            const D: usize = $D;

            fn inputs_for(built: &Built<EF>, resolved: &[Option<EF>]) -> (Vec<EF>, Vec<EF>) {
                let pubs = built
                    .pubs
                    .iter()
                    .enumerate()
                    .map(|(i, p)| match p {
                        PubSpec::Fixed(v) => embed::<EF>(*v, false, D),
                        PubSpec::Free => embed::<EF>(1000 + i as u64, i % 2 == 1, D),
                        PubSpec::Alias(k) => resolved.get(*k).copied().flatten().unwrap_or(EF::ZERO),
                    })
                    .collect();
                let privs = built.privs.iter().enumerate().map(|(i, p)| match p {
                    Some(v) => embed::<EF>(*v, false, D),
                    None => embed::<EF>(2000 + i as u64, false, D),
                }).collect();
                (pubs, privs)
            }

            fn honest_run<'a>(built: &'a Built<EF>, resolved: &[Option<EF>]) -> Result<p3_circuit::Traces<EF>, String> {
                let (pubs, privs) = inputs_for(built, resolved);
                let mut runner = built.circuit.runner();
                runner.set_public_inputs(&pubs).map_err(|e| format!("{e:?}"))?;
                runner.set_private_inputs(&privs).map_err(|e| format!("{e:?}"))?;
                let pcfg: Poseidon2Config = $pcfg;
                for (k, id) in built.merkle_ops.iter().enumerate() {
                    let sib: Vec<EF> = (0..pcfg.rate_ext()).map(|i| embed::<EF>(31 + 7 * k as u64 + i as u64, true, D)).collect();
                    runner.set_private_data(*id, perm_private_data(pcfg, sib)).map_err(|e| format!("{e:?}"))?;
                }
                runner.run().map_err(|e| format!("{e:?}").chars().take(100).collect::<String>())
            }

            pub fn run_case(prog: &Prog, want_prove: bool) -> CaseResult {
                let mut hist = BTreeMap::new();
                let mut res = CaseResult { outcome: String::new(), d: D, witness_count: 0, op_lines: vec![], impl_lines: vec![], audit: None, prove: None, hist: BTreeMap::new() };
                let pcfg: Poseidon2Config = $pcfg;
                let enable: &dyn Fn(&mut CircuitBuilder<EF>) = &$enable;
                let built = match catch_unwind(AssertUnwindSafe(|| build_prog::<EF>(prog, pcfg, enable, true))).unwrap_or_else(|_| Err("builder: DebugAssertPanic".into())) {
                    Ok(b) => b,
                    Err(e) => {
                        res.outcome = format!("build-err.{}", e.split(|c: char| !c.is_alphanumeric() && c != '-').find(|s| !s.is_empty() && *s != "builder" && *s != "build").unwrap_or("x"));
                        return res;
                    }
                };
                let circuit = &built.circuit;
                res.witness_count = circuit.witness_count;
                let packing = TablePacking::new(1, 1);
                let npo_prep: Vec<Box<dyn NpoPreprocessor<F>>> = vec![Box::new(Poseidon2Preprocessor), Box::new(RecomposePreprocessor::new(true))];
                let ab: Vec<Box<dyn NpoAirBuilder<BabyBearConfig, D>>> = $builders;
                let prep = get_airs_and_degrees_with_prep::<BabyBearConfig, EF, D>(circuit, &packing, &npo_prep, &ab, ConstraintProfile::Standard);
                let (ad, prim, nonprim) = match prep {
                    Ok(x) => x,
                    Err(e) => {
                        res.outcome = format!("prep-err.{}", format!("{e:?}").split(|c: char| !c.is_alphanumeric()).next().unwrap_or("x"));
                        return res;
                    }
                };
                let names = dynamic_names::<BabyBearConfig, D>(&nonprim, &ab);
                let buses = all_buses::<BabyBearConfig, D>(&ad, &names);
                let (alu12, ext_reads): (Vec<u64>, Vec<u32>) = match circuit.generate_preprocessed_columns::<D>() {
                    Ok(p) => (p.primitive[2].iter().map(|x| x.as_base().map(|b: F| p3_field::PrimeField64::as_canonical_u64(&b)).unwrap_or(0)).collect(), p.ext_reads.clone()),
                    Err(_) => (vec![], vec![]),
                };
                let a = audit(circuit, D, &buses, &hint_outputs(circuit), &alu12, &ext_reads);
                let (occ, _, lines) = occurrences(circuit);
                for o in &occ {
                    bump(&mut hist, &format!("operand.{}", o.kind));
                }
                for op in &circuit.ops {
                    if let Op::NonPrimitiveOpWithExecutor { executor, .. } = op {
                        bump(&mut hist, &format!("npo.{}", executor.op_type().as_str()));
                    }
                }
                // shapes of interest
                let mut by_slot: BTreeMap<u32, Vec<&str>> = BTreeMap::new();
                for o in &occ {
                    by_slot.entry(o.slot).or_default().push(o.kind.as_str());
                }
                for ks in by_slot.values() {
                    let outs = ks.iter().filter(|k| k.ends_with(".out") && !k.starts_with("alu") && !k.starts_with("const") && !k.starts_with("public")).count();
                    if outs >= 2 {
                        bump(&mut hist, "shape.duplicate-npo-output");
                    }
                    if outs >= 1 && ks.iter().any(|k| k.starts_with("alu")) {
                        bump(&mut hist, "shape.npo-output-in-alu");
                    }
                    if outs >= 1 && ks.iter().any(|k| *k == "public.out" || *k == "const.out") {
                        bump(&mut hist, "shape.npo-output-aliased-to-public-or-const");
                    }
                    if outs >= 1 && ks.iter().any(|k| k.contains(".in") || k.ends_with(".coeff") || k.contains(".bit") || k.ends_with(".sum")) {
                        bump(&mut hist, "shape.npo-output-into-npo-input");
                    }
                    if ks.iter().any(|k| k.starts_with("alu.out")) && ks.iter().any(|k| k.contains("poseidon") && k.contains(".in")) {
                        bump(&mut hist, "shape.alu-result-into-perm-input");
                    }
                }
                res.op_lines = {
                    let mut v = vec![format!("privs {}", circuit.private_input_rows.iter().map(|w| w.0.to_string()).collect::<Vec<_>>().join(" "))];
                    v.extend(lines);
                    v
                };
                for (s, st) in a.slots.iter().enumerate() {
                    if st.creators > 0 || st.reads > 0 {
                        res.impl_lines.push(format!("st {} {} {} {}", s, st.creators, st.sent, st.reads));
                    }
                }
                res.impl_lines.push("end".into());
                res.outcome = "audited".into();
                if want_prove {
                    res.prove = Some(prove(prog, &built, ad, prim, nonprim));
                }
                res.audit = Some(a);
                res.hist = hist;
                res
            }

            fn prove(prog: &Prog, built: &Built<EF>, ad: Vec<(CircuitTableAir<BabyBearConfig, D>, usize)>, prim: Vec<Vec<F>>, nonprim: p3_circuit::ops::NonPrimitivePreprocessedMap<F>) -> String {
                // satisfying public inputs for the aliases: the un-connected twin is run once per alias, in order
                let mut resolved: Vec<Option<EF>> = vec![None; built.connpub_targets.len()];
                if !built.connpub_targets.is_empty() {
                    let pcfg: Poseidon2Config = $pcfg;
                    let enable: &dyn Fn(&mut CircuitBuilder<EF>) = &$enable;
                    let Ok(twin) = build_prog::<EF>(prog, pcfg, enable, false) else { return "run-twin-build-err".into() };
                    for k in 0..twin.connpub_targets.len() {
                        let t = match honest_run(&twin, &resolved) {
                            Ok(t) => t,
                            Err(e) => return format!("run-twin-err:{e}"),
                        };
                        let Some(w) = twin.circuit.expr_to_widx.get(&twin.connpub_targets[k]) else { return "run-twin-no-slot".into() };
                        resolved[k] = t.witness_trace.get_value(*w).copied();
                    }
                }
                let traces = match honest_run(built, &resolved) {
                    Ok(t) => t,
                    Err(e) => return format!("run-err:{e}"),
                };
                let r = catch_unwind(AssertUnwindSafe(|| {
                    let sc = config::baby_bear();
                    let (airs, degs): (Vec<_>, Vec<usize>) = ad.into_iter().unzip();
                    let pd = ProverData::from_airs_and_degrees(&sc, &airs, &degs);
                    let cpd = CircuitProverData::new(pd, prim, nonprim);
                    let mut prover = BatchStarkProver::new(sc).with_table_packing(TablePacking::new(1, 1));
                    let reg: &dyn Fn(&mut BatchStarkProver<BabyBearConfig>) = &$register;
                    reg(&mut prover);
                    let proof = match prover.prove_all_tables(&traces, &cpd) {
                        Ok(p) => p,
                        Err(e) => return format!("prove-failed:{}", format!("{e:?}").chars().take(140).collect::<String>()),
                    };
                    match prover.verify_all_tables::<EF>(&proof) {
                        Ok(()) => "accepted".to_string(),
                        Err(e) => format!("verify-failed:{}", format!("{e:?}").chars().take(140).collect::<String>()),
                    }
                }));
                r.unwrap_or_else(|p| {
                    let m = p.downcast_ref::<String>().cloned().or_else(|| p.downcast_ref::<&str>().map(|s| s.to_string())).unwrap_or_default();
                    format!("prove-failed:panic:{}", m.chars().take(140).collect::<String>())
                })
            }
        }
    };
}

cfg_impl!(
    bb4,
    E4,
    4,
    Poseidon2Config::BABY_BEAR_D4_W16,
    |b: &mut CircuitBuilder<E4>| {
        b.enable_poseidon2_perm::<BabyBearD4Width16, _>(generate_poseidon2_trace::<E4, BabyBearD4Width16>, default_babybear_poseidon2_16());
        b.enable_recompose::<F>(generate_recompose_trace::<F, E4>);
    },
    {
        let mut ab = poseidon2_air_builders::<BabyBearConfig, 4>();
        ab.extend(recompose_air_builders::<BabyBearConfig, 4>(1, true));
        ab
    },
    |p: &mut BatchStarkProver<BabyBearConfig>| {
        p.register_poseidon2_table::<4>(Poseidon2Config::BABY_BEAR_D4_W16);
        p.register_recompose_table::<4>(true);
    }
);

cfg_impl!(
    bb1,
    F,
    1,
    Poseidon2Config::BABY_BEAR_D1_W16,
    |b: &mut CircuitBuilder<F>| {
        b.enable_poseidon2_perm_base::<BabyBearD1Width16, _>(generate_poseidon2_trace::<F, BabyBearD1Width16>, default_babybear_poseidon2_16());
        b.enable_recompose::<F>(generate_recompose_trace::<F, F>);
    },
    {
        let mut ab: Vec<Box<dyn NpoAirBuilder<BabyBearConfig, 1>>> = vec![Box::new(P2D1Builder)];
        ab.extend(recompose_air_builders::<BabyBearConfig, 1>(1, true));
        ab
    },
    |p: &mut BatchStarkProver<BabyBearConfig>| {
        p.register_table_prover(Box::new(Poseidon2Prover::new(Poseidon2Config::BABY_BEAR_D1_W16, ConstraintProfile::Standard)));
        p.register_recompose_table::<1>(true);
    }
);

pub fn run_case(prog: &Prog, want_prove: bool) -> CaseResult {
    if prog.cfg == "bb1" { bb1::run_case(prog, want_prove) } else { bb4::run_case(prog, want_prove) }
}

// ---------------------------------------------------------------------------------------------
// generator

struct G<'a> {
    r: &'a mut Rng,
    sh: Shape,
    lines: Vec<String>,
    n: usize,          // number of values so far
    valid: Vec<usize>, // usable value indices
    bits: Vec<usize>,  // boolean-valued
    small: Vec<usize>, // public inputs with a small honest value
    npo_out: Vec<usize>,
    alu_out: Vec<usize>,
    privs: Vec<usize>,
    perm_lines: Vec<(String, usize)>, // reset sponge rows that can be repeated verbatim: (line, first output index)
    provable: bool,
    force_reset: bool,
    last_perm_kind: u8, // 0 none, 1 sponge, 2 merkle
}

impl G<'_> {
    fn push(&mut self, line: String, created: usize, usable: &[bool]) -> usize {
        let first = self.n;
        self.lines.push(line);
        for k in 0..created {
            if usable.get(k).copied().unwrap_or(true) {
                self.valid.push(first + k);
            }
        }
        self.n += created;
        first
    }
    fn any(&mut self) -> usize {
        // bias towards recent values and NPO outputs
        match self.r.below(5) {
            0 if !self.npo_out.is_empty() => *self.r.pick(&self.npo_out),
            1 if !self.alu_out.is_empty() => *self.r.pick(&self.alu_out),
            2 if !self.privs.is_empty() => *self.r.pick(&self.privs),
            _ => *self.r.pick(&self.valid),
        }
    }
    fn bit(&mut self) -> usize {
        if self.bits.is_empty() || self.r.chance(1, 4) {
            let v = self.r.below(2);
            let i = if self.r.chance(1, 2) { self.push(format!("pubv {v}"), 1, &[]) } else { self.push(format!("const {v}"), 1, &[]) };
            self.bits.push(i);
        }
        *self.r.pick(&self.bits)
    }
    fn perm(&mut self) {
        if self.r.chance(1, 3) {
            // a Merkle chain as a block: reset row, continuation rows, accumulator exposure on the last row only
            let k = 1 + self.r.usize(3);
            let expose = !self.provable && self.r.chance(1, 2);
            for i in 0..k {
                let ns = i == 0 || self.r.chance(1, 8);
                self.perm_row(true, ns, expose && i == k - 1);
            }
            self.force_reset = true;
        } else {
            let ns = self.force_reset || self.last_perm_kind != 1 || self.r.chance(1, 2);
            self.perm_row(false, ns, false);
            self.force_reset = false;
        }
    }
    fn perm_row(&mut self, merkle: bool, ns: bool, expose: bool) {
        let (we, re) = (self.sh.width_ext, self.sh.rate_ext);
        let d1 = self.sh.d == 1;
        // D = 1: sponge rows through the base call, Merkle rows through the extension-mode call
        let all = self.r.chance(1, 4);
        let pat = self.r.below(5);
        let mut ins: Vec<String> = vec![];
        let nin = if d1 || merkle { re } else { we };
        for i in 0..we {
            let fed = i < nin
                && match pat {
                    0 => true,
                    1 => false,
                    2 => i % 2 == 0,
                    3 => i == 0,
                    _ => self.r.chance(1, 2),
                };
            ins.push(if fed { self.any().to_string() } else { "-".into() });
        }
        // the builder accepts only a prefix of exposed outputs (contiguous output indices), and capacity outputs
        // only after a full rate; other patterns are kept at a low rate (they must be refused at build time)
        let npre = match self.r.below(4) {
            0 => re,
            1 => 0,
            2 => 1,
            _ => self.r.usize(re + 1),
        };
        let all = all && (npre == re || self.r.chance(1, 12));
        let odd = self.r.chance(1, 25);
        let outs: String = (0..re).map(|i| if odd { if self.r.chance(1, 2) { '1' } else { '0' } } else if i < npre { '1' } else { '0' }).collect();
        let usable: Vec<bool> = (0..we).map(|i| if i < re { outs.as_bytes()[i] == b'1' } else { all }).collect();
        let line;
        if d1 && !merkle {
            let len = if self.r.chance(1, 2) { 0 } else { self.r.below(9) };
            line = format!("permb {} {} {} | {} | {}", ns as u8, all as u8, len, ins.join(" "), outs);
        } else {
            let bit = if merkle { self.bit().to_string() } else { "-".into() };
            let sum = if expose { self.any().to_string() } else { "-".into() };
            line = format!("perm {} {} {} | {} | {} | {} - {}", ns as u8, merkle as u8, all as u8, ins.join(" "), outs, bit, sum);
        }
        let first = self.push(line.clone(), we, &usable);
        for i in 0..we {
            if usable[i] {
                self.npo_out.push(first + i);
            }
        }
        if ns && !merkle {
            self.perm_lines.push((line, first));
        }
        self.last_perm_kind = if merkle { 2 } else { 1 };
    }
    fn step(&mut self) {
        let d = self.sh.d;
        match self.r.below(20) {
            0 => {
                let v = self.r.below(9);
                let i = self.push(format!("const {v}"), 1, &[]);
                if v < 2 {
                    self.bits.push(i);
                }
            }
            1 => {
                self.push("pub".into(), 1, &[]);
            }
            2 => {
                let i = self.push("priv".into(), 1, &[]);
                self.privs.push(i);
            }
            3 | 4 | 5 => {
                let (a, b) = (self.any(), self.any());
                let op = *self.r.pick(&["add", "sub", "mul"]);
                let i = self.push(format!("{op} {a} {b}"), 1, &[]);
                self.alu_out.push(i);
            }
            6 => {
                let (a, b, c) = (self.any(), self.any(), self.any());
                let i = self.push(format!("muladd {a} {b} {c}"), 1, &[]);
                self.alu_out.push(i);
            }
            7 | 8 | 9 | 10 => self.perm(),
            11 => {
                // a reset sponge row repeated verbatim and its outputs connected: duplicate NPO outputs
                if let Some((line, first)) = self.perm_lines.last().cloned() {
                    let we = self.sh.width_ext;
                    let usable: Vec<bool> = (0..we).map(|i| self.valid.contains(&(first + i))).collect();
                    let f2 = self.push(line, we, &usable);
                    for i in 0..we {
                        if usable[i] && (i < self.sh.rate_ext) && self.r.chance(3, 4) {
                            self.lines.push(format!("conn {} {}", first + i, f2 + i));
                        }
                    }
                    self.last_perm_kind = 1;
                }
            }
            12 => {
                // NPO output (or anything) aliased to a fresh public input
                let a = if !self.npo_out.is_empty() && self.r.chance(3, 4) { *self.r.pick(&self.npo_out) } else { self.any() };
                self.push(format!("connpub {a}"), 1, &[]);
            }
            13 => {
                let k = if self.r.chance(1, 2) { "recomp" } else { "recompc" };
                let cs: Vec<String> = (0..d).map(|_| self.any().to_string()).collect();
                let i = self.push(format!("{k} {}", cs.join(" ")), 1, &[]);
                self.npo_out.push(i);
            }
            14 => {
                let x = self.any();
                if self.r.chance(1, 3) {
                    let v = self.r.below(2);
                    self.lines.push(format!("ctl {v}"));
                }
                let first = self.push(format!("decomp {x}"), d, &[]);
                for i in 0..d {
                    self.npo_out.push(first + i); // hint outputs: interesting operands as well
                }
            }
            15 => {
                let v = self.r.below(8);
                let p = self.push(format!("pubv {v}"), 1, &[]);
                self.small.push(p);
                let first = self.push(format!("bits {p} 3"), 3, &[]);
                self.bits.extend(first..first + 3);
            }
            16 if !self.provable => {
                // arbitrary aliasing: NPO outputs with constants / publics / ALU results / other NPO outputs
                let a = if !self.npo_out.is_empty() { *self.r.pick(&self.npo_out) } else { self.any() };
                let b = self.any();
                if a != b {
                    self.lines.push(format!("conn {a} {b}"));
                }
            }
            17 if !self.provable => {
                let a = self.any();
                self.lines.push(format!("{} {a}", if self.r.chance(1, 2) { "azero" } else { "abool" }));
            }
            18 => {
                let b = self.bit();
                self.lines.push(format!("abool {b}"));
            }
            _ => {
                let cs: Vec<String> = (0..d).map(|_| self.any().to_string()).collect();
                let i = self.push(format!("recompalu {}", cs.join(" ")), 1, &[]);
                self.alu_out.push(i);
            }
        }
    }
}

pub fn generate(r: &mut Rng, max_calls: usize, i: usize) -> Prog {
    let cfg = if i % 3 == 2 { "bb1" } else { "bb4" };
    let provable = r.chance(1, 2);
    let mut g = G { r, sh: shape_of(cfg), lines: vec![], n: 0, valid: vec![], bits: vec![], small: vec![], npo_out: vec![], alu_out: vec![], privs: vec![], perm_lines: vec![], provable, force_reset: false, last_perm_kind: 0 };
    g.push("pub".into(), 1, &[]);
    g.push("const 3".into(), 1, &[]);
    let i0 = g.push("priv".into(), 1, &[]);
    g.privs.push(i0);
    let n = 3 + g.r.usize(max_calls.max(4) - 3);
    for _ in 0..n {
        g.step();
    }
    // every private input is claimed by an ALU row, every NPO output has a reader (else F17 / silent rows only)
    let privs = g.privs.clone();
    for p in privs {
        if g.r.chance(5, 6) {
            let a = g.any();
            g.push(format!("mul {p} {a}"), 1, &[]);
        }
    }
    let outs = g.npo_out.clone();
    for o in outs {
        if g.r.chance(1, 2) {
            let a = g.any();
            let line = if g.r.chance(1, 2) { format!("add {o} {a}") } else { format!("mul {a} {o}") };
            g.push(line, 1, &[]);
        }
    }
    if g.last_perm_kind == 2 && (g.provable || g.r.chance(1, 2)) {
        // close the Merkle chain: the accumulator exposure needs a `new_start` successor
        g.perm_row(false, true, false);
    }
    // otherwise (audit-only programs) the chain's last row is the table's last real row: its `new_start` successor
    // is the first padding row, or — when the row count is a power of two — row 0 through the cyclic wrap
    Prog { cfg: cfg.into(), lines: g.lines, provable }
}

/// Hand-written programs pinning the shapes the task names (run first on every check).
pub fn fixed_programs() -> Vec<(Prog, &'static str)> {
    let p = |cfg: &str, provable: bool, l: &[&str]| Prog { cfg: cfg.into(), lines: l.iter().map(|s| s.to_string()).collect(), provable };
    vec![
        // two identical reset sponge rows, outputs connected: duplicate NPO outputs, read by the ALU
        (p("bb4", true, &["pub", "pub", "perm 1 0 0 | 0 1 0 1 | 11 | - - -", "perm 1 0 0 | 0 1 0 1 | 11 | - - -", "conn 2 6", "conn 3 7", "mul 2 3", "add 6 0"]), "dup-npo-outputs-bb4"),
        // NPO output aliased to a public input, chained sponge rows, output into the next row's input and the ALU
        (p("bb4", true, &["pub", "priv", "mul 1 0", "perm 1 0 0 | 0 2 0 0 | 11 | - - -", "connpub 3", "perm 0 0 1 | 3 - - - | 11 | - - -", "add 8 1", "mul 7 4", "mul 10 9"]), "chain-alias-pub-bb4"),
        // recompose with and without coefficient lookups on hinted coefficients, coefficients read by the ALU (b position)
        (p("bb4", true, &["pub", "const 2", "ctl 1", "decomp 0", "mul 1 2", "mul 1 3", "mul 1 4", "mul 1 5", "ctl 0", "pub", "decomp 10", "recomp 2 3 4 5", "add 15 0"]), "recompose-both-bb4"),
        // Merkle chain (arity 2) fed from a sponge digest, bits from a bit decomposition (hints feeding NPO inputs)
        (p("bb4", true, &["pub", "pub", "pubv 5", "bits 2 3", "perm 1 0 0 | 0 1 0 1 | 11 | - - -", "perm 1 1 0 | 6 7 - - | 00 | 3 - -", "perm 0 1 0 | - - - - | 11 | 4 - -", "mul 14 15"]), "merkle2-chain-bb4"),
        // D = 1 compact layout: sponge rows, duplicate outputs, output aliased to a public input
        (p("bb1", true, &["pub", "pub", "permb 1 0 2 | 0 1 - - - - - - - - - - - - - - | 11000000", "permb 1 0 2 | 0 1 - - - - - - - - - - - - - - | 11000000", "conn 2 18", "connpub 3", "mul 2 34", "add 19 0"]), "dup-npo-outputs-bb1"),
        // F-C09N-2: a decomposition hint output first used in the `b` position of a forward ALU row (recompose table on)
        (p("bb4", true, &["pub", "const 2", "decomp 0", "mul 1 2", "mul 1 3", "mul 1 4", "mul 1 5"]), "hint-coeff-b-position-bb4"),
        // F-C09N-3: recompose/coeff row and an ALU `a`-position first use both create a hinted coefficient
        (p("bb4", true, &["pub", "const 2", "ctl 1", "decomp 0", "mul 2 1", "add 1 2", "mul 1 3", "mul 1 4", "mul 1 5"]), "coeff-two-creators-bb4"),
        // F5 family: a capacity output (return_all_outputs) read by an ALU row in the b position
        (p("bb4", true, &["pub", "perm 1 0 1 | 0 0 0 0 | 11 | - - -", "const 2", "mul 5 3", "mul 1 2"]), "capacity-output-b-position-bb4"),
        // a Merkle chain whose accumulator-exposing row is the LAST row of the Poseidon table: 4 permutation rows (the
        // `new_start` successor is row 0 through the cyclic wrap), 3 rows (first padding row), 2 rows (wrap again)
        (p("bb4", false, &["pub", "pub", "pubv 5", "bits 2 3", "perm 1 0 0 | 0 1 0 1 | 11 | - - -", "perm 1 0 0 | 1 0 1 0 | 11 | - - -", "perm 1 1 0 | 6 7 - - | 00 | 3 - -", "perm 0 1 0 | - - - - | 11 | 4 - 0", "mul 18 19", "add 10 11"]), "merkle2-expose-last-row-wrap4-bb4"),
        (p("bb4", false, &["pub", "pub", "pubv 5", "bits 2 3", "perm 1 0 0 | 0 1 0 1 | 11 | - - -", "perm 1 1 0 | 6 7 - - | 00 | 3 - -", "perm 0 1 0 | - - - - | 11 | 4 - 0", "mul 14 15"]), "merkle2-expose-last-row-pad3-bb4"),
        (p("bb4", false, &["pub", "pub", "pubv 5", "bits 2 3", "perm 1 1 0 | 0 1 - - | 00 | 3 - -", "perm 0 1 0 | - - - - | 11 | 4 - 0", "mul 10 11"]), "merkle2-expose-last-row-wrap2-bb4"),
        // a private input first seen as an NPO input, claimed by a later ALU row
        (p("bb4", true, &["pub", "priv", "perm 1 0 0 | 1 0 0 0 | 10 | - - -", "mul 1 2"]), "private-first-in-npo-bb4"),
    ]
}
