/-
C12 — concrete witnesses for the generalised models (`P3R.Model.DecompGen`).

1. KoalaBear quintic trinomial extension (`X^5 = 1 - X^2`, `D = 5`), on the executable field of
   the driver: moved mass and wrap-around junk are accepted by the ALU chain (finding F16 at
   D = 5), junk in a higher limb by the `recompose` table (F17) and by `recompose/coeff` with
   multiplicity 0 (F18); with the per-coefficient tuple on the bus it is rejected. The harness
   replays the same vectors on the real prover (`corpus/c12/f1?q_*.json`).
2. Multi-limb bits on a small executable extension (`F_3[X]/(X^2+1)`, `w = 2`): honest hint
   accepted; bits of `v_1 + p` in the second limb, exchanged limbs, and a non-base "bit" that
   preserves the recomposition identity are rejected.
3. Non-vacuity of the hypotheses of `multi_accept_iff` / `multi_canonical` (a domain of
   characteristic 3 with a prime-independent pair) and of the `*G` theorems.
-/
import P3R.Model.Field
import P3R.Model.ExtPoly
import P3R.Props.C12Gen
import P3R.Props.C12Multi
import P3R.Props.C12Basis
import Mathlib.Algebra.Field.ZMod
import Mathlib.Algebra.Polynomial.Coeff
import Mathlib.Algebra.CharP.Algebra

namespace P3R.C12.WitnessGen
open P3R P3R.Decomp

abbrev KB := PF koalaBearP

/-- reduction vector of `X^5 + X^2 - 1`: `X^5 = 1 + 0·X - X^2` -/
def rq : Nat → KB := EV.redFn [1, 0, koalaBearP - 1, 0, 0]

def x5 : Nat → KB := fun j => PF.ofNat (j + 1)

/-- `c₀ = 1 + 7·X`, `c₁ = 2 - 7` -/
def moved5 : Nat → Nat → KB := fun i j =>
  if i = 0 then (if j = 0 then PF.ofNat 1 else if j = 1 then PF.ofNat 7 else 0)
  else if i = 1 then (if j = 0 then PF.ofNat 2 - PF.ofNat 7 else 0)
  else embed (x5 i) j

theorem moved5_accepted_alu : coefAcceptG rq 5 .alu false x5 moved5 = true := by decide
theorem moved5_not_canonical : coeffsEq 5 moved5 (canonCoeffs x5) = false := by decide

/-- junk `9·X^4` in `c_3`: `X^3 · 9X^4 = 9X^7 = 9X^2 - 9X^4`, compensated in the heads of
`c_2` and `c_4` — the reduction of the trinomial is what makes this vector recompose to `x`. -/
def wrap5 : Nat → Nat → KB := fun i j =>
  if i = 3 ∧ j = 4 then PF.ofNat 9
  else if i = 2 ∧ j = 0 then x5 2 - PF.ofNat 9
  else if i = 4 ∧ j = 0 then x5 4 + PF.ofNat 9
  else embed (x5 i) j

theorem wrap5_accepted_alu : coefAcceptG rq 5 .alu false x5 wrap5 = true := by decide
theorem wrap5_not_canonical : coeffsEq 5 wrap5 (canonCoeffs x5) = false := by decide

/-- … and the same vector is *not* accepted under a binomial modulus `X^5 = 2`: the model
distinguishes the moduli. -/
theorem wrap5_rejected_binomial : coefAcceptG (binR (PF.ofNat 2 : KB)) 5 .alu false x5 wrap5 = false := by
  decide

/-- Negation of the full statement (coefficients, ALU chain) for the quintic extension. -/
theorem full_statement_coeffs_alu_false_quintic :
    ¬ ∀ cs : Nat → Nat → KB, coefAcceptG rq 5 .alu false x5 cs = true →
        coeffsEq 5 cs (canonCoeffs x5) = true := fun h => by
  have := h moved5 moved5_accepted_alu
  rw [moved5_not_canonical] at this
  exact Bool.false_ne_true this

def junk5 : Nat → Nat → KB := fun i j => if i = 2 ∧ j = 3 then PF.ofNat 9 else embed (x5 i) j

theorem junk5_accepted_npo : coefAcceptG rq 5 .npo false x5 junk5 = true := by decide
theorem junk5_accepted_npoc_unread : coefAcceptG rq 5 .npoCoeff false x5 junk5 = true := by decide
theorem junk5_rejected_npoc_read : coefAcceptG rq 5 .npoCoeff true x5 junk5 = false := by decide
theorem canon5_accepted_alu : coefAcceptG rq 5 .alu false x5 (canonCoeffs x5) = true := by decide

/-! multi-limb bits over `F_3[X]/(X^2 + 1)`, `w = BF::bits() = 2` -/

abbrev E9 := EV 3 2 [2, 0]

def b0 : E9 := 0
def b1 : E9 := 1
/-- `x = 0 + 1·X` -/
def x9 : E9 := EV.ofLimbs [0, 1]

/-- honest hint output: limb 0 = 0 → `[0,0]`, limb 1 = 1 → `[1,0]` -/
def honest9 : List E9 := [b0, b0, b1, b0]

theorem honest9_is_hint : honest9 = canonBitsMulti 2 2 4 (fun i => (x9.fn i).val) := by decide
theorem honest9_accepted : bitsAcceptMulti 3 2 2 EV.basis x9 honest9 = true := by decide

/-- limb 0 holds the bits of `0 + p = 3`: recomposes to `x` but is not below the modulus -/
def plusP9 : List E9 := [b1, b1, b1, b0]
theorem plusP9_recomposes : reconMulti 2 2 EV.basis plusP9 = x9 := by decide
theorem plusP9_rejected : bitsAcceptMulti 3 2 2 EV.basis x9 plusP9 = false := by decide
theorem plusP9_run_conflict : bitsRunOkMulti 3 2 2 EV.basis x9 plusP9 = false := by decide

/-- limbs exchanged -/
def swapped9 : List E9 := [b1, b0, b0, b0]
theorem swapped9_rejected : bitsAcceptMulti 3 2 2 EV.basis x9 swapped9 = false := by decide

/-- the mass of limb 1 carried by the non-base "bit" `b_0 = X`: the recomposition identity and
the runner's checks hold (3-bit decomposition, second chunk short), the `BoolCheck` row rejects -/
def nonbase9 : List E9 := [EV.ofLimbs [0, 1], b0, b0]
theorem nonbase9_recomposes : reconMulti 2 2 EV.basis nonbase9 = x9 := by decide
theorem nonbase9_run_ok : bitsRunOkMulti 3 2 2 EV.basis x9 nonbase9 = true := by decide
theorem nonbase9_rejected : bitsAcceptMulti 3 2 2 EV.basis x9 nonbase9 = false := by decide

/-! non-vacuity of the general theorems -/

example : coefAcceptG (fun _ => (1 : ZMod 3)) 3 .alu false (fun _ => 1) (massMove (fun _ => 1) 1) = true :=
  (aluG_not_unique (K := ZMod 3) (fun _ => 1) 3 (by norm_num) false (fun _ => 1) 1 one_ne_zero).1

example : ∀ j < 3, (fun _ : ℕ => (2 : ZMod 3)) j = (fun _ => 2) j :=
  coeff_vectors_unique (K := ZMod 3) (fun _ => 1) 3 (fun _ => 2) (fun _ => 2) (fun _ _ => rfl)

open Polynomial in
/-- `1, X` are independent over the prime field in the domain `F_3[X]` (characteristic 3). -/
theorem primeIndep_poly : PrimeIndep (L := (ZMod 3)[X]) (fun i => X ^ i) 2 := by
  intro a b h i hi
  have hc : ∀ (c : ℕ → ℕ) (k : ℕ), k < 2 →
      (∑ j ∈ Finset.range 2, (X : (ZMod 3)[X]) ^ j * (c j : (ZMod 3)[X])).coeff k = (c k : ZMod 3) := by
    intro c k hk
    simp only [Finset.sum_range_succ, Finset.sum_range_zero, zero_add, pow_zero, one_mul, pow_one,
      coeff_add]
    interval_cases k <;> simp [coeff_natCast_ite]
  have := congrArg (fun q => q.coeff i) h
  simp only [hc a i hi, hc b i hi] at this
  rw [← C_eq_natCast, ← C_eq_natCast, this]

open Polynomial in
/-- All hypotheses of `multi_canonical` hold together for `L = F_3[X]`, `w = 2`, `D = 2`. -/
example [DecidableEq (ZMod 3)[X]] (bits : List (ZMod 3)[X]) (hn : bits.length ≤ 2 * 2) (v : ℕ → ℕ)
    (hv : ∀ i < 2, v i < 3)
    (hacc : bitsAcceptMulti 3 2 2 (fun i => (X : (ZMod 3)[X]) ^ i)
      (∑ i ∈ Finset.range 2, X ^ i * (v i : (ZMod 3)[X])) bits = true) :
    ∀ i < 2, chunkAt 2 i bits = canonBits (chunkAt 2 i bits).length (v i) :=
  multi_canonical 3 2 2 (by norm_num) (by norm_num) (by norm_num) _ primeIndep_poly bits hn v hv hacc

end P3R.C12.WitnessGen
