/-
Lane-packed main trace of a non-primitive table (`RecomposeAir::trace_to_matrix`,
circuit-prover/src/air/recompose_air.rs): `lanes` operations per row, `w` cells per operation;
operation `i` goes to row `i / lanes`, lane `i % lanes`; the matrix has
`max 1 ⌈n / lanes⌉` rows, padded with zero rows to a power of two.
The preprocessed trace of the same AIR is the flat per-operation vector cut into rows of
`lanes * plw` cells (`RowMajorMatrix::from_flat_padded`), i.e. the same op-major layout.
-/
namespace P3R.NpoLanes

variable {K : Type} [Zero K]

/-- Exactly `w` cells of one operation (the code writes `row.values` into a zeroed slice). -/
def padRow (w : Nat) (vals : List K) : List K := (vals ++ List.replicate w 0).take w

/-- Smallest power of two `≥ n` (for `n ≥ 1`), by fuel. -/
def nextPow2 (n : Nat) : Nat := go n 1 n
where go (n p : Nat) : Nat → Nat
  | 0 => p
  | fuel + 1 => if p ≥ n then p else go n (2 * p) fuel

/-- The writes of `trace_to_matrix`, literally: a zero vector of `numRows * lanes * w` cells in which
operation `i` overwrites the slice at `(i / lanes) * (lanes * w) + (i % lanes) * w`. -/
def writeOps (lanes w : Nat) (ops : List (List K)) (numRows : Nat) : Array K :=
  (ops.zipIdx).foldl (fun (acc : Array K) (oi : List K × Nat) =>
    let base := (oi.2 / lanes) * (lanes * w) + (oi.2 % lanes) * w
    ((padRow w oi.1).zipIdx).foldl (fun (a : Array K) (vj : K × Nat) => a.setIfInBounds (base + vj.2) vj.1) acc)
    (Array.replicate (numRows * (lanes * w)) 0)

/-- Row-major matrix returned by `trace_to_matrix` (rows of `lanes * w` cells). -/
def laneMatrix (lanes w : Nat) (ops : List (List K)) : List (List K) :=
  let numRows := max 1 ((ops.length + lanes - 1) / lanes)
  let h := nextPow2 numRows
  let flat := writeOps lanes w ops numRows
  (List.range h).map fun r => (List.range (lanes * w)).map fun c => flat.getD (r * (lanes * w) + c) 0

/-- Cell `j` of lane `l` of row `r` of a row-major flat vector (zero outside). -/
def cellAt (flat : List K) (lanes w r l j : Nat) : K := flat.getD (r * (lanes * w) + l * w + j) 0

/-- The op-major flat vector: operation after operation, `w` cells each. -/
def flatOps (w : Nat) (ops : List (List K)) : List K := ops.flatMap (padRow w)

end P3R.NpoLanes
