/-
Helper lemmas for C14: how `pubOf` / `privOf` (filter an allocation trace by visibility) commute
with the combinators the traversals are written with, and the per-structure alignment lemmas.
-/
import P3R.Model.Packing

namespace P3R.Packing

/-! ### `pubOf` / `privOf` through the combinators -/

@[simp] theorem pubOf_nil : pubOf [] = [] := rfl
@[simp] theorem privOf_nil : privOf [] = [] := rfl

@[simp] theorem pubOf_append (a b : List Slot) : pubOf (a ++ b) = pubOf a ++ pubOf b := by
  induction a with
  | nil => rfl
  | cons s l ih =>
    by_cases h : s.vis = Vis.pub <;> simp [pubOf, h, ih]

@[simp] theorem privOf_append (a b : List Slot) : privOf (a ++ b) = privOf a ++ privOf b := by
  induction a with
  | nil => rfl
  | cons s l ih =>
    by_cases h : s.vis = Vis.priv <;> simp [privOf, h, ih]

@[simp] theorem pubOf_mkPub (l : List Label) : pubOf (mkPub l) = l := by
  induction l with
  | nil => rfl
  | cons a l ih => simpa [mkPub, pubOf] using ih

@[simp] theorem privOf_mkPub (l : List Label) : privOf (mkPub l) = [] := by
  induction l with
  | nil => rfl
  | cons a l ih => simpa [mkPub, privOf] using ih

@[simp] theorem pubOf_mkPriv (l : List Label) : pubOf (mkPriv l) = [] := by
  induction l with
  | nil => rfl
  | cons a l ih => simpa [mkPriv, pubOf] using ih

@[simp] theorem privOf_mkPriv (l : List Label) : privOf (mkPriv l) = l := by
  induction l with
  | nil => rfl
  | cons a l ih => simpa [mkPriv, privOf] using ih

@[simp] theorem pubOf_allocPub (pre : String) (n : Nat) : pubOf (allocPub pre n) = idx pre n := by
  simp [allocPub]
@[simp] theorem privOf_allocPub (pre : String) (n : Nat) : privOf (allocPub pre n) = [] := by
  simp [allocPub]
@[simp] theorem pubOf_allocPriv (pre : String) (n : Nat) : pubOf (allocPriv pre n) = [] := by
  simp [allocPriv]
@[simp] theorem privOf_allocPriv (pre : String) (n : Nat) : privOf (allocPriv pre n) = idx pre n := by
  simp [allocPriv]

theorem pubOf_optL {α : Type} (o : Option α) (f : α → List Slot) :
    pubOf (optL o f) = optL o (fun a => pubOf (f a)) := by
  cases o <;> rfl

theorem privOf_optL {α : Type} (o : Option α) (f : α → List Slot) :
    privOf (optL o f) = optL o (fun a => privOf (f a)) := by
  cases o <;> rfl

theorem pubOf_flatMapIdx {α : Type} (f : Nat → α → List Slot) (i : Nat) (l : List α) :
    pubOf (flatMapIdx f i l) = flatMapIdx (fun i a => pubOf (f i a)) i l := by
  induction l generalizing i with
  | nil => rfl
  | cons a l ih => simp [flatMapIdx, ih]

theorem privOf_flatMapIdx {α : Type} (f : Nat → α → List Slot) (i : Nat) (l : List α) :
    privOf (flatMapIdx f i l) = flatMapIdx (fun i a => privOf (f i a)) i l := by
  induction l generalizing i with
  | nil => rfl
  | cons a l ih => simp [flatMapIdx, ih]

@[simp] theorem flatMapIdx_nil_fun {α β : Type} (i : Nat) (l : List α) :
    flatMapIdx (fun _ _ => ([] : List β)) i l = [] := by
  induction l generalizing i with
  | nil => rfl
  | cons a l ih => simp [flatMapIdx, ih]

theorem flatMapIdx_congr {α β : Type} {f g : Nat → α → List β} (i : Nat) (l : List α)
    (h : ∀ j a, a ∈ l → f j a = g j a) : flatMapIdx f i l = flatMapIdx g i l := by
  induction l generalizing i with
  | nil => rfl
  | cons a l ih =>
    simp only [flatMapIdx]
    rw [h i a (List.mem_cons_self ..), ih (i + 1) (fun j b hb => h j b (List.mem_cons_of_mem _ hb))]

@[simp] theorem optL_nil_fun {α β : Type} (o : Option α) : optL o (fun _ => ([] : List β)) = [] := by
  cases o <;> rfl

/-- Every allocation is public or private. -/
theorem mem_pubOf_or_privOf {s : Slot} {l : List Slot} (h : s ∈ l) :
    s.lab ∈ pubOf l ∨ s.lab ∈ privOf l := by
  induction l with
  | nil => cases h
  | cons t l ih =>
    rcases List.mem_cons.mp h with rfl | h'
    · cases hv : s.vis
      · left; simp [pubOf, hv]
      · right; simp [privOf, hv]
    · rcases ih h' with h1 | h1
      · left
        by_cases ht : t.vis = Vis.pub <;> simp [pubOf, ht, h1]
      · right
        by_cases ht : t.vis = Vis.priv <;> simp [privOf, ht, h1]

theorem length_pubOf_add_privOf (l : List Slot) : (pubOf l).length + (privOf l).length = l.length := by
  induction l with
  | nil => rfl
  | cons s l ih =>
    cases hv : s.vis <;> simp [pubOf, privOf, hv] <;> omega

/-! ### Sibling coefficients: `siblings × D` nested = flat `(siblings·D)` -/

theorem idxFrom_append (pre : String) (k m n : Nat) :
    idxFrom pre k (m + n) = idxFrom pre k m ++ idxFrom pre (k + m) n := by
  induction m generalizing k with
  | zero => simp [idxFrom]
  | succ m ih =>
    have : m + 1 + n = (m + n) + 1 := by omega
    rw [this]
    simp only [idxFrom, List.cons_append]
    rw [ih (k + 1)]
    have : k + 1 + m = k + (m + 1) := by omega
    rw [this]

theorem sibCoeffs_eq (D : Nat) (pre : String) (j n : Nat) :
    sibCoeffs D pre j n = idxFrom s!"{pre}.sib" (j * D) (n * D) := by
  induction n generalizing j with
  | zero => simp [sibCoeffs, idxFrom]
  | succ n ih =>
    have h1 : (n + 1) * D = D + n * D := by rw [Nat.succ_mul]; omega
    rw [sibCoeffs, ih, h1, idxFrom_append]
    have : j * D + D = (j + 1) * D := by rw [Nat.succ_mul]
    rw [this]

/-! ### Per-structure alignment -/

theorem cap_pub (E : Nat) (pre : String) (r : Nat) : pubOf (capAlloc E pre r) = capPub E pre r := by
  simp [capAlloc, capPub, pubOf_flatMapIdx]
theorem cap_priv (E : Nat) (pre : String) (r : Nat) : privOf (capAlloc E pre r) = [] := by
  simp [capAlloc, privOf_flatMapIdx]

theorem coms_pub (E : Nat) (c : ComsShape) : pubOf (comsAlloc E c) = comsPub E c := by
  simp [comsAlloc, comsPub, pubOf_optL, cap_pub]
theorem coms_priv (E : Nat) (c : ComsShape) : privOf (comsAlloc E c) = [] := by
  simp [comsAlloc, privOf_optL, cap_priv]

theorem ov_pub (pre : String) (o : OVShape) : pubOf (ovAlloc pre o) = [] := by
  simp [ovAlloc, pubOf_optL, pubOf_flatMapIdx]

/-- `alloc_private_inputs(map_or(0, len))` vs `if let Some(v) = trace_next { extend(v) }`. -/
theorem idx_getD (pre : String) (o : Option Nat) : idx pre (o.getD 0) = optL o (idx pre) := by
  cases o <;> simp [optL, idx, idxFrom]

theorem ov_priv (pre : String) (o : OVShape) : privOf (ovAlloc pre o) = ovPriv pre o := by
  simp [ovAlloc, ovPriv, privOf_optL, privOf_flatMapIdx, idx_getD]

theorem ovl_pub (pre : String) (o : OVLShape) : pubOf (ovlAlloc pre o) = [] := by
  simp [ovlAlloc, ov_pub]
theorem ovl_priv (pre : String) (o : OVLShape) : privOf (ovlAlloc pre o) = ovlPriv pre o := by
  simp [ovlAlloc, ovlPriv, ov_priv]

theorem ovs_pub (l : List OVLShape) : pubOf (ovsAlloc l) = [] := by
  simp [ovsAlloc, pubOf_flatMapIdx, ovl_pub]
theorem ovs_priv (l : List OVLShape) : privOf (ovsAlloc l) = ovsPriv l := by
  simp [ovsAlloc, ovsPriv, privOf_flatMapIdx, ovl_priv]

theorem mmcs_pub (pre : String) (p : MmcsProofShape) : pubOf (mmcsAlloc pre p) = [] := by
  simp [mmcsAlloc, pubOf_flatMapIdx]
theorem mmcs_priv (pre : String) (p : MmcsProofShape) : privOf (mmcsAlloc pre p) = mmcsPriv pre p := by
  simp [mmcsAlloc, mmcsPriv, privOf_flatMapIdx]

theorem bo_pub (pre : String) (b : BatchOpeningShape) : pubOf (boAlloc pre b) = [] := by
  simp [boAlloc, pubOf_flatMapIdx, mmcs_pub]
theorem bo_priv (pre : String) (b : BatchOpeningShape) : privOf (boAlloc pre b) = boPriv pre b := by
  simp [boAlloc, boPriv, privOf_flatMapIdx, mmcs_priv]

theorem step_pub (D : Nat) (pre : String) (s : StepShape) : pubOf (stepAlloc D pre s) = [] := by
  simp [stepAlloc, mmcs_pub]

/-- Since /repo fc0321f `new` and `get_private_values` both read `sibling_values.len()`: no
    hypothesis on the sibling count. -/
theorem step_priv (D : Nat) (pre : String) (s : StepShape) :
    privOf (stepAlloc D pre s) = stepPriv D pre s := by
  simp [stepAlloc, stepPriv, mmcs_priv, sibCoeffs_eq, idx]

theorem query_pub (D : Nat) (pre : String) (q : QueryShape) : pubOf (queryAlloc D pre q) = [] := by
  simp [queryAlloc, pubOf_flatMapIdx, bo_pub, step_pub]

theorem query_priv (D : Nat) (pre : String) (q : QueryShape) :
    privOf (queryAlloc D pre q) = queryPriv D pre q := by
  simp only [queryAlloc, queryPriv, privOf_append, privOf_flatMapIdx, bo_priv, step_priv]

theorem fri_pub (D E : Nat) (f : FriShape) : pubOf (friAlloc D E f) = friPub E f := by
  simp [friAlloc, friPub, pubOf_flatMapIdx, cap_pub, query_pub]

theorem fri_priv (D E : Nat) (f : FriShape) :
    privOf (friAlloc D E f) = friPriv D f := by
  simp only [friAlloc, friPriv, privOf_append, privOf_flatMapIdx, cap_priv, privOf_allocPub,
    flatMapIdx_nil_fun, List.nil_append, List.append_nil, query_priv]

theorem hid_pub (h : List (List (List Nat))) : pubOf (hidAlloc h) = [] := by
  simp [hidAlloc, pubOf_flatMapIdx]
theorem hid_priv (h : List (List (List Nat))) : privOf (hidAlloc h) = hidPriv h := by
  simp [hidAlloc, hidPriv, privOf_flatMapIdx]

theorem pcs_pub (D E : Nat) (p : PcsShape) : pubOf (pcsAlloc D E p) = pcsPub E p := by
  simp [pcsAlloc, pcsPub, pubOf_optL, hid_pub, fri_pub]

theorem pcs_priv (D E : Nat) (p : PcsShape) :
    privOf (pcsAlloc D E p) = pcsPriv D p := by
  simp only [pcsAlloc, pcsPriv, privOf_append, privOf_optL, fri_priv D E p.fri]
  congr 1
  cases p.hid <;> simp [optL, hid_priv]

end P3R.Packing
