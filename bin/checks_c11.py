"""C11: table constraints (ALU, Const/Public, recompose, Poseidon circuit tables' control part) — value-exact correspondence of AluAir::eval with the Lean model
on random windows, relation oracle on structured rows and on scheduled honest traces with
single-cell tampering."""
import json, os
from checks import run_driver, read_lines

PROPERTY = "C11"


def run(ctx):
    tier, seed, work = ctx["tier"], ctx["seed"], ctx["work"]
    n_alu, n_sched, tampers = (4000, 1500, 12) if tier == "quick" else (200000, 60000, 24)
    violations, hist, samples = [], {}, []
    out = f"{work}/run0"
    evals = distinct = disagreements = blocks = 0
    rc, o = ctx["sh"]([ctx["harness"], "alu", "--seed", str(seed), "--cases", str(n_alu), "--out", out], timeout=7200)
    if rc != 0:
        violations.append({"class": "harness-crash", "what": f"harness alu exited {rc}: {o[-300:]}", "replay": {}, "no_input": True})
    else:
        rep = json.load(open(f"{out}/alu.report.json"))
        evals += rep["evaluations"]; distinct += rep["distinct"]; hist.update(rep["hist"]); samples += rep["samples"][:2]
        for v in rep["violations"]:
            violations.append({"class": v["class"], "what": v["kind"], "replay": v["replay"]})
        with open(f"{out}/alu.cases") as fin:
            rc, mo = ctx["sh"]([ctx["driver_dir"] + "/p3r_driver_c11"], stdin=fin, timeout=3600)
        open(f"{out}/alu.model", "w").write(mo)
        impl = read_lines(f"{out}/alu.impl"); model = read_lines(f"{out}/alu.model"); cases = read_lines(f"{out}/alu.cases")
        blocks = len(cases)
        for k in range(len(cases)):
            a = impl[2 * k:2 * k + 2]; b = model[2 * k:2 * k + 2]
            if a != b:
                disagreements += 1
                if disagreements <= 3:
                    ai = a[0].split() if a else []; bi = b[0].split() if b else []
                    pos = next((j for j, (x, y) in enumerate(zip(ai, bi)) if x != y), None)
                    violations.append({"class": "model-disagreement",
                        "what": f"correspondence AluAir::eval vs lean/P3R/Model/AluAir no longer checks (constraint/interaction #{pos} differs)",
                        "replay": {"correspondence": "AluAir::eval values on a window", "case": cases[k][:4000], "first_diff_index": pos},
                        "no_input": True})
    rc, o = ctx["sh"]([ctx["harness"], "alusched", "--seed", str(seed), "--cases", str(n_sched), "--tampers", str(tampers), "--out", out], timeout=7200)
    if rc != 0:
        violations.append({"class": "harness-crash", "what": f"harness alusched exited {rc}: {o[-300:]}", "replay": {}, "no_input": True})
    else:
        rep = json.load(open(f"{out}/alusched.report.json"))
        evals += rep["evaluations"]
        for k, v in rep["hist"].items():
            hist[k] = hist.get(k, 0) + v
        for v in rep["violations"]:
            violations.append({"class": v["class"], "what": v["kind"], "replay": v["replay"]})
        # schedule / scheduled preprocessed matrix: real AluAir vs lean/P3R/Model/AluSchedule.lean
        with open(f"{out}/alusched.cases") as fin:
            rc, mo = ctx["sh"]([ctx["driver_dir"] + "/p3r_driver_c11"], stdin=fin, timeout=3600)
        mlines = [l for l in mo.splitlines() if l.startswith("m ") or l == "bad-op"]
        ichk = [l for l in mo.splitlines() if l.startswith("ichk")]
        bad_ichk = [k for k, l in enumerate(ichk) if l != "ichk ok"]
        if bad_ichk or len(ichk) != len(mlines):
            violations.append({"class": "model-disagreement",
                "what": "certificate entryInters = aluInteractions on the scheduled rows (link between the scheduled matrix and theorem "
                        "schedule_preserves_bus) no longer checks",
                "replay": {"correspondence": "scheduled rows' interactions vs entryInters", "first_case": (read_lines(f"{out}/alusched.cases")[bad_ichk[0]] if bad_ichk else "")[:4000]},
                "no_input": True})
        ilines = read_lines(f"{out}/alusched.impl"); scases = read_lines(f"{out}/alusched.cases")
        blocks += len(scases)
        sd = 0
        for k in range(max(len(ilines), len(mlines))):
            a = ilines[k] if k < len(ilines) else None
            b = mlines[k] if k < len(mlines) else None
            if a != b:
                disagreements += 1; sd += 1
                if sd <= 3:
                    violations.append({"class": "model-disagreement",
                        "what": "correspondence compute_schedule + build_scheduled_preprocessed_trace (alu_air.rs) vs lean/P3R/Model/AluSchedule no longer checks",
                        "replay": {"correspondence": "scheduled preprocessed matrix", "case": (scases[k] if k < len(scases) else "")[:4000],
                                   "impl": (a or "")[:1500], "model": (b or "")[:1500]},
                        "no_input": True})
    # Poseidon circuit tables, control part: real Poseidon2CircuitAir / Poseidon1CircuitAir eval vs
    # lean/P3R/Model/PoseidonCtl.lean, honest chains + tamper oracle (harness/src/c11p.rs)
    n_pos, n_chain, pt = (2400, 260, 10) if tier == "quick" else (120000, 12000, 20)
    rc, o = ctx["sh"]([ctx["harness"], "poseidonctl", "--seed", str(seed), "--cases", str(n_pos), "--chains", str(n_chain),
                       "--tampers", str(pt), "--out", out], timeout=7200)
    pos_cov = {}
    if rc != 0:
        violations.append({"class": "harness-crash", "what": f"harness poseidonctl exited {rc}: {o[-300:]}", "replay": {}, "no_input": True})
    else:
        rep = json.load(open(f"{out}/poseidonctl.report.json"))
        evals += rep["evaluations"]; distinct += rep["distinct"]
        for k, v in rep["hist"].items():
            hist["poseidon." + k] = hist.get("poseidon." + k, 0) + v
        samples += rep["samples"][:2]
        seen_cls = {}
        for v in rep["violations"]:
            # one entry per class is enough for the classification; keep the first three of each
            seen_cls[v["class"]] = seen_cls.get(v["class"], 0) + 1
            if seen_cls[v["class"]] <= 3:
                violations.append({"class": v["class"], "what": v["kind"] + (" " + ",".join(v.get("facts", [])) if v.get("facts") else ""), "replay": v["replay"]})
        with open(f"{out}/poseidonctl.cases") as fin:
            rc, mo = ctx["sh"]([ctx["driver_dir"] + "/p3r_driver_c11p"], stdin=fin, timeout=3600)
        open(f"{out}/poseidonctl.model", "w").write(mo)
        impl = read_lines(f"{out}/poseidonctl.impl"); model = read_lines(f"{out}/poseidonctl.model"); cases = read_lines(f"{out}/poseidonctl.cases")
        blocks += len(cases)
        pd = 0
        if len(impl) != 2 * len(cases) or len(model) != 2 * len(cases):
            disagreements += 1
            violations.append({"class": "model-disagreement",
                "what": f"correspondence Poseidon circuit AIR eval vs lean/P3R/Model/PoseidonCtl: stream lengths differ (cases {len(cases)}, impl {len(impl)}, model {len(model)})",
                "replay": {"correspondence": "Poseidon circuit AIR control constraints on a window"}, "no_input": True})
        else:
            for k in range(len(cases)):
                a = impl[2 * k:2 * k + 2]; b = model[2 * k:2 * k + 2]
                if a[0].startswith("panic"):
                    continue   # the real eval panicked: reported by the harness with the window as replay
                if a != b:
                    disagreements += 1; pd += 1
                    if pd <= 3:
                        which = 0 if a[0] != b[0] else 1
                        ai = a[which].split(); bi = b[which].split()
                        pos = next((j for j, (x, y) in enumerate(zip(ai, bi)) if x != y), min(len(ai), len(bi)))
                        violations.append({"class": "model-disagreement",
                            "what": "correspondence Poseidon2CircuitAir/Poseidon1CircuitAir::eval (control part) vs lean/P3R/Model/PoseidonCtl no longer checks "
                                    f"({'constraint' if which == 0 else 'interaction'} #{pos - 1} differs, layout {' '.join(cases[k].split()[1:8])})",
                            "replay": {"correspondence": "Poseidon circuit AIR control constraints / interactions on a window", "case": cases[k][:6000],
                                       "first_diff_index": pos - 1, "impl": a[which][:1200], "model": b[which][:1200]},
                            "no_input": True})
        # coordinated selector forgeries (harness/src/c11p_chain.rs forge_selector / selector_sweep): per (layout mode, cell,
        # row kind) verdict counts; every selector-like prover cell of every Merkle layout must have been forged on a
        # chain-start row and on a continuation row, otherwise the oracle is vacuous for that cell
        forge = {k[len("forge."):]: v for k, v in rep["hist"].items() if k.startswith("forge.")}
        expected = [(m, "mmcs_bit") for m in ("arity2", "arity2-compact", "arity4")] + \
                   [("arity4", c) for c in ("mmcs_bit2", "mmcs_bit_x_bit2", "mmcs_bit+mmcs_bit2")]
        missing = [f"{m}.{c}.{pos}" for (m, c) in expected for pos in ("first", "cont")
                   if not any(k.startswith(f"{m}.{c}.{pos}.") for k in forge)]
        if missing:
            violations.append({"class": "coverage-hole:poseidon-selector-forgery",
                "what": "no coordinated forgery was evaluated for selector cell(s) " + ", ".join(missing) + " (oracle vacuous there)",
                "replay": {"missing": missing}, "no_input": True})
        pos_cov = {"coordinated_selector_forgeries": forge,
                   "windows": rep["windows"], "tamper_evaluations": rep["tamper_evaluations"], "constraint_counts": rep["constraint_counts"], "accepted_invalid_or_panic_by_class": rep.get("violation_counts", {}),
                   "window_disagreements": pd}
    cov = {"evaluations": evals, "distinct_nontrivial": distinct,
           "rule": "windows over D in {1,2,4,5(quintic),8}, lanes 1..3, K_max 2..6: fully random (dense/sparse selectors) for polynomial "
                   "identity, structured valid/invalid rows judged with p3-field extension arithmetic; scheduled honest traces built by the "
                   "real AluAir (packed Horner arities 1..K_max) with single-cell tampering judged by an independent relation decoder; "
                   "Poseidon tables: honest chains with single-cell tampering AND coordinated selector forgeries (for every selector-like prover cell - "
                   "arity-2 mmcs_bit; arity-4 mmcs_bit, mmcs_bit2, the product helper, both bits - and non-boolean values {2,3,-1,1/2,-2,random}: the "
                   "helper, the digest placement chunks, the permutation block, the accumulator and the following rows are solved so that every "
                   "constraint except the cell's own range check / tie holds; random rows of random chains plus a systematic sweep over every honest "
                   "position, chain-start and continuation rows); "
                   "distinct = distinct window texts",
           "samples": samples, "input_distribution": hist,
           "traces_validated_against_impl": blocks, "disagreements_checked": disagreements, "poseidon_control": pos_cov}
    return violations, cov


CHECK = {
    "lean_modules": ["P3R.Props.C11", "P3R.Props.C11Packed", "P3R.Props.C11Gen", "P3R.Props.C11PackedGen", "P3R.Props.C11WindowGen", "P3R.Props.C11Sched", "P3R.Props.C11P", "P3R.Witness.C11P", "P3R.Witness.C11Gen"],
    "lean_exes": ["p3r_driver_c11", "p3r_driver_c11p"],
    "theorems": ["P3R.C11.laneAdd_iff", "P3R.C11.laneEq_iff", "P3R.C11.laneMulAdd_iff", "P3R.C11.laneBool_iff",
                 "P3R.C11.hornerSingle_iff", "P3R.C11.lane_zero_sel", "P3R.C11.send_accepts_every_row", "P3R.C11.send_value_is_main_cell", "P3R.C11.sep_out_zero", "P3R.C11.extMulBinomial_eval_D2",
                 "P3R.C11.extMulBinomial_eval_D4", "P3R.C11.extMulBinomial_eval_D5", "P3R.C11.extMulBinomial_eval_D8", "P3R.C11.extMulQuintic_eval", "P3R.C11.packed2_iff", "P3R.C11.packed3_iff",
                 # every arity: the `while s < kk` legs of the model (packedLegs, D = 1) accept exactly chains of single steps
                 "P3R.C11.packedLegs_one_succ", "P3R.C11.packedLegs_sound", "P3R.C11.packedLegs_complete", "P3R.C11.packed_row_sound",
                 # every extension degree D, ring level (Props/C11Gen): extMulBinomial / extMul IS the product of K[X]/(X^D - w) resp. the
                 # quintic trinomial ring; lane relations between the ring elements the D-cell segments denote; converse under
                 # power-basis independence (proved for K[X]/(g), g monic)
                 "P3R.C11.vget_extMulBinomial", "P3R.C11.extMulBinomial_eval", "P3R.C11.extMulBinomial_evalAt", "P3R.C11.evalAt_eq_ev",
                 "P3R.C11.extMulBinomial_eval_D2'", "P3R.C11.extMulBinomial_eval_D4'", "P3R.C11.extMulBinomial_eval_D5'", "P3R.C11.extMulBinomial_eval_D8'",
                 "P3R.C11.extMulBinomial_eval_one", "P3R.C11.extMulQuintic_eval_gen", "P3R.C11.extMul_eval",
                 "P3R.C11.vec_zero_ring", "P3R.C11.vec_zero_ring_iff",
                 "P3R.C11.laneAdd_ring", "P3R.C11.laneAdd_ring_iff", "P3R.C11.laneMul_ring", "P3R.C11.laneMul_ring_iff",
                 "P3R.C11.laneMulAdd_ring", "P3R.C11.laneMulAdd_ring_iff", "P3R.C11.hornerSingle_ring", "P3R.C11.hornerSingle_ring_iff",
                 "P3R.C11.laneBool_ring", "P3R.C11.laneBool_ring_iff", "P3R.C11.sep_out_zero_ring",
                 "P3R.C11.coeffIndep_adjoinRoot", "P3R.C11.kindRoot_adjoinRoot_binomial", "P3R.C11.coeffIndep_adjoinRoot_binomial",
                 "P3R.C11.laneMulAdd_adjoinRoot_binomial_iff", "P3R.C11.quinticPoly_monic", "P3R.C11.quinticPoly_natDegree",
                 "P3R.C11.kindRoot_adjoinRoot_quintic", "P3R.C11.coeffIndep_adjoinRoot_quintic",
                 # packed Horner rows, every arity AND every D (Props/C11PackedGen), on the model function packedLegs itself
                 "P3R.C11.packedLegs_succ", "P3R.C11.ev_legProd", "P3R.C11.bsq_ring", "P3R.C11.firstLeg_ring",
                 "P3R.C11.packedLegs_sound_gen", "P3R.C11.packedLegs_complete_gen", "P3R.C11.packed_row_sound_gen", "P3R.C11.packed2_iff_gen",
                 "P3R.C11.hchainR_eq_hchain",
                 # whole windows (Props/C11WindowGen): the vectors above are parts of the model's complete constraint list aluConstraints
                 # (the function compared value-by-value with the real AluAir::eval); all constraints of a window vanish => ring-level relation
                 "P3R.C11.laneBlocks_sub", "P3R.C11.wC1_sub", "P3R.C11.wC2_sub", "P3R.C11.wC3_sub", "P3R.C11.wC4_sub",
                 "P3R.C11.lsum_onehot", "P3R.C11.lsum_onehot_ge3",
                 "P3R.C11.window_add_ring", "P3R.C11.window_mul_ring", "P3R.C11.window_mulAdd_ring", "P3R.C11.window_hornerSingle_ring",
                 "P3R.C11.packed_window_sound_gen",
                 "P3R.Witness.C11Gen.kindRoot2_ok", "P3R.Witness.C11Gen.win_accept01", "P3R.Witness.C11Gen.win_accept12",
                 "P3R.Witness.C11Gen.packed3_window_instance", "P3R.Witness.C11Gen.packed3_window_value", "P3R.Witness.C11Gen.bsq_ok",
                 "P3R.Witness.C11Gen.kindRoot_ok", "P3R.Witness.C11Gen.product_instance", "P3R.Witness.C11Gen.product_direct",
                 "P3R.Witness.C11Gen.root_hypothesis_needed", "P3R.Witness.C11Gen.mulAdd_row_accepted", "P3R.Witness.C11Gen.mulAdd_instance",
                 "P3R.Witness.C11Gen.mulAdd_tampered_rejected", "P3R.Witness.C11Gen.packed5_legs_vanish", "P3R.Witness.C11Gen.packed5_instance",
                 "P3R.Witness.C11Gen.packed5_tampered_rejected", "P3R.Witness.C11Gen.coeffIndep_needed", "P3R.Witness.C11Gen.addRow_ring_not_coeff",
                 # the Horner schedule (model of compute_schedule, tied to the real AluAir every run): packing preserves the bus
                 "P3R.C11.packed_net", "P3R.C11.sched_net", "P3R.C11.computeSchedule_tested", "P3R.C11.splitChains_cover",
                 "P3R.C11.computeSchedule_cover", "P3R.C11.schedule_preserves_bus",
                 # Poseidon circuit tables, control part (model lean/P3R/Model/PoseidonCtl.lean, every D / width parameter)
                 "P3R.C11P.boolCons_iff", "P3R.C11P.chainCons_iff", "P3R.C11P.chainCons_iff'", "P3R.C11P.chainTagCons_iff", "P3R.C11P.startCons_iff",
                 "P3R.C11P.accCons2_iff", "P3R.C11P.accCons2_reset", "P3R.C11P.accCons2_not_merkle", "P3R.C11P.accCons2_last_window",
                 "P3R.C11P.accCons4_iff", "P3R.C11P.accCons4_reset",
                 "P3R.C11P.accChain2_iff", "P3R.C11P.accChain2_last", "P3R.C11P.binVal_split", "P3R.C11P.binVal_cast",
                 "P3R.C11P.accChain4_iff", "P3R.C11P.sumsOf4_getLast", "P3R.C11P.quadVal_cast",
                 "P3R.C11P.spongeChain_iff", "P3R.C11P.merklePlace_iff", "P3R.C11P.arity4Hot_onehot", "P3R.C11P.arity4Place_iff",
                 # arity-4 selector cells: one-hot position <=> BOTH direction cells boolean and helper = product; every accepted window has it;
                 # necessity of the check on the high cell (weights (1-t,0,t,0) pass placement and accumulator): the coordinated forgery of the harness
                 "P3R.C11P.arity4Hot_bits", "P3R.C11P.arity4Hot_onehot_iff", "P3R.C11P.arity4_window_selectors", "P3R.C11P.arity4Hot_bit2_free",
                 "P3R.C11P.arity4Hot_bit2_free_not_onehot", "P3R.C11P.arity4_forged_place", "P3R.C11P.accCons4_forged",
                 "P3R.Witness.C11P.arity4_bit2_check_needed", "P3R.Witness.C11P.arity4_bit2_forgery_rejected", "P3R.Witness.C11P.arity4_forged_not_onehot",
                 "P3R.C11P.generic_window_iff", "P3R.C11P.zero_prep_accepts", "P3R.C11P.generic_chain_start_free", "P3R.C11P.compact_start_iff",
                 "P3R.Witness.C11P.acc_start_free", "P3R.Witness.C11P.acc_start_honest", "P3R.Witness.C11P.exposed_index_is_bits_false",
                 "P3R.Witness.C11P.new_start_limb_free", "P3R.Witness.C11P.new_start_limb_free_bus", "P3R.Witness.C11P.compact_start_rejects"],
    "run": run,
    "trusted_base": ["Const / Public (WitnessSendAir) and recompose tables are modelled (no constraints, interactions) and compared value-by-value like the ALU table",
                     "Poseidon2 / Poseidon1 circuit tables: the control part of eval (sponge chaining, Merkle placement arity 2 / 4, index accumulator, booleanity, "
                     "compact D=1 capacity / length-tag constraints, every WitnessChecks interaction) is modelled (lean/P3R/Model/PoseidonCtl.lean) and compared value-by-value; "
                     "the permutation's own round constraints (inner p3-poseidon2-air / p3-poseidon1-air eval) are an uninterpreted relation: they are identified as the tail of the "
                     "recorded constraint list, checked equal to the inner AIR evaluated alone on the permutation columns, and stripped"],
    "assumptions": ["ring-level theorems (every D): the extension ring is any commutative ring L with a ring map K -> L and a root alpha of the kind's modulus (KindRoot); the converse directions "
                    "(…_ring_iff, packedLegs_complete_gen) additionally assume power-basis independence CoeffIndep, which is proved for K[X]/(g), g monic (coeffIndep_adjoinRoot; binomial and quintic instances) "
                    "and shown necessary by Witness.C11Gen.coeffIndep_needed; that the Rust extension-field types are K[X]/(X^D - W) resp. K[X]/(X^5 + X^2 - 1) is p3-field's definition, not re-proved",
                    "Poseidon tables: outputs = Perm(inputs) is not modelled; the honest-chain / tamper oracle decides it with the real one-row trace generator"],
}

MANIFEST_ENTRY = {
    "property_id": "C11", "quick_cmd": "bin/check C11 --tier quick", "thorough_cmd": "bin/check C11 --tier thorough",
    "evidence_file": "evidence/C11.json", "replay_cmd_template": "bin/check C11 --replay {path}", "engine": "lean-models",
    "technique": "Lean 4 iff-theorems over a model of AluAir::eval + value-exact correspondence with a recording AirBuilder",
    "level_claimed": {"category": "proof", "text": "per-kind row iff theorems (all D), extension product spec for EVERY degree D (extMulBinomial_eval: the model's double sum with wrap-around factor w is multiplication in K[X]/(X^D - w), any commutative ring, any root; extMul_eval for base / binomial / quintic-trinomial kinds; the D=2,4,5,8 theorems are corollaries), lane relations lifted to the extension ring for every D (laneAdd/Mul/MulAdd/Bool/hornerSingle_ring, converse under power-basis independence, instantiated for K[X]/(g)), packed Horner legs of every arity AND every D over the model function itself (packedLegs_sound_gen / packedLegs_complete_gen / packed_row_sound_gen; D=1: packedLegs_sound / packedLegs_complete), and whole windows: every constraint of the model's aluConstraints vanishing on two consecutive windows forces a packed row of arity kk to be kk chained single Horner steps in the extension ring (packed_window_sound_gen), likewise ADD / MUL / MUL_ADD / single-step HORNER lanes (window_*_ring); the model's constraint and interaction values equal the real AluAir::eval's on random windows for every configuration; relation oracles on structured rows and tampered scheduled traces. Poseidon2/Poseidon1 circuit tables (control part): accumulator recurrence = running binary / base-4 value of the bits from the reset row (accChain2_iff, accChain4_iff, binVal_cast), chaining and Merkle placement iff theorems for every D / width, whole generic window (generic_window_iff), zero-selector rows accept everything; model = real eval on random and honest windows of 11 configurations; honest chains from the real trace generator with single-cell tampering judged by an operation decoder; negation witnesses for the accepted-invalid rows (known findings).", "design_ref": "4/C11"},
    "level_note": "ALU, Const/Public, recompose tables and the control part of the Poseidon2/Poseidon1 circuit tables modelled (permutation rounds uninterpreted); packed arities at every D proved at ring level (soundness unconditional; completeness under power-basis independence); whole-window completeness (honest rows => every constraint of aluConstraints vanishes) for D>1 is by correspondence / oracle only",
}
