//! C17, real histories: the FRI backend of `recursion/src/backend/fri.rs`, uni-STARK and
//! batch-STARK children, layer outputs converted with `into_recursion_input` and fed to further
//! layers. Every step also runs without cache (reference) and every output is verified natively.

use p3_circuit::{Circuit, CircuitBuilder};
use p3_recursion::verifier::VerificationError;
use p3_recursion::{PcsRecursionBackend, build_next_layer_circuit};
use serde_json::{Value, json};
use std::panic::{AssertUnwindSafe, catch_unwind};

use crate::c17::*;
use crate::c17_cfg::*;
use crate::rng::Rng;

type R = p3_recursion::backend::fri::FriVerifierResult<Cfg>;

/// Which earlier thing a step takes as input.
#[derive(Clone, Debug, PartialEq)]
pub enum In {
    /// base proof: `uni:<air>:<offset>` or `batch:<constant>`
    Base(String),
    /// output of an earlier step of this history
    Out(usize),
}

#[derive(Clone, Debug, PartialEq)]
pub enum PrepRef {
    /// `build_next_layer_prep` for this very circuit and params
    Own,
    /// the preparation built for the circuit and params of an earlier step
    OfStep(usize),
}

#[derive(Clone, Debug)]
pub struct RealStep {
    pub kind: Kind,
    pub left: In,
    pub right: Option<In>,
    pub pid: usize,
    pub slot: Option<usize>,
    pub prep: Option<PrepRef>,
}

fn in_json(i: &In) -> Value {
    match i {
        In::Base(s) => json!(s),
        In::Out(k) => json!(k),
    }
}
fn in_from(v: &Value) -> Option<In> {
    if let Some(s) = v.as_str() {
        Some(In::Base(s.to_string()))
    } else {
        v.as_u64().map(|k| In::Out(k as usize))
    }
}
pub fn step_json(s: &RealStep) -> Value {
    json!({"kind": s.kind.name(), "left": in_json(&s.left), "right": s.right.as_ref().map(in_json), "params": s.pid,
        "slot": s.slot, "prep": match &s.prep { None => Value::Null, Some(PrepRef::Own) => json!("own"), Some(PrepRef::OfStep(k)) => json!(k) }})
}
pub fn step_from(v: &Value) -> Option<RealStep> {
    let kind = match v["kind"].as_str()? {
        "agg" => Kind::Agg,
        "cross" => Kind::Cross,
        "next" => Kind::Next,
        _ => return None,
    };
    Some(RealStep {
        kind,
        left: in_from(&v["left"])?,
        right: if v["right"].is_null() { None } else { in_from(&v["right"]) },
        pid: v["params"].as_u64()? as usize,
        slot: v["slot"].as_u64().map(|x| x as usize),
        prep: if v["prep"].is_null() {
            None
        } else if v["prep"].as_str() == Some("own") {
            Some(PrepRef::Own)
        } else {
            v["prep"].as_u64().map(|k| PrepRef::OfStep(k as usize))
        },
    })
}

struct Real {
    eng: Engine<FriBackend>,
    base: std::collections::HashMap<String, usize>,
    emitted: usize,
}

impl Real {
    fn base_item(&mut self, name: &str) -> Option<usize> {
        if let Some(&i) = self.base.get(name) {
            return Some(i);
        }
        let parts: Vec<&str> = name.split(':').collect();
        let item = match parts.as_slice() {
            ["uni", air, off] => {
                let air = TinyAir::parse(air)?;
                Item::Uni { proof: prove_uni(&self.eng.cfg, air, 3, off.parse().ok()?), air }
            }
            ["batch", c] => Item::Batch(prove_dummy(&self.eng.cfg, c.parse().ok()?)),
            ["batchlr", c] => Item::Batch(crate::c17_cfg::prove_one_alu(&self.eng.cfg, c.parse().ok()?)),
            _ => return None,
        };
        self.eng.items.push(item);
        let i = self.eng.items.len() - 1;
        self.base.insert(name.to_string(), i);
        Some(i)
    }

    /// `build_next_layer_circuit` (public) / the body of the private
    /// `build_aggregation_layer_circuit` (same calls, same order).
    fn build(&self, left: usize, right: Option<usize>) -> Result<(Circuit<EF>, R, Option<R>), String> {
        let eng = &self.eng;
        let r = catch_unwind(AssertUnwindSafe(|| -> Result<(Circuit<EF>, R, Option<R>), VerificationError> {
            let li = eng.items[left].input(&eng.dummy);
            match right {
                None => {
                    let (c, r) = build_next_layer_circuit::<Cfg, TinyAir, FriBackend, DD>(&li, &eng.cfg, &eng.backend)?;
                    Ok((c, r, None))
                }
                Some(right) => {
                    let ri = eng.items[right].input(&eng.dummy);
                    let mut cb = CircuitBuilder::new();
                    <FriBackend as PcsRecursionBackend<Cfg, TinyAir, DD>>::prepare_circuit(&eng.backend, &eng.cfg, &mut cb)?;
                    <FriBackend as PcsRecursionBackend<Cfg, TinyAir, DD>>::prepare_circuit(&eng.backend, &eng.cfg, &mut cb)?;
                    let lr = <FriBackend as PcsRecursionBackend<Cfg, TinyAir, DD>>::build_verifier_circuit(&eng.backend, &li, &eng.cfg, &mut cb)?;
                    let rr = <FriBackend as PcsRecursionBackend<Cfg, TinyAir, DD>>::build_verifier_circuit(&eng.backend, &ri, &eng.cfg, &mut cb)?;
                    let c = cb.build().map_err(VerificationError::CircuitBuilder)?;
                    Ok((c, lr, Some(rr)))
                }
            }
        }));
        match r {
            Ok(Ok(x)) => Ok(x),
            Ok(Err(e)) => Err(format!("{e:?}")),
            Err(p) => Err(format!("panic: {}", p.downcast_ref::<String>().cloned().unwrap_or_default())),
        }
    }

    fn item_desc(&self, i: &In) -> String {
        match i {
            In::Base(s) => s.clone(),
            In::Out(k) => format!("out{k}"),
        }
    }

    fn run(&mut self, steps: &[RealStep], sink: &mut Sink, name: &str) -> bool {
        let replay = json!({"family": "real", "name": name, "steps": steps.iter().map(step_json).collect::<Vec<_>>()});
        let mut runner = HistRunner::new();
        let mut specs: Vec<StepSpec> = vec![];
        let mut out_items: Vec<Option<usize>> = vec![];
        for (i, st) in steps.iter().enumerate() {
            let resolve = |me: &mut Real, x: &In| -> Option<usize> {
                match x {
                    In::Base(s) => me.base_item(s),
                    In::Out(k) => out_items.get(*k).copied().flatten(),
                }
            };
            let left = resolve(self, &st.left);
            let right = match &st.right {
                Some(r) => match resolve(self, r) {
                    Some(x) => Some(Some(x)),
                    None => None,
                },
                None => Some(None),
            };
            let (Some(left), Some(right)) = (left, right) else {
                // an input of this step does not exist (an earlier step failed): nothing to run
                *sink.hist.entry("real.step-skipped-input-missing".into()).or_insert(0) += 1;
                out_items.push(None);
                continue;
            };
            let built = self.build(left, right);
            let (circuit, lr, rr) = match built {
                Ok(x) => x,
                Err(e) => {
                    // every item is a proof that verified natively: it must be a valid input
                    sink.violations.push(json!({"property": "C17", "kind": "oracle",
                        "class": "verified-proof-not-accepted-as-layer-input", "family": "real", "step": i,
                        "inputs": [self.item_desc(&st.left), st.right.as_ref().map(|r| self.item_desc(r))],
                        "detail": e.chars().take(200).collect::<String>(), "replay": replay}));
                    out_items.push(None);
                    continue;
                }
            };
            let desc = format!(
                "verifier circuit of [{}{}]",
                self.item_desc(&st.left),
                st.right.as_ref().map(|r| format!(", {}", self.item_desc(r))).unwrap_or_default()
            );
            let cid = self.eng.register(circuit, None, None, None, desc);
            // this step's inputs (identical circuits of other inputs share the id)
            {
                let idx = cid - self.eng.cid_base;
                let sig = (left as u64) << 32 | right.map(|r| r as u64 + 1).unwrap_or(0);
                if self.eng.circs[idx].inputs_sig != sig {
                    self.eng.circs[idx].inputs_sig = sig;
                    self.eng.reference.retain(|k, _| k.1 != cid);
                }
                match (right, rr) {
                    (Some(r), Some(rr)) => self.eng.circs[idx].agg_in = Some((left, r, lr, rr)),
                    _ => self.eng.circs[idx].next_in = Some((left, lr)),
                }
            }
            while self.emitted < self.eng.circs.len() {
                sink.emit_circ(&self.eng.circs[self.emitted]);
                self.emitted += 1;
            }
            let prep = match &st.prep {
                None => None,
                Some(PrepRef::Own) => Some((cid, st.pid)),
                Some(PrepRef::OfStep(k)) => specs.get(*k).map(|s: &StepSpec| (s.cid, s.pid)),
            };
            let spec = StepSpec { kind: st.kind, cid, pid: st.pid, slot: st.slot, prep };
            runner.step(&mut self.eng, i, &spec, "real", &replay);
            specs.push(spec);
            // a layer output that verified natively becomes an input for later steps
            let out = runner.outs.last_mut().and_then(|o| o.take());
            match out {
                Some(o) if runner.tags.last().map(|t| t.ends_with(".verifies")).unwrap_or(false) => {
                    self.eng.items.push(Item::Batch(o));
                    out_items.push(Some(self.eng.items.len() - 1));
                }
                _ => out_items.push(None),
            }
        }
        let r = runner.finish();
        let failed = !r.violations.is_empty();
        sink.emit_hist(&specs, r);
        failed
    }
}

fn b(s: &str) -> In {
    In::Base(s.to_string())
}

/// The fixed quick-tier histories.
pub fn quick_histories() -> Vec<(&'static str, Vec<RealStep>)> {
    let st = |kind, left, right, pid, slot, prep| RealStep { kind, left, right, pid, slot, prep };
    vec![
        // two-layer chain over a uni-STARK proof; second layer with a fresh NextLayerPrepCache
        (
            "chain-uni-2-layers",
            vec![
                st(Kind::Next, b("uni:xx:0"), None, 0, None, None),
                st(Kind::Next, In::Out(0), None, 0, None, Some(PrepRef::Own)),
            ],
        ),
        // uni + batch children in one aggregation, its output into a further layer (prepared
        // cache), that output aggregated with a uni-STARK proof (batch left, uni right)
        (
            "agg-mixed-then-next-then-agg",
            vec![
                st(Kind::Agg, b("uni:xx:0"), Some(b("batch:11")), 0, None, None),
                st(Kind::Next, In::Out(0), None, 0, None, Some(PrepRef::Own)),
                st(Kind::Agg, In::Out(1), Some(b("uni:add:0")), 0, Some(0), None),
            ],
        ),
        // a lane-reduced base proof (one ALU op, four lanes: the proof's own common data differs from
        // the caller's preparation data) chained into a layer and aggregated with a plain one
        (
            "chain-from-lane-reduced-base",
            vec![
                st(Kind::Next, b("batchlr:9"), None, 0, None, None),
                st(Kind::Agg, In::Out(0), Some(b("batchlr:9")), 0, None, None),
            ],
        ),
        // batch + batch with a change of params between the two calls on one cache variable
        (
            "agg-batch-batch-params-change",
            vec![
                st(Kind::Agg, b("batch:11"), Some(b("batch:12")), 0, Some(0), None),
                st(Kind::Agg, b("batch:12"), Some(b("batch:11")), 1, Some(0), None),
            ],
        ),
    ]
}

fn gen_real(rng: &mut Rng) -> Vec<RealStep> {
    let bases = ["uni:xx:0", "uni:xx:1", "uni:xy:0", "uni:xy:1", "uni:add:0", "uni:xyy:0", "batch:11", "batch:12", "batchlr:9"];
    let n = rng.range(2, 3);
    let mut steps: Vec<RealStep> = vec![];
    for i in 0..n {
        let pick = |rng: &mut Rng, i: usize| -> In {
            if i > 0 && rng.chance(1, 2) { In::Out(rng.usize(i)) } else { b(bases[rng.usize(bases.len())]) }
        };
        let pid = if rng.chance(3, 4) { 0 } else { 1 };
        if rng.chance(1, 2) {
            let prep = match rng.below(4) {
                0 => None,
                1 => Some(PrepRef::Own),
                _ if i > 0 => Some(PrepRef::OfStep(rng.usize(i))),
                _ => Some(PrepRef::Own),
            };
            steps.push(RealStep { kind: Kind::Next, left: pick(rng, i), right: None, pid, slot: None, prep });
        } else {
            let kind = if rng.chance(1, 4) { Kind::Cross } else { Kind::Agg };
            let slot = if rng.chance(1, 5) { None } else { Some(0) };
            // pairs of the same kind of child make equal-shape circuits likely
            let left = pick(rng, i);
            let right = match (&left, rng.chance(1, 2)) {
                (In::Base(s), true) if s.starts_with("uni:") => {
                    let mut p: Vec<&str> = s.split(':').collect();
                    p[2] = if p[2] == "0" { "1" } else { "0" };
                    if p[1] == "add" || p[1] == "xyy" { b(s) } else { b(&p.join(":")) }
                }
                _ => pick(rng, i),
            };
            steps.push(RealStep { kind, left, right: Some(right), pid, slot, prep: None });
        }
    }
    steps
}

pub fn run_real(args: &crate::Args, cfg: &Cfg, sink: &mut Sink, tier: &str) {
    let seed = args.u64("seed", 1);
    let dummy = prove_dummy(cfg, 7);
    let mut real = Real { eng: Engine::new(cfg.clone(), fri_backend(), dummy, 100000), base: Default::default(), emitted: 0 };
    // corpus (real family) first
    if let Some(dir) = args.opt("corpus") {
        let mut files: Vec<_> = std::fs::read_dir(&dir).map(|d| d.filter_map(|e| e.ok()).map(|e| e.path()).collect()).unwrap_or_default();
        files.sort();
        for f in files {
            let Ok(txt) = std::fs::read_to_string(&f) else { continue };
            let Ok(v) = serde_json::from_str::<Value>(&txt) else { continue };
            let v = if v.get("replay").is_some() { v["replay"].clone() } else { v };
            if v["family"].as_str() != Some("real") {
                continue;
            }
            let Some(steps) = v["steps"].as_array().map(|a| a.iter().filter_map(step_from).collect::<Vec<_>>()) else { continue };
            let name = f.file_name().unwrap().to_string_lossy().to_string();
            if real.run(&steps, sink, &name) {
                sink.reproduced.push(name);
            }
        }
    }
    if args.u64("generate", 1) == 0 {
        return;
    }
    for (name, steps) in quick_histories() {
        real.run(&steps, sink, name);
    }
    {
        let n = args.u64("real-histories", if tier == "thorough" { 40 } else { 4 }) as usize;
        let mut rng = Rng::new(seed ^ 0xC17_0000);
        for k in 0..n {
            let steps = gen_real(&mut rng);
            real.run(&steps, sink, &format!("generated-{k}"));
        }
    }
    *sink.hist.entry("real.circuits".into()).or_insert(0) += real.eng.circs.len() as u64;
    *sink.hist.entry("real.real-proofs-made".into()).or_insert(0) += real.eng.proofs_made as u64;
}
