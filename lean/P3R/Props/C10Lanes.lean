/-
C10 / C11, lane-packed non-primitive tables: the main trace written by
`RecomposeAir::trace_to_matrix` contains *every* operation, operation `i` in row `i / lanes`,
lane `i % lanes`, which is where the preprocessed trace (flat per-operation vector cut into rows)
puts that operation's index and multiplicity. Hence the interactions of the honest matrix are, lane
cell by lane cell, the per-operation tuples — no operation is dropped, whatever the lane count.
-/
import P3R.Model.NpoLanes
import P3R.Model.AluAir
import Mathlib.Tactic.Ring
import Mathlib.Tactic.Linarith

namespace P3R.NpoLanes

variable {K : Type} [Zero K]

theorem padRow_length (w : Nat) (v : List K) : (padRow w v).length = w := by
  simp [padRow]

/-- Reading the op-major flat vector: cell `j` of block `k` is cell `j` of operation `k`. -/
theorem flatOps_getD (w : Nat) : ∀ (ops : List (List K)) (k j : Nat), j < w →
    (flatOps w ops).getD (k * w + j) 0 = (match ops[k]? with | some v => (padRow w v).getD j 0 | none => 0) := by
  intro ops
  induction ops with
  | nil => intro k j _; simp [flatOps]
  | cons v rest ih =>
    intro k j hj
    have hl := padRow_length w v
    cases k with
    | zero =>
      simp only [flatOps, List.flatMap_cons, Nat.zero_mul, Nat.zero_add, List.getElem?_cons_zero]
      rw [List.getD_eq_getElem?_getD, List.getElem?_append_left (by omega), ← List.getD_eq_getElem?_getD]
    | succ k =>
      have e : (k + 1) * w + j = w + (k * w + j) := by ring
      simp only [flatOps, List.flatMap_cons, List.getElem?_cons_succ]
      rw [e, List.getD_eq_getElem?_getD, List.getElem?_append_right (by omega), hl,
        Nat.add_sub_cancel_left, ← List.getD_eq_getElem?_getD]
      exact ih k j hj

/-- **Lane layout.** Cell `j` of lane `l` of row `r` of the op-major vector cut into rows of
`lanes * w` cells is cell `j` of operation `r * lanes + l` (zero past the last operation). -/
theorem cellAt_flatOps (lanes w : Nat) (ops : List (List K)) (r l j : Nat) (hj : j < w) :
    cellAt (flatOps w ops) lanes w r l j =
      (match ops[r * lanes + l]? with | some v => (padRow w v).getD j 0 | none => 0) := by
  unfold cellAt
  have e : r * (lanes * w) + l * w + j = (r * lanes + l) * w + j := by ring
  rw [e]
  exact flatOps_getD w ops _ j hj

/-- Operation `i` sits in row `i / lanes`, lane `i % lanes`. -/
theorem op_cell (lanes w : Nat) (ops : List (List K)) (i j : Nat) (hi : i < ops.length)
    (hj : j < w) :
    cellAt (flatOps w ops) lanes w (i / lanes) (i % lanes) j = (padRow w ops[i]).getD j 0 := by
  rw [cellAt_flatOps lanes w ops _ _ j hj, Nat.div_add_mod' i lanes]
  simp [hi]

theorem flatOps_length (w : Nat) (ops : List (List K)) : (flatOps w ops).length = ops.length * w := by
  unfold flatOps
  induction ops with
  | nil => simp
  | cons v rest ih =>
    simp only [List.flatMap_cons, List.length_append, padRow_length, List.length_cons, ih]
    ring

/-- One operation's writes: cells `base … base + |vs| - 1` receive `vs`, all others are untouched. -/
theorem writeCells_get (base : Nat) : ∀ (vs : List K) (s : Nat) (a : Array K) (i : Nat),
    base + s + vs.length ≤ a.size →
    ((vs.zipIdx s).foldl (fun (a : Array K) (vj : K × Nat) => a.setIfInBounds (base + vj.2) vj.1) a)[i]? =
      if base + s ≤ i ∧ i < base + s + vs.length then vs[i - (base + s)]? else a[i]? := by
  intro vs
  induction vs with
  | nil => intro s a i _; simp
  | cons v rest ih =>
    intro s a i hb
    simp only [List.zipIdx_cons, List.foldl_cons, List.length_cons] at hb ⊢
    rw [ih (s + 1) _ i (by simp only [Array.size_setIfInBounds]; omega)]
    by_cases h1 : base + (s + 1) ≤ i ∧ i < base + (s + 1) + rest.length
    · rw [if_pos h1, if_pos (by omega)]
      have : i - (base + s) = (i - (base + (s + 1))) + 1 := by omega
      rw [this, List.getElem?_cons_succ]
    · rw [if_neg h1, Array.getElem?_setIfInBounds]
      by_cases h2 : base + s = i
      · subst h2
        rw [if_pos rfl, if_pos (by omega), if_pos (by omega)]
        simp
      · rw [if_neg h2, if_neg (by omega)]

theorem writeCells_size (base : Nat) : ∀ (vs : List K) (s : Nat) (a : Array K),
    ((vs.zipIdx s).foldl (fun (a : Array K) (vj : K × Nat) => a.setIfInBounds (base + vj.2) vj.1) a).size = a.size := by
  intro vs
  induction vs with
  | nil => intro s a; rfl
  | cons v rest ih => intro s a; simp only [List.zipIdx_cons, List.foldl_cons]; rw [ih]; simp

/-- The write loop, operation by operation (operations `s … s + |ops| - 1`), with `lanes > 0`. -/
theorem writeLoop_get (lanes w : Nat) (hl : 0 < lanes) : ∀ (ops : List (List K)) (s : Nat) (a : Array K) (i : Nat),
    (s + ops.length) * w ≤ a.size →
    ((ops.zipIdx s).foldl (fun (acc : Array K) (oi : List K × Nat) =>
      let base := (oi.2 / lanes) * (lanes * w) + (oi.2 % lanes) * w
      ((padRow w oi.1).zipIdx).foldl (fun (a : Array K) (vj : K × Nat) => a.setIfInBounds (base + vj.2) vj.1) acc) a)[i]? =
      if s * w ≤ i ∧ i < (s + ops.length) * w then (flatOps w ops)[i - s * w]? else a[i]? := by
  intro ops
  induction ops with
  | nil => intro s a i _; simp
  | cons v rest ih =>
    intro s a i hb
    have hbase : (s / lanes) * (lanes * w) + (s % lanes) * w = s * w := by
      have := Nat.div_add_mod' s lanes
      calc (s / lanes) * (lanes * w) + (s % lanes) * w = ((s / lanes) * lanes + s % lanes) * w := by ring
        _ = s * w := by rw [this]
    simp only [List.zipIdx_cons, List.foldl_cons, List.length_cons] at hb ⊢
    have hsz : (s + 1 + rest.length) * w ≤ a.size := by
      have : s + 1 + rest.length = s + (rest.length + 1) := by omega
      rw [this]; exact hb
    rw [ih (s + 1) _ i (by rw [writeCells_size]; exact hsz)]
    have hlen := padRow_length w v
    have e1 : (s + 1) * w = s * w + w := by ring
    have e2 : (s + (rest.length + 1)) * w = (s + 1 + rest.length) * w := by ring
    by_cases h1 : (s + 1) * w ≤ i ∧ i < (s + 1 + rest.length) * w
    · rw [if_pos h1, if_pos (by rw [e2]; omega)]
      simp only [flatOps, List.flatMap_cons]
      rw [List.getElem?_append_right (by rw [hlen]; omega), hlen]
      congr 1; omega
    · rw [if_neg h1, hbase]
      have := writeCells_get (s * w) (padRow w v) 0 a i (by rw [hlen]; nlinarith)
      simp only [Nat.add_zero] at this
      rw [this, hlen]
      by_cases h2 : s * w ≤ i ∧ i < s * w + w
      · rw [if_pos h2, if_pos (by rw [e2]; constructor; exact h2.1; nlinarith [h2.2])]
        simp only [flatOps, List.flatMap_cons]
        rw [List.getElem?_append_left (by rw [hlen]; omega)]
      · rw [if_neg h2, if_neg]
        intro h3
        rw [e2] at h3
        apply h1
        constructor
        · omega
        · exact h3.2

/-- **The write loop of `trace_to_matrix` produces the op-major vector**: with `lanes > 0` and enough
rows, every cell of the written array equals the corresponding cell of `flatOps` (zero past it). -/
theorem writeOps_getD (lanes w : Nat) (hl : 0 < lanes) (ops : List (List K)) (numRows i : Nat)
    (hr : ops.length ≤ numRows * lanes) :
    (writeOps lanes w ops numRows).getD i 0 = (flatOps w ops).getD i 0 := by
  have hsz : (0 + ops.length) * w ≤ (Array.replicate (numRows * (lanes * w)) (0 : K)).size := by
    simp only [Array.size_replicate, Nat.zero_add]
    calc ops.length * w ≤ numRows * lanes * w := Nat.mul_le_mul_right w hr
      _ = numRows * (lanes * w) := by ring
  have := writeLoop_get lanes w hl ops 0 (Array.replicate (numRows * (lanes * w)) 0) i hsz
  unfold writeOps
  rw [Array.getD_eq_getD_getElem?, List.getD_eq_getElem?_getD]
  simp only [List.zipIdx] at this ⊢
  rw [this]
  simp only [Nat.zero_mul, Nat.zero_le, true_and, Nat.zero_add, Nat.sub_zero]
  have hfl := flatOps_length w ops
  by_cases h : i < ops.length * w
  · rw [if_pos h]
  · rw [if_neg h, List.getElem?_eq_none (by omega)]
    simp only [Array.getElem?_replicate, Option.getD_none]
    split <;> rfl

/-- The row count chosen by `trace_to_matrix` holds every operation. -/
theorem numRows_enough (lanes n : Nat) (hl : 0 < lanes) : n ≤ max 1 ((n + lanes - 1) / lanes) * lanes := by
  have h1 : n ≤ ((n + lanes - 1) / lanes) * lanes := by
    have := Nat.div_add_mod (n + lanes - 1) lanes
    have hm := Nat.mod_lt (n + lanes - 1) hl
    rw [Nat.mul_comm] at this
    omega
  calc n ≤ ((n + lanes - 1) / lanes) * lanes := h1
    _ ≤ max 1 ((n + lanes - 1) / lanes) * lanes := Nat.mul_le_mul_right _ (Nat.le_max_right _ _)

/-- **C10 (lane-packed NPO table).** In the matrix written by `trace_to_matrix`, for every lane
count `lanes > 0`, cell `j` of lane `l` of row `r` is cell `j` of operation `r * lanes + l`; past the
last operation the cell is zero. In particular operation `i` is present, at row `i / lanes`, lane
`i % lanes` — also when `lanes` does not divide the number of operations. -/
theorem matrix_cell (lanes w : Nat) (hl : 0 < lanes) (ops : List (List K)) (r l j : Nat) (hj : j < w) :
    (writeOps lanes w ops (max 1 ((ops.length + lanes - 1) / lanes))).getD (r * (lanes * w) + l * w + j) 0 =
      (match ops[r * lanes + l]? with | some v => (padRow w v).getD j 0 | none => 0) := by
  rw [writeOps_getD lanes w hl ops _ _ (numRows_enough lanes ops.length hl)]
  exact cellAt_flatOps lanes w ops r l j hj

theorem matrix_has_every_op (lanes w : Nat) (hl : 0 < lanes) (ops : List (List K)) (i j : Nat)
    (hi : i < ops.length) (hj : j < w) :
    (writeOps lanes w ops (max 1 ((ops.length + lanes - 1) / lanes))).getD
        ((i / lanes) * (lanes * w) + (i % lanes) * w + j) 0 = (padRow w ops[i]).getD j 0 := by
  rw [matrix_cell lanes w hl ops _ _ j hj, Nat.div_add_mod' i lanes]
  simp [hi]

/-- The preprocessed trace is the flat per-operation vector (`plw` cells per operation) cut into rows of
`lanes * plw` cells: the same layout, so lane `l` of row `r` carries the index and multiplicity of the
operation whose values the main trace holds there. -/
theorem prep_cell (lanes plw : Nat) (preps : List (List K)) (r l j : Nat) (hj : j < plw) :
    cellAt (flatOps plw preps) lanes plw r l j =
      (match preps[r * lanes + l]? with | some v => (padRow plw v).getD j 0 | none => 0) :=
  cellAt_flatOps lanes plw preps r l j hj

end P3R.NpoLanes
