//! C16, manifest leg — `VerifierManifest::matches` (circuit-prover/src/manifest.rs): the check by which a
//! verifier that knows which tables it expects refuses a proof whose self-declared table list contradicts it.
//!
//! For every base proof of the C16 campaign (honest and forged traces, with and without non-primitive tables):
//!   * the manifest derived from the verifier's field parameters and the honest table list must accept the
//!     unaltered proof;
//!   * every single alteration of the PROOF's metadata (the alterations of `c16::single_alterations`: field
//!     parameters, ALU variant, table list drop / duplicate / swap / retag to every known op type incl. the
//!     ones of the same family / append, per-entry rows, lanes, variant, public values, packing, common data)
//!     against the honest manifest;
//!   * every single alteration of the MANIFEST (degree, reduction kind / `w`, ALU variant, per-entry op type to
//!     every known op type and to near-miss strings of the same family, variant, public-value length, entry
//!     dropped / duplicated / swapped / appended) against the honest proof;
//!   * directed compensating pairs (proof and manifest relabelled alike → must match again) and sampled pairs.
//! Each evaluation is one call of the real `matches` on real types (proof deserialized from its altered serde
//! form) and one `manifest …` line for the Lean driver (`P3R.Metadata.manifestMatches`).
//!
//! Implementation oracles (independent of the Lean model; the expected answer is computed on the JSON):
//!   `manifest-accepts-contradicting-proof:<field>`   `matches` = Ok although the proof does not describe what the
//!                                                   manifest expects (whole-string op types, variants, #pvs, order);
//!   `manifest-rejects-described-proof:<field>`       `matches` = Err although it does;
//!   `manifest-rejects-honest-proof`                  the derived manifest rejects the unaltered proof;
//!   `table-set-contradiction-accepted-end-to-end:<field>`  `matches` = Ok AND `verify_all_tables` = Ok for a proof
//!                                                   whose table list differs from the manifest's (the combined verdict);
//!   `manifest-panic:<field>`.

use p3_circuit::ops::{NpoTypeId, Poseidon1Config, Poseidon2Config};
use p3_circuit_prover::air::AluExtMulKind;
use p3_circuit_prover::batch_stark_prover::{AirVariant, ProofMetadataError};
use p3_circuit_prover::manifest::{ExpectedNpoEntry, VerifierManifest};
use serde_json::{Value, json};

use crate::c16::{Alt, Base, Outcome, meta_line};
use crate::rng::Rng;

// ------------------------------------------------------------------------------------------
// manifest <-> JSON

fn variant_of(v: &Value) -> Option<AirVariant> {
    match v.as_str()? {
        "Baseline" => Some(AirVariant::Baseline),
        "Optimized" => Some(AirVariant::Optimized),
        _ => None,
    }
}

/// `{"ext_degree", "reduction": "base" | "quintic" | {"binomial": <field element in its serde form>},
///   "alu_variant", "expected_npo": [{"op_type", "air_variant", "public_values_len"}]}` → the real type.
pub fn manifest_from_json<F: Copy + serde::de::DeserializeOwned>(m: &Value) -> Option<VerifierManifest<F>> {
    let reduction = match &m["reduction"] {
        Value::String(s) if s == "base" => AluExtMulKind::Base,
        Value::String(s) if s == "quintic" => AluExtMulKind::QuinticTrinomial,
        Value::Object(o) => AluExtMulKind::Binomial { w: serde_json::from_value::<F>(o.get("binomial")?.clone()).ok()? },
        _ => return None,
    };
    let expected_npo = m["expected_npo"]
        .as_array()?
        .iter()
        .map(|e| {
            Some(ExpectedNpoEntry {
                op_type: NpoTypeId::new(e["op_type"].as_str()?),
                air_variant: variant_of(&e["air_variant"])?,
                public_values_len: e["public_values_len"].as_u64()? as usize,
            })
        })
        .collect::<Option<Vec<_>>>()?;
    Some(VerifierManifest { ext_degree: m["ext_degree"].as_u64()? as usize, reduction, alu_variant: variant_of(&m["alu_variant"])?, expected_npo })
}

/// `<Variant>` or `<Variant>@<index>`: the token compared with the model.
pub fn err_token(e: &ProofMetadataError) -> String {
    match e {
        ProofMetadataError::NpoOpTypeMismatch { index, .. } => format!("NpoOpTypeMismatch@{index}"),
        ProofMetadataError::NpoAirVariantMismatch { index, .. } => format!("NpoAirVariantMismatch@{index}"),
        ProofMetadataError::NpoPublicValueLenMismatch { index, .. } => format!("NpoPublicValueLenMismatch@{index}"),
        other => format!("{other:?}").chars().take_while(|c| c.is_alphanumeric() || *c == '_').collect(),
    }
}

/// The manifest a verifier writes for the circuit of `b`: its own field parameters, the ALU variant and the
/// table list of the honest proof.
pub fn derived_manifest(b: &Base) -> Value {
    let reduction = if b.exp.d == 1 {
        json!("base")
    } else if b.exp.quintic {
        json!("quintic")
    } else {
        json!({"binomial": b.exp.w})
    };
    let npo: Vec<Value> = b.json["non_primitives"]
        .as_array()
        .cloned()
        .unwrap_or_default()
        .iter()
        .map(|e| json!({"op_type": e["op_type"], "air_variant": e["air_variant"], "public_values_len": e["public_values"].as_array().map(|a| a.len()).unwrap_or(0)}))
        .collect();
    json!({"ext_degree": b.exp.d, "reduction": reduction, "alu_variant": b.json["alu_variant"], "expected_npo": npo})
}

fn variant_tok(v: &Value) -> &'static str {
    if v.as_str() == Some("Optimized") { "1" } else { "0" }
}

/// `d=.. red=.. av=.. np=name:variant:pvlen;..` (the driver's `manifest` command)
pub fn manifest_line(m: &Value) -> String {
    let red = match &m["reduction"] {
        Value::String(s) => s.clone(),
        Value::Object(o) => format!("bin:{}", o.get("binomial").and_then(|w| w.as_u64()).unwrap_or(0)),
        _ => "?".into(),
    };
    let np: Vec<String> = m["expected_npo"]
        .as_array()
        .map(|a| a.iter().map(|e| format!("{}:{}:{}", e["op_type"].as_str().unwrap_or("?"), variant_tok(&e["air_variant"]), e["public_values_len"].as_u64().unwrap_or(0))).collect())
        .unwrap_or_default();
    format!("d={} red={} av={} np={}", m["ext_degree"].as_u64().unwrap_or(0), red, variant_tok(&m["alu_variant"]), if np.is_empty() { "-".into() } else { np.join(";") })
}

// ------------------------------------------------------------------------------------------
// the expected answer, computed on the JSON (not through the model, not through the code under test)

/// (ext_degree, w, quintic, alu_variant, [(op_type string, variant, #public values)]) a proof declares
fn proof_key(j: &Value) -> (u64, Value, bool, String, Vec<(String, String, usize)>) {
    let np = j["non_primitives"]
        .as_array()
        .map(|a| a.iter().map(|e| (e["op_type"].as_str().unwrap_or("?").to_string(), e["air_variant"].as_str().unwrap_or("?").to_string(), e["public_values"].as_array().map(|p| p.len()).unwrap_or(0))).collect())
        .unwrap_or_default();
    (j["ext_degree"].as_u64().unwrap_or(0), j["w_binomial"].clone(), j["alu_quintic_trinomial"].as_bool().unwrap_or(false), j["alu_variant"].as_str().unwrap_or("?").to_string(), np)
}

/// the same tuple a manifest expects
fn manifest_key(m: &Value) -> (u64, Value, bool, String, Vec<(String, String, usize)>) {
    let (w, q) = match &m["reduction"] {
        Value::Object(o) => (o.get("binomial").cloned().unwrap_or(Value::Null), false),
        Value::String(s) if s == "quintic" => (Value::Null, true),
        _ => (Value::Null, false),
    };
    let np = m["expected_npo"]
        .as_array()
        .map(|a| a.iter().map(|e| (e["op_type"].as_str().unwrap_or("?").to_string(), e["air_variant"].as_str().unwrap_or("?").to_string(), e["public_values_len"].as_u64().unwrap_or(0) as usize)).collect())
        .unwrap_or_default();
    (m["ext_degree"].as_u64().unwrap_or(0), w, q, m["alu_variant"].as_str().unwrap_or("?").to_string(), np)
}

fn table_list(k: &(u64, Value, bool, String, Vec<(String, String, usize)>)) -> Vec<String> {
    k.4.iter().map(|e| e.0.clone()).collect()
}

// ------------------------------------------------------------------------------------------
// op types

/// Every op type the code base can name, plus strings that are near an existing id `cur` (same family,
/// family alone, suffix / prefix / case variations). None of them is special-cased anywhere below.
pub fn known_op_types(cur: Option<&str>) -> Vec<String> {
    let mut v: Vec<String> = vec![];
    for c in [
        Poseidon2Config::BABY_BEAR_D1_W16,
        Poseidon2Config::BABY_BEAR_D4_W16,
        Poseidon2Config::BABY_BEAR_D4_W24,
        Poseidon2Config::BABY_BEAR_D4_W32,
        Poseidon2Config::KOALA_BEAR_D1_W16,
        Poseidon2Config::KOALA_BEAR_D4_W16,
        Poseidon2Config::KOALA_BEAR_D4_W24,
        Poseidon2Config::KOALA_BEAR_D1_W32,
        Poseidon2Config::KOALA_BEAR_D4_W32,
        Poseidon2Config::GOLDILOCKS_D2_W8,
        Poseidon2Config::GOLDILOCKS_D2_W16,
    ] {
        v.push(NpoTypeId::poseidon2_perm(c).as_str().to_string());
    }
    for c in [
        Poseidon1Config::BABY_BEAR_D1_W16,
        Poseidon1Config::BABY_BEAR_D4_W16,
        Poseidon1Config::BABY_BEAR_D4_W24,
        Poseidon1Config::KOALA_BEAR_D1_W16,
        Poseidon1Config::KOALA_BEAR_D4_W16,
        Poseidon1Config::KOALA_BEAR_D4_W24,
        Poseidon1Config::GOLDILOCKS_D2_W8,
    ] {
        v.push(NpoTypeId::poseidon1_perm(c).as_str().to_string());
    }
    v.push(NpoTypeId::recompose().as_str().to_string());
    v.push(NpoTypeId::recompose_with_coeff_lookups().as_str().to_string());
    v.push(NpoTypeId::unconstrained().as_str().to_string());
    if let Some(cur) = cur {
        let family = cur.split('/').next().unwrap_or(cur);
        v.push(family.to_string());
        v.push(format!("{family}/"));
        v.push(format!("{family}/anything"));
        v.push(format!("{cur}/coeff"));
        v.push(format!("{cur}x"));
        if cur.len() > 1 {
            v.push(cur[..cur.len() - 1].to_string());
            v.push(cur[1..].to_string());
        }
        v.push(cur.to_uppercase());
        v.push(String::new());
    }
    v.sort();
    v.dedup();
    v.retain(|s| Some(s.as_str()) != cur && !s.contains(':') && !s.contains(';') && !s.contains('|') && !s.contains(','));
    v
}

// ------------------------------------------------------------------------------------------
// alterations of the manifest

pub fn manifest_alterations(man: &Value, rng: &mut Rng) -> Vec<Alt> {
    let mk = |field: &str, path: &str, value: Value| Alt { field: format!("manifest.{field}"), path: path.into(), value, field_param: false, table_set: false };
    let mut out = vec![];
    let d = man["ext_degree"].as_u64().unwrap_or(0);
    for nd in [0u64, 1, 2, 3, 4, 5, 6, 8, 16] {
        if nd != d {
            out.push(mk("ext_degree", "/ext_degree", json!(nd)));
        }
    }
    let cur_red = man["reduction"].clone();
    let mut reds = vec![json!("base"), json!("quintic")];
    for w in [0u64, 1, 2, 3, 11] {
        reds.push(json!({"binomial": w}));
    }
    if let Some(w) = cur_red.get("binomial").and_then(|w| w.as_u64()) {
        reds.push(json!({"binomial": w + 1}));
        reds.push(json!({"binomial": w - 1}));
    }
    for r in reds {
        if r != cur_red {
            out.push(mk("reduction", "/reduction", r));
        }
    }
    let flip = |v: &Value| json!(if v.as_str() == Some("Baseline") { "Optimized" } else { "Baseline" });
    out.push(mk("alu_variant", "/alu_variant", flip(&man["alu_variant"])));
    let np = man["expected_npo"].as_array().cloned().unwrap_or_default();
    let set = |field: &str, l: Vec<Value>| mk(field, "/expected_npo", Value::Array(l));
    for i in 0..np.len() {
        let cur = np[i]["op_type"].as_str().unwrap_or("").to_string();
        for nm in known_op_types(Some(&cur)) {
            out.push(mk("op_type", &format!("/expected_npo/{i}/op_type"), json!(nm)));
        }
        out.push(mk("air_variant", &format!("/expected_npo/{i}/air_variant"), flip(&np[i]["air_variant"])));
        let l = np[i]["public_values_len"].as_u64().unwrap_or(0);
        for v in [0u64, 1, l + 1, l + 2, l.saturating_sub(1), 1 << 40] {
            if v != l {
                out.push(mk("public_values_len", &format!("/expected_npo/{i}/public_values_len"), json!(v)));
            }
        }
        let mut l2 = np.clone();
        l2.remove(i);
        out.push(set("tables.drop", l2));
        let mut l2 = np.clone();
        l2.insert(i, np[i].clone());
        out.push(set("tables.duplicate", l2));
        for k in i + 1..np.len() {
            let mut l2 = np.clone();
            l2.swap(i, k);
            if l2 != np {
                out.push(set("tables.swap", l2));
            }
        }
    }
    // a table the proof does not contain, appended (all known ids when the list is short, a sample otherwise)
    let mut names = known_op_types(None);
    if np.len() > 1 {
        names = (0..4).map(|_| rng.pick(&names).clone()).collect();
    }
    for nm in names {
        let mut l2 = np.clone();
        l2.push(json!({"op_type": nm, "air_variant": "Baseline", "public_values_len": 0}));
        out.push(set("tables.append", l2));
    }
    out.sort_by(|a, b| (a.path.as_str(), a.value.to_string()).cmp(&(b.path.as_str(), b.value.to_string())));
    out.dedup_by(|a, b| a.path == b.path && a.value == b.value);
    out
}

// ------------------------------------------------------------------------------------------
// the leg

pub struct Leg {
    pub cases: Vec<String>,
    pub impl_: Vec<String>,
    pub detail: Vec<Value>,
    pub violations: Vec<Value>,
    pub hist: std::collections::BTreeMap<String, u64>,
    pub evals: usize,
    pub distinct: std::collections::HashSet<String>,
}

fn apply_all(j: &Value, alts: &[Alt]) -> Option<Value> {
    let mut j = j.clone();
    for a in alts {
        *j.pointer_mut(&a.path)? = a.value.clone();
    }
    Some(j)
}

fn alt_json(a: &Alt) -> Value {
    json!({"field": a.field, "path": a.path, "value": a.value})
}

/// One evaluation: proof alterations `pa` of the proof, manifest alterations `ma` of the derived manifest.
#[allow(clippy::too_many_arguments)]
fn eval(leg: &mut Leg, b: &Base, base_verdict: &Outcome, man0: &Value, pa: &[Alt], ma: &[Alt], origin: &str, line_base: usize) {
    let (Some(j), Some(man)) = (apply_all(&b.json, pa), apply_all(man0, ma)) else { return };
    let o = (b.matches)(&j, &man);
    leg.evals += 1;
    let fields: Vec<&str> = pa.iter().chain(ma.iter()).map(|a| a.field.as_str()).collect();
    let fkey = if fields.is_empty() { "unaltered".to_string() } else { fields.join("+") };
    let line = format!("manifest {} | {}", manifest_line(&man), meta_line(&j));
    leg.distinct.insert(format!("{}|{}", b.replay, line));
    leg.cases.push(line);
    let tok = match &o {
        Outcome::Accept => "ok".to_string(),
        Outcome::Meta(e) => format!("err:{e}"),
        other => other.verdict(),
    };
    leg.impl_.push(format!("matches {tok}"));
    let replay = json!({"spec": b.replay, "kind": b.kind, "alterations": pa.iter().map(alt_json).collect::<Vec<_>>(),
        "manifest": man, "derived_manifest": man0, "manifest_alterations": ma.iter().map(alt_json).collect::<Vec<_>>(), "origin": origin});
    leg.detail.push(json!({"line": line_base + leg.cases.len() - 1, "cfg": b.cfg, "kind": b.kind, "fields": fkey, "reason": tok, "replay": replay}));
    let arity = pa.len() + ma.len();
    *leg.hist.entry(format!("manifest.{}.{}.{}", b.cfg, match arity { 0 => "unaltered", 1 => "single", _ => "pair" }, tok.split('@').next().unwrap_or(""))).or_default() += 1;
    if arity == 1 {
        *leg.hist.entry(format!("field.{fkey}.manifest-{}", tok.split('@').next().unwrap_or(""))).or_default() += 1;
    }
    let (pk, mk) = (proof_key(&j), manifest_key(&man));
    let same = pk == mk;
    let mut viol = |kind: &str, class: String, detail: String| {
        leg.violations.push(json!({"property": "C16", "kind": kind, "class": class, "detail": detail, "replay": replay, "line": format!("{} {} manifest {}", b.cfg, b.kind, fkey)}));
    };
    match &o {
        Outcome::Accept if !same => {
            viol(
                "manifest-accepts-a-proof-it-does-not-describe",
                format!("manifest-accepts-contradicting-proof:{fkey}"),
                format!("matches = Ok; proof declares {:?}, manifest expects {:?}", pk.4, mk.4),
            );
            // the combined verdict: does native verification stop it? (only evaluated here, so it costs nothing on a sound tree)
            if table_list(&pk) != table_list(&mk) {
                let v = if pa.is_empty() { base_verdict.clone() } else { (b.verify)(&j) };
                *leg.hist.entry(format!("manifest.combined.{}", v.verdict())).or_default() += 1;
                if v == Outcome::Accept {
                    viol(
                        "table-set-contradiction-accepted-end-to-end",
                        format!("table-set-contradiction-accepted-end-to-end:{fkey}"),
                        format!("matches = Ok and verify_all_tables = Ok; proof's tables {:?}, verifier expects {:?}", table_list(&pk), table_list(&mk)),
                    );
                }
            }
        }
        Outcome::Accept => {}
        Outcome::Meta(e) if same => {
            let class = if arity == 0 { "manifest-rejects-honest-proof".to_string() } else { format!("manifest-rejects-described-proof:{fkey}") };
            viol("manifest-rejects-a-proof-it-describes", class, e.clone());
        }
        Outcome::Meta(_) => {}
        Outcome::Panic(m) => viol("manifest-panic", format!("manifest-panic:{fkey}"), m.clone()),
        // an altered proof that no longer deserializes is reported by the verify leg (`harness-alteration-ill-formed`)
        Outcome::Deser(m) if m == "manifest" => viol("manifest-json-ill-formed", format!("harness-manifest-ill-formed:{fkey}"), String::new()),
        _ => {}
    }
}

/// Runs the leg for one base. `singles` = `c16::single_alterations(b)`; `pairs` = number of sampled pairs.
pub fn run(b: &Base, base_verdict: &Outcome, singles: &[Alt], pairs: usize, rng: &mut Rng, line_base: usize) -> Leg {
    let mut leg = Leg { cases: vec![], impl_: vec![], detail: vec![], violations: vec![], hist: Default::default(), evals: 0, distinct: Default::default() };
    let man0 = derived_manifest(b);
    eval(&mut leg, b, base_verdict, &man0, &[], &[], "manifest:derived", line_base);
    // the proof's side
    for a in singles {
        eval(&mut leg, b, base_verdict, &man0, std::slice::from_ref(a), &[], "manifest:proof-altered", line_base);
    }
    // the verifier's side
    let mans = manifest_alterations(&man0, rng);
    for a in &mans {
        eval(&mut leg, b, base_verdict, &man0, &[], std::slice::from_ref(a), "manifest:manifest-altered", line_base);
    }
    // compensating pairs: the same relabelling / variant / public-value change on both sides must match again
    let np = b.json["non_primitives"].as_array().cloned().unwrap_or_default();
    for (i, e) in np.iter().enumerate() {
        let cur = e["op_type"].as_str().unwrap_or("");
        for nm in known_op_types(Some(cur)) {
            let pa = Alt { field: "tables.retag".into(), path: format!("/non_primitives/{i}/op_type"), value: json!(nm), field_param: false, table_set: true };
            let ma = Alt { field: "manifest.op_type".into(), path: format!("/expected_npo/{i}/op_type"), value: json!(nm), field_param: false, table_set: false };
            eval(&mut leg, b, base_verdict, &man0, &[pa], &[ma], "manifest:compensating-pair", line_base);
        }
    }
    // sampled pairs (proof alteration that matters to `matches`, any manifest alteration)
    let relevant: Vec<&Alt> = singles
        .iter()
        .filter(|a| a.table_set || a.field_param || a.field == "alu_variant" || a.field.starts_with("entry.air_variant") || a.field.starts_with("entry.public_values"))
        .collect();
    if !relevant.is_empty() && !mans.is_empty() {
        for _ in 0..pairs {
            let pa = (*rng.pick(&relevant)).clone();
            let ma = rng.pick(&mans).clone();
            eval(&mut leg, b, base_verdict, &man0, &[pa], &[ma], "manifest:pair", line_base);
        }
    }
    leg
}

/// Replay of one case of this leg (`bin/check C16 --replay`): `v` is the `replay` object of a violation.
pub fn replay(b: &Base, base_verdict: &Outcome, pa: &[Alt], v: &Value, line_base: usize) -> Leg {
    let mut leg = Leg { cases: vec![], impl_: vec![], detail: vec![], violations: vec![], hist: Default::default(), evals: 0, distinct: Default::default() };
    let man0 = if v["derived_manifest"].is_object() { v["derived_manifest"].clone() } else { derived_manifest(b) };
    let ma: Vec<Alt> = v["manifest_alterations"]
        .as_array()
        .map(|a| {
            a.iter()
                .filter_map(|x| Some(Alt { field: x["field"].as_str()?.to_string(), path: x["path"].as_str()?.to_string(), value: x["value"].clone(), field_param: false, table_set: false }))
                .collect()
        })
        .unwrap_or_default();
    eval(&mut leg, b, base_verdict, &man0, pa, &ma, "replay", line_base);
    leg
}
