//! C10 (completeness) and C04 (soundness) against the real prover:
//! generated programs → real compile → real run → `prove_all_tables` → `verify_all_tables`;
//! and forged traces (consistent re-executions with substituted constants / hint outputs,
//! single-cell edits) through the same prover, judged by an independent `sat` check.

use std::collections::BTreeMap;
use std::panic::{AssertUnwindSafe, catch_unwind};

use p3_baby_bear::BabyBear;
use p3_batch_stark::ProverData;
use p3_circuit::ops::Op;
use p3_circuit::tables::{AluTrace, ConstTrace, PublicTrace, WitnessTrace};
use p3_circuit::{AluOpKind, Circuit, Traces, WitnessId};
use p3_circuit_prover::common::get_airs_and_degrees_with_prep;
use p3_circuit_prover::config::{self, BabyBearConfig};
use p3_circuit_prover::{BatchStarkProver, CircuitProverData, ConstraintProfile, TablePacking};
use p3_field::{Field, PrimeCharacteristicRing, PrimeField64};
use serde_json::{Value, json};

use crate::prog::*;
use crate::rng::Rng;

type F = BabyBear;

#[derive(Debug, Clone, PartialEq)]
pub enum Outcome {
    Accepted,
    PrepError(String),
    ProveFailed(String),
    VerifyFailed(String),
}

pub fn packing_of(lanes: usize, k: usize, min_h: usize) -> TablePacking {
    TablePacking::new(lanes, lanes).with_horner_pack_k(k).with_min_trace_height(min_h)
}

/// Real preprocessing + proving + verification of given traces.
pub fn prove_verify(circuit: &Circuit<F>, traces: &Traces<F>, packing: &TablePacking) -> Outcome {
    let r = catch_unwind(AssertUnwindSafe(|| -> Outcome {
        let cfg = config::baby_bear();
        let prep = get_airs_and_degrees_with_prep::<BabyBearConfig, F, 1>(circuit, packing, &[], &[], ConstraintProfile::Standard);
        let (airs_degrees, prim, nonprim) = match prep {
            Ok(x) => x,
            Err(e) => return Outcome::PrepError(err_name(&e)),
        };
        let (airs, log_degrees): (Vec<_>, Vec<usize>) = airs_degrees.into_iter().unzip();
        let pd = ProverData::from_airs_and_degrees(&cfg, &airs, &log_degrees);
        let cpd = CircuitProverData::new(pd, prim, nonprim);
        let prover = BatchStarkProver::new(cfg).with_table_packing(packing.clone());
        let proof = match prover.prove_all_tables(traces, &cpd) {
            Ok(p) => p,
            Err(e) => return Outcome::ProveFailed(format!("{e:?}").chars().take(120).collect()),
        };
        match prover.verify_all_tables::<F>(&proof) {
            Ok(()) => Outcome::Accepted,
            Err(e) => Outcome::VerifyFailed(format!("{e:?}").chars().take(120).collect()),
        }
    }));
    r.unwrap_or_else(|p| {
        let msg = p.downcast_ref::<String>().cloned().or_else(|| p.downcast_ref::<&str>().map(|s| s.to_string())).unwrap_or_default();
        Outcome::ProveFailed(format!("panic: {}", msg.chars().take(100).collect::<String>()))
    })
}

/// Every maximal run of consecutive HornerAcc ops is a genuine chain: the first step's
/// accumulator is the zero constant's slot (value 0 at run time is what matters, so the
/// value is checked) and each later step's accumulator is the previous step's output slot.
pub fn horner_chains_wf(c: &Circuit<F>, w: &[F]) -> bool {
    let mut prev: Option<WitnessId> = None;
    for op in &c.ops {
        match op {
            Op::Alu { kind: AluOpKind::HornerAcc, out, intermediate_out: Some(acc), .. } => {
                match prev {
                    None => {
                        if w.get(acc.0 as usize).copied() != Some(F::ZERO) {
                            return false;
                        }
                    }
                    Some(p) => {
                        if *acc != p {
                            return false;
                        }
                    }
                }
                prev = Some(*out);
            }
            Op::Alu { .. } => prev = None,
            _ => {}
        }
    }
    true
}

/// Build `Traces` from a full assignment of witness values, independently of the runner.
pub fn traces_from_assignment(c: &Circuit<F>, w: &[F]) -> Traces<F> {
    let g = |i: WitnessId| w[i.0 as usize];
    let mut ci = vec![];
    let mut cv = vec![];
    let mut pi = vec![];
    let mut pv = vec![];
    let mut kinds = vec![];
    let mut vals = vec![];
    let mut idx = vec![];
    for op in &c.ops {
        match op {
            Op::Const { out, .. } => {
                ci.push(*out);
                cv.push(g(*out));
            }
            Op::Public { out, .. } => {
                pi.push(*out);
                pv.push(g(*out));
            }
            Op::Alu { kind, a, b, c: cc, out, .. } => {
                let cw = cc.unwrap_or(WitnessId(0));
                let (av, bv, ov) = (g(*a), g(*b), g(*out));
                let cval = match kind {
                    AluOpKind::Add | AluOpKind::Mul => F::ZERO,
                    AluOpKind::BoolCheck => av,
                    _ => g(cw),
                };
                let bval = bv;
                kinds.push(*kind);
                vals.push([av, bval, cval, ov]);
                idx.push([*a, *b, cw, *out]);
            }
            _ => {}
        }
    }
    if kinds.is_empty() {
        kinds.push(AluOpKind::Add);
        vals.push([F::ZERO; 4]);
        idx.push([WitnessId(0); 4]);
    }
    Traces {
        witness_trace: WitnessTrace::new(w.to_vec()),
        const_trace: ConstTrace { index: ci, values: cv },
        public_trace: PublicTrace { index: pi, values: pv },
        alu_trace: AluTrace { op_kind: kinds, values: vals, indices: idx },
        non_primitive_traces: Default::default(),
        tag_to_witness: Default::default(),
    }
}

/// `sat` on traces: every ALU record satisfies its relation (Horner: with the accumulator
/// slot's value), every slot has one value across all records, constants are the circuit's.
/// Returns the first failed clause.
pub fn traces_sat(c: &Circuit<F>, t: &Traces<F>) -> Option<String> {
    let mut val: std::collections::HashMap<u32, F> = Default::default();
    fn put_in(val: &mut std::collections::HashMap<u32, F>, s: WitnessId, v: F) -> bool {
        match val.get(&s.0) {
            Some(o) => *o == v,
            None => {
                val.insert(s.0, v);
                true
            }
        }
    }
    macro_rules! put {
        ($s:expr, $v:expr) => {
            put_in(&mut val, $s, $v)
        };
    }
    let mut consts = c.ops.iter().filter_map(|o| if let Op::Const { out, val } = o { Some((*out, *val)) } else { None });
    for (i, v) in t.const_trace.index.iter().zip(&t.const_trace.values) {
        match consts.next() {
            Some((o, cv)) if o == *i && cv == *v => {}
            _ => return Some("const-substitution".into()),
        }
        if !put!(*i, *v) {
            return Some("slot-inconsistent".into());
        }
    }
    for (i, v) in t.public_trace.index.iter().zip(&t.public_trace.values) {
        if !put!(*i, *v) {
            return Some("slot-inconsistent".into());
        }
    }
    let alu_ops: Vec<&Op<F>> = c.ops.iter().filter(|o| matches!(o, Op::Alu { .. })).collect();
    for (j, (k, v)) in t.alu_trace.op_kind.iter().zip(&t.alu_trace.values).enumerate() {
        let Some(Op::Alu { kind, a, b, c: cc, out, intermediate_out }) = alu_ops.get(j) else { continue };
        if kind != k {
            return Some("kind-mismatch".into());
        }
        let [av, bv, cv, ov] = *v;
        // every operand cell that sits on the bus must carry its slot's value
        let mut ok = put!(*a, av) && put!(*out, ov) && put!(*b, bv);
        if let Some(cw) = cc {
            ok &= put!(*cw, cv);
        }
        if !ok {
            return Some("slot-inconsistent".into());
        }
        let acc = if *k == AluOpKind::HornerAcc {
            intermediate_out.and_then(|i| val.get(&i.0).copied().or_else(|| t.witness_trace.get_value(i).copied()))
        } else {
            None
        };
        if *k == AluOpKind::HornerAcc && acc.is_none() {
            return Some("horner-acc-unknown".into());
        }
        if !alu_record_ok(*k, v, acc) {
            return Some(format!("relation-{}", kind_str(*k)));
        }
    }
    None
}

/// The ALU main matrix as the prover would commit it for these traces.
pub fn alu_matrix(circuit: &Circuit<F>, traces: &Traces<F>, packing: &TablePacking) -> Option<Vec<F>> {
    catch_unwind(AssertUnwindSafe(|| {
        let (airs_degrees, _, _) =
            get_airs_and_degrees_with_prep::<BabyBearConfig, F, 1>(circuit, packing, &[], &[], ConstraintProfile::Standard).ok()?;
        for (air, deg) in airs_degrees {
            if let p3_circuit_prover::common::CircuitTableAir::Alu(a) = air {
                return Some(a.trace_to_matrix(&traces.alu_trace, 1 << deg).values);
            }
        }
        None
    }))
    .ok()
    .flatten()
}

fn desc_outcome(o: &Outcome) -> String {
    match o {
        Outcome::Accepted => "accepted".into(),
        Outcome::PrepError(e) => format!("prep-error:{e}"),
        Outcome::ProveFailed(_) => "prove-failed".into(),
        Outcome::VerifyFailed(_) => "verify-failed".into(),
    }
}

pub fn main(args: &crate::Args) {
    let seed = args.u64("seed", 1);
    let nprog = args.u64("programs", 100) as usize;
    let max_calls = args.u64("max-calls", 25) as usize;
    let forge = args.u64("forge", 0) as usize; // forged traces per program (C04)
    let out = args.str("out", "/tmp/p3r");
    std::fs::create_dir_all(&out).unwrap();
    let mut rng = Rng::new(seed ^ 0xc10);
    let mut hist: BTreeMap<String, u64> = BTreeMap::new();
    let mut violations: Vec<Value> = vec![];
    let mut samples: Vec<Value> = vec![];
    let mut distinct = std::collections::HashSet::new();
    let mut evals = 0usize;
    let mut todo: Vec<(Vec<Call>, Vec<u64>, Vec<u64>, String)> = vec![];
    if let Some(dir) = args.opt("corpus") {
        let mut files: Vec<_> = std::fs::read_dir(&dir).map(|d| d.filter_map(|e| e.ok()).map(|e| e.path()).collect()).unwrap_or_default();
        files.sort();
        for f in files {
            let Ok(txt) = std::fs::read_to_string(&f) else { continue };
            let Ok(v) = serde_json::from_str::<Value>(&txt) else { continue };
            let v = if v.get("program").is_some() { v } else { v["replay"].clone() };
            if v["field"].as_str().unwrap_or("bb") != "bb" {
                continue;
            }
            let calls: Option<Vec<Call>> = v["program"].as_array().map(|a| a.iter().filter_map(|l| crate::c02::parse_call(l.as_str()?)).collect());
            let pu: Vec<u64> = v["pubs"].as_array().map(|a| a.iter().filter_map(|x| x.as_u64()).collect()).unwrap_or_default();
            let pr: Vec<u64> = v["privs"].as_array().map(|a| a.iter().filter_map(|x| x.as_u64()).collect()).unwrap_or_default();
            if let Some(c) = calls {
                todo.push((c, pu, pr, format!("corpus:{}", f.file_name().unwrap().to_string_lossy())));
            }
        }
    }
    for i in 0..nprog {
        let mut r = rng.fork();
        if let Some((prog, _)) = generate::<F>(&mut r, &GenCfg { max_calls, allow_zero_div: false }) {
            todo.push((prog.calls, prog.pubs0, prog.privs0, format!("gen:{seed}:{i}")));
        }
    }
    for (calls, pu, pr, id) in todo {
        let text: String = calls.iter().map(|c| c.line()).collect::<Vec<_>>().join("\n");
        let mut h = 0xcbf29ce484222325u64;
        for b in text.bytes() {
            h = (h ^ b as u64).wrapping_mul(0x100000001b3);
        }
        let (rets, builder) = rebuild::<F>(&calls);
        let pubs: Vec<F> = pu.iter().map(|x| F::from_u64(*x)).collect();
        let privs: Vec<F> = pr.iter().map(|x| F::from_u64(*x)).collect();
        let mut sem = Sem::<F>::new(pubs.clone(), privs.clone());
        for (i, (c, r)) in calls.iter().zip(&rets).enumerate() {
            sem.apply(i, c, r);
        }
        if sem.zero_div {
            *hist.entry("skipped.unsatisfied-base".into()).or_default() += 1;
            continue;
        }
        let unsat_base = sem.first_violation().is_some();
        let Ok(Ok(circuit)) = catch_unwind(AssertUnwindSafe(|| builder.build())) else { continue };
        let lanes = 1 + (h % 3) as usize;
        let k = 2 + ((h >> 8) % 4) as usize;
        // minimum trace height as a caller may give it: powers of two and arbitrary values (the packing normalises)
        let min_h = [1usize, 2, 4, 3, 5, 6, 12, 24][((h >> 16) % 8) as usize];
        let packing = packing_of(lanes, k, min_h);
        let replay = json!({"field":"bb","program": calls.iter().map(|c| c.line()).collect::<Vec<_>>(), "pubs": pu, "privs": pr,
            "id": id, "lanes": lanes, "horner_k": k, "min_height": min_h});
        // ---- C04: the table's reading of HornerAcc steps (accumulator = previous row's output, 0
        // at a chain start) replayed as a forgery: an assignment consistent with every emitted op
        // *except* that Horner steps ignore their `acc` operand. If it violates an op relation and
        // is nevertheless proven and verified, the proof attests a false statement.
        if forge > 0 && circuit.ops.iter().any(|o| matches!(o, Op::Alu { kind: AluOpKind::HornerAcc, .. })) {
            let priv_slots: Vec<(u32, F)> = circuit.private_input_rows.iter().zip(&privs).map(|(s, v)| (s.0, *v)).collect();
            if let Some(w2) = crate::prog::ops_only_assignment_mode(&circuit, &pubs, &priv_slots, false, true) {
                if !ops_sat_full(&circuit, &w2, &pubs) {
                    let ft = traces_from_assignment(&circuit, &w2);
                    let o = prove_verify(&circuit, &ft, &packing);
                    evals += 1;
                    *hist.entry(format!("forged.air-horner.{}", desc_outcome(&o))).or_default() += 1;
                    if o == Outcome::Accepted {
                        let mut rp = replay.clone();
                        rp["forgery"] = json!("Horner steps take the table's accumulator (previous row / zero) instead of their acc operand");
                        rp["forged_witness"] = json!(w2.iter().map(|x| x.as_canonical_u64()).collect::<Vec<_>>());
                        violations.push(json!({"property":"C04","kind":"forged-trace-accepted","class":"horner-acc-not-bound","replay":rp}));
                    }
                }
            }
        }
        if unsat_base {
            *hist.entry("skipped.unsatisfied-base".into()).or_default() += 1;
            continue;
        }
        let run = catch_unwind(AssertUnwindSafe(|| {
            let mut runner = circuit.runner();
            runner.set_public_inputs(&pubs)?;
            runner.set_private_inputs(&privs)?;
            runner.run()
        }));
        let Ok(Ok(traces)) = run else {
            *hist.entry("skipped.run-failed(C02)".into()).or_default() += 1;
            continue;
        };
        distinct.insert(h);
        let wvals: Vec<F> = (0..circuit.witness_count).map(|i| *traces.witness_trace.get_value(WitnessId(i)).unwrap()).collect();
        // ---- C10: the honest trace must be provable and verify
        let o = prove_verify(&circuit, &traces, &packing);
        evals += 1;
        *hist.entry(format!("honest.{}", desc_outcome(&o))).or_default() += 1;
        if o != Outcome::Accepted {
            let class = match &o {
                Outcome::PrepError(e) => format!("prep-error:{e}"),
                _ if !horner_chains_wf(&circuit, &wvals) => "horner-chain-not-wf".to_string(),
                Outcome::ProveFailed(_) => "prove-failed".into(),
                _ => "verify-failed".into(),
            };
            violations.push(json!({"property":"C10","kind":"honest-trace-not-accepted","class":class,
                "detail": format!("{o:?}").chars().take(200).collect::<String>(), "replay":replay}));
            continue;
        }
        if samples.len() < 2 {
            samples.push(replay.clone());
        }
        // ---- C04: forged traces
        for fi in 0..forge {
            let mode = fi % 4;
            let forged: Option<(Traces<F>, String)> = match mode {
                // consistent re-execution with one constant substituted
                0 => {
                    let consts: Vec<usize> = circuit.ops.iter().enumerate().filter(|(_, o)| matches!(o, Op::Const { .. })).map(|(i, _)| i).collect();
                    if consts.is_empty() { None } else {
                        let ci = *rng.pick(&consts);
                        let mut c2 = circuit.clone();
                        if let Op::Const { val, .. } = &mut c2.ops[ci] {
                            *val += F::from_u64(1 + rng.below(1000));
                        }
                        let priv_slots: Vec<(u32, F)> = circuit.private_input_rows.iter().zip(&privs).map(|(s, v)| (s.0, *v)).collect();
                        // publics re-chosen freely is allowed; keep them and see whether a
                        // consistent execution exists, else try with the public recomputed
                        ops_only_assignment(&c2, &pubs, &priv_slots)
                            .map(|w| (traces_from_assignment(&circuit, &w), format!("const-subst op#{ci}")))
                    }
                }
                // single ALU value cell changed, no propagation
                1 => {
                    let mut t = traces_from_assignment(&circuit, &wvals);
                    let n = t.alu_trace.values.len();
                    let r = rng.usize(n);
                    let mut cidx = rng.usize(4);
                    // the `b` cell of a Horner record that is packed behind another step is
                    // never committed (packed rows share `b`): editing it forges nothing
                    if cidx == 1 && t.alu_trace.op_kind[r] == AluOpKind::HornerAcc {
                        cidx = 3;
                    }
                    t.alu_trace.values[r][cidx] += F::from_u64(1 + rng.below(1000));
                    Some((t, format!("alu-cell row{r} col{cidx}")))
                }
                // a constant's trace value changed without propagation
                2 => {
                    let mut t = traces_from_assignment(&circuit, &wvals);
                    let n = t.const_trace.values.len();
                    if n == 0 { None } else {
                        let r = rng.usize(n);
                        t.const_trace.values[r] += F::ONE;
                        Some((t, format!("const-cell {r}")))
                    }
                }
                // consistent re-execution with a hint output replaced (kept only if the
                // emitted ops still accept it)
                _ => {
                    let hint_outs: Vec<u32> = circuit.ops.iter().flat_map(|o| if let Op::Hint { outputs, .. } = o { outputs.iter().map(|w| w.0).collect() } else { vec![] }).collect();
                    if hint_outs.is_empty() { None } else {
                        let s = *rng.pick(&hint_outs);
                        let mut priv_slots: Vec<(u32, F)> = circuit.private_input_rows.iter().zip(&privs).map(|(s, v)| (s.0, *v)).collect();
                        priv_slots.push((s, wvals[s as usize] + F::from_u64(1 + rng.below(3))));
                        ops_only_assignment(&circuit, &pubs, &priv_slots).map(|w| (traces_from_assignment(&circuit, &w), format!("hint-out slot{s}")))
                    }
                }
            };
            let Some((ft, what)) = forged else { continue };
            // a record cell that the (packed) ALU layout never commits forges nothing
            if mode == 1 && alu_matrix(&circuit, &ft, &packing) == alu_matrix(&circuit, &traces_from_assignment(&circuit, &wvals), &packing) {
                *hist.entry("forged.mode1.not-committed".into()).or_default() += 1;
                continue;
            }
            let o = prove_verify(&circuit, &ft, &packing);
            evals += 1;
            let bad = traces_sat(&circuit, &ft);
            *hist.entry(format!("forged.mode{mode}.{}.{}", desc_outcome(&o), if bad.is_some() { "unsat" } else { "sat" })).or_default() += 1;
            if o == Outcome::Accepted {
                if let Some(clause) = bad {
                    let mut rp = replay.clone();
                    rp["forgery"] = json!(what);
                    violations.push(json!({"property":"C04","kind":"forged-trace-accepted","class":clause,"replay":rp}));
                }
            } else if bad.is_none() && horner_chains_wf(&circuit, &wvals) {
                // a satisfying consistent trace rejected: completeness side (C10)
                let mut rp = replay.clone();
                rp["forgery"] = json!(what);
                violations.push(json!({"property":"C10","kind":"satisfying-forged-trace-rejected","class":"prove-failed-alt-witness",
                    "detail": format!("{o:?}").chars().take(160).collect::<String>(), "replay":rp}));
            }
        }
    }
    let report = json!({"evaluations": evals, "distinct": distinct.len(), "hist": hist, "violations": violations, "samples": samples, "seed": seed});
    std::fs::write(format!("{out}/prove.report.json"), serde_json::to_string_pretty(&report).unwrap()).unwrap();
    println!("prove: evals={} violations={}", evals, violations.len());
}
