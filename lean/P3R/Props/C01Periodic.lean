/-
C01 — which domain the periodic columns are evaluated over (call-site facts about the periodic gadget).

`recursion/src/verifier/stark.rs::verify_p3_uni_proof_circuit` evaluates the AIR's periodic columns at `zeta`
over `init_trace_domain` (log size `degree_bits − is_zk`), as `p3_uni_stark::verify_with_preprocessed` does;
`verify_batch_circuit` over the base `trace_domains[i]` (log size `degree_bits[i] − is_zk`), as
`p3_batch_stark::verify_batch` does. The gadget (`periodic.rs::evaluate_one`, model `Gadgets.periodicC`,
property C20) gets the domain only through `folds = log(domain size) − log(period)`.

* `periodic_domain_fold`  — one fold more (the ZK-extended domain, twice the size) evaluates the same interpolant
  at the *square* of the point: the value differs from the native one as soon as the period is ≥ 2
  (witness `Witness.C01Periodic.domain_matters`), so honest proofs stop satisfying the circuit;
* `periodic_low_degree_pad` — a coefficient vector padded with zeros (a table of period `2m` whose interpolant has
  degree `< m`) gives the value of its first half, for every number of folds;
* `wrong_domain_is_half_sibling` — hence on such a table the one-fold-too-many value *is* the correct value of the
  column of half the period made of the table's even entries: a circuit with that slip verifies the sibling AIR.
  This is why the harness's wrong-AIR move `ptab-half-*-lin` (harness/src/c01.rs `FeatAir::feat_siblings`) is the
  soundness-side witness of a wrong evaluation domain, and `ptab-dbl-*` its completeness-side control.
-/
import P3R.Props.C20

namespace P3R.C01
open P3R P3R.Gadgets

section ring
variable {R : Type} [CommRing R]

/-- One fold more = the same interpolant at the squared point: evaluating a periodic column over a domain of
twice the size (`trace_domain` of a hiding PCS instead of `init_trace_domain`) is evaluating it at `x²`. -/
theorem periodic_domain_fold (coeffs : List R) (folds : Nat) (x : R) (hne : coeffs ≠ []) :
    periodicC coeffs (folds + 1) x = periodicC coeffs folds (x * x) := by
  rw [(P3R.C20.periodic_eq coeffs (folds + 1) x hne).1, (P3R.C20.periodic_eq coeffs folds (x * x) hne).1]
  congr 2
  rw [pow_succ, mul_comm, pow_mul, pow_two]

private theorem polyEval_zeros (k : Nat) (y : R) : polyEval (List.replicate k (0 : R)) y = 0 := by
  induction k with
  | zero => rfl
  | succ n ih =>
    show polyEval (List.replicate n (0 : R)) y * y + 0 = 0
    rw [ih]; ring

private theorem polyEval_append_zeros (c : List R) (k : Nat) (y : R) :
    polyEval (c ++ List.replicate k (0 : R)) y = polyEval c y := by
  induction c with
  | nil => rw [List.nil_append, polyEval_zeros]; rfl
  | cons a t ih =>
    show polyEval (t ++ List.replicate k (0 : R)) y * y + a = polyEval t y * y + a
    rw [ih]

/-- A coefficient vector padded with zeros is evaluated like its unpadded part, whatever the number of folds:
the gadget's value on a table of period `|c| + k` whose interpolant has degree `< |c|`. -/
theorem periodic_low_degree_pad (c : List R) (k folds : Nat) (x : R) (hne : c ≠ []) :
    periodicC (c ++ List.replicate k 0) folds x = periodicC c folds x := by
  have hne' : c ++ List.replicate k (0 : R) ≠ [] := by
    intro h; exact hne (List.append_eq_nil_iff.mp h).1
  rw [(P3R.C20.periodic_eq _ folds x hne').1, (P3R.C20.periodic_eq c folds x hne).1, polyEval_append_zeros]

/-- **The slip of seed C01-c, soundness side.** Period `2m` (`m = |c|`), interpolant of degree `< m`, `folds` = the
native number of folds for period `2m`. The circuit that folds once more computes `periodicC c (folds + 1) x`:
exactly the native value (`folds + 1` folds for period `m`) of the column whose interpolant is `c` — the table of
half the period made of the even entries. So that circuit accepts the proofs of that sibling AIR. -/
theorem wrong_domain_is_half_sibling (c : List R) (folds : Nat) (x : R) (hne : c ≠ []) :
    periodicC (c ++ List.replicate c.length 0) (folds + 1) x = periodicC c (folds + 1) x :=
  periodic_low_degree_pad c c.length (folds + 1) x hne

end ring
end P3R.C01
