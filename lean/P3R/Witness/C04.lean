/-
Witnesses for `P3R.C04.accepted_sat`.

* `accepted_sat_nonvacuous` — a concrete accepted trace of the two-op circuit
  `c0 := 2; s1 := c0 + c0` over ℚ meets every hypothesis of the theorem.
* `unchained_accepted_not_sat` — the hypothesis `hornerChained` cannot be dropped (finding F20): for
  the circuit `out = horner_acc_step(acc, alpha, p_at_z, p_at_x)` with public inputs
  `acc = 5, alpha = 7, p_at_z = 11, p_at_x = 2` and the claimed `out = 9`, the trace whose cells
  hold `w = [0, 5, 7, 11, 2, 9]` satisfies every acceptance condition (row constraints, one creator
  per slot, balanced bus — the ALU row takes accumulator 0 at the start of a run), but no
  assignment satisfies the op relations with these public values (`5·7 + 11 − 2 = 44 ≠ 9`).
  `corpus/prove/f20_horner_free_acc_forged.json` replays exactly this on the real prover/verifier.
-/
import P3R.Props.C04Full
import P3R.Props.C10Full
import Mathlib.Algebra.Field.Rat
import Mathlib.Tactic.NormNum
import Mathlib.Tactic.IntervalCases
open P3R P3R.C04 P3R.C09

namespace P3R.Witness.C04

theorem accepted_sat_nonvacuous :
    ∃ w : Nat → ℚ, Sat w (fun _ => 0) [.const 0 2, .alu .add 0 0 none 1 none] := by
  refine accepted_sat (fun _ => 0) _ [(0, .creator), (1, .creator), (0, .reader), (0, .reader)]
    [(0, 2)] [2, 4, 2, 2] (by simp [opSlots]) rfl ?_ ?_ ?_ ?_ ?_
  · intro s; unfold nCreators; simp only [List.countP_cons, List.countP_nil]
    by_cases h0 : 0 = s <;> by_cases h1 : 1 = s <;> simp [h0, h1]
  · intro e he; simp at he; rcases he with rfl | rfl | rfl <;> simp
  · intro s v
    simp only [List.zipWith, busOf, List.filterMap, interOf, readsOf, List.lookup, tupleNet, List.filter]
    by_cases h0 : 0 = s <;> by_cases h1 : 1 = s <;> by_cases hv : 2 = v <;> by_cases hv4 : 4 = v <;>
      simp [h0, h1, hv, hv4] <;> (try subst h0) <;> (try subst hv) <;> (try simp_all) <;> (try (subst h1; simp))
  · simp [hornerChained, hornerChainedFrom]
  · simp only [rowsOk, opSlots, rowOkVals, nextPrev, List.take, List.drop, List.length]
    refine ⟨by norm_num, ?_, trivial⟩
    intro x hx
    simp [laneAdd, vget] at hx
    rw [hx]; norm_num

/-- The ops of `pub acc, alpha, p_at_z, p_at_x; out = horner(acc, alpha, p_at_z, p_at_x); connect(out, pub e)`
as compiled (slot 0: the zero constant, slots 1–4: the four inputs, slot 5: `out` = `e`). -/
def f20Ops : List (Op ℚ) :=
  [.const 0 0, .pub 1 0, .pub 2 1, .pub 3 2, .pub 4 3, .pub 5 4, .alu .horner 4 2 (some 3) 5 (some 1)]

def f20Pub : Nat → ℚ := fun i => [5, 7, 11, 2, 9].getD i 0
def f20W : Nat → ℚ := fun i => [0, 5, 7, 11, 2, 9].getD i 0
def f20Evs : List (Nat × Role) :=
  [(0, .creator), (1, .creator), (2, .creator), (3, .creator), (4, .creator), (5, .creator),
   (5, .reader), (4, .reader), (3, .reader), (2, .reader)]
def f20Reads : List (Nat × Nat) := [(5, 1), (4, 1), (3, 1), (2, 1)]

theorem unchained_accepted_not_sat :
    -- every acceptance condition of `accepted_sat` holds for the forged trace …
    (f20Evs.map Prod.fst = f20Ops.flatMap opSlots) ∧
    (∀ s, nCreators f20Evs s ≤ 1) ∧
    (∀ e ∈ f20Evs, e.2 ≠ .skip) ∧
    (∀ s v, tupleNet (busOf f20Reads (C10.honestCells f20W f20Evs)) s v = 0) ∧
    rowsOk f20Pub f20Ops (f20Evs.map fun e => f20W e.1) none ∧
    -- … the chain condition fails …
    hornerChained f20Ops = false ∧
    -- … and no assignment satisfies the op relations for these public values
    ¬ ∃ w : Nat → ℚ, Sat w f20Pub f20Ops := by
  refine ⟨by simp [f20Evs, f20Ops, opSlots], ?_, ?_, ?_, ?_, ?_, ?_⟩
  · intro s
    unfold nCreators f20Evs
    simp only [List.countP_cons, List.countP_nil]
    rcases Nat.lt_or_ge s 6 with h | h
    · interval_cases s <;> simp
    · have : ∀ k, k < 6 → (k == s) = false := fun k hk => by simp; omega
      simp [this]
  · intro e he
    simp [f20Evs] at he
    rcases he with rfl | rfl | rfl | rfl | rfl | rfl | rfl | rfl | rfl | rfl <;> simp
  · apply C10.honest_bus
    intro s
    rw [netOf_formula]
    unfold nCreators nReaders readsOf f20Evs f20Reads
    simp only [List.countP_cons, List.countP_nil, List.lookup]
    rcases Nat.lt_or_ge s 6 with h | h
    · interval_cases s <;> simp
    · have e1 : ∀ k, k < 6 → (k == s) = false := fun k hk => by simp; omega
      have e2 : ∀ k, k < 6 → (s == k) = false := fun k hk => by simp; omega
      simp [e1, e2]
  · simp only [f20Ops, f20Evs, rowsOk, opSlots, rowOkVals, nextPrev, prevAcc, List.take, List.drop,
      List.length, List.map, List.cons_append, List.nil_append]
    refine ⟨?_, ?_, ?_, ?_, ?_, ?_, ?_, trivial⟩ <;> try (simp [f20W, f20Pub])
    intro x hx
    simp [hornerSingle, vget, f20W] at hx
    rw [hx]; norm_num
  · simp [hornerChained, hornerChainedFrom, zeroConsts, f20Ops]
  · rintro ⟨w, hw⟩
    have h1 := hw (.pub 1 0) (by simp [f20Ops])
    have h2 := hw (.pub 2 1) (by simp [f20Ops])
    have h3 := hw (.pub 3 2) (by simp [f20Ops])
    have h4 := hw (.pub 4 3) (by simp [f20Ops])
    have h5 := hw (.pub 5 4) (by simp [f20Ops])
    have h6 := hw (.alu .horner 4 2 (some 3) 5 (some 1)) (by simp [f20Ops])
    simp only [Op.holds, f20Pub, List.getD_cons_zero, List.getD_cons_succ] at h1 h2 h3 h4 h5 h6
    rw [h1, h2, h3, h4, h5] at h6
    norm_num at h6

end P3R.Witness.C04
