/-
C14 — proof data is packed in allocation order and every input matters.

Statement (fixed): for every proof shape, the vectors of public and private input values produced
from a proof have exactly the lengths the verification circuit expects and place each proof
element on the circuit input allocated for it. No input that the native verifier's decision
depends on is left unconstrained in the circuit.

Model: `P3R.Model.Packing` — for every `Recursive` implementation of `types/proof.rs`,
`pcs/fri/targets.rs` and both builders of `public_inputs.rs`, three *separately transcribed*
traversals: allocation order (`…Alloc`), public packing order (`…Pub`), private packing order
(`…Priv`), over shapes = every length / option / count the traversals read (number of tables,
widths, optional next-row / preprocessed / random / permutation openings, quotient chunks per
table, cap heights (`roots = 2^h`), commit-phase rounds with per-round arity, queries, opened
matrices per batch, salts of hiding MMCS proofs, hiding random openings, lookup terminals,
preprocessed commitment, digest width `E`, extension degree `D`).

Theorems (all for every shape, every `D`, `E`; no size bound anywhere):

* `packing_aligned_uni`, `packing_aligned_batch` — FULL STRENGTH, no hypothesis:
    the public labels of the allocation trace, in order, are exactly the packed public vector, and
    the private labels exactly the packed private vector.
  (Until /repo fc0321f these needed `s.pcs.wf` — every commit-phase step carries `2^log_arity − 1`
  siblings — because `CommitPhaseProofStepTargets::new` sized the sibling targets from `log_arity`
  while `get_private_values` read `sibling_values.len()`. Both now read the latter; the hypothesis
  is gone. A malformed count is instead refused when the verifier circuit is built:
  `P3R.C14.malformed_siblings_rejected`, `Props/C14Siblings.lean`; replayed on the real code every
  run, `corpus/c14/malformed_siblings.json`: vectors accepted by the runner, build refused.)
* `lengths_eq_uni`, `lengths_eq_batch` — packed lengths = `public_flat_len` / `private_flat_len`
  (the number of public / private allocations).
* `packed_position_uni/batch` — position-wise form: position `i` of a packed vector holds the
  element named like the `i`-th allocated target of that visibility.
* `no_dead_input_uni_built`, `no_dead_input_batch_built` — every allocated input is consumed by the
  verifier model for every shape on which the verifier's build-time check of the per-query folding
  data passes (`friSibCheck D s.pcs.fri = ok`; every other shape yields `InvalidProofShape` and no
  circuit — `friSibCheck_ok_wf`, `malformed_siblings_rejected`). `no_dead_input_uni`,
  `no_dead_input_batch` are the same under the (incomparable) hypothesis `s.pcs.wf`, as before;
  both follow from `no_dead_input_*_coeffs` (allocated = consumed coefficient count per step).
  `P3R.Witness.C14.sib_check_needed`: without either hypothesis surplus sibling coefficients are
  allocated, packed and consumed by nothing.
  Every allocated input is consumed by the verifier model (`…Uses`: transcript observation, PCS operand or constraint operand), for every shape that
  passes the verifier's own shape validation (`validated`; shapes failing it yield
  `InvalidProofShape` and no circuit). `…Uses` is a *block-level* transcription of the verifier;
  that a consumed operand is actually *constrained* is what C05/C07/C08/C13/C20 prove for the
  consuming gadgets, and what the perturbation campaign of this check observes on the real code.

Distinctness of the label naming scheme — what makes "position `k` carries the element labelled
`ℓ`" an identification of elements — is proved for every shape in `Props/C14Labels.lean`
(`alloc_labels_nodup_uni/batch`, `packed_position_unique_uni/batch`; the driver's per-shape check
`distinct 1` is still evaluated and can no longer fail: `allDistinct_uni/batch`).

Not proved here: that the Rust traversals are what the model says (tied by the sentinel read-back
correspondence, see `design_notes/C14.md`).
-/
import P3R.Props.C14Siblings
import Mathlib.Tactic.Tauto

namespace P3R.C14
open P3R.Packing

/-! ### Packing is aligned with allocation -/

/-- Uni-STARK: `StarkVerifierInputsBuilder::{allocate, pack_public_values, pack_private_values}`
    over `ProofTargets` with any of the modelled PCS proof types. -/
theorem packing_aligned_uni (D E : Nat) (s : UniShape) :
    pubOf (uniAlloc D E s) = uniPub E s ∧ privOf (uniAlloc D E s) = uniPriv D s := by
  constructor
  · simp [uniAlloc, uniPub, pubOf_optL, coms_pub, ov_pub, pcs_pub, cap_pub]
  · simp [uniAlloc, uniPriv, privOf_optL, coms_priv, ov_priv, pcs_priv D E s.pcs, cap_priv]

/-- Batch-STARK: `BatchStarkVerifierInputsBuilder` over `BatchProofTargets` + `CommonDataTargets`. -/
theorem packing_aligned_batch (D E : Nat) (s : BatchShape) :
    pubOf (batchAlloc D E s) = batchPub E s ∧ privOf (batchAlloc D E s) = batchPriv D s := by
  constructor
  · simp [batchAlloc, batchPub, pubOf_optL, pubOf_flatMapIdx, coms_pub, ovs_pub, pcs_pub, cap_pub]
  · simp [batchAlloc, batchPriv, privOf_optL, privOf_flatMapIdx, coms_priv, ovs_priv,
      pcs_priv D E s.pcs, cap_priv]

/-- Non-vacuity of `wf` (hypothesis of `no_dead_input_uni/batch`): two queries, arity-2 and arity-8 rounds. -/
example : (PcsShape.mk none ⟨[1, 1], 2,
    [⟨[⟨[3, 2], []⟩], [⟨1, 1, []⟩, ⟨3, 7, []⟩]⟩, ⟨[⟨[3, 2], []⟩], [⟨1, 1, []⟩, ⟨3, 7, []⟩]⟩], 4⟩).wf = true := by
  decide

/-- `Circuit::public_flat_len` / `private_flat_len`: the final values of the two allocation counters. -/
def publicFlatLen (a : List Slot) : Nat := (pubOf a).length
def privateFlatLen (a : List Slot) : Nat := (privOf a).length

theorem lengths_eq_uni (D E : Nat) (s : UniShape) :
    (uniPub E s).length = publicFlatLen (uniAlloc D E s) ∧
    (uniPriv D s).length = privateFlatLen (uniAlloc D E s) := by
  obtain ⟨h1, h2⟩ := packing_aligned_uni D E s
  simp [publicFlatLen, privateFlatLen, h1, h2]

theorem lengths_eq_batch (D E : Nat) (s : BatchShape) :
    (batchPub E s).length = publicFlatLen (batchAlloc D E s) ∧
    (batchPriv D s).length = privateFlatLen (batchAlloc D E s) := by
  obtain ⟨h1, h2⟩ := packing_aligned_batch D E s
  simp [publicFlatLen, privateFlatLen, h1, h2]

/-- The two counters account for every allocation (no third kind of input). -/
theorem flat_lens_total (a : List Slot) : publicFlatLen a + privateFlatLen a = a.length :=
  length_pubOf_add_privOf a

/-- Position-wise form ("every position in the packed vectors"). -/
theorem packed_position_uni (D E : Nat) (s : UniShape) (i : Nat) :
    (uniPub E s)[i]? = (pubOf (uniAlloc D E s))[i]? ∧
    (uniPriv D s)[i]? = (privOf (uniAlloc D E s))[i]? := by
  obtain ⟨h1, h2⟩ := packing_aligned_uni D E s
  rw [h1, h2]; exact ⟨rfl, rfl⟩

theorem packed_position_batch (D E : Nat) (s : BatchShape) (i : Nat) :
    (batchPub E s)[i]? = (pubOf (batchAlloc D E s))[i]? ∧
    (batchPriv D s)[i]? = (privOf (batchAlloc D E s))[i]? := by
  obtain ⟨h1, h2⟩ := packing_aligned_batch D E s
  rw [h1, h2]; exact ⟨rfl, rfl⟩

/-! ### Every allocated input is consumed by the verifier -/

theorem flatMapIdx_mono {α : Type} {f g : Nat → α → List Label} (i : Nat) (l : List α)
    (h : ∀ j a, a ∈ l → ∀ x, x ∈ f j a → x ∈ g j a) :
    ∀ x, x ∈ flatMapIdx f i l → x ∈ flatMapIdx g i l := by
  induction l generalizing i with
  | nil => intro x hx; exact hx
  | cons a l ih =>
    intro x hx
    simp only [flatMapIdx, List.mem_append] at hx ⊢
    rcases hx with hx | hx
    · exact Or.inl (h i a (List.mem_cons_self ..) x hx)
    · exact Or.inr (ih (i + 1) (fun j b hb => h j b (List.mem_cons_of_mem _ hb)) x hx)

theorem idx_zero (pre : String) : idx pre 0 = [] := rfl

theorem optL_idx_of_getD_zero (pre : String) (o : Option Nat) (h : o.getD 0 = 0) :
    optL o (idx pre) = [] := by
  cases o with
  | none => rfl
  | some n => simp at h; subst h; rfl

theorem ov_used (hasPrep : Bool) (pre : String) (o : OVShape) (h : o.prepOk hasPrep = true) :
    ∀ x, x ∈ ovPriv pre o → x ∈ ovUses hasPrep pre o := by
  intro x hx
  cases hasPrep with
  | true =>
    simp only [ovPriv, ovUses, List.mem_append, if_true] at hx ⊢
    tauto
  | false =>
    have h' : o.prepLocal.getD 0 = 0 ∧ o.prepNext.getD 0 = 0 := by
      simpa [OVShape.prepOk] using h
    simp only [ovPriv, ovUses, List.mem_append, optL_idx_of_getD_zero _ _ h'.1,
      optL_idx_of_getD_zero _ _ h'.2] at hx ⊢
    simp at hx ⊢
    tauto

theorem ovl_used (hasPrep : Bool) (pre : String) (o : OVLShape) (h : o.base.prepOk hasPrep = true) :
    ∀ x, x ∈ ovlPriv pre o → x ∈ ovlUses hasPrep pre o := by
  intro x hx
  simp only [ovlPriv, ovlUses, List.mem_append] at hx ⊢
  rcases hx with (hx | hx) | hx
  · exact Or.inl (Or.inl (ov_used hasPrep pre o.base h x hx))
  · exact Or.inl (Or.inr hx)
  · exact Or.inr hx

theorem termLabels_all_false (i : Nat) (l : List Bool) (h : l.all (· == false) = true) :
    termLabels i l = [] := by
  induction l generalizing i with
  | nil => rfl
  | cons b l ih =>
    simp only [List.all_cons, Bool.and_eq_true] at h
    cases b with
    | true => simp at h
    | false => simpa [termLabels] using ih (i + 1) h.2

theorem pcs_pub_used (D E : Nat) (p : PcsShape) : ∀ x, x ∈ pcsPub E p → x ∈ pcsUses D E p := by
  intro x hx
  simp only [pcsUses, List.mem_append]
  exact Or.inl (Or.inl hx)

/-- Per step, the number of coefficient targets allocated (`siblings · D`) is the number the fold
    consumes (`(2^log_arity − 1) · D`). Follows from `wf` and from an accepted build. -/
def CoeffsOk (D : Nat) (p : PcsShape) : Prop :=
  ∀ q ∈ p.fri.queries, ∀ st ∈ q.steps, st.siblings * D = (2 ^ st.logArity - 1) * D

theorem coeffsOk_of_wf (D : Nat) (p : PcsShape) (h : p.wf = true) : CoeffsOk D p := by
  intro q hq st hst
  have hq' : ∀ q ∈ p.fri.queries, q.wf = true := by
    have : p.fri.wf = true := h
    simpa [FriShape.wf] using this
  have hs : ∀ st ∈ q.steps, st.wf = true := by simpa [QueryShape.wf] using hq' q hq
  have hw : st.siblings = 2 ^ st.logArity - 1 := by simpa [StepShape.wf] using hs st hst
  rw [hw]

theorem coeffsOk_of_built (D : Nat) (p : PcsShape) (h : friSibCheck D p.fri = .ok ()) :
    CoeffsOk D p := friSibCheck_ok_coeffs D p.fri h

theorem pcs_priv_used (D E : Nat) (p : PcsShape) (h : CoeffsOk D p) :
    ∀ x, x ∈ pcsPriv D p → x ∈ pcsUses D E p := by
  intro x hx
  simp only [pcsPriv, pcsUses, friPriv, List.mem_append] at hx ⊢
  rcases hx with hx | hx
  · exact Or.inl (Or.inr hx)
  · refine Or.inr (flatMapIdx_mono 0 p.fri.queries ?_ x hx)
    intro j q hqm y hy
    simp only [queryPriv, queryUses, List.mem_append] at hy ⊢
    rcases hy with hy | hy
    · exact Or.inl hy
    · refine Or.inr (flatMapIdx_mono 0 q.steps ?_ y hy)
      intro k st hst z hz
      unfold stepPriv at hz
      unfold stepUses idx
      rw [sibCoeffs_eq, h q hqm st hst, Nat.zero_mul] at hz
      exact hz

/-- **Uni-STARK**: every allocated input is consumed by the verifier (core form). -/
theorem no_dead_input_uni_coeffs (D E : Nat) (s : UniShape) (hwf : CoeffsOk D s.pcs)
    (hv : s.validated = true) : ∀ sl ∈ uniAlloc D E s, sl.lab ∈ uniUses D E s := by
  intro sl hsl
  obtain ⟨h1, h2⟩ := packing_aligned_uni D E s
  rcases mem_pubOf_or_privOf hsl with h | h
  · rw [h1] at h
    simp only [uniPub, uniUses, comsUses, List.mem_append] at h ⊢
    rcases h with (h | h | h) | h
    · tauto
    · tauto
    · exact Or.inr (pcs_pub_used D E s.pcs _ h)
    · tauto
  · rw [h2] at h
    simp only [uniPriv, uniUses, List.mem_append] at h ⊢
    rcases h with h | h
    · exact Or.inl (Or.inr (ov_used _ _ s.ov hv _ h))
    · exact Or.inr (pcs_priv_used D E s.pcs hwf _ h)

/-- **Batch-STARK**: every allocated input is consumed by the verifier (core form). -/
theorem no_dead_input_batch_coeffs (D E : Nat) (s : BatchShape) (hwf : CoeffsOk D s.pcs)
    (hv : s.validated = true) : ∀ sl ∈ batchAlloc D E s, sl.lab ∈ batchUses D E s := by
  intro sl hsl
  obtain ⟨h1, h2⟩ := packing_aligned_batch D E s
  have hv' : (∀ o ∈ s.ovs, o.base.prepOk s.prep.isSome = true) ∧
      (s.coms.perm.isSome = true ∨ s.terminals.all (· == false) = true) := by
    simpa [BatchShape.validated] using hv
  rcases mem_pubOf_or_privOf hsl with h | h
  · rw [h1] at h
    simp only [batchPub, batchUses, comsUses, List.mem_append] at h ⊢
    rcases h with (h | (h | h) | h) | h
    · tauto
    · tauto
    · exact Or.inr (pcs_pub_used D E s.pcs _ h)
    · rcases hv'.2 with hp | ht
      · simp only [hp, if_true]; tauto
      · rw [termLabels_all_false 0 _ ht] at h; cases h
    · tauto
  · rw [h2] at h
    simp only [batchPriv, batchUses, ovsPriv, List.mem_append] at h ⊢
    rcases h with h | h
    · refine Or.inl (Or.inr (flatMapIdx_mono 0 s.ovs ?_ _ h))
      intro j o ho x hx
      exact ovl_used _ _ o (hv'.1 o ho) x hx
    · exact Or.inr (pcs_priv_used D E s.pcs hwf _ h)

/-- **Uni-STARK**, well-formed sibling counts (statement unchanged). -/
theorem no_dead_input_uni (D E : Nat) (s : UniShape) (hwf : s.pcs.wf = true)
    (hv : s.validated = true) : ∀ sl ∈ uniAlloc D E s, sl.lab ∈ uniUses D E s :=
  no_dead_input_uni_coeffs D E s (coeffsOk_of_wf D s.pcs hwf) hv

/-- **Batch-STARK**, well-formed sibling counts (statement unchanged). -/
theorem no_dead_input_batch (D E : Nat) (s : BatchShape) (hwf : s.pcs.wf = true)
    (hv : s.validated = true) : ∀ sl ∈ batchAlloc D E s, sl.lab ∈ batchUses D E s :=
  no_dead_input_batch_coeffs D E s (coeffsOk_of_wf D s.pcs hwf) hv

/-- **Uni-STARK, every circuit that gets built**: if the verifier's own checks pass (`validated`
    at the head of `verify_circuit`, `friSibCheck` at the head of `verify_fri_circuit`) every
    allocated input is consumed. No assumption on the proof beyond "a circuit exists". -/
theorem no_dead_input_uni_built (D E : Nat) (s : UniShape) (hb : friSibCheck D s.pcs.fri = .ok ())
    (hv : s.validated = true) : ∀ sl ∈ uniAlloc D E s, sl.lab ∈ uniUses D E s :=
  no_dead_input_uni_coeffs D E s (coeffsOk_of_built D s.pcs hb) hv

/-- **Batch-STARK, every circuit that gets built.** -/
theorem no_dead_input_batch_built (D E : Nat) (s : BatchShape)
    (hb : friSibCheck D s.pcs.fri = .ok ()) (hv : s.validated = true) :
    ∀ sl ∈ batchAlloc D E s, sl.lab ∈ batchUses D E s :=
  no_dead_input_batch_coeffs D E s (coeffsOk_of_built D s.pcs hb) hv

/-- Non-vacuity of `validated` (a table with preprocessed openings and a lookup terminal). -/
example : (BatchShape.mk [0, 1] ⟨1, some 1, 1, none⟩
    [⟨⟨2, some 2, some 1, some 1, [1], none⟩, 1, 1⟩, ⟨⟨3, none, none, none, [1, 1], none⟩, 0, 0⟩]
    ⟨none, ⟨[], 0, [], 1⟩⟩ [true, false] (some 1)).validated = true := by decide

end P3R.C14

#print axioms P3R.C14.packing_aligned_uni
#print axioms P3R.C14.packing_aligned_batch
#print axioms P3R.C14.lengths_eq_uni
#print axioms P3R.C14.lengths_eq_batch
#print axioms P3R.C14.flat_lens_total
#print axioms P3R.C14.packed_position_uni
#print axioms P3R.C14.packed_position_batch
#print axioms P3R.C14.no_dead_input_uni
#print axioms P3R.C14.no_dead_input_batch
#print axioms P3R.C14.no_dead_input_uni_coeffs
#print axioms P3R.C14.no_dead_input_batch_coeffs
#print axioms P3R.C14.no_dead_input_uni_built
#print axioms P3R.C14.no_dead_input_batch_built
