/-
C08 — concrete witnesses. Each theorem evaluates both models on explicit data (kernel `decide`),
over `ℤ` with a small explicit state-mixing map as the permutation parameter and the smallest
configuration shapes (digest length 1). The same situations are replayed on the real Rust code on
every run (`corpus/c08/f_c08_{1,2,3}_*.json`).

* §1 (arity 4, cap + bridge) is a defect of the gadget for every setting of the build-time
  checks: the full agreement statement for arity 4 is false.
* §2, §3 are RECORDS of the gadget without the width check / height gate (`Checks.none`, the tree
  before fixes/C08-2 / fixes/C08-3): they show that the corresponding hypotheses of
  `mmcs_agree_arity2_partial` cannot be dropped for that gadget. They say nothing about the
  repaired gadget, for which `…_repaired` below show the same inputs are refused at build time
  and `mmcs_agree_arity2_checked` holds without those hypotheses.

Also: non-vacuity of the hypotheses of `mmcs_agree_arity2_partial`.
-/
import P3R.Props.C08

namespace P3R.C08.Witness
open P3R P3R.Mmcs P3R.C08

/-- permutation parameter used by the witnesses (any map on lists will do) -/
def wperm (x : List Int) : List Int :=
  let s := x.foldl (· + ·) 0
  x.zipIdx.map fun (v, i) => s * (i + 2) + v * v + (i + 1)

def isOk : Except NErr Unit → Bool
  | .ok _ => true
  | .error _ => false

def errIs (e : NErr) : Except NErr Unit → Bool
  | .ok _ => false
  | .error e' => e == e'

/-! ### 1. arity 4, cap height 1, a binary bridge level: honest opening rejected -/

def c4 : Cfg := ⟨4, 3, 1, 4⟩
def pc4 : PermCfg := ⟨4, 3, 1, true⟩
def dims4 : List Dim := [⟨4, 1⟩, ⟨2, 1⟩]
def H4 (x : List Int) : List Int := sponge wperm c4 x
def C4 (xs : List (List Int)) : List Int := compress wperm c4 xs
/-- cap layer of the native tree over rows 10,11,12,13 (matrix 0) and 20,21 (matrix 1):
binary bridge, injection of matrix 1, padded to four entries -/
def cap4 : List (List Int) :=
  [C4 [C4 [H4 [10], H4 [11], [0], [0]], H4 [20], [0], [0]],
   C4 [C4 [H4 [12], H4 [13], [0], [0]], H4 [21], [0], [0]],
   C4 [C4 [[0], [0], [0], [0]], [0], [0], [0]], C4 [C4 [[0], [0], [0], [0]], [0], [0], [0]]]

/-- The native verifier accepts the honest opening of index 0 (schedule `[2]`, one sibling);
the gadget's schedule loop stops at once (`4 > num_roots = 4` is false), compares the leaf
digest with the cap entry and the runner rejects. -/
theorem arity4_cap_bridge_disagree :
    isOk (verifyBatch wperm c4 1 cap4 dims4 0 [[10], [20]] [H4 [11]]) = true ∧
    (verifyCircuit4 Checks.none wperm pc4 cap4 dims4 [0, 0] [[10], [20]] [H4 [11]]).1 = .reject ∧
    (verifyCircuit4 Checks.all wperm pc4 cap4 dims4 [0, 0] [[10], [20]] [H4 [11]]).1 = .reject := by
  decide

/-- The full statement for arity 4 is false (with or without the build-time shape checks). -/
theorem mmcs_agree_arity4_false :
    ¬ ∀ (perm : List Int → List Int) (capHeight : Nat) (cap : List (List Int)) (dims : List Dim) (index : Nat)
        (bits : List Int) (opened proof : List (List Int)),
        isOk (verifyBatch perm c4 capHeight cap dims index opened proof) = true →
        (verifyCircuit4 Checks.all perm pc4 cap dims bits opened proof).1 = .ok := by
  intro h
  have := h wperm 1 cap4 dims4 0 [0, 0] [[10], [20]] [H4 [11]] arity4_cap_bridge_disagree.1
  rw [arity4_cap_bridge_disagree.2.2] at this
  cases this

/-! ### 2. arity 2: shifted row boundary (no width check in the gadget) -/

def c2 : Cfg := ⟨2, 1, 1, 2⟩
def pc2 : PermCfg := ⟨2, 1, 1, false⟩
def H2 (x : List Int) : List Int := sponge wperm c2 x
def C2 (xs : List (List Int)) : List Int := compress wperm c2 xs

def dimsS : List Dim := [⟨2, 3⟩, ⟨2, 5⟩]
def rootS : List Int := C2 [H2 [1, 2, 3, 4, 5, 6, 7, 8], [99]]

theorem shifted_row_boundary_disagree :
    -- honest opening: both accept
    isOk (verifyBatch wperm c2 0 [rootS] dimsS 0 [[1, 2, 3], [4, 5, 6, 7, 8]] [[99]]) = true ∧
    (verifyCircuit2 Checks.none wperm pc2 [rootS] dimsS [0] [[1, 2, 3], [4, 5, 6, 7, 8]] [[99]]).1 = .ok ∧
    -- the last element of row 0 moved to the front of row 1: native `WrongWidth`, gadget accepts
    errIs .wrongWidth (verifyBatch wperm c2 0 [rootS] dimsS 0 [[1, 2], [3, 4, 5, 6, 7, 8]] [[99]]) = true ∧
    (verifyCircuit2 Checks.none wperm pc2 [rootS] dimsS [0] [[1, 2], [3, 4, 5, 6, 7, 8]] [[99]]).1 = .ok := by
  decide

/-! ### 3. arity 2: claimed height off the ladder (no geometry gate in the gadget) -/

def rootG : List Int :=
  C2 [C2 [C2 [C2 [H2 [1], [91]], H2 [2, 3]], [92]], [93]]

theorem height_off_ladder_disagree :
    -- dimensions (8×1, 4×2): both accept
    isOk (verifyBatch wperm c2 0 [rootG] [⟨8, 1⟩, ⟨4, 2⟩] 0 [[1], [2, 3]] [[91], [92], [93]]) = true ∧
    (verifyCircuit2 Checks.none wperm pc2 [rootG] [⟨8, 1⟩, ⟨4, 2⟩] [0, 0, 0] [[1], [2, 3]] [[91], [92], [93]]).1 = .ok ∧
    -- claimed dimensions (8×1, 3×2): native `IncompatibleHeights`, gadget accepts
    errIs .incompatibleHeights
      (verifyBatch wperm c2 0 [rootG] [⟨8, 1⟩, ⟨3, 2⟩] 0 [[1], [2, 3]] [[91], [92], [93]]) = true ∧
    (verifyCircuit2 Checks.none wperm pc2 [rootG] [⟨8, 1⟩, ⟨3, 2⟩] [0, 0, 0] [[1], [2, 3]] [[91], [92], [93]]).1 = .ok := by
  decide

/-! ### the same inputs on the repaired gadget (regression records) -/

/-- With the width check (fixes/C08-2) the shifted opening does not build; the honest one is
still accepted. -/
theorem shifted_row_boundary_repaired :
    (verifyCircuit2 ⟨false, true, false⟩ wperm pc2 [rootS] dimsS [0] [[1, 2, 3], [4, 5, 6, 7, 8]] [[99]]).1 = .ok ∧
    (verifyCircuit2 ⟨false, true, false⟩ wperm pc2 [rootS] dimsS [0] [[1, 2], [3, 4, 5, 6, 7, 8]] [[99]]).1 = .buildErr := by
  decide

/-- With the height gate (fixes/C08-3) the off-ladder claim does not build; the honest one is
still accepted. -/
theorem height_off_ladder_repaired :
    (verifyCircuit2 ⟨true, false, false⟩ wperm pc2 [rootG] [⟨8, 1⟩, ⟨4, 2⟩] [0, 0, 0] [[1], [2, 3]] [[91], [92], [93]]).1 = .ok ∧
    (verifyCircuit2 ⟨true, false, false⟩ wperm pc2 [rootG] [⟨8, 1⟩, ⟨3, 2⟩] [0, 0, 0] [[1], [2, 3]] [[91], [92], [93]]).1 = .buildErr := by
  decide

/-- A cap with more entries than `2^index_bits.len()` (fixes/C08-4): panic before, build error after. -/
theorem cap_taller_than_index_record :
    (verifyCircuit2 Checks.none wperm pc2 [rootS, rootS, rootS, rootS] dimsS [0] [[1, 2, 3], [4, 5, 6, 7, 8]] [[99]]).1 = .panic ∧
    (verifyCircuit2 ⟨false, false, true⟩ wperm pc2 [rootS, rootS, rootS, rootS] dimsS [0] [[1, 2, 3], [4, 5, 6, 7, 8]] [[99]]).1 = .buildErr := by
  decide

/-! ### non-vacuity of the hypotheses of `mmcs_agree_arity2_partial` -/

theorem wperm_length (x : List Int) : (wperm x).length = x.length := by simp [wperm]

/-- The hypotheses are jointly satisfiable (mixed heights, cap height 1, index 5), and on this
instance both sides accept. -/
example :
    validateHeights (([⟨8, 1⟩, ⟨4, 2⟩] : List Dim).map (·.height)) = .ok 8 ∧
    (([⟨8, 1⟩, ⟨4, 2⟩] : List Dim).zip [[1], [2, 3]]).all (fun x => x.2.length == x.1.width) = true ∧
    (5 < 8) ∧ ([[91], [92]] : List (List Int)).length = log2Ceil 8 - min 1 (log2Ceil 8) ∧
    ([[5], [6]] : List (List Int)).length = 2 ^ min 1 (log2Ceil 8) := by
  decide

end P3R.C08.Witness

#print axioms P3R.C08.Witness.arity4_cap_bridge_disagree
#print axioms P3R.C08.Witness.mmcs_agree_arity4_false
#print axioms P3R.C08.Witness.shifted_row_boundary_disagree
#print axioms P3R.C08.Witness.height_off_ladder_disagree
#print axioms P3R.C08.Witness.shifted_row_boundary_repaired
#print axioms P3R.C08.Witness.height_off_ladder_repaired
#print axioms P3R.C08.Witness.cap_taller_than_index_record
