"""C04: soundness of the circuit proof system against forged traces (shares the prove harness)."""
from checks_c10 import prove_run

PROPERTY = "C04"

CHECK = {
    "lean_modules": ["P3R.Props.C04"],
    "theorems": ["P3R.C04.readers_agree", "P3R.C04.row_sat_add", "P3R.C04.row_sat_mul", "P3R.C04.row_sat_bool",
                 "P3R.C04.row_sat_muladd", "P3R.C04.accepted_alu_sat_partial", "P3R.C04.const_not_bound"],
    "run": lambda ctx: prove_run(ctx, "C04", 4),
    "trusted_base": ["ideal STARK/LogUp: an accepted proof implies row constraints hold on some committed trace and the WitnessChecks bus is balanced as a signed multiset (DESIGN §2)"],
    "assumptions": ["non-Horner ALU ops, D = 1 in the Lean composition theorem; permutation / recompose rows are not modelled"],
}

MANIFEST_ENTRY = {
    "property_id": "C04", "quick_cmd": "bin/check C04 --tier quick", "thorough_cmd": "bin/check C04 --tier thorough",
    "evidence_file": "evidence/C04.json", "replay_cmd_template": "bin/check C04 --replay {path}", "engine": "lean-models",
    "technique": "Lean 4 proof that balanced bus + vanishing row constraints imply the op relations (partial: constants, Horner) + forged-trace prove/verify",
    "level_claimed": {"category": "proof", "text": "readers_agree (bus defines one value per slot), row_sat_* and accepted_alu_sat_partial proved; const_not_bound proves the acceptance conditions do not bind constants (finding F4, replayed on the real prover every run); forged traces through the real prover judged by an independent sat check.", "design_ref": "4/C04"},
    "level_note": "cryptographic soundness assumed ideal; constants (F4) are a known finding; NPO rows not modelled",
}
