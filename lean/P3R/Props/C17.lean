/-
C17 — recursion layers and aggregations chain, with or without cached preparation.

Model: `P3R.Model.Cache` (the call-sequence state machine of `prove_next_layer`,
`prove_aggregation_layer`, `prove_aggregation_layer_cross`; jobs `J`, keys `F`, any number of
caller cache variables, any sequence of calls, any pattern of cache arguments).

**Full statement** (what the property text demands, for every sequence of calls and every
pattern of cache reuse):

    ∀ key prepOf s h, SlotsWF key s →
      (run key s h).2.map (fun o => prepOf o.used) = (uncached h).map prepOf        (★)

i.e. every call proves with exactly the preparation data of its own job, so its proof
verifies exactly when the uncached one does; and a stored preparation made for a different
circuit is never used (it is refused or recomputed).

(★) is **false of the current code**, in two independent ways (`P3R.Witness.C17`):
  * `prove_aggregation_layer{,_cross}` compares four size counters only; two different
    verification circuits with equal counters share a key (`fingerprint_not_injective`,
    `cache_full_statement_false`);
  * `prove_next_layer` compares nothing (`next_layer_full_statement_false`).

Proved here, for every history, every number of cache variables, every initial cache content:

* `cache_refines_uncached_partial` — (★) under the two hypotheses that exclude exactly those
  shapes: `KeyDeterminesPrep` (jobs of the history / of the initial cache content that share a
  key share their preparation) and `CallerPrepsMatch` (every `NextLayerPrepCache` handed to
  `prove_next_layer` was prepared for a job with the same preparation);
* `cache_refines_uncached` — the same under an injective key (the form in DESIGN §4/C17);
* `cached_verdict_eq_uncached_partial` — hence, for every outcome function of (job, data used),
  the cached outcome of every call equals the uncached outcome ("verify exactly when");
* `different_job_recomputed` — with a key that separates the stored job from the current one,
  the aggregation call does not use the stored data, recomputes, and overwrites the variable;
* `agg_hit_iff` — a call uses stored data iff the variable is filled and the stored key equals
  the current key (no other condition: `params`/`config` are not consulted);
* `agg_used_correct_iff` — exact characterisation, no hypothesis: the data used by an
  aggregation call is prepared for the current job iff it missed or the stored job has the
  same preparation;
* `circuit_part_refines_partial` — jobs = circuit × params and a key that reads the circuit
  only: under injectivity on *circuits* the circuit component of the data used is always the
  current circuit (the params component may be stale: `Witness.C17.params_stale`);
* `slotsWF_run` — invariant: every stored entry carries the key of its job.

What is not a theorem: that a proof made with the right preparation verifies and is a valid
input of the next layer (C01 + C10 + the cryptographic layer); this is exercised on the real
code by every run of the check.
-/
import P3R.Model.Cache
import Mathlib.Data.List.Forall2

namespace P3R.C17
open P3R P3R.Cache

variable {F J D : Type} [DecidableEq F]

/-- Every stored entry carries the key of the job it was filled for. -/
def SlotsWF (key : J → F) (s : Slots F J) : Prop := ∀ p ∈ s, p.2.key = key p.2.job

/-- Jobs whose preparation is stored in some cache variable. -/
def slotJobs (s : Slots F J) : List J := s.map fun p => p.2.job

/-- On the listed jobs the key determines the preparation data. -/
def KeyDeterminesPrep (key : J → F) (prepOf : J → D) (js : List J) : Prop :=
  ∀ j j', j ∈ js → j' ∈ js → key j = key j' → prepOf j = prepOf j'

/-- Every preparation handed to `prove_next_layer` was made for a job with the same data. -/
def CallerPrepsMatch (prepOf : J → D) (h : List (Step J)) : Prop :=
  ∀ j j', Step.next j (some j') ∈ h → prepOf j' = prepOf j

/-! ### Cache-variable lemmas -/

omit [DecidableEq F] in
theorem mem_of_get {s : Slots F J} {k : Nat} {e : Entry F J} (h : s.get k = some e) :
    (k, e) ∈ s := by
  induction s with
  | nil => simp [Slots.get] at h
  | cons p t ih =>
    obtain ⟨a, b⟩ := p
    unfold Slots.get at h ih
    rw [List.lookup_cons] at h
    by_cases hk : (k == a) = true
    · rw [hk] at h
      have hka : k = a := by simpa using hk
      have hb : b = e := by simpa using h
      subst hka; subst hb
      exact List.mem_cons_self
    · have hk' : (k == a) = false := by simpa using hk
      rw [hk'] at h
      exact List.mem_cons_of_mem _ (ih h)

omit [DecidableEq F] in
theorem get_set (s : Slots F J) (k : Nat) (e : Entry F J) : (s.set k e).get k = some e := by
  simp [Slots.get, Slots.set]

omit [DecidableEq F] in
theorem mem_set {s : Slots F J} {k : Nat} {e : Entry F J} {p : Nat × Entry F J}
    (h : p ∈ s.set k e) : p = (k, e) ∨ p ∈ s := by
  unfold Slots.set at h
  rcases List.mem_cons.mp h with h | h
  · exact Or.inl h
  · exact Or.inr (List.mem_filter.mp h).1

omit [DecidableEq F] in
theorem slotsWF_set {key : J → F} {s : Slots F J} (hwf : SlotsWF key s) (k : Nat) (job : J) :
    SlotsWF key (s.set k ⟨key job, job⟩) := by
  intro p hp
  rcases mem_set hp with h | h
  · subst h; rfl
  · exact hwf p h

omit [DecidableEq F] in
theorem slotJobs_set {s : Slots F J} {k : Nat} {e : Entry F J} {j : J}
    (h : j ∈ slotJobs (s.set k e)) : j = e.job ∨ j ∈ slotJobs s := by
  unfold slotJobs at h ⊢
  obtain ⟨p, hp, rfl⟩ := List.mem_map.mp h
  rcases mem_set hp with h | h
  · subst h; exact Or.inl rfl
  · exact Or.inr (List.mem_map.mpr ⟨p, h, rfl⟩)

/-! ### One call -/

theorem step_agg_empty {key : J → F} {s : Slots F J} {k : Nat} (job : J) (hg : s.get k = none) :
    step key s (.agg job (some k)) = (s.set k ⟨key job, job⟩, ⟨false, job⟩) := by
  simp only [step, hg]

theorem step_agg_hit {key : J → F} {s : Slots F J} {k : Nat} {e : Entry F J} (job : J)
    (hg : s.get k = some e) (he : e.key = key job) :
    step key s (.agg job (some k)) = (s, ⟨true, e.job⟩) := by
  simp only [step, hg, he, if_true]

theorem step_agg_miss {key : J → F} {s : Slots F J} {k : Nat} {e : Entry F J} (job : J)
    (hg : s.get k = some e) (he : e.key ≠ key job) :
    step key s (.agg job (some k)) = (s.set k ⟨key job, job⟩, ⟨false, job⟩) := by
  simp only [step, hg, he, if_false]

/-- The invariant is preserved by every call. -/
theorem slotsWF_step {key : J → F} {s : Slots F J} (hwf : SlotsWF key s) (st : Step J) :
    SlotsWF key (step key s st).1 := by
  cases st with
  | agg job slot =>
    cases slot with
    | none => exact hwf
    | some k =>
      cases hg : s.get k with
      | none => rw [step_agg_empty job hg]; exact slotsWF_set hwf k job
      | some e =>
        by_cases he : e.key = key job
        · rw [step_agg_hit job hg he]; exact hwf
        · rw [step_agg_miss job hg he]; exact slotsWF_set hwf k job
  | next job prep =>
    cases prep with
    | none => exact hwf
    | some j' => exact hwf

/-- Jobs stored after a call were stored before, or are the call's own job. -/
theorem slotJobs_step {key : J → F} {s : Slots F J} (st : Step J) {j : J}
    (h : j ∈ slotJobs (step key s st).1) : j = st.job ∨ j ∈ slotJobs s := by
  cases st with
  | agg job slot =>
    cases slot with
    | none => exact Or.inr h
    | some k =>
      cases hg : s.get k with
      | none =>
        rw [step_agg_empty job hg] at h
        exact slotJobs_set h
      | some e =>
        by_cases he : e.key = key job
        · rw [step_agg_hit job hg he] at h
          exact Or.inr h
        · rw [step_agg_miss job hg he] at h
          exact slotJobs_set h
  | next job prep =>
    cases prep with
    | none => exact Or.inr h
    | some j' => exact Or.inr h

/-- A call uses stored data iff the variable is filled and the stored key equals the current
key. Nothing else is consulted. -/
theorem agg_hit_iff (key : J → F) (s : Slots F J) (job : J) (k : Nat) :
    (step key s (.agg job (some k))).2.hit = true ↔ ∃ e, s.get k = some e ∧ e.key = key job := by
  cases hg : s.get k with
  | none => rw [step_agg_empty job hg]; simp
  | some e =>
    by_cases he : e.key = key job
    · rw [step_agg_hit job hg he]; simp [he]
    · rw [step_agg_miss job hg he]; simp [he]

/-- Exact characterisation (no hypothesis): the data used by an aggregation call is the
preparation of the current job iff the call missed or the stored job has the same
preparation. -/
theorem agg_used_correct_iff (key : J → F) (prepOf : J → D) (s : Slots F J) (job : J) (k : Nat) :
    prepOf (step key s (.agg job (some k))).2.used = prepOf job ↔
      ∀ e, s.get k = some e → e.key = key job → prepOf e.job = prepOf job := by
  cases hg : s.get k with
  | none => rw [step_agg_empty job hg]; simp
  | some e =>
    by_cases he : e.key = key job
    · rw [step_agg_hit job hg he]; simp [he]
    · rw [step_agg_miss job hg he]; simp [he]

/-- "Refused or recomputed whenever the circuit it was prepared for differs": if the key
separates the stored job from the current one, the call recomputes for the current job and the
variable afterwards holds the current job. -/
theorem different_job_recomputed {key : J → F} {s : Slots F J} (hwf : SlotsWF key s)
    {k : Nat} {e : Entry F J} {job : J} (hget : s.get k = some e) (hdiff : e.job ≠ job)
    (hsep : key e.job = key job → e.job = job) :
    (step key s (.agg job (some k))).2 = ⟨false, job⟩ ∧
      (step key s (.agg job (some k))).1.get k = some ⟨key job, job⟩ := by
  have hk : e.key = key e.job := hwf (k, e) (mem_of_get hget)
  have hne : e.key ≠ key job := fun h => hdiff (hsep (hk ▸ h))
  rw [step_agg_miss job hget hne]
  exact ⟨rfl, get_set s k _⟩

/-! ### Sequences of calls -/

theorem slotsWF_run {key : J → F} (h : List (Step J)) {s : Slots F J} (hwf : SlotsWF key s) :
    SlotsWF key (run key s h).1 := by
  induction h generalizing s with
  | nil => exact hwf
  | cons st rest ih =>
    unfold run
    exact ih (slotsWF_step hwf st)

/-- Pointwise form of the main theorem. -/
theorem run_forall₂ (key : J → F) (prepOf : J → D) (h : List (Step J)) :
    ∀ (s : Slots F J), SlotsWF key s →
      KeyDeterminesPrep key prepOf (slotJobs s ++ uncached h) →
      CallerPrepsMatch prepOf h →
      List.Forall₂ (fun st o => prepOf o.used = prepOf st.job) h (run key s h).2 := by
  induction h with
  | nil => intro s _ _ _; exact List.Forall₂.nil
  | cons st rest ih =>
    intro s hwf hkey hcall
    unfold run
    refine List.Forall₂.cons ?_ (ih (step key s st).1 (slotsWF_step hwf st) ?_ ?_)
    · -- the first call
      cases st with
      | agg job slot =>
        cases slot with
        | none => rfl
        | some k =>
          refine (agg_used_correct_iff key prepOf s job k).mpr ?_
          intro e hget hek
          have hmem := mem_of_get hget
          have hk : e.key = key e.job := hwf (k, e) hmem
          apply hkey e.job job
          · exact List.mem_append_left _ (List.mem_map.mpr ⟨(k, e), hmem, rfl⟩)
          · exact List.mem_append_right _ (by simp [uncached, Step.job])
          · rw [← hk, hek]
      | next job prep =>
        cases prep with
        | none => rfl
        | some j' => exact hcall job j' List.mem_cons_self
    · -- hypotheses for the rest
      intro j j' hj hj' hkk
      apply hkey j j' _ _ hkk
      · rcases List.mem_append.mp hj with h1 | h1
        · rcases slotJobs_step st h1 with h2 | h2
          · subst h2; exact List.mem_append_right _ (by simp [uncached])
          · exact List.mem_append_left _ h2
        · exact List.mem_append_right _ (by simp only [uncached, List.map_cons] at h1 ⊢; exact List.mem_cons_of_mem _ h1)
      · rcases List.mem_append.mp hj' with h1 | h1
        · rcases slotJobs_step st h1 with h2 | h2
          · subst h2; exact List.mem_append_right _ (by simp [uncached])
          · exact List.mem_append_left _ h2
        · exact List.mem_append_right _ (by simp only [uncached, List.map_cons] at h1 ⊢; exact List.mem_cons_of_mem _ h1)
    · intro j j' hm
      exact hcall j j' (List.mem_cons_of_mem _ hm)

theorem map_eq_of_forall₂ {α β γ : Type} {f : β → γ} {g : α → γ} {l : List α} {os : List β}
    (hf : List.Forall₂ (fun a b => f b = g a) l os) : os.map f = l.map g := by
  induction hf with
  | nil => rfl
  | cons hhd _ ih => simp [hhd, ih]

/-- **C17, cache part** (`…_partial`: the full statement (★) has no `hkey` / `hcall` and is
false of the current code, see the header). For every sequence of calls, every number of cache
variables, every initial content: each call proves with the preparation data of its own job. -/
theorem cache_refines_uncached_partial (key : J → F) (prepOf : J → D) (s : Slots F J)
    (h : List (Step J)) (hwf : SlotsWF key s)
    (hkey : KeyDeterminesPrep key prepOf (slotJobs s ++ uncached h))
    (hcall : CallerPrepsMatch prepOf h) :
    ((run key s h).2.map fun o => prepOf o.used) = (uncached h).map prepOf := by
  have hf := run_forall₂ key prepOf h s hwf hkey hcall
  unfold uncached
  rw [List.map_map]
  exact map_eq_of_forall₂ hf

/-- The form of DESIGN §4/C17: under a key that is injective on the jobs of the history (and of
the initial cache content) and with matching caller-supplied preparations, the data used is
*the* data of the job itself. -/
theorem cache_refines_uncached (key : J → F) (s : Slots F J) (h : List (Step J))
    (hwf : SlotsWF key s)
    (hinj : ∀ j j', j ∈ slotJobs s ++ uncached h → j' ∈ slotJobs s ++ uncached h →
      key j = key j' → j = j')
    (hcall : ∀ j j', Step.next j (some j') ∈ h → j' = j) :
    (run key s h).2.map (fun o => o.used) = uncached h := by
  have := cache_refines_uncached_partial key (fun j => j) s h hwf hinj hcall
  simpa using this

/-- "Verify exactly when the uncached ones do": for every outcome function of (job, data
used) — native verification verdict, acceptance by the following layer, … — the outcome of
every cached call equals the outcome of the same call without cache. -/
theorem cached_verdict_eq_uncached_partial {O : Type} (outcome : J → D → O) (key : J → F)
    (prepOf : J → D) (s : Slots F J) (h : List (Step J)) (hwf : SlotsWF key s)
    (hkey : KeyDeterminesPrep key prepOf (slotJobs s ++ uncached h))
    (hcall : CallerPrepsMatch prepOf h) :
    List.Forall₂ (fun st o => outcome st.job (prepOf o.used) = outcome st.job (prepOf st.job))
      h (run key s h).2 :=
  (run_forall₂ key prepOf h s hwf hkey hcall).imp fun _ _ hh => by rw [hh]

/-- Jobs = circuit × params, key reads the circuit only (as `aggregation_circuit_fingerprint`
does). If the fingerprint is injective on the circuits of the history, the *circuit* the data
was prepared for is always the current circuit. (The params component can be stale.) -/
theorem circuit_part_refines_partial {C P : Type} (fp : C → F) (s : Slots F (C × P))
    (h : List (Step (C × P))) (hwf : SlotsWF (fun j => fp j.1) s)
    (hinj : ∀ j j', j ∈ slotJobs s ++ uncached h → j' ∈ slotJobs s ++ uncached h →
      fp j.1 = fp j'.1 → j.1 = j'.1)
    (hcall : ∀ j j', Step.next j (some j') ∈ h → j'.1 = j.1) :
    (run (fun j => fp j.1) s h).2.map (fun o => o.used.1) = (uncached h).map Prod.fst :=
  cache_refines_uncached_partial (fun j : C × P => fp j.1) (Prod.fst : C × P → C) s h hwf hinj hcall

/-! ### Non-vacuity of the hypotheses -/

/-- The hypotheses of `cache_refines_uncached` hold for a history that fills a variable, hits it
with the same job, misses it with another job, and passes a matching `NextLayerPrepCache`. -/
example :
    let key : Nat → Nat := fun j => j
    let h : List (Step Nat) := [.agg 1 (some 0), .agg 1 (some 0), .agg 2 (some 0), .next 3 (some 3)]
    SlotsWF key ([] : Slots Nat Nat) ∧
      (∀ j j', j ∈ slotJobs ([] : Slots Nat Nat) ++ uncached h →
        j' ∈ slotJobs ([] : Slots Nat Nat) ++ uncached h → key j = key j' → j = j') ∧
      (∀ j j', Step.next j (some j') ∈ h → j' = j) ∧
      (run key [] h).2.map (fun o => o.hit) = [false, true, false, true] := by
  refine ⟨?_, ?_, ?_, ?_⟩
  · intro p hp; cases hp
  · intro j j' _ _ hk; exact hk
  · intro j j' hm
    simp only [List.mem_cons, List.not_mem_nil, or_false] at hm
    rcases hm with hm | hm | hm | hm
    · cases hm
    · cases hm
    · cases hm
    · injection hm with h1 h2; injection h2 with h3; omega
  · decide

end P3R.C17

#print axioms P3R.C17.cache_refines_uncached_partial
#print axioms P3R.C17.cache_refines_uncached
#print axioms P3R.C17.cached_verdict_eq_uncached_partial
#print axioms P3R.C17.different_job_recomputed
#print axioms P3R.C17.agg_hit_iff
#print axioms P3R.C17.agg_used_correct_iff
#print axioms P3R.C17.circuit_part_refines_partial
#print axioms P3R.C17.slotsWF_run
