/-
C14 — the hypothesis `PcsShape.wf` of `packing_aligned_*` cannot be dropped.

`CommitPhaseProofStepTargets::new` allocates `(2^log_arity − 1)·D` sibling-coefficient inputs,
`get_private_values` packs `sibling_values.len()·D` values. For a proof whose step carries
`log_arity = 1` but two siblings, the packed private vector is longer than `private_flat_len`
(D = 4: 8 values for 4 targets). This is *not* reported as a finding: such a proof is malformed
(native `verify_query` rejects `sibling_values.len() != arity − 1`), and the circuit side fails
safe — `set_private_inputs` returns `PrivateInputLengthMismatch`. The harness replays exactly this
shape on the real code every run and requires that rejection (`corpus/c14/malformed_siblings.json`).
-/
import P3R.Props.C14

namespace P3R.Witness.C14
open P3R.Packing P3R.C14

/-- One query, one arity-2 commit-phase step that carries two siblings instead of one. -/
def badPcs : PcsShape := ⟨none, ⟨[1], 1, [⟨[⟨[3], []⟩], [⟨1, 2, []⟩]⟩], 1⟩⟩
def badUni : UniShape := ⟨0, ⟨1, none, 1, none⟩, ⟨3, some 3, none, none, [1], none⟩, badPcs, none⟩

theorem bad_not_wf : badPcs.wf = false := by decide

/-- Lengths differ: 18 private values are packed for 14 private targets (D = 4, E = 8). -/
theorem bad_lengths :
    (uniPriv 4 badUni).length = 18 ∧ privateFlatLen (uniAlloc 4 8 badUni) = 14 := by
  constructor <;> decide

/-- **The unconditional statement is false**: without `wf`, packing is not aligned. -/
theorem wf_needed :
    ¬ ∀ (D E : Nat) (s : UniShape),
        pubOf (uniAlloc D E s) = uniPub E s ∧ privOf (uniAlloc D E s) = uniPriv D s := by
  intro h
  have h2 := congrArg List.length (h 4 8 badUni).2
  have := bad_lengths
  simp only [privateFlatLen] at this
  omega

/-- The public half needs no hypothesis at all. -/
theorem pub_aligned_unconditional (D E : Nat) (s : UniShape) :
    pubOf (uniAlloc D E s) = uniPub E s := by
  simp [uniAlloc, uniPub, pubOf_optL, coms_pub, ov_pub, pcs_pub, cap_pub]

end P3R.Witness.C14

#print axioms P3R.Witness.C14.wf_needed
#print axioms P3R.Witness.C14.bad_lengths
#print axioms P3R.Witness.C14.pub_aligned_unconditional
