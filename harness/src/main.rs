//! Correspondence / oracle harness for the Lean models in /verif/lean.
//! Every subcommand calls the real Plonky3-recursion code in-process, writes one case per line
//! for the Lean driver, the implementation's canonical answer lines, and a JSON report.

mod c02;
mod c09;
mod c10;
mod c10_lanes;
mod c11;
mod c18;
mod c19;
mod prog;
mod c20;
mod c05;
mod c07;
mod c08;
mod c12;
mod c13;
mod c14;
mod c01;
mod c16;
mod c17;
mod c17_cfg;
mod c17_real;
mod c06;
mod c15;
mod c11p;
mod c09n;
mod c18_orders;
mod c17_deg;
mod c16_manifest;
mod rng;

use std::collections::HashMap;

pub struct Args(HashMap<String, String>);

impl Args {
    fn parse(v: &[String]) -> Self {
        let mut m = HashMap::new();
        let mut i = 0;
        while i < v.len() {
            if let Some(k) = v[i].strip_prefix("--") {
                let val = v.get(i + 1).cloned().unwrap_or_default();
                m.insert(k.to_string(), val);
                i += 2;
            } else {
                i += 1;
            }
        }
        Self(m)
    }
    pub fn u64(&self, k: &str, d: u64) -> u64 {
        self.0.get(k).and_then(|x| x.parse().ok()).unwrap_or(d)
    }
    pub fn str(&self, k: &str, d: &str) -> String {
        self.0.get(k).cloned().unwrap_or_else(|| d.to_string())
    }
    pub fn opt(&self, k: &str) -> Option<String> {
        self.0.get(k).cloned()
    }
}

fn main() {
    let argv: Vec<String> = std::env::args().collect();
    let cmd = argv.get(1).map(String::as_str).unwrap_or("");
    let args = Args::parse(&argv[2.min(argv.len())..]);
    // panics inside catch_unwind are observations, not noise
    if std::env::var("P3R_PANIC").is_err() {
        std::panic::set_hook(Box::new(|_| {}));
    }
    match cmd {
        "compile" => c02::main(&args),
        "roles" => c09::main(&args),
        "prove" => c10::main(&args),
        "npolanes" => c10_lanes::main(&args),
        "alu" => c11::main(&args),
        "determinism" => c18::main(&args),
        "failsafe" => c19::main(&args),
        "alusched" => c11::sched_main(&args),
        "shrink" => c02::shrink_main(&args),
        "gadgets" => c20::main(&args),
        "transcript" => c05::main(&args),
        "fri" => c07::main(&args),
        "mmcs" => c08::main(&args),
        "decomp" => c12::main(&args),
        "c13" => c13::main(&args),
        "packing" => c14::main(&args),
        "starkfaults" => c01::main(&args),
        "metadata" => c16::main(&args),
        "layers" => c17::main(&args),
        "binding" => c06::main(&args),
        "malformed" => c15::main(&args),
        "malformed-worker" => c15::worker_main(&args),
        "poseidonctl" => c11p::main(&args),
        "busaudit" => c09n::main(&args),
        "c18-orders" => c18_orders::main(&args),
        _ => {
            eprintln!("unknown subcommand {cmd}");
            std::process::exit(2);
        }
    }
}
