/-
C18 — `Deduplicator::run` keeps def-before-use of first add operands (`dedup_ADef`), hence the
de-duplicated lowered list of every builder state with `privOk` satisfies `Order.aDefinedOf`
(`lower_aDefinedOf`) — the hypothesis `P3R.C18.compile_order_independent_total_partial` leaves open.

The invariant (`DInv`, in the style of `C03.step_claim`) over the processed prefix `P` and the state
`s`, for every later extension `rwF` of the rewrite map:
* `c` — every slot named by a processed op is named, after resolution, by a kept op (a dropped
  duplicate's operands are operands of the kept op with the same key — `keyReads` —, its output
  resolves to the kept output);
* `m` — the kept list, rewritten by `rwF`, is `ADef` for the resolved inputs.
-/
import P3R.Props.C18Lower
import P3R.Lemmas.Resolve

namespace P3R.C18L
open P3R

variable {K : Type}

theorem opReads_rewrite (r : Rewrite) (op : Op K) :
    Order.opReads (op.rewrite r) = (Order.opReads op).map (resolve r) := by
  cases op with
  | const _ _ => rfl
  | pub _ _ => rfl
  | hint ins outs k => rfl
  | npo ins outs id k => simp [Op.rewrite, Order.opReads, List.map_flatten]
  | alu k a b c out io => cases k <;> cases c <;> cases io <;> simp [Op.rewrite, Order.opReads]

theorem opWrites_rewrite (r : Rewrite) (op : Op K) :
    Order.opWrites (op.rewrite r) = (Order.opWrites op).map (resolve r) := by
  cases op with
  | const _ _ => rfl
  | pub _ _ => rfl
  | hint ins outs k => rfl
  | npo ins outs id k => simp [Op.rewrite, Order.opWrites, List.map_flatten]
  | alu k a b c out io => rfl

theorem ment_rewrite (r : Rewrite) {x : Nat} {op : Op K} (h : ment x op) : ment (resolve r x) (op.rewrite r) := by
  rcases h with h | h
  · exact Or.inl (by rw [opReads_rewrite]; exact List.mem_map_of_mem h)
  · exact Or.inr (by rw [opWrites_rewrite]; exact List.mem_map_of_mem h)

theorem kept_ment {rw rwF : Rewrite} (ht : Terminates rw) (hext : Ext rw rwF) {x : Nat} {op : Op K}
    (h : ment x op) : ment (resolve rwF x) ((op.rewrite rw).rewrite rwF) := by
  have := ment_rewrite rwF (ment_rewrite rw h)
  rwa [hext.resolve_comp ht] at this

def wfK (k : AluKind) (c io : Option Nat) : Prop :=
  match k with
  | .mulAdd => c.isSome
  | .horner => c.isSome ∧ io.isSome
  | _ => True

theorem wfK_of_dshape {k : AluKind} {a b : Nat} {c io : Option Nat} {o : Nat}
    (h : dshape (Op.alu k a b c o io : Op K) = true) : wfK k c io := by
  cases k <;> simp_all [dshape, wfK]

theorem dshape_rewrite (r : Rewrite) (op : Op K) (h : dshape op = true) : dshape (op.rewrite r) = true := by
  cases op with
  | alu k a b c out io => cases k <;> cases c <;> cases io <;> simp_all [dshape, Op.rewrite]
  | _ => rfl

/-- Equal de-duplication keys: the operands of one op are operands of the other. -/
theorem keyReads (k : AluKind) (a b a' b' o o' : Nat) (c io c' io' : Option Nat)
    (hk : aluKey k a' b' c' io' = aluKey k a b c io) (hw : wfK k c' io')
    (hs : dshape (Op.alu k a b c o io : Op K) = true) :
    ∀ x ∈ Order.opReads (Op.alu k a b c o io : Op K), x ∈ Order.opReads (Op.alu k a' b' c' o' io' : Op K) := by
  intro x hx
  cases k with
  | add =>
    cases c with
    | some _ => simp [dshape] at hs
    | none =>
      simp only [aluKey, Prod.mk.injEq, true_and, and_true] at hk
      have hx' : x = a ∨ x = b := by cases io <;> simpa [Order.opReads] using hx
      have : x = a' ∨ x = b' := by omega
      cases c' <;> cases io' <;> simp [Order.opReads] <;> tauto
  | mul =>
    cases c with
    | some _ => simp [dshape] at hs
    | none =>
      simp only [aluKey, Prod.mk.injEq, true_and, and_true] at hk
      have hx' : x = a ∨ x = b := by cases io <;> simpa [Order.opReads] using hx
      have : x = a' ∨ x = b' := by omega
      cases c' <;> cases io' <;> simp [Order.opReads] <;> tauto
  | boolCheck =>
    simp only [aluKey, Prod.mk.injEq, true_and, and_true] at hk
    obtain ⟨rfl, rfl⟩ := hk
    cases c with
    | none => simp [dshape] at hs
    | some cv =>
      have : cv = a' := by simpa [dshape] using hs
      subst this
      have hx' : x = cv ∨ x = b' := by cases io <;> simp [Order.opReads] at hx <;> tauto
      cases c' <;> cases io' <;> simp [Order.opReads] <;> tauto
  | mulAdd =>
    cases c with
    | none => simp [dshape] at hs
    | some cv =>
      cases c' with
      | none => simp [wfK] at hw
      | some cv' =>
        simp only [aluKey, Prod.mk.injEq, true_and, and_true, Option.getD_some] at hk
        obtain ⟨rfl, rfl, rfl⟩ := hk
        have hx' : x = a' ∨ x = b' ∨ x = cv' := by cases io <;> simpa [Order.opReads] using hx
        cases io' <;> simp [Order.opReads] <;> tauto
  | horner =>
    cases c with
    | none => simp [dshape] at hs
    | some cv =>
      cases io with
      | none => simp [dshape] at hs
      | some iv =>
        cases c' with
        | none => simp [wfK] at hw
        | some cv' =>
          cases io' with
          | none => simp [wfK] at hw
          | some iv' =>
            simp only [aluKey, Prod.mk.injEq, true_and, Option.getD_some] at hk
            obtain ⟨rfl, rfl, rfl, rfl⟩ := hk
            exact hx

/-- Every key in `seen` belongs to a kept ALU op with exactly that key and that output. -/
def SeenInv2 (s : DedupState K) : Prop :=
  ∀ key cano, s.seen.lookup key = some cano →
    ∃ k a b c io, (Op.alu k a b c cano io : Op K) ∈ s.out.toList ∧ aluKey k a b c io = key ∧ wfK k c io

structure DInv (I : List Nat) (s : DedupState K) (P : List (Op K)) : Prop where
  t : Terminates s.rw
  seen : SeenInv2 s
  c : ∀ rwF, Ext s.rw rwF → ∀ o ∈ P, ∀ x, ment x o →
    ∃ e ∈ s.out.toList, ment (resolve rwF x) (e.rewrite rwF)
  m : ∀ rwF, Ext s.rw rwF → ADef (I.map (resolve rwF)) (s.out.toList.map (Op.rewrite rwF))

theorem rewrite_add_inv {r1 r2 : Rewrite} {op : Op K} {a b o : Nat} {io : Option Nat}
    (h : (op.rewrite r1).rewrite r2 = .alu .add a b none o io) :
    ∃ a0 b0 o0 io0, op = .alu .add a0 b0 none o0 io0 ∧ a = resolve r2 (resolve r1 a0) := by
  cases op with
  | alu k a0 b0 c0 o0 io0 =>
    simp only [Op.rewrite, Op.alu.injEq] at h
    obtain ⟨rfl, rfl, _, hc, _, _⟩ := h
    cases c0 with
    | none => exact ⟨a0, b0, o0, io0, rfl, rfl⟩
    | some _ => simp at hc
  | _ => simp [Op.rewrite] at h

/-- The `c` and `m` parts of the invariant when the op is kept (pushed after rewriting). -/
theorem kept_cm {I : List Nat} {ops P rest : List (Op K)} {op : Op K} (hops : ops = P ++ op :: rest)
    (hA : ADef I ops) {s : DedupState K} (h : DInv I s P) (out' : Array (Op K))
    (hout : out'.toList = s.out.toList ++ [op.rewrite s.rw]) :
    (∀ rwF, Ext s.rw rwF → ∀ o ∈ P ++ [op], ∀ x, ment x o →
      ∃ e ∈ out'.toList, ment (resolve rwF x) (e.rewrite rwF)) ∧
    (∀ rwF, Ext s.rw rwF → ADef (I.map (resolve rwF)) (out'.toList.map (Op.rewrite rwF))) := by
  have hc : ∀ rwF, Ext s.rw rwF → ∀ o ∈ P ++ [op], ∀ x, ment x o →
      ∃ e ∈ out'.toList, ment (resolve rwF x) (e.rewrite rwF) := by
    intro rwF hext o ho x hx
    rw [hout]
    rcases List.mem_append.mp ho with ho | ho
    · obtain ⟨e, he, hm⟩ := h.c rwF hext o ho x hx
      exact ⟨e, List.mem_append_left _ he, hm⟩
    · simp only [List.mem_singleton] at ho
      subst ho
      exact ⟨_, List.mem_append_right _ (List.mem_singleton.mpr rfl), kept_ment h.t hext hx⟩
  refine ⟨hc, ?_⟩
  intro rwF hext
  rw [hout, List.map_append]
  apply ADef_append _ _ _ (h.m rwF hext)
  intro op' hop' a b o io heq
  simp only [List.map_cons, List.map_nil, List.mem_singleton] at hop'
  subst hop'
  obtain ⟨a0, b0, o0, io0, hop0, ha⟩ := rewrite_add_inv heq
  rw [hext.resolve_comp h.t] at ha
  subst ha
  have hpos : ops[P.length]? = some op := by rw [hops]; simp
  rw [hop0] at hpos
  rcases hA P.length a0 b0 o0 io0 hpos with h1 | ⟨i, o', hi, ho', hm⟩
  · exact Or.inl (List.mem_map_of_mem h1)
  · have ho'P : o' ∈ P := by
      rw [hops, List.getElem?_append_left hi] at ho'
      exact List.mem_of_getElem? ho'
    obtain ⟨e, he, hme⟩ := h.c rwF hext o' ho'P a0 hm
    exact Or.inr ⟨e.rewrite rwF, List.mem_map_of_mem he, hme⟩

theorem seen_push {s : DedupState K} (hs : SeenInv2 s) (e : Op K) :
    ∀ key cano, s.seen.lookup key = some cano →
      ∃ k a b c io, (Op.alu k a b c cano io : Op K) ∈ (s.out.push e).toList ∧ aluKey k a b c io = key ∧ wfK k c io := by
  intro key cano hl
  obtain ⟨k, a, b, c, io, hm, hk, hw⟩ := hs key cano hl
  exact ⟨k, a, b, c, io, by simp [hm], hk, hw⟩

/-- One iteration of `Deduplicator::run`. -/
theorem step_D {I : List Nat} {ops P rest : List (Op K)} {op : Op K} (hops : ops = P ++ op :: rest)
    (hA : ADef I ops) (hsh : dshape op = true) {s : DedupState K} (h : DInv I s P) :
    DInv I (s.step op) (P ++ [op]) := by
  unfold DedupState.step
  cases hop : op.rewrite s.rw with
  | const out v =>
    obtain ⟨hc, hm⟩ := kept_cm hops hA h (s.out.push (.const out v)) (by simp [hop])
    exact ⟨h.t, seen_push h.seen _, hc, hm⟩
  | pub out pos =>
    obtain ⟨hc, hm⟩ := kept_cm hops hA h (s.out.push (.pub out pos)) (by simp [hop])
    exact ⟨h.t, seen_push h.seen _, hc, hm⟩
  | hint ins outs kd =>
    obtain ⟨hc, hm⟩ := kept_cm hops hA h (s.out.push (.hint ins outs kd)) (by simp [hop])
    exact ⟨h.t, seen_push h.seen _, hc, hm⟩
  | npo ins outs id kd =>
    obtain ⟨hc, hm⟩ := kept_cm hops hA h (s.out.push (.npo ins outs id kd)) (by simp [hop])
    exact ⟨h.t, seen_push h.seen _, hc, hm⟩
  | alu k a b c out io =>
    have ht := h.t
    have hsh' : dshape (Op.alu k a b c out io : Op K) = true := by rw [← hop]; exact dshape_rewrite _ _ hsh
    obtain ⟨a0, b0, c0, out0, io0, rfl, rfl, rfl, rfl, rfl, rfl⟩ : ∃ a0 b0 c0 out0 io0,
        op = .alu k a0 b0 c0 out0 io0 ∧ a = resolve s.rw a0 ∧ b = resolve s.rw b0 ∧
        c = c0.map (resolve s.rw) ∧ out = resolve s.rw out0 ∧ io = io0.map (resolve s.rw) := by
      cases op <;> simp [P3R.Op.rewrite] at hop
      case alu k' a' b' c' out' io' =>
        obtain ⟨rfl, rfl, rfl, rfl, rfl, rfl⟩ := hop
        exact ⟨a', b', c', out', io', rfl, rfl, rfl, rfl, rfl, rfl⟩
    have hidem : ∀ (c : Option Nat), (c.map (resolve s.rw)).map (resolve s.rw) = c.map (resolve s.rw) := by
      intro c; cases c <;> simp [resolve_idem ht]
    have hkey : aluKey k (resolve s.rw (resolve s.rw a0)) (resolve s.rw (resolve s.rw b0))
        ((c0.map (resolve s.rw)).map (resolve s.rw)) ((io0.map (resolve s.rw)).map (resolve s.rw)) =
        aluKey k (resolve s.rw a0) (resolve s.rw b0) (c0.map (resolve s.rw)) (io0.map (resolve s.rw)) := by
      rw [resolve_idem ht, resolve_idem ht, hidem, hidem]
    simp only []
    rw [hkey]
    split
    · -- duplicate: dropped
      rename_i cano hl
      obtain ⟨k', a', b', c', io', hm, hk, hw'⟩ := h.seen _ cano hl
      have hkk : k' = k := by
        have := congrArg Prod.fst hk
        cases k' <;> cases k <;> simp_all [aluKey]
      subst hkk
      -- whichever branch of `if out ≠ root`: the new map extends the old one, terminates, and
      -- resolves the duplicate's output and the kept output to the same slot
      have key : ∀ (s' : DedupState K), s'.out = s.out → s'.seen = s.seen →
          Ext s.rw s'.rw → Terminates s'.rw →
          (∀ rwF, Ext s'.rw rwF → resolve rwF out0 = resolve rwF cano) →
          DInv I s' (P ++ [Op.alu k' a0 b0 c0 out0 io0]) := by
        intro s' hso hss hextS hts hout
        refine ⟨hts, ?_, ?_, ?_⟩
        · intro key cano' hl'
          rw [hss] at hl'
          rw [hso]
          exact h.seen key cano' hl'
        · intro rwF hext o ho x hx
          have hext' : Ext s.rw rwF := hextS.trans hext
          rw [hso]
          rcases List.mem_append.mp ho with ho | ho
          · exact h.c rwF hext' o ho x hx
          · simp only [List.mem_singleton] at ho
            subst ho
            refine ⟨_, hm, ?_⟩
            rcases hx with hx | hx
            · -- an operand: it is an operand of the kept op with the same key
              left
              have h1 : resolve s.rw x ∈ Order.opReads ((Op.alu k' a0 b0 c0 out0 io0 : Op K).rewrite s.rw) := by
                rw [opReads_rewrite]; exact List.mem_map_of_mem hx
              have h2 := keyReads k' _ _ a' b' _ cano _ _ c' io' hk hw' hsh' _ h1
              have h3 : resolve rwF (resolve s.rw x) ∈ Order.opReads ((Op.alu k' a' b' c' cano io' : Op K).rewrite rwF) := by
                rw [opReads_rewrite]; exact List.mem_map_of_mem h2
              rwa [hext'.resolve_comp ht] at h3
            · -- the output: it resolves to the kept output
              right
              have : x = out0 := by simpa [Order.opWrites] using hx
              subst this
              rw [opWrites_rewrite, hout rwF hext]
              exact List.mem_map_of_mem (by simp [Order.opWrites])
        · intro rwF hext
          rw [hso]
          exact h.m rwF (hextS.trans hext)
      by_cases hne : resolve s.rw out0 ≠ resolve s.rw cano
      · rw [if_pos hne]
        have hS : Terminates ((resolve s.rw out0, resolve s.rw cano) :: s.rw) :=
          terminates_cons ht (resolve_terminal ht out0) (resolve_terminal ht cano) hne
        have hE : Ext s.rw ((resolve s.rw out0, resolve s.rw cano) :: s.rw) :=
          Ext.step (Ext.refl _) (resolve_terminal ht out0) (resolve_terminal ht cano) hne
        refine key _ rfl rfl hE hS ?_
        intro rwF hext
        have e1 := hext.resolve_comp hS (resolve s.rw out0)
        have e2 := hext.resolve_comp hS cano
        rw [resolve_cons_eq ht (resolve_terminal ht out0) (resolve_terminal ht cano) hne,
          resolve_idem ht] at e1
        rw [resolve_cons_eq ht (resolve_terminal ht out0) (resolve_terminal ht cano) hne] at e2
        simp only [if_true] at e1
        have hne' : ¬ resolve s.rw cano = resolve s.rw out0 := fun h => hne h.symm
        simp only [hne', if_false] at e2
        have hext' : Ext s.rw rwF := hE.trans hext
        rw [← hext'.resolve_comp ht out0, ← e1, e2]
      · rw [if_neg hne]
        refine key s rfl rfl (Ext.refl _) ht ?_
        intro rwF hext
        have heq : resolve s.rw out0 = resolve s.rw cano := not_not.mp hne
        rw [← hext.resolve_comp ht out0, heq, hext.resolve_comp ht]
    · -- new key: kept
      rename_i hl
      obtain ⟨hc, hm⟩ := kept_cm hops hA h
        (s.out.push (.alu k (resolve s.rw a0) (resolve s.rw b0) (c0.map (resolve s.rw)) (resolve s.rw out0)
          (io0.map (resolve s.rw)))) (by simp [Op.rewrite])
      refine ⟨ht, ?_, hc, hm⟩
      intro key cano hlk
      simp only [List.lookup] at hlk
      split at hlk
      · cases hlk
        rename_i heq
        have : key = aluKey k (resolve s.rw a0) (resolve s.rw b0) (c0.map (resolve s.rw)) (io0.map (resolve s.rw)) := by
          simpa using heq
        exact ⟨k, _, _, _, _, by simp, this.symm, wfK_of_dshape hsh'⟩
      · exact seen_push h.seen _ key cano hlk

theorem fold_D {I : List Nat} (ops : List (Op K)) (hA : ADef I ops) (hsh : ∀ op ∈ ops, dshape op = true) :
    ∀ (rest P : List (Op K)) (s : DedupState K), ops = P ++ rest → DInv I s P →
      DInv I (rest.foldl DedupState.step s) ops := by
  intro rest
  induction rest with
  | nil =>
    intro P s hops h
    simp only [List.append_nil] at hops
    subst hops
    exact h
  | cons op rest ih =>
    intro P s hops h
    simp only [List.foldl_cons]
    apply ih (P ++ [op]) (s.step op) (by rw [hops]; simp)
    exact step_D hops hA (hsh op (by rw [hops]; simp)) h

/-- **`Deduplicator::run` keeps def-before-use of first add operands**, for every op list of the shape
the lowering emits. -/
theorem dedup_ADef (I : List Nat) (ops : Array (Op K)) (hA : ADef I ops.toList)
    (hsh : ∀ op ∈ ops.toList, dshape op = true) :
    ADef (I.map (resolve (dedup ops).2)) (dedup ops).1.toList := by
  have h0 : DInv I ({ rw := [], seen := [], out := #[] } : DedupState K) [] := by
    refine ⟨terminates_nil, ?_, ?_, ?_⟩
    · intro key cano hl
      simp [List.lookup] at hl
    · intro _ _ o ho
      cases ho
    · intro _ _ j a b o io hj
      simp at hj
  have hF := fold_D ops.toList hA hsh ops.toList [] _ rfl h0
  unfold dedup
  rw [← Array.foldl_toList]
  simp only [Array.toList_map]
  exact hF.m _ (Ext.refl _)

section
variable [Neg K]

/-- **The de-duplicated lowered list of every builder state with `privOk` is def-before-use for first
add operands**: the hypothesis of `P3R.C18.compile_order_independent_total_partial`, discharged. -/
theorem lower_aDefinedOf (b : BState K) (hpo : privOk b = true) (l : Lowered K) (hl : lower b = .ok l) :
    Order.aDefinedOf l = true := by
  obtain ⟨hA, hsh⟩ := lower_ADef b hpo l hl
  exact aDefined_of_ADef _ _ (dedup_ADef _ _ hA hsh)

end

end P3R.C18L

#print axioms P3R.C18L.dedup_ADef
#print axioms P3R.C18L.lower_aDefinedOf
