/-
C13 — negation of the full statement on a concrete AIR (finding F-C13-1).

The AIR has one main column and asserts, in this order,
  1. the extension constraint `1 + main[0]`   (`assert_zero_ext`),
  2. the base constraint      `main[0]`       (`assert_zero`).
The native folder accumulates in emission order: `((0·α + (1 + x))·α + x`.
`eval_folded_circuit` folds every base constraint before every extension constraint:
`((0·α + x)·α + (1 + x)`. With `x = 5`, `α = 2` these are `17` and `16`.

The same AIR is replayed on the real code by the harness on every run
(`corpus/c13/fc13_1_ext_before_base.json`, case `witness:ext_before_base`).
-/
import P3R.Props.C13

namespace P3R.Witness.C13
open P3R P3R.C13

/-- Builder with two public inputs: id 1 (the opened main cell) and id 2 (alpha). -/
def s0 : BState ℤ := ((BState.init : BState ℤ).allocPublic.1).allocPublic.1

def ρ : Nat → ℤ := fun pos => if pos = 0 then 5 else 2

/-- base node 0: the base constraint `main[0]`; base node 1: the base leaf inside the
extension constraint (its own inline node, as in `ExtLeaf::Base`). -/
def bdag : Array (BNode ℤ) := #[.var (.main 0) 0, .var (.main 0) 0]
def xdag : Array (XNode ℤ) := #[.base 1, .const 1, .add 1 0]

/-- selectors are the constant-zero node; the only opened column is `main[0]` = id 1. -/
def T : Cols Nat :=
  { isFirst := 0, isLast := 0, isTrans := 0, cat := fun c => match c with | .locals => #[1] | _ => #[] }
def E : Cols ℤ :=
  { isFirst := 0, isLast := 0, isTrans := 0, cat := fun c => match c with | .locals => #[5] | _ => #[] }

/-- emission order of the AIR: the extension constraint first. -/
def em : Emission := [(true, 2), (false, 0)]

theorem native_value : nativeFolded bdag xdag E 2 em = some 17 := by decide

theorem circuit_value :
    (evalFoldedAir bdag xdag T 2 em s0).map (fun st => st.b.val ρ st.acc) = some (some 16) := by
  decide +kernel

theorem hyps : BInv ρ s0 ∧ WfB bdag ∧ WfX xdag ∧ Agree (s0.val ρ) T E ∧ s0.val ρ 2 = some 2 := by
  refine ⟨binv_allocPublic (binv_allocPublic (binv_init ρ)), wfB_sound (by decide),
    wfX_sound (by decide), ⟨by decide, by decide, by decide, ?_⟩, by decide⟩
  intro c i v h
  cases c <;> simp only [E] at h <;> try (simp at h)
  cases i with
  | zero =>
    simp at h
    subst h
    exact ⟨1, by simp [T], by decide +kernel⟩
  | succ i => simp at h

/-- The statement C13 asks for, at `K = ℤ`: `evalFoldedAir_sound_partial` without `BaseFirst`. -/
def FullStatement : Prop :=
  ∀ (ρ : Nat → ℤ) (s0 : BState ℤ), BInv ρ s0 → ∀ (bdag : Array (BNode ℤ)), WfB bdag →
    ∀ (xdag : Array (XNode ℤ)), WfX xdag → ∀ (T : Cols Nat) (E : Cols ℤ), Agree (s0.val ρ) T E →
    ∀ (alpha : Nat) (α : ℤ), s0.val ρ alpha = some α → ∀ (em : Emission) (v : ℤ),
    nativeFolded bdag xdag E α em = some v →
    ∃ st, evalFoldedAir bdag xdag T alpha em s0 = some st ∧ st.b.val ρ st.acc = some v

/-- **The full statement of C13 is false of the current `eval_folded_circuit`.** -/
theorem fold_order_counterexample : ¬ FullStatement := by
  intro h
  obtain ⟨h1, h2, h3, h4, h5⟩ := hyps
  obtain ⟨st, hst, hval⟩ := h ρ s0 h1 bdag h2 xdag h3 T E h4 2 2 h5 em 17 native_value
  have := circuit_value
  rw [hst] at this
  simp only [Option.map_some, Option.some.injEq] at this
  rw [hval] at this
  exact absurd this (by decide)

/-- The emission of the witness is exactly what `BaseFirst` excludes. -/
theorem witness_not_baseFirst : ¬ BaseFirst em := by unfold BaseFirst; decide

end P3R.Witness.C13

#print axioms P3R.Witness.C13.fold_order_counterexample
