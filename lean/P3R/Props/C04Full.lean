/-
C04 — composition: an accepted trace yields a satisfying assignment.

The abstract accepted trace: the role scan of `generate_preprocessed_columns` (model
`P3R.Model.Roles`, proved single-creator in C09) fixes, for every operand occurrence of every
Const / Public / ALU row, its slot and its role; the trace supplies one cell value per
occurrence. "Accepted" (ideal STARK + LogUp, DESIGN §2) means every row constraint vanishes on
the row's cells and the WitnessChecks bus — one interaction `(slot, cell)` per non-skipped
occurrence, multiplicity `+reads(slot)` for the creator and `−1` for a reader — balances.

* `bus_single_valued` — a balanced bus with at most one creator per slot defines an assignment
  `w` such that every on-bus cell holds `w slot`;
* `genPrep_slots` — the events produced by the role scan are, in order, the operand slots
  `out, a, c, b` of the ops (ties the abstract trace to `genPrep`);
* `accepted_sat` — if moreover no operand is off the bus and the row constraints hold on the
  cells (Horner rows: with the previous ALU row's `out` cell as accumulator, and that row's
  `out` slot being the accumulator slot), then `∃ w, Sat w pub ops`.
Const rows: the cell equals the circuit's constant is a *hypothesis* (`rowOkVals` for
`.const`), which the current AIR does not enforce — finding F4, `const_not_bound`.
-/
import P3R.Props.C04
import P3R.Props.C09

namespace P3R.C04
open P3R P3R.C09

variable {F : Type} [Field F] [DecidableEq F]

/-- One operand occurrence of an accepted trace. -/
structure Cell (F : Type) where
  slot : Nat
  role : Role
  val : F

/-- Its WitnessChecks interaction (a skipped operand has none). -/
def interOf (reads : List (Nat × Nat)) (c : Cell F) : Option (Inter F) :=
  match c.role with
  | .skip => none
  | .reader => some ⟨c.slot, c.val, -1⟩
  | .creator => some ⟨c.slot, c.val, (readsOf reads c.slot : Int)⟩

def busOf (reads : List (Nat × Nat)) (cells : List (Cell F)) : List (Inter F) :=
  cells.filterMap (interOf reads)

def evOf (c : Cell F) : Nat × Role := (c.slot, c.role)

theorem countP_le_one_unique {α} (p : α → Bool) (l : List α) (h : l.countP p ≤ 1)
    (a b : α) (ha : a ∈ l) (hb : b ∈ l) (pa : p a = true) (pb : p b = true)
    (f : α → F) (hne : f a ≠ f b) : False := by
  induction l with
  | nil => cases ha
  | cons x xs ih =>
    rw [List.countP_cons] at h
    rcases List.mem_cons.mp ha with rfl | ha'
    · rcases List.mem_cons.mp hb with rfl | hb'
      · exact hne rfl
      · have : 1 ≤ xs.countP p := List.countP_pos_iff.mpr ⟨b, hb', pb⟩
        rw [if_pos pa] at h; omega
    · rcases List.mem_cons.mp hb with rfl | hb'
      · have : 1 ≤ xs.countP p := List.countP_pos_iff.mpr ⟨a, ha', pa⟩
        rw [if_pos pb] at h; omega
      · exact ih (by omega) ha' hb'

/-- **The bus defines one value per slot.** -/
theorem bus_single_valued (reads : List (Nat × Nat)) (cells : List (Cell F))
    (hcre : ∀ s, nCreators (cells.map evOf) s ≤ 1)
    (hbal : ∀ s v, tupleNet (busOf reads cells) s v = 0) :
    ∃ w : Nat → F, ∀ c ∈ cells, c.role ≠ .skip → c.val = w c.slot := by
  classical
  let isCre : Nat → Cell F → Bool := fun s c => c.slot == s && c.role == .creator
  refine ⟨fun s => match cells.find? (isCre s) with | some c => c.val | none => 0, ?_⟩
  -- uniqueness of the creator's value
  have huniq : ∀ s (a b : Cell F), a ∈ cells → b ∈ cells → isCre s a = true → isCre s b = true →
      a.val = b.val := by
    intro s a b ha hb pa pb
    by_contra hne
    have hc := hcre s
    unfold nCreators at hc
    rw [List.countP_map] at hc
    refine countP_le_one_unique (F := F) _ cells hc a b ha hb ?_ ?_ Cell.val hne
    · simpa [isCre, evOf, Function.comp] using pa
    · simpa [isCre, evOf, Function.comp] using pb
  have hw_of_cre : ∀ s (a : Cell F), a ∈ cells → isCre s a = true →
      (match cells.find? (isCre s) with | some c => c.val | none => 0) = a.val := by
    intro s a ha pa
    cases hf : cells.find? (isCre s) with
    | none =>
      have := List.find?_eq_none.mp hf a ha
      simp [pa] at this
    | some c =>
      exact huniq s c a (List.mem_of_find?_eq_some hf) ha (List.find?_some hf) pa
  intro c hc hns
  show c.val = _
  cases hr : c.role with
  | skip => exact absurd hr hns
  | creator =>
    exact (hw_of_cre c.slot c hc (by simp [isCre, hr])).symm
  | reader =>
    -- the tuple (slot, val) must be sent by a creator
    have hb := hbal c.slot c.val
    unfold tupleNet at hb
    set L := (busOf reads cells).filter fun i => i.slot = c.slot ∧ i.val = c.val with hL
    have hcin : (⟨c.slot, c.val, -1⟩ : Inter F) ∈ L := by
      rw [hL, List.mem_filter]
      refine ⟨?_, by simp⟩
      unfold busOf
      rw [List.mem_filterMap]
      exact ⟨c, hc, by simp [interOf, hr]⟩
    by_cases hex : ∃ a ∈ cells, isCre c.slot a = true ∧ a.val = c.val
    · obtain ⟨a, ha, pa, hv⟩ := hex
      exact ((hw_of_cre c.slot a ha pa).trans hv).symm
    · exfalso
      have hall : ∀ j ∈ L, j.mult = -1 := by
        intro j hj
        rw [hL, List.mem_filter] at hj
        obtain ⟨hjb, hjp⟩ := hj
        have hjp' : j.slot = c.slot ∧ j.val = c.val := by simpa using hjp
        unfold busOf at hjb
        rw [List.mem_filterMap] at hjb
        obtain ⟨d, hd, hdi⟩ := hjb
        unfold interOf at hdi
        cases hdr : d.role with
        | skip => simp [hdr] at hdi
        | reader => simp [hdr] at hdi; rw [← hdi]
        | creator =>
          simp [hdr] at hdi
          exfalso
          apply hex
          refine ⟨d, hd, ?_, ?_⟩
          · have : d.slot = c.slot := by rw [← hdi] at hjp'; exact hjp'.1
            simp [isCre, hdr, this]
          · rw [← hdi] at hjp'; exact hjp'.2
      have hlen : 0 < L.length := List.length_pos_of_mem hcin
      rw [sum_neg_one L hall] at hb
      omega

/-! ## The role scan lists the operand slots of the ops, in order -/

/-- Slots of an op's operands in role-decision order `out, a, c, b`. -/
def opSlots : Op F → List Nat
  | .const out _ => [out]
  | .pub out _ => [out]
  | .alu _ a b c out _ =>
    [out, a] ++ (match c with | some cw => [cw] | none => []) ++ [b]
  | .hint _ _ _ => []
  | .npo _ _ _ _ => []

theorem requests_slots (privs hints defined : List Nat) (op : Op F) :
    (requestsOf privs hints defined op).map (·.slot) = opSlots op := by
  cases op with
  | alu k a b c out io => cases c <;> simp [requestsOf, opSlots]
  | _ => simp [requestsOf, opSlots]

theorem serve_events (s : RoleState) (r : Request) :
    (s.serve r).events.map Prod.fst = s.events.map Prod.fst ++ [r.slot] := by
  unfold RoleState.serve
  cases r.role s.defined <;> simp

theorem serveAll_events (reqs : List Request) (s : RoleState) :
    (reqs.foldl RoleState.serve s).events.map Prod.fst = s.events.map Prod.fst ++ reqs.map (·.slot) := by
  induction reqs generalizing s with
  | nil => simp
  | cons r rs ih => simp [List.foldl_cons, ih, serve_events]

theorem step_events (privs hints : List Nat) (s : PrepState) (op : Op F) :
    (s.step privs hints op).rs.events.map Prod.fst = s.rs.events.map Prod.fst ++ opSlots op := by
  have h := serveAll_events (requestsOf privs hints s.rs.defined op) s.rs
  rw [requests_slots] at h
  unfold PrepState.step
  cases op with
  | alu k a b c out io => cases c <;> simpa using h
  | _ => simpa using h

theorem steps_events (privs hints : List Nat) (ops : List (Op F)) (s : PrepState) :
    (ops.foldl (PrepState.step privs hints) s).rs.events.map Prod.fst =
      s.rs.events.map Prod.fst ++ ops.flatMap opSlots := by
  induction ops generalizing s with
  | nil => simp
  | cons op ops ih => simp [List.foldl_cons, ih, step_events, List.flatMap_cons]

/-- **Tie to the role model.** The events of `genPrep` are the operand slots of the ops. -/
theorem genPrep_slots (c : Circuit F) (p : Prep) (h : genPrep c = some p) :
    p.events.map Prod.fst = c.ops.toList.flatMap opSlots := by
  unfold genPrep at h
  simp only at h
  split at h
  · cases h
    simpa using steps_events _ _ c.ops.toList
      { rs := { defined := [], reads := [], events := [] }, consts := [], pubs := [], alu := [] }
  · cases h

/-! ## Row constraints on cells -/

/-- The accumulator the ALU table uses for a Horner row: the previous ALU row's `out` cell when
that row is a Horner step too, zero otherwise (a run of Horner steps starts after a separator row,
whose lane-0 `out` cell the table pins to zero: `C11.sep_out_zero`, the constraint added by the
repair of finding F22 — before it that cell was free and this definition was not what the table
enforced). -/
def prevAcc (prev : Option (Nat × F)) : F :=
  match prev with
  | some (_, pv) => pv
  | none => 0

/-- Row constraints of one op on its cells (`out, a, [c,] b`, D = 1, one-hot selector). `prev` is
the previous ALU row's `(out slot, out cell)` when that row is a Horner step: a Horner row takes
its accumulator from it — it does *not* read the op's `acc` operand. The `.const` clause is finding
F4's missing constraint, stated as a hypothesis of `accepted_sat`. -/
def rowOkVals (pub : Nat → F) (prev : Option (Nat × F)) : Op F → List F → Prop
  | .const _ v, [vo] => vo = v
  | .pub _ pos, [vo] => vo = pub pos
  | .alu .add _ _ none _ _, [vo, va, vb] => ∀ x ∈ laneAdd 1 (1 : F) [va] [vb] [vo], x = 0
  | .alu .add _ _ (some _) _ _, [vo, va, _, vb] => ∀ x ∈ laneAdd 1 (1 : F) [va] [vb] [vo], x = 0
  | .alu .mul _ _ none _ _, [vo, va, vb] => ∀ x ∈ laneEq 1 (1 : F) [va * vb] [vo], x = 0
  | .alu .mul _ _ (some _) _ _, [vo, va, _, vb] => ∀ x ∈ laneEq 1 (1 : F) [va * vb] [vo], x = 0
  | .alu .boolCheck _ _ none _ _, [_, va, _] => ∀ x ∈ laneBool 1 (1 : F) [va], x = 0
  | .alu .boolCheck _ _ (some _) _ _, [_, va, _, _] => ∀ x ∈ laneBool 1 (1 : F) [va], x = 0
  | .alu .mulAdd _ _ (some _) _ _, [vo, va, vc, vb] =>
    ∀ x ∈ laneMulAdd 1 (1 : F) [va * vb] [vc] [vo], x = 0
  | .alu .horner _ _ (some _) _ (some _), [vo, va, vc, vb] =>
    ∀ x ∈ hornerSingle 1 (1 : F) [prevAcc prev * vb] [vc] [va] [vo], x = 0
  | .hint _ _ _, _ => True
  | .npo _ _ _ _, _ => True
  | _, _ => False

def nextPrev (prev : Option (Nat × F)) : Op F → List F → Option (Nat × F)
  | .alu .horner _ _ _ out _, vo :: _ => some (out, vo)
  | .alu _ _ _ _ _ _, _ => none
  | _, _ => prev

/-- All rows, consuming the cell list op by op. -/
def rowsOk (pub : Nat → F) : List (Op F) → List F → Option (Nat × F) → Prop
  | [], _, _ => True
  | op :: ops, vs, prev =>
    let n := (opSlots op).length
    rowOkVals pub prev op (vs.take n) ∧ rowsOk pub ops (vs.drop n) (nextPrev prev op (vs.take n))

theorem rowOk_holds (w pub : Nat → F) (prev : Option (Nat × F))
    (hprev : ∀ s v, prev = some (s, v) → v = w s) (op : Op F)
    (hacc : ∀ a b c out acc, op = .alu .horner a b c out (some acc) →
      (∀ s v, prev = some (s, v) → acc = s) ∧ (prev = none → w acc = 0))
    (h : rowOkVals pub prev op ((opSlots op).map w)) : op.holds w pub := by
  cases op with
  | const out v => simpa [rowOkVals, opSlots, Op.holds] using h
  | pub out pos => simpa [rowOkVals, opSlots, Op.holds] using h
  | hint _ _ _ => trivial
  | npo _ _ _ _ => trivial
  | alu k a b c out io =>
    cases k with
    | add =>
      cases c <;> simp only [rowOkVals, opSlots, List.map, List.cons_append, List.nil_append] at h <;>
        exact row_sat_add w pub a b out _ io h
    | mul =>
      cases c <;> simp only [rowOkVals, opSlots, List.map, List.cons_append, List.nil_append] at h <;>
        exact row_sat_mul w pub a b out _ io h
    | boolCheck =>
      cases c <;> simp only [rowOkVals, opSlots, List.map, List.cons_append, List.nil_append] at h <;>
        exact row_sat_bool w pub a b out _ io h
    | mulAdd =>
      cases c with
      | none => simp [rowOkVals, opSlots] at h
      | some cv =>
        simp only [rowOkVals, opSlots, List.map, List.cons_append, List.nil_append] at h
        exact row_sat_muladd w pub a b cv out io h
    | horner =>
      cases c with
      | none => cases io <;> simp [rowOkVals, opSlots] at h
      | some cv =>
        cases io with
        | none => simp [rowOkVals, opSlots] at h
        | some acc =>
          simp only [rowOkVals, opSlots, List.map, List.cons_append, List.nil_append] at h
          obtain ⟨h1, h2⟩ := hacc a b (some cv) out acc rfl
          have hp : prevAcc prev = w acc := by
            cases prev with
            | none => simp [prevAcc, h2 rfl]
            | some sv =>
              obtain ⟨s, v⟩ := sv
              simp only [prevAcc]
              rw [hprev s v rfl, h1 s v rfl]
          rw [hp] at h
          exact row_sat_horner w pub a b cv out acc h

theorem nextPrev_horner (w : Nat → F) (prev : Option (Nat × F)) (a b : Nat) (c : Option Nat) (out : Nat)
    (io : Option Nat) :
    nextPrev prev (.alu .horner a b c out io) ((opSlots (.alu .horner a b c out io : Op F)).map w) =
      some (out, w out) := by
  cases c <;> simp [nextPrev, opSlots]

theorem nextPrev_alu_other (w : Nat → F) (prev : Option (Nat × F)) {k : AluKind} (hk : k ≠ .horner)
    {a b : Nat} {c : Option Nat} {out : Nat} {io : Option Nat} :
    nextPrev prev (.alu k a b c out io) ((opSlots (.alu k a b c out io : Op F)).map w) = none := by
  cases k <;> first | exact absurd rfl hk | (cases c <;> simp [nextPrev, opSlots])

/-- Const ops of the list are satisfied ⇒ zero-constant slots hold 0. -/
theorem zeroConsts_zero (w pub : Nat → F) (ops : List (Op F))
    (h : ∀ out v, Op.const out v ∈ ops → w out = v) (x : Nat) (hx : x ∈ zeroConsts ops) : w x = 0 := by
  unfold zeroConsts at hx
  rw [List.mem_filterMap] at hx
  obtain ⟨op, hop, he⟩ := hx
  cases op with
  | const out v =>
    by_cases hv : v = 0
    · simp [hv] at he; subst he; subst hv; exact h _ _ hop
    · simp [hv] at he
  | _ => simp at he

theorem rowsOk_sat (w pub : Nat → F) (zs : List Nat) (hz : ∀ x ∈ zs, w x = 0)
    (ops : List (Op F)) (prev : Option (Nat × F))
    (hprev : ∀ s v, prev = some (s, v) → v = w s)
    (hchain : hornerChainedFrom zs ops (prev.map Prod.fst) = true)
    (h : rowsOk pub ops ((ops.flatMap opSlots).map w) prev) : Sat w pub ops := by
  induction ops generalizing prev with
  | nil => intro op hop; cases hop
  | cons op ops ih =>
    simp only [rowsOk, List.flatMap_cons, List.map_append] at h
    rw [List.take_left' (by simp), List.drop_left' (by simp)] at h
    obtain ⟨h1, h2⟩ := h
    have hacc : ∀ a b c out acc, op = .alu .horner a b c out (some acc) →
        (∀ s v, prev = some (s, v) → acc = s) ∧ (prev = none → w acc = 0) := by
      intro a b c out acc he
      subst he
      simp only [hornerChainedFrom, Bool.and_eq_true] at hchain
      refine ⟨fun s v hp => ?_, fun hp => ?_⟩
      · subst hp
        simpa using hchain.1
      · subst hp
        exact hz acc (by simpa using hchain.1)
    have hop := rowOk_holds w pub prev hprev op hacc h1
    have hnext : ∀ s v, nextPrev prev op ((opSlots op).map w) = some (s, v) → v = w s := by
      intro s v hs
      cases op with
      | alu k a b c out io =>
        cases k with
        | horner => rw [nextPrev_horner] at hs; cases hs; rfl
        | add => rw [nextPrev_alu_other _ _ (by decide)] at hs; cases hs
        | mul => rw [nextPrev_alu_other _ _ (by decide)] at hs; cases hs
        | boolCheck => rw [nextPrev_alu_other _ _ (by decide)] at hs; cases hs
        | mulAdd => rw [nextPrev_alu_other _ _ (by decide)] at hs; cases hs
      | const _ _ => exact hprev s v (by simpa [nextPrev] using hs)
      | pub _ _ => exact hprev s v (by simpa [nextPrev] using hs)
      | hint _ _ _ => exact hprev s v (by simpa [nextPrev] using hs)
      | npo _ _ _ _ => exact hprev s v (by simpa [nextPrev] using hs)
    have hchain' : hornerChainedFrom zs ops ((nextPrev prev op ((opSlots op).map w)).map Prod.fst) = true := by
      cases op with
      | alu k a b c out io =>
        cases k with
        | horner =>
          rw [nextPrev_horner]
          cases io with
          | none => simp [hornerChainedFrom] at hchain
          | some acc =>
            simp only [hornerChainedFrom, Bool.and_eq_true] at hchain
            simpa using hchain.2
        | add => rw [nextPrev_alu_other _ _ (by decide)]; simpa [hornerChainedFrom] using hchain
        | mul => rw [nextPrev_alu_other _ _ (by decide)]; simpa [hornerChainedFrom] using hchain
        | boolCheck => rw [nextPrev_alu_other _ _ (by decide)]; simpa [hornerChainedFrom] using hchain
        | mulAdd => rw [nextPrev_alu_other _ _ (by decide)]; simpa [hornerChainedFrom] using hchain
      | const _ _ => simpa [hornerChainedFrom, nextPrev] using hchain
      | pub _ _ => simpa [hornerChainedFrom, nextPrev] using hchain
      | hint _ _ _ => simpa [hornerChainedFrom, nextPrev] using hchain
      | npo _ _ _ _ => simpa [hornerChainedFrom, nextPrev] using hchain
    have := ih _ hnext hchain' h2
    intro o ho
    rcases List.mem_cons.mp ho with rfl | ho'
    · exact hop
    · exact this o ho'

/-- The Const rows' constraint gives the constants' values. -/
theorem rowsOk_const (w pub : Nat → F) (ops : List (Op F)) (prev : Option (Nat × F))
    (h : rowsOk pub ops ((ops.flatMap opSlots).map w) prev) :
    ∀ out v, Op.const out v ∈ ops → w out = v := by
  induction ops generalizing prev with
  | nil => intro _ _ hm; cases hm
  | cons op ops ih =>
    simp only [rowsOk, List.flatMap_cons, List.map_append] at h
    rw [List.take_left' (by simp), List.drop_left' (by simp)] at h
    obtain ⟨h1, h2⟩ := h
    intro out v hm
    rcases List.mem_cons.mp hm with rfl | hm'
    · simpa [rowOkVals, opSlots] using h1
    · exact ih _ h2 out v hm'

/-- **C04 / composition.** An accepted trace over the roles of `genPrep` — balanced bus, at most
one creator per slot (C09), no operand off the bus, row constraints vanishing on the cells —
yields an assignment satisfying every Const / Public / ALU relation of the circuit. -/
theorem accepted_sat (pub : Nat → F) (ops : List (Op F)) (evs : List (Nat × Role))
    (reads : List (Nat × Nat)) (vs : List F)
    (hslots : evs.map Prod.fst = ops.flatMap opSlots)
    (hlen : vs.length = evs.length)
    (hcre : ∀ s, nCreators evs s ≤ 1)
    (hnoskip : ∀ e ∈ evs, e.2 ≠ .skip)
    (hbal : ∀ s v, tupleNet
      (busOf reads (List.zipWith (fun (e : Nat × Role) v => (⟨e.1, e.2, v⟩ : Cell F)) evs vs)) s v = 0)
    (hchain : hornerChained ops = true)
    (hrows : rowsOk pub ops vs none) :
    ∃ w : Nat → F, Sat w pub ops := by
  set cells := List.zipWith (fun (e : Nat × Role) v => (⟨e.1, e.2, v⟩ : Cell F)) evs vs with hcells
  have hmap : cells.map evOf = evs := by
    rw [hcells]
    apply List.ext_getElem
    · simp [hlen]
    · intro i h1 h2
      simp [evOf]
  obtain ⟨w, hw⟩ := bus_single_valued reads cells (by rw [hmap]; exact hcre) hbal
  have hvs : vs = (ops.flatMap opSlots).map w := by
    rw [← hslots]
    apply List.ext_getElem
    · simp [hlen]
    · intro i h1 h2
      have hi : i < cells.length := by rw [hcells]; simp [hlen]; omega
      have hmem : cells[i] ∈ cells := List.getElem_mem hi
      have hne : cells[i].role ≠ .skip := by
        have : cells[i].role = (evs[i]'(by omega)).2 := by simp [hcells]
        rw [this]
        exact hnoskip _ (List.getElem_mem _)
      have := hw _ hmem hne
      simpa [hcells] using this
  have hrows' : rowsOk pub ops ((ops.flatMap opSlots).map w) none := by rw [← hvs]; exact hrows
  -- constants: read off the Const rows' constraint
  have hconst : ∀ out v, Op.const out v ∈ ops → w out = v :=
    rowsOk_const w pub ops none hrows'
  exact ⟨w, rowsOk_sat w pub (zeroConsts ops) (zeroConsts_zero w pub ops hconst) ops none
    (fun _ _ h => by cases h) (by simpa [hornerChained] using hchain) hrows'⟩

/-- The same, stated on `genPrep`'s output: single-creator is the C09 theorem. -/
theorem accepted_sat_genPrep (pub : Nat → F) (c : Circuit F) (p : Prep) (h : genPrep c = some p)
    (vs : List F) (hlen : vs.length = p.events.length)
    (hnoskip : ∀ e ∈ p.events, e.2 ≠ .skip)
    (hbal : ∀ s v, tupleNet
      (busOf p.reads (List.zipWith (fun (e : Nat × Role) v => (⟨e.1, e.2, v⟩ : Cell F)) p.events vs)) s v = 0)
    (hchain : hornerChained c.ops.toList = true)
    (hrows : rowsOk pub c.ops.toList vs none) :
    ∃ w : Nat → F, Sat w pub c.ops.toList :=
  accepted_sat pub c.ops.toList p.events p.reads vs (genPrep_slots c p h) hlen
    (fun s => one_creator c p h s) hnoskip hbal hchain hrows

end P3R.C04
