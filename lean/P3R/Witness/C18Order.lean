/-
C18 — witnesses for `P3R.Props.C18Order`.

Non-vacuity of the hypotheses (a hash order that is not the identity; a program on which the
decidable hypotheses of `compile_order_independent` hold and the orders really differ), and the
*negations* that show each hypothesis is needed — three of them are observations about the code:

* `tag_error_order_dependent` — two tags on expressions without a witness: the build fails for every
  order, but the `MissingExprMapping` error names whichever tag the hash map yields first
  (`circuit_builder.rs`, `for (tag, expr_id) in self.tag_to_expr`); reproduced on the real code by
  `p3r-harness c18-orders` (observation `tag-error-payload`).
* `airLoop_order_dependent` — a builder that can build two entries of `non_primitive_base` (the
  generic `Poseidon2AirBuilder<D>` with two Poseidon2 tables in one circuit) builds whichever the
  hash map yields first: the AIR list is order-dependent (`common.rs` AIR-builder loop); reproduced on
  the real code by `p3r-harness c18-orders` (observation `generic-builder-two-tables`).
* `fusedPos_needs_distinct_outs` — with two valid candidates sharing an output the collected
  `fused_positions` map depends on the order (why `fusionInvariant` is a hypothesis).
-/
import P3R.Props.C18Order

namespace P3R.Witness.C18Order
open P3R P3R.Order P3R.C18

/-- "Reverse" is a hash order. -/
def revOrders : Orders Int :=
  { backfill := List.reverse,
    fuse := { fusedPos := List.reverse, retain := List.reverse, apply := List.reverse },
    e2w := List.reverse, genKeys := List.reverse, tags := List.reverse }

def idOrders : Orders Int :=
  { backfill := id, fuse := { fusedPos := id, retain := id, apply := id }, e2w := id, genKeys := id, tags := id }

theorem revOrders_valid : revOrders.Valid :=
  { backfill := List.reverse_perm, fuse := ⟨List.reverse_perm, List.reverse_perm, List.reverse_perm⟩,
    e2w := List.reverse_perm, genKeys := List.reverse_perm, tags := List.reverse_perm }

theorem idOrders_valid : idOrders.Valid :=
  { backfill := fun _ => List.Perm.refl _, fuse := ⟨fun _ => List.Perm.refl _, fun _ => List.Perm.refl _, fun _ => List.Perm.refl _⟩,
    e2w := fun _ => List.Perm.refl _, genKeys := fun _ => List.Perm.refl _, tags := fun _ => List.Perm.refl _ }

/-- A program with two fusable `a·b + c` sites, a connect class with a member that is only backfilled,
two trace generators and two tags: `x y z` public, `m₁ = x·y`, `s₁ = m₁ + z`, `m₂ = y·z`, `s₂ = m₂ + x`,
`connect(s₁, s₂)`. -/
def prog : BState Int :=
  let b : BState Int := BState.init
  let (b, x) := b.allocPublic
  let (b, y) := b.allocPublic
  let (b, z) := b.allocPublic
  let (b, m1) := b.mul x y
  let (b, s1) := b.add m1 z
  let (b, m2) := b.mul y z
  let (b, s2) := b.add m2 x
  b.connect s1 s2

def dflt : Lowered Int := ⟨#[], #[], #[], #[], 0⟩

def getOk {ε α : Type} (d : α) : Except ε α → α
  | .ok l => l
  | .error _ => d

theorem ok_of_toBool {ε α : Type} (x : Except ε α) (d : α) (h : x.toBool = true) : x = .ok (getOk d x) := by
  cases x with
  | ok a => rfl
  | error e => exact absurd h (by simp [Except.toBool])

theorem prog_lowers : lower prog = .ok (getOk dflt (lower prog)) :=
  ok_of_toBool _ dflt (by decide +kernel)

/-- The hypotheses of `compile_order_independent` hold on `prog` (non-vacuity) … -/
theorem prog_hyps :
    (∃ l, lower prog = .ok l ∧ fusionInvariantOf l = true ∧
      ((Fusion.new (dedup l.ops).1 (l.privRows.toList.map (resolve (dedup l.ops).2))).candidates (dedup l.ops).1).length ≥ 1) := by
  refine ⟨_, prog_lowers, ?_, ?_⟩ <;> decide +kernel

/-- … the two order assignments are really different on it … -/
theorem orders_differ : revOrders.tags [(0, 4), (1, 6)] ≠ idOrders.tags [(0, 4), (1, 6)] := by decide

/-- … and the theorem applies: the reversed orders build the same circuit as the identity orders. -/
theorem prog_order_independent :
    compileOrd revOrders prog [7, 3] [(0, 5), (1, 7)] = compileOrd idOrders prog [7, 3] [(0, 5), (1, 7)] := by
  apply compile_order_independent _ _ revOrders_valid idOrders_valid
  · intro l hl
    rw [prog_lowers] at hl
    injection hl with hl
    subst hl
    decide +kernel
  · decide
  · intro l hl
    rw [prog_lowers] at hl
    injection hl with hl
    subst hl
    decide +kernel

/-- The build of `prog` succeeds (so the equality above is not an equality of errors). -/
theorem prog_builds : (compileOrd idOrders prog [7, 3] [(0, 5), (1, 7)]).toBool = true := by decide +kernel

/-! ### Negations: each hypothesis is needed -/

/-- Two unmapped tags: the error names the first tag in iteration order. -/
theorem tag_error_order_dependent :
    tagTransfer (fun _ => none) [] [(0, 1000), (1, 1001)] ≠
    tagTransfer (fun _ => none) [] ([(0, 1000), (1, 1001)] : List (Nat × Nat)).reverse := by decide

/-- … while *that* it fails is order-independent (`firstErr_isSome_perm`), e.g. here. -/
theorem tag_error_both_fail :
    (tagTransfer (fun _ => none) [] [((0 : Nat), 1000), (1, 1001)]).toBool = false ∧
    (tagTransfer (fun _ => none) [] [((1 : Nat), 1001), (0, 1000)]).toBool = false := by decide

/-- The generic Poseidon2 builder accepts every `poseidon2_perm/*` entry (keys 16 and 24 stand for
the W16 and W24 tables), a config-restricted builder exactly one. -/
def genericBuilder (_b : Unit) (k : Nat) (_v : Unit) : Option Nat := if k = 16 ∨ k = 24 then some k else none
def forConfig (cfg : Nat) (k : Nat) (_v : Unit) : Option Nat := if k = cfg then some k else none

/-- One generic builder, two Poseidon2 tables: one AIR is built, and which one depends on the order. -/
theorem airLoop_order_dependent :
    airLoop genericBuilder [()] [(16, ()), (24, ())] = [16] ∧
    airLoop genericBuilder [()] [(24, ()), (16, ())] = [24] := by decide

/-- Config-restricted builders (what `poseidon2_air_builders_for_configs` registers): both tables, in
registration order, for both orders (instance of `airLoop_perm`). -/
theorem airLoop_for_configs :
    airLoop forConfig [16, 24] [(16, ()), (24, ())] = [16, 24] ∧
    airLoop forConfig [16, 24] [(24, ()), (16, ())] = [16, 24] := by decide

/-- Two candidates with the same output: `fused_positions` depends on which is collected last. -/
theorem fusedPos_needs_distinct_outs :
    (extendMap [] [((5 : Nat), (1 : Nat)), (5, 3)]).lookup 5 ≠ (extendMap [] [((5 : Nat), (3 : Nat)), (5, 1)]).lookup 5 := by decide

/-! ### Union–find: a compressing `find` and its effect -/

/-- The chain `3 → 2 → 1 → 0`. -/
def chain : Nat → Nat := fun x => if x = 0 then 0 else if x ≤ 3 then x - 1 else x

theorem chain_bounded : Dsu.Bounded chain 3 := by
  intro y
  unfold chain
  simp only [Dsu.iter]
  split_ifs <;> omega

/-- `find 3` re-points 3 and 2 at the root 0 (the parents change) … -/
theorem find_compresses : (Dsu.find chain 3 3).2 = 0 ∧ (Dsu.find chain 3 3).1 3 = 0 ∧ (Dsu.find chain 3 3).1 2 = 0 ∧ chain 3 = 2 := by
  decide

/-- … and `Dsu.find_spec` applies: every root is unchanged. -/
theorem find_roots_unchanged (y : Nat) : Dsu.iter (Dsu.find chain 3 3).1 3 y = Dsu.iter chain 3 y :=
  (Dsu.find_spec chain_bounded 3).2.1 y

/-- Rewrite post-pass: hypotheses of `rewritePass_perm` on the map `{5 ↦ 2, 7 ↦ 5}` with roots
`root 2 = 2`, `root 5 = 2`. -/
theorem rewritePass_example :
    let root : Nat → Nat := fun c => if c = 5 then 2 else c
    let w : Nat → Option Nat := fun i => if i = 2 then some 9 else none
    (rewritePass root w [(5, 2), (7, 5)]).map (fun f => (f 5, f 7)) = some (some 9, some 9) ∧
    (rewritePass root w [(7, 5), (5, 2)]).map (fun f => (f 5, f 7)) = some (some 9, some 9) := by
  decide

end P3R.Witness.C18Order
