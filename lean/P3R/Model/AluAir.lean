/-
L6 — the ALU table's row constraints and bus interactions.
Mirrors `circuit-prover/src/air/alu_air.rs` (`eval`, `eval_alu_interactions`,
`ext_mul_binomial`, `ext_mul_quintic_trinomial`) and the column layout of `alu_columns.rs`.

`aluEval` returns the value of every constraint polynomial, in assertion order, on a concrete
window (current/next rows of the main and preprocessed traces) together with every bus
interaction (field tuple, multiplicity). The correspondence check evaluates the real AIR with
a value-recording `AirBuilder` on the same random windows and requires the two lists to be
identical, which ties every coefficient and selector of the polynomials to the source.
-/
namespace P3R

/-- Which extension multiplication the ALU uses (`AluExtMulKind`). -/
inductive ExtKind (K : Type) where
  | base
  | binomial (w : K)
  | quintic

section
variable {K : Type} [Zero K] [One K] [Add K] [Sub K] [Mul K]

def vget (v : List K) (i : Nat) : K := v.getD i 0

/-- Sum of a list (kept explicit so the model needs no Mathlib). -/
def lsum (l : List K) : K := l.foldl (· + ·) 0

/-- `ext_mul_binomial`: coefficient `k` of `x·y` in `K[X]/(X^D − w)`. For `D = 1`, `w` is unused. -/
def extMulBinomial (D : Nat) (w : K) (x y : List K) : List K :=
  (List.range D).map fun k =>
    lsum ((List.range D).flatMap fun i => (List.range D).filterMap fun j =>
      if i + j = k then some (vget x i * vget y j)
      else if i + j = k + D then some (w * (vget x i * vget y j))
      else none)

/-- `ext_mul_quintic_trinomial`: product in `K[X]/(X^5 + X^2 − 1)`. -/
def extMulQuintic (x y : List K) : List K :=
  let xi := vget x
  let yj := vget y
  let c0 := xi 0 * yj 0
  let c1 := xi 0 * yj 1 + xi 1 * yj 0
  let c2 := xi 0 * yj 2 + xi 1 * yj 1 + xi 2 * yj 0
  let c3 := xi 0 * yj 3 + xi 1 * yj 2 + xi 2 * yj 1 + xi 3 * yj 0
  let c4 := xi 0 * yj 4 + xi 1 * yj 3 + xi 2 * yj 2 + xi 3 * yj 1 + xi 4 * yj 0
  let c5 := xi 1 * yj 4 + xi 2 * yj 3 + xi 3 * yj 2 + xi 4 * yj 1
  let c6 := xi 2 * yj 4 + xi 3 * yj 3 + xi 4 * yj 2
  let c7 := xi 3 * yj 4 + xi 4 * yj 3
  let c8 := xi 4 * yj 4
  let d := c5 - c8
  [c0 + d, c1 + c6, c2 - d + c7, c3 - c6 + c8, c4 - c7]

def extMul (D : Nat) (kind : ExtKind K) (x y : List K) : List K :=
  match kind with
  | .base => extMulBinomial D 0 x y
  | .binomial w => extMulBinomial D w x y
  | .quintic => extMulQuintic x y

/-- `v[off .. off+D]`. -/
def seg (v : List K) (off D : Nat) : List K := (v.drop off).take D

def vzip3 (f : K → K → K → K) (x y z : List K) (D : Nat) : List K :=
  (List.range D).map fun i => f (vget x i) (vget y i) (vget z i)

/-- Preprocessed lane layout (`AluPrepLaneCols`): 13 columns. -/
def prepLaneWidth : Nat := 13
def stepPrepWidth : Nat := 6
def numInt (kmax : Nat) : Nat := (kmax - 1) / 2
def extraPrepWidth (k : Nat) : Nat := (k - 1) + stepPrepWidth * (k - 1)
def selKIdx (k : Nat) : Nat := k - 2
def stepIdx (t kmax : Nat) : Nat := (kmax - 1) + stepPrepWidth * (t - 1)
def mainWidth (D lanes kmax : Nat) : Nat := lanes * 4 * D + (numInt kmax + 2 * (kmax - 1) + 1) * D
def prepWidth (lanes kmax : Nat) : Nat := lanes * prepLaneWidth + extraPrepWidth kmax

/-- Bus interactions of one row: per lane `(idx, operand limbs)` for a, b, c, out with their
multiplicity columns, then the packed-Horner extra lookups. -/
def aluInteractions (D lanes kmax : Nat) (ml pl : List K) : List (List K × K) :=
  let perLane := (List.range lanes).flatMap fun lane =>
    let m := lane * 4 * D
    let p := lane * prepLaneWidth
    let multA := vget pl p
    let multB := vget pl (p + 9)
    let multOut := vget pl (p + 10)
    let aRd := vget pl (p + 11)
    let cRd := vget pl (p + 12)
    [ (vget pl (p + 5) :: seg ml m D, multA * aRd),
      (vget pl (p + 6) :: seg ml (m + D) D, multB),
      (vget pl (p + 7) :: seg ml (m + 2 * D) D, multA * cRd),
      (vget pl (p + 8) :: seg ml (m + 3 * D) D, multOut) ]
  let extraMain := lanes * 4 * D
  let extraPrep := lanes * prepLaneWidth
  let acBase := extraMain + numInt kmax * D
  let extra := (List.range (kmax - 1)).flatMap fun t0 =>
    let t := t0 + 1
    let p := extraPrep + stepIdx t kmax
    let off := acBase + 2 * (t - 1) * D
    [ (vget pl p :: seg ml off D, vget pl (p + 4)),
      (vget pl (p + 1) :: seg ml (off + D) D, vget pl (p + 5)) ]
  perLane ++ extra

/-- `WitnessSendAir::eval` (the Const and Public tables): no constraint; one WitnessChecks send per
lane, `(witness_idx :: value limbs)` with the preprocessed multiplicity. The value is a *main trace*
cell: nothing ties a Const row's value to the circuit's constant (finding F4). Preprocessed lane
layout (`WitnessLookupPrepCols`): 0 multiplicity, 1 witness_idx. -/
def sendInteractions (D lanes : Nat) (ml pl : List K) : List (List K × K) :=
  (List.range lanes).map fun lane =>
    (vget pl (lane * 2 + 1) :: seg ml (lane * D) D, vget pl (lane * 2))

def sendConstraints (_D _lanes : Nat) (_ml _pl : List K) : List K := []

/-- `RecomposeAir::eval` (the `recompose` table, packing D base coefficients into one extension
element): no constraint; per lane the output tuple `(output_idx :: limbs)` with `out_mult`, and — with
`coeff_lookups` — one tuple `(coeff_idx_i, limb_i, 0, …, 0)` per coefficient. Preprocessed lane
layout: 0 output_idx, 1 out_mult, then `(coeff_idx_i, coeff_mult_i)` pairs. -/
def recomposeInteractions (D lanes : Nat) (coeff : Bool) (ml pl : List K) : List (List K × K) :=
  let plw := if coeff then 2 + 2 * D else 2
  (List.range lanes).flatMap fun lane =>
    let m := lane * D
    let p := lane * plw
    (vget pl p :: seg ml m D, vget pl (p + 1)) ::
      (if coeff then
        (List.range D).map fun i =>
          (vget pl (p + 2 + i * 2) :: vget ml (m + i) :: List.replicate (D - 1) 0, vget pl (p + 2 + i * 2 + 1))
       else [])

/-- Intra-row packed legs for one arity selector `kk` (the `while s < kk` loop), by fuel. -/
def packedLegs (D kmax : Nat) (kind : ExtKind K) (ml : List K) (extraMain acBase : Nat)
    (b bSq out : List K) (selKK : K) (kk : Nat) : Nat → Nat → Nat → List K
  | 0, _, _ => []
  | fuel + 1, s, slot =>
    if s < kk then
      let intCurr := seg ml (extraMain + slot * D) D
      let offS := acBase + 2 * (s - 1) * D
      let aS := seg ml offS D
      let cS := seg ml (offS + D) D
      if s + 1 < kk then
        let offS1 := acBase + 2 * s * D
        let aS1 := seg ml offS1 D
        let cS1 := seg ml (offS1 + D) D
        let intBSq := extMul D kind intCurr bSq
        let cSB := extMul D kind cS b
        let aSB := extMul D kind aS b
        let prod := (List.range D).map fun i =>
          vget intBSq i + vget cSB i - vget aSB i + vget cS1 i - vget aS1 i
        if s + 2 ≥ kk then
          ((List.range D).map fun i => selKK * (vget prod i - vget out i)) ++
            packedLegs D kmax kind ml extraMain acBase b bSq out selKK kk fuel (s + 2) slot
        else
          let intNext := seg ml (extraMain + (slot + 1) * D) D
          ((List.range D).map fun i => selKK * (vget prod i - vget intNext i)) ++
            packedLegs D kmax kind ml extraMain acBase b bSq out selKK kk fuel (s + 2) (slot + 1)
      else
        let intB := extMul D kind intCurr b
        ((List.range D).map fun i => selKK * (vget intB i + vget cS i - vget aS i - vget out i)) ++
          packedLegs D kmax kind ml extraMain acBase b bSq out selKK kk fuel (s + 1) slot
    else []

/-- `sel · (a + b − out)` per coefficient (ADD). -/
def laneAdd (D : Nat) (sel : K) (a b out : List K) : List K :=
  (List.range D).map fun i => sel * (vget a i + vget b i - vget out i)

/-- `sel · (x − out)` per coefficient (MUL with `x = a·b`, also the Horner steps). -/
def laneEq (D : Nat) (sel : K) (x out : List K) : List K :=
  (List.range D).map fun i => sel * (vget x i - vget out i)

/-- BOOL_CHECK: `a₀(a₀ − 1) = 0` and `aᵢ = 0` for `i ≥ 1`. -/
def laneBool (D : Nat) (sel : K) (a : List K) : List K :=
  (sel * vget a 0 * (vget a 0 - 1)) :: ((List.range (D - 1)).map fun i => sel * vget a (i + 1))

/-- `sel · (ab + c − out)` per coefficient (MUL_ADD). -/
def laneMulAdd (D : Nat) (sel : K) (ab c out : List K) : List K :=
  (List.range D).map fun i => sel * (vget ab i + vget c i - vget out i)

/-- Single Horner step across rows: `sel · (out·b' + c' − a' − out')`. -/
def hornerSingle (D : Nat) (sel : K) (outB nC nA nOut : List K) : List K :=
  (List.range D).map fun i => sel * (vget outB i + vget nC i - vget nA i - vget nOut i)

/-- Constraint values of `AluAir::eval` on one window, in assertion order. -/
def aluConstraints (D lanes kmax : Nat) (kind : ExtKind K) (ml mn pl pn : List K) : List K :=
  (List.range lanes).flatMap fun lane =>
    let m := lane * 4 * D
    let p := lane * prepLaneWidth
    let a := seg ml m D
    let b := seg ml (m + D) D
    let c := seg ml (m + 2 * D) D
    let out := seg ml (m + 3 * D) D
    let multA := vget pl p
    let selAdd := vget pl (p + 1)
    let selBool := vget pl (p + 2)
    let selMulAdd := vget pl (p + 3)
    let selHorner := vget pl (p + 4)
    let active := (0 : K) - multA
    let selMul := active - selBool - selMulAdd - selHorner - selAdd
    let ab := extMul D kind a b
    -- fix F22: lane 0 of an inactive row (separator / padding) must carry `out = 0` — the next row's
    -- Horner accumulator is read from it
    let cSep := if lane = 0 then (List.range D).map fun i => ((1 : K) - active) * vget out i else []
    let cAdd := laneAdd D selAdd a b out
    let cMul := laneEq D selMul ab out
    let cBool := laneBool D selBool a
    let cMulAdd := laneMulAdd D selMulAdd ab c out
    let nextSelHorner := vget pn (p + 4)
    let nA := seg mn m D
    let nB := seg mn (m + D) D
    let nC := seg mn (m + 2 * D) D
    let nOut := seg mn (m + 3 * D) D
    let outNextB := extMul D kind out nB
    let horner :=
      if lane = 0 then
        let extraMain := lanes * 4 * D
        let extraPrep := lanes * prepLaneWidth
        let ni := numInt kmax
        let nextInt0 := seg mn extraMain D
        let ks := (List.range (kmax - 1)).map (· + 2)
        let anyCur := lsum (ks.map fun kk => vget pl (extraPrep + selKIdx kk))
        let anyNext := lsum (ks.map fun kk => vget pn (extraPrep + selKIdx kk))
        let nextSelK2 := vget pn (extraPrep + selKIdx 2)
        let selGe3Next := lsum ((ks.filter (· ≥ 3)).map fun kk => vget pn (extraPrep + selKIdx kk))
        let acBase := extraMain + ni * D
        let bSqBase := acBase + 2 * (kmax - 1) * D
        let bSq := seg ml bSqBase D
        let bSqNext := seg mn bSqBase D
        let bb := extMul D kind b b
        let c1 := (List.range D).map fun i => anyCur * (vget bSq i - vget bb i)
        let outBSq := extMul D kind out bSqNext
        let c0BNext := extMul D kind nC nB
        let a0BNext := extMul D kind nA nB
        let a1Next := seg mn acBase D
        let c1Next := seg mn (acBase + D) D
        let c2 := (List.range D).flatMap fun i =>
          let poly := vget outBSq i + vget c0BNext i - vget a0BNext i + vget c1Next i - vget a1Next i
          [nextSelK2 * (poly - vget nOut i), selGe3Next * (poly - vget nextInt0 i)]
        let nextSelSingle := nextSelHorner - anyNext
        let c3 := hornerSingle D nextSelSingle outNextB nC nA nOut
        let c4 := (ks.filter (· ≥ 3)).flatMap fun kk =>
          packedLegs D kmax kind ml extraMain acBase b bSq out (vget pl (extraPrep + selKIdx kk)) kk
            (kk + 1) 2 0
        c1 ++ c2 ++ c3 ++ c4
      else
        hornerSingle D nextSelHorner outNextB nC nA nOut
    cSep ++ cAdd ++ cMul ++ cBool ++ cMulAdd ++ horner

end

end P3R
