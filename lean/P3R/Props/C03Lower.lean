/-
C03 — lowering never drops a relation: soundness of the certificate checker `lowerCheck`.

`lower_check_sound`: if the check passes for a lowering `l` of builder state `b`, every
assignment `w` that satisfies the emitted ops satisfies, under `v e := w (slot e)`, the
defining relation of every node of the expression graph and the equality of every `connect`.
With `dedup_sat_back` (global theorem) and `fusion_check_sound` this gives, for every program
on which the two certificate checks pass, the full chain
  final ops ⇒ (repair product slots) ⇒ pre-fusion ops ⇒ (resolve) ⇒ lowered ops ⇒ source.
-/
import P3R.Model.LowerCheck
import P3R.Lemmas.Sat
import Mathlib.Tactic.Ring
import Mathlib.Tactic.LinearCombination

namespace P3R.C03
open P3R

variable {K : Type} [CommRing K] [DecidableEq K]

/-- Defining relation of node `i` under the expression valuation `v`. -/
def nodeRel (v pub : Nat → K) (i : Nat) : Expr K → Prop
  | .const c => v i = c
  | .pub pos => v i = pub pos
  | .priv _ => True
  | .add a b => v i = v a + v b
  | .sub a b => v i = v a - v b
  | .mul a b => v i = v a * v b
  | .div a b => v i * v b = v a
  | .horner acc al pz px => v i = v acc * v al + v pz - v px
  | .boolCheck x => v x * (v x - 1) = 0
  | .mulAdd a b c => v i = v a * v b + v c
  | .npCall _ _ => True
  | .npOut _ _ => True

theorem node_ok_sound (nodes : Array (Expr K)) (l : Lowered K) (ops : List (Op K)) (w pub : Nat → K)
    (hsat : Sat w pub ops) (i : Nat) (e : Expr K) (hok : nodeOk nodes l ops i e = true) :
    nodeRel (fun e => w (l.slot e)) pub i e := by
  cases e with
  | const c =>
    have := hsat _ (by simpa [nodeOk] using hok)
    simpa [nodeRel, Op.holds] using this
  | pub pos =>
    have := hsat _ (by simpa [nodeOk] using hok)
    simpa [nodeRel, Op.holds] using this
  | priv _ => trivial
  | npCall _ _ => trivial
  | npOut _ _ => trivial
  | add a b =>
    have := hsat _ (by simpa [nodeOk] using hok)
    simp only [Op.add, Op.holds] at this
    simp only [nodeRel]; rw [← this]
  | mul a b =>
    have := hsat _ (by simpa [nodeOk] using hok)
    simp only [Op.mul, Op.holds] at this
    simp only [nodeRel]; rw [← this]
  | div a b =>
    have := hsat _ (by simpa [nodeOk] using hok)
    simp only [Op.mul, Op.holds] at this
    simp only [nodeRel]; rw [← this]; ring
  | mulAdd a b c =>
    have := hsat _ (by simpa [nodeOk] using hok)
    simp only [Op.mulAdd, Op.holds] at this
    simp only [nodeRel]; rw [← this]
  | horner acc al pz px =>
    have := hsat _ (by simpa [nodeOk] using hok)
    simp only [Op.horner, Op.holds] at this
    simp only [nodeRel]; rw [← this]
  | boolCheck x =>
    simp only [nodeOk, List.any_eq_true] at hok
    obtain ⟨op, hop, hm⟩ := hok
    cases op with
    | alu k a b c out io =>
      cases k <;> simp at hm
      subst hm
      have := hsat _ hop
      simpa [nodeRel, Op.holds] using this
    | const _ _ => simp at hm
    | pub _ _ => simp at hm
    | hint _ _ _ => simp at hm
    | npo _ _ _ _ => simp at hm
  | sub a b =>
    simp only [nodeOk, Bool.or_eq_true, List.contains_iff_mem] at hok
    rcases hok with h1 | h2
    · have := hsat _ h1
      simp only [Op.add, Op.holds] at this
      simp only [nodeRel]; rw [← this]; ring
    · cases hb : nodes[b]? with
      | none => simp [hb] at h2
      | some eb =>
        cases eb with
        | const c =>
          simp only [hb, Bool.and_eq_true, List.contains_iff_mem, List.any_eq_true] at h2
          obtain ⟨hc, op, hop, hm⟩ := h2
          have hbv := hsat _ hc
          simp only [Op.holds] at hbv
          cases op with
          | const nw v =>
            simp only [Bool.and_eq_true, beq_iff_eq, List.contains_iff_mem] at hm
            obtain ⟨hv, hadd⟩ := hm
            have hnw := hsat _ hop
            have hadd' := hsat _ hadd
            simp only [Op.holds] at hnw
            simp only [Op.add, Op.holds] at hadd'
            simp only [nodeRel]
            rw [← hadd', hnw, hv, hbv]; ring
          | pub _ _ => simp at hm
          | alu _ _ _ _ _ _ => simp at hm
          | hint _ _ _ => simp at hm
          | npo _ _ _ _ => simp at hm
        | _ => simp [hb] at h2

/-- **C03 / lowering.** Soundness of the certificate check. -/
theorem lower_check_sound (b : BState K) (l : Lowered K) (hchk : lowerCheck b l = true)
    (w pub : Nat → K) (hsat : Sat w pub l.ops.toList) :
    (∀ i e, b.nodes[i]? = some e → nodeRel (fun e => w (l.slot e)) pub i e) ∧
    (∀ ab ∈ b.connects, w (l.slot ab.1) = w (l.slot ab.2)) := by
  unfold lowerCheck at hchk
  simp only [Bool.and_eq_true, List.all_eq_true, List.mem_range, beq_iff_eq] at hchk
  obtain ⟨hn, hc⟩ := hchk
  refine ⟨fun i e hi => ?_, fun ab hab => ?_⟩
  · have hlt : i < b.nodes.size := by
      by_contra hge
      have : b.nodes[i]? = none := Array.getElem?_eq_none (by omega)
      rw [this] at hi; cases hi
    have := hn i hlt
    rw [hi] at this
    exact node_ok_sound b.nodes l _ w pub hsat i e this
  · rw [(hc ab hab).2]

end P3R.C03
