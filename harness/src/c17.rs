//! C17 — recursion layers and aggregations chain, with or without cached preparation.
//! (Version for the tree with findings F10 / F10b repaired: reads `structure_digest`, knows the
//! refusal of `prove_next_layer`.)
//!
//! `p3r-harness layers --seed S --histories N --real quick|thorough|none --out DIR [--corpus DIR]`
//!
//! Two families of cases, both through the *real* `prove_next_layer`,
//! `prove_aggregation_layer`, `prove_aggregation_layer_cross`, `build_next_layer_prep`:
//!
//! * stub histories: generated call sequences on small generated circuits, with a
//!   `PcsRecursionBackend` that has no non-primitive tables and takes the circuit inputs from the
//!   `table_public_inputs` of its `RecursionInput` (the backend trait is the substitution point
//!   the API offers; the functions under test are unchanged);
//! * real histories: the FRI backend, uni-STARK and batch-STARK children, layer outputs fed to
//!   further layers.
//!
//! For every call the harness records what the real function did (stored data used or not,
//! whose data, content of the cache variable afterwards) in the line format of
//! `lean/MainC17.lean`, and judges the property directly (implementation oracle): outcome with
//! cache vs outcome of the same call without cache.

use std::collections::{BTreeMap, HashMap};
use std::panic::{AssertUnwindSafe, catch_unwind};
use std::rc::Rc;

use p3_circuit::{Circuit, CircuitBuilder, CircuitRunner, ExprId, NonPrimitiveOpId};
use p3_circuit_prover::CircuitProverData;
use p3_circuit_prover::common::get_airs_and_degrees_with_prep;
use p3_field::{PrimeCharacteristicRing, PrimeField64};
use p3_recursion::verifier::VerificationError;
use p3_recursion::{
    AggregationPrepCache, FriRecursionBackend, NextLayerPrepCache, PcsRecursionBackend, RecursionInput,
    RecursionOutput, VerifierCircuitResult, build_next_layer_prep, prove_aggregation_layer,
    prove_aggregation_layer_cross, prove_next_layer,
};
use p3_test_utils::koala_bear_params::F;
use serde_json::{Value, json};

use crate::c17_cfg::*;
use crate::prog::Call;
use crate::rng::Rng;

// ------------------------------------------------------------------ stub backend

/// A backend without non-primitive tables. `pack_public_inputs` reads the circuit's public
/// inputs from `table_public_inputs[0]` of the `BatchStark` input it is given.
pub struct StubBackend;
pub struct StubResult;

impl<A> VerifierCircuitResult<Cfg, A> for StubResult
where
    A: p3_recursion::RecursiveAir<F, EF, p3_lookup::logup::LogUpGadget>,
{
    fn pack_public_inputs(&self, prev: &RecursionInput<'_, Cfg, A>) -> Result<Vec<EF>, VerificationError> {
        match prev {
            RecursionInput::BatchStark { table_public_inputs, .. } => {
                Ok(table_public_inputs.first().map(|v| v.iter().map(|x| EF::from(*x)).collect()).unwrap_or_default())
            }
            _ => Err(VerificationError::InvalidProofShape("stub backend takes BatchStark inputs".into())),
        }
    }
    fn pack_private_inputs(&self, _prev: &RecursionInput<'_, Cfg, A>) -> Result<Vec<EF>, VerificationError> {
        Ok(vec![])
    }
    fn op_ids(&self) -> &[NonPrimitiveOpId] {
        &[]
    }
}

impl<A> PcsRecursionBackend<Cfg, A, DD> for StubBackend
where
    A: p3_recursion::RecursiveAir<F, EF, p3_lookup::logup::LogUpGadget>,
{
    type VerifierResult = StubResult;
    fn prepare_circuit(&self, _config: &Cfg, _circuit: &mut CircuitBuilder<EF>) -> Result<(), VerificationError> {
        Ok(())
    }
    fn build_verifier_circuit(
        &self,
        _prev: &RecursionInput<'_, Cfg, A>,
        _config: &Cfg,
        _circuit: &mut CircuitBuilder<EF>,
    ) -> Result<StubResult, VerificationError> {
        Ok(StubResult)
    }
    fn set_private_data(
        &self,
        _config: &Cfg,
        _runner: &mut CircuitRunner<'_, EF>,
        _op_ids: &[NonPrimitiveOpId],
        _prev: &RecursionInput<'_, Cfg, A>,
    ) -> Result<(), &'static str> {
        Ok(())
    }
}

pub type FriBackend = p3_recursion::FriRecursionBackendForExt<DD, 16, 8, p3_recursion::Poseidon2Config>;
pub fn fri_backend() -> FriBackend {
    FriRecursionBackend::<16, 8, _>::new(P2).for_extension_degree::<DD>()
}

/// What the engine needs from a backend (both implement the API trait for every AIR type).
pub trait Bk:
    PcsRecursionBackend<Cfg, TinyAir, DD, VerifierResult = <Self as Bk>::R>
    + PcsRecursionBackend<Cfg, p3_recursion::BatchOnly, DD>
{
    type R;
}
impl Bk for StubBackend {
    type R = StubResult;
}
impl Bk for FriBackend {
    type R = p3_recursion::backend::fri::FriVerifierResult<Cfg>;
}

// ------------------------------------------------------------------ inputs of a layer

pub enum Item {
    Uni { proof: p3_uni_stark::Proof<Cfg>, air: TinyAir },
    Batch(RecursionOutput<Cfg>),
    /// stub input: the public inputs this side contributes
    Stub(Vec<F>),
}

impl Item {
    pub fn input<'a>(&'a self, dummy: &'a RecursionOutput<Cfg>) -> RecursionInput<'a, Cfg, TinyAir> {
        match self {
            Item::Uni { proof, air } => {
                RecursionInput::UniStark { proof, air, public_inputs: vec![], preprocessed_commit: None }
            }
            Item::Batch(out) => out.into_recursion_input::<TinyAir>(),
            Item::Stub(pubs) => RecursionInput::BatchStark {
                proof: &dummy.0,
                common_data: &dummy.0.stark_common,
                table_public_inputs: vec![pubs.clone()],
            },
        }
    }
}

// ------------------------------------------------------------------ digests

fn fnv(h: &mut u64, x: u64) {
    for b in x.to_le_bytes() {
        *h ^= b as u64;
        *h = h.wrapping_mul(0x100000001b3);
    }
}

pub fn prep_digest(cpd: &CircuitProverData<Cfg>) -> u64 {
    let mut h = 0xcbf29ce484222325u64;
    for col in &cpd.primitive_columns {
        fnv(&mut h, col.len() as u64);
        for v in col {
            fnv(&mut h, v.as_canonical_u64());
        }
    }
    let mut np: Vec<(String, &Vec<F>)> = cpd.non_primitive_columns.iter().map(|(k, v)| (format!("{k:?}"), v)).collect();
    np.sort_by(|a, b| a.0.cmp(&b.0));
    for (k, v) in np {
        for b in k.bytes() {
            fnv(&mut h, b as u64);
        }
        fnv(&mut h, v.len() as u64);
        for x in v {
            fnv(&mut h, x.as_canonical_u64());
        }
    }
    h
}

pub fn circuit_digest(c: &Circuit<EF>) -> u64 {
    let mut h = 0xcbf29ce484222325u64;
    fnv(&mut h, c.witness_count as u64);
    fnv(&mut h, c.public_flat_len as u64);
    fnv(&mut h, c.private_flat_len as u64);
    for b in format!("{:?}", c.ops).bytes() {
        h ^= b as u64;
        h = h.wrapping_mul(0x100000001b3);
    }
    h
}

/// The parameter sets of `c17_cfg::packing` differ in their minimum trace height, which the
/// prover never changes (lane counts can be reduced for an empty table).
pub fn pk_id(p: &p3_circuit_prover::TablePacking) -> String {
    format!("mh{}", p.min_trace_height())
}

pub type Fp = (u64, u64, u64, u64);
pub fn direct_fp(c: &Circuit<EF>) -> Fp {
    (c.witness_count as u64, c.public_flat_len as u64, c.private_flat_len as u64, c.ops.len() as u64)
}

// ------------------------------------------------------------------ engine

#[derive(Clone, Copy, Debug, PartialEq, Eq, Hash, PartialOrd, Ord)]
pub enum Kind {
    Agg,
    Cross,
    Next,
}
impl Kind {
    pub fn name(&self) -> &'static str {
        match self {
            Kind::Agg => "agg",
            Kind::Cross => "cross",
            Kind::Next => "next",
        }
    }
}

/// One registered verification circuit with the inputs that satisfy it.
pub struct Circ<B: Bk> {
    pub cid: usize,
    pub circuit: Circuit<EF>,
    pub fp: Fp,
    pub cls: usize,
    /// one-input use (`prove_next_layer`): item index and verifier result
    pub next_in: Option<(usize, B::R)>,
    /// two-input use: items and verifier results
    pub agg_in: Option<(usize, usize, B::R, B::R)>,
    /// builder program (stub circuits) for the model
    pub program: Option<Vec<Call>>,
    pub desc: String,
    /// which inputs `next_in` / `agg_in` currently refer to (real family re-targets them)
    pub inputs_sig: u64,
}

#[derive(Clone, Debug, PartialEq)]
pub enum Outcome {
    Verifies,
    Rejected(String),
    Err(String),
    Panic(String),
}
impl Outcome {
    pub fn tag(&self) -> &'static str {
        match self {
            Outcome::Verifies => "verifies",
            Outcome::Rejected(_) => "proof-rejected",
            Outcome::Err(_) => "refused-with-error",
            Outcome::Panic(_) => "panic",
        }
    }
    pub fn detail(&self) -> String {
        match self {
            Outcome::Verifies => String::new(),
            Outcome::Rejected(s) | Outcome::Err(s) | Outcome::Panic(s) => s.chars().take(160).collect(),
        }
    }
}

pub struct Obs {
    pub outcome: Outcome,
    pub hit: bool,
    /// (digest of the prover data the output carries, packing recorded in the proof)
    pub used: Option<(u64, String)>,
    pub out: Option<RecursionOutput<Cfg>>,
}

#[derive(Clone, Debug, PartialEq, Eq, Hash)]
pub struct StepSpec {
    pub kind: Kind,
    pub cid: usize,
    pub pid: usize,
    pub slot: Option<usize>,
    pub prep: Option<(usize, usize)>,
}
impl StepSpec {
    pub fn token(&self) -> String {
        let o = |x: Option<usize>| x.map(|v| v.to_string()).unwrap_or_else(|| "-".into());
        match self.kind {
            Kind::Next => format!(
                "next:{}:{}:{}:{}",
                self.cid,
                self.pid,
                o(self.prep.map(|p| p.0)),
                o(self.prep.map(|p| p.1))
            ),
            k => format!("{}:{}:{}:{}", k.name(), self.cid, self.pid, o(self.slot)),
        }
    }
}

pub struct Engine<B: Bk> {
    pub cfg: Cfg,
    pub backend: B,
    pub dummy: RecursionOutput<Cfg>,
    pub items: Vec<Item>,
    pub circs: Vec<Circ<B>>,
    pub by_digest: HashMap<u64, usize>,
    /// preparation class: digest of the preprocessed columns under packing 0 → first cid
    pub cls_by_prep: HashMap<u64, usize>,
    /// reference (uncached) result per (one/two-input, cid, pid)
    pub reference: HashMap<(bool, usize, usize), (Outcome, Option<(u64, String)>)>,
    /// (digest, packing in the proof) → job; (digest, packing requested) → job
    pub by_proof_ident: HashMap<(u64, String), (usize, usize)>,
    pub by_req_ident: HashMap<(u64, String), (usize, usize)>,
    pub preps: HashMap<(usize, usize), NextLayerPrepCache<Cfg>>,
    pub proofs_made: usize,
    pub cid_base: usize,
}

fn panic_msg(p: Box<dyn std::any::Any + Send>) -> String {
    p.downcast_ref::<String>().cloned().or_else(|| p.downcast_ref::<&str>().map(|s| s.to_string())).unwrap_or_default()
}

impl<B: Bk> Engine<B> {
    pub fn new(cfg: Cfg, backend: B, dummy: RecursionOutput<Cfg>, cid_base: usize) -> Self {
        Self {
            cfg,
            backend,
            dummy,
            items: vec![],
            circs: vec![],
            by_digest: HashMap::new(),
            cls_by_prep: HashMap::new(),
            reference: HashMap::new(),
            by_proof_ident: HashMap::new(),
            by_req_ident: HashMap::new(),
            preps: HashMap::new(),
            proofs_made: 0,
            cid_base,
        }
    }

    pub fn circ(&self, cid: usize) -> &Circ<B> {
        &self.circs[cid - self.cid_base]
    }

    /// Digest of the preprocessed columns the real preparation computes for (circuit, packing).
    fn columns_digest(&self, circuit: &Circuit<EF>, pid: usize) -> Result<u64, String> {
        let preprocessors = <B as PcsRecursionBackend<Cfg, TinyAir, DD>>::non_primitive_preprocessors(&self.backend);
        let air_builders = <B as PcsRecursionBackend<Cfg, TinyAir, DD>>::non_primitive_air_builders(&self.backend);
        let (_, prim, nonprim) = get_airs_and_degrees_with_prep::<Cfg, EF, DD>(
            circuit,
            &packing(pid),
            &preprocessors,
            &air_builders,
            p3_circuit_prover::ConstraintProfile::Standard,
        )
        .map_err(|e| format!("{e:?}"))?;
        let mut h = 0xcbf29ce484222325u64;
        for col in &prim {
            fnv(&mut h, col.len() as u64);
            for v in col {
                fnv(&mut h, v.as_canonical_u64());
            }
        }
        let mut np: Vec<(String, &Vec<F>)> = nonprim.iter().map(|(k, v)| (format!("{k:?}"), v)).collect();
        np.sort_by(|a, b| a.0.cmp(&b.0));
        for (k, v) in np {
            for b in k.bytes() {
                fnv(&mut h, b as u64);
            }
            fnv(&mut h, v.len() as u64);
            for x in v {
                fnv(&mut h, x.as_canonical_u64());
            }
        }
        Ok(h)
    }

    /// Register a circuit (identical circuits get the same id). Returns the cid.
    pub fn register(
        &mut self,
        circuit: Circuit<EF>,
        next_in: Option<(usize, B::R)>,
        agg_in: Option<(usize, usize, B::R, B::R)>,
        program: Option<Vec<Call>>,
        desc: String,
    ) -> usize {
        let d = circuit_digest(&circuit);
        if let Some(&cid) = self.by_digest.get(&d) {
            return cid;
        }
        let cid = self.cid_base + self.circs.len();
        let pd = self.columns_digest(&circuit, 0).unwrap_or(d);
        let cls = *self.cls_by_prep.entry(pd).or_insert(cid);
        let fp = direct_fp(&circuit);
        self.by_digest.insert(d, cid);
        self.circs.push(Circ { cid, circuit, fp, cls, next_in, agg_in, program, desc, inputs_sig: u64::MAX });
        cid
    }

    /// One call of the real API. `slot`: the caller's cache variable, `prep`: a prepared cache.
    pub fn call(
        &mut self,
        kind: Kind,
        cid: usize,
        pid: usize,
        slot: Option<&mut Option<AggregationPrepCache<Cfg>>>,
        prep: Option<(usize, usize)>,
    ) -> Obs {
        self.proofs_made += 1;
        let c = &self.circs[cid - self.cid_base];
        let prm = params(pid);
        let before: Option<*const CircuitProverData<Cfg>> = match (&slot, prep) {
            (Some(s), _) => s.as_ref().map(|e| Rc::as_ptr(&e.circuit_prover_data)),
            (None, Some(pj)) => self.preps.get(&pj).map(|p| Rc::as_ptr(&p.circuit_prover_data)),
            _ => None,
        };
        let res = catch_unwind(AssertUnwindSafe(|| -> Result<RecursionOutput<Cfg>, VerificationError> {
            match kind {
                Kind::Next => {
                    let (it, r) = c.next_in.as_ref().expect("circuit has no one-input use");
                    let input = self.items[*it].input(&self.dummy);
                    let p = prep.map(|pj| self.preps.get(&pj).expect("prep built before the call"));
                    prove_next_layer::<Cfg, TinyAir, B, DD>(&input, &c.circuit, r, &self.cfg, &self.backend, &prm, p)
                }
                Kind::Agg => {
                    let (l, r, lr, rr) = c.agg_in.as_ref().expect("circuit has no two-input use");
                    let li = self.items[*l].input(&self.dummy);
                    let ri = self.items[*r].input(&self.dummy);
                    prove_aggregation_layer::<Cfg, TinyAir, TinyAir, B, DD>(
                        &li, &ri, lr, rr, &c.circuit, &self.cfg, &self.backend, &prm, slot,
                    )
                }
                Kind::Cross => {
                    let (l, r, lr, rr) = c.agg_in.as_ref().expect("circuit has no two-input use");
                    let li = self.items[*l].input(&self.dummy);
                    let ri = self.items[*r].input(&self.dummy);
                    prove_aggregation_layer_cross::<Cfg, Cfg, TinyAir, TinyAir, B, DD>(
                        &li, &ri, lr, rr, &c.circuit, &self.cfg, &self.cfg, &self.backend, &prm, slot,
                    )
                }
            }
        }));
        match res {
            Err(p) => Obs { outcome: Outcome::Panic(panic_msg(p)), hit: false, used: None, out: None },
            Ok(Err(e)) => Obs { outcome: Outcome::Err(format!("{e:?}")), hit: false, used: None, out: None },
            Ok(Ok(out)) => {
                let hit = before == Some(Rc::as_ptr(&out.1));
                let used = (prep_digest(&out.1), pk_id(&out.0.table_packing));
                // the caller's verifier: built from the current params, as in the examples
                let v = layer_verifier(&self.cfg, pid);
                let verdict = catch_unwind(AssertUnwindSafe(|| v.verify_all_tables::<EF>(&out.0)));
                let outcome = match verdict {
                    Ok(Ok(())) => Outcome::Verifies,
                    Ok(Err(e)) => Outcome::Rejected(format!("{e:?}")),
                    Err(p) => Outcome::Rejected(format!("verifier panic: {}", panic_msg(p))),
                };
                Obs { outcome, hit, used: Some(used), out: Some(out) }
            }
        }
    }

    /// The same call without any cache (memoised). Also records whose data is whose.
    pub fn reference(&mut self, kind: Kind, cid: usize, pid: usize) -> (Outcome, Option<RecursionOutput<Cfg>>) {
        let two = kind != Kind::Next;
        if let Some((o, _)) = self.reference.get(&(two, cid, pid)) {
            return (o.clone(), None);
        }
        let k = if two { Kind::Agg } else { Kind::Next };
        let obs = self.call(k, cid, pid, None, None);
        if let Some(u) = &obs.used {
            self.by_proof_ident.entry(u.clone()).or_insert((cid, pid));
            self.by_req_ident.entry((u.0, pk_id(&packing(pid)))).or_insert((cid, pid));
        }
        self.reference.insert((two, cid, pid), (obs.outcome.clone(), obs.used.clone()));
        (obs.outcome, obs.out)
    }

    pub fn ensure_prep(&mut self, job: (usize, usize)) -> Result<(), String> {
        if self.preps.contains_key(&job) {
            return Ok(());
        }
        let c = &self.circs[job.0 - self.cid_base];
        let r = catch_unwind(AssertUnwindSafe(|| {
            build_next_layer_prep::<Cfg, TinyAir, B, DD>(&c.circuit, &self.cfg, &self.backend, &params(job.1))
        }));
        match r {
            Ok(Ok(p)) => {
                let d = prep_digest(&p.circuit_prover_data);
                self.by_req_ident.entry((d, pk_id(&packing(job.1)))).or_insert(job);
                self.preps.insert(job, p);
                Ok(())
            }
            Ok(Err(e)) => Err(format!("{e:?}")),
            Err(p) => Err(format!("panic: {}", panic_msg(p))),
        }
    }

    pub fn job_str(&self, job: Option<(usize, usize)>) -> String {
        match job {
            Some((cid, pid)) => format!("{}.{}", self.circ(cid).cls, pid),
            None => "?".into(),
        }
    }
}

// ------------------------------------------------------------------ running one history

pub struct HistResult {
    pub line: String,
    pub violations: Vec<Value>,
    pub tags: Vec<String>,
    /// outputs of the steps (for chaining), `None` where the call failed
    pub outs: Vec<Option<RecursionOutput<Cfg>>>,
}

pub struct HistRunner {
    pub slots: Vec<Option<AggregationPrepCache<Cfg>>>,
    pub line: String,
    pub violations: Vec<Value>,
    pub tags: Vec<String>,
    pub outs: Vec<Option<RecursionOutput<Cfg>>>,
}

impl HistRunner {
    pub fn new() -> Self {
        Self { slots: vec![], line: String::from("hist"), violations: vec![], tags: vec![], outs: vec![] }
    }
    pub fn finish(self) -> HistResult {
        HistResult { line: self.line, violations: self.violations, tags: self.tags, outs: self.outs }
    }
    /// One call of the history: reference run, the call itself with the history's cache state,
    /// the model-comparable record, the oracle.
    pub fn step<B: Bk>(&mut self, eng: &mut Engine<B>, i: usize, st: &StepSpec, family: &str, replay: &Value) {
        // references first: the uncached outcome of this job, and of the jobs whose data may be offered
        let (ref_outcome, _) = eng.reference(st.kind, st.cid, st.pid);
        if let Some(pj) = st.prep {
            let _ = eng.reference(Kind::Next, pj.0, pj.1);
            if let Err(e) = eng.ensure_prep(pj) {
                self.line.push_str(&format!(" | {} prep-build-failed", st.kind.name()));
                self.violations.push(json!({"property": "C17", "kind": "oracle", "class": "build-next-layer-prep-failed",
                    "step": i, "detail": e, "replay": replay}));
                self.outs.push(None);
                return;
            }
        }
        if let Some(k) = st.slot {
            while self.slots.len() <= k {
                self.slots.push(None);
            }
        }
        // whose data is offered to this call (observed on the real cache variable / the prep)
        let offered: Option<(usize, usize)> = match (st.slot, st.prep) {
            (Some(k), _) => self.slots[k].as_ref().and_then(|e| {
                eng.by_req_ident
                    .get(&(prep_digest(&e.circuit_prover_data), pk_id(e.prover.table_packing())))
                    .copied()
            }),
            (None, Some(pj)) => Some(pj),
            _ => None,
        };
        // the stored fingerprint is read from the real cache variable (the value the real
        // `aggregation_circuit_fingerprint` computed); a `NextLayerPrepCache` stores none, there the
        // counters of the circuit it was built for are shown
        let offered_fp: Option<Fp> = match st.slot {
            Some(k) => self.slots[k].as_ref().map(|e| {
                let f = e.circuit_fingerprint;
                (f.witness_count as u64, f.public_flat_len as u64, f.private_flat_len as u64, f.ops_len as u64)
            }),
            None => st.prep.map(|pj| eng.circ(pj.0).fp),
        };
        // the structure digest stored by the repaired code (cache variable or prepared cache)
        let offered_digest: Option<u64> = match (st.slot, st.prep) {
            (Some(k), _) => self.slots[k].as_ref().map(|e| e.circuit_fingerprint.structure_digest),
            (None, Some(pj)) => eng.preps.get(&pj).map(|p| p.circuit_fingerprint.structure_digest),
            _ => None,
        };
        let obs = {
            let slot = st.slot.map(|k| {
                // split borrow: take the slot out, put it back after the call
                std::mem::take(&mut self.slots[k])
            });
            match slot {
                Some(mut s) => {
                    let o = eng.call(st.kind, st.cid, st.pid, Some(&mut s), None);
                    self.slots[st.slot.unwrap()] = s;
                    o
                }
                None => eng.call(st.kind, st.cid, st.pid, None, st.prep),
            }
        };
        let job_cls = eng.circ(st.cid).cls;
        let cache_offered = st.slot.is_some() || st.prep.is_some();
        // ---- model-comparable record
        let slot_str = match st.slot {
            Some(k) => match self.slots[k].as_ref() {
                Some(e) => eng.job_str(
                    eng.by_req_ident
                        .get(&(prep_digest(&e.circuit_prover_data), pk_id(e.prover.table_packing())))
                        .copied(),
                ),
                None => "-".into(),
            },
            None => "-".into(),
        };
        match &obs.used {
            Some(u) => {
                let used_job = eng.by_proof_ident.get(u).copied();
                let eq = match used_job {
                    Some((ucid, _)) if eng.circ(ucid).cls == job_cls => "1",
                    _ => "?K",
                };
                self.line.push_str(&format!(
                    " | {} hit={} used={} slot={} eq={}",
                    st.kind.name(),
                    obs.hit as u8,
                    eng.job_str(used_job),
                    slot_str,
                    eq
                ));
            }
            None => {
                // the refusal of the repaired `prove_next_layer` is an outcome of its own
                let refused_prep = st.kind == Kind::Next
                    && st.prep.is_some()
                    && matches!(&obs.outcome, Outcome::Err(m) if m.contains("NextLayerPrepCache was built for a different verification circuit"));
                if refused_prep {
                    self.line.push_str(" | next refused");
                } else {
                    self.line.push_str(&format!(" | {} fail={}", st.kind.name(), obs.outcome.tag()));
                }
            }
        }
        // ---- implementation oracle
        let stale = offered.map(|(ocid, _)| eng.circ(ocid).cls != job_cls).unwrap_or(false);
        let tag = format!(
            "{}.{}.{}",
            st.kind.name(),
            if !cache_offered {
                "no-cache"
            } else if offered.is_none() {
                "empty-cache"
            } else if stale {
                if offered_fp.map(|f| f == eng.circ(st.cid).fp).unwrap_or(true) { "other-circuit-same-counters" } else { "other-circuit-other-counters" }
            } else if offered.map(|o| o.1 != st.pid).unwrap_or(false) {
                "same-circuit-other-params"
            } else {
                "same-circuit-same-params"
            },
            obs.outcome.tag()
        );
        self.tags.push(tag);
        if ref_outcome != Outcome::Verifies {
            // chaining / completeness half: an honest layer must prove and verify without cache
            self.violations.push(json!({"property": "C17", "kind": "oracle",
                "class": format!("uncached-layer-{}", ref_outcome.tag()),
                "family": family, "step": i, "detail": ref_outcome.detail(), "replay": replay}));
        } else if cache_offered && obs.outcome.tag() != ref_outcome.tag() {
            let refused = matches!(obs.outcome, Outcome::Err(_));
            // a refusal is what the property allows whenever the offered data was prepared for another
            // circuit, also one whose preprocessed columns happen to coincide (constants only)
            let other_circuit = offered.map(|o| o.0 != st.cid).unwrap_or(false);
            if !((stale || other_circuit) && refused) {
                let class = if stale {
                    match st.kind {
                        Kind::Next => "next-layer-prep-for-other-circuit-used-unchecked".to_string(),
                        _ => {
                            if offered_fp.map(|f| f == eng.circ(st.cid).fp).unwrap_or(false) {
                                "agg-cache-hit-on-equal-counters-of-other-circuit".to_string()
                            } else {
                                "agg-cache-used-despite-different-counters".to_string()
                            }
                        }
                    }
                } else {
                    format!("cached-{}-uncached-verifies-same-circuit", obs.outcome.tag())
                };
                self.violations.push(json!({"property": "C17", "kind": "oracle", "class": class, "family": family,
                    "step": i, "call": st.token(),
                    "offered_job": offered.map(|o| format!("{}.{}", o.0, o.1)),
                    "current_circuit": eng.circ(st.cid).desc, "offered_circuit": offered.map(|o| eng.circ(o.0).desc.clone()),
                    "fingerprint": format!("{:?}", eng.circ(st.cid).fp), "offered_fingerprint": offered_fp.map(|f| format!("{f:?}")),
                    "offered_structure_digest": offered_digest.map(|d| format!("{d:016x}")),
                    "cached_outcome": obs.outcome.tag(), "cached_detail": obs.outcome.detail(),
                    "uncached_outcome": ref_outcome.tag(), "replay": replay}));
            }
        }
        self.outs.push(obs.out);
    }
}

pub fn run_history<B: Bk>(eng: &mut Engine<B>, steps: &[StepSpec], family: &str, replay: &Value) -> HistResult {
    let mut r = HistRunner::new();
    for (i, st) in steps.iter().enumerate() {
        r.step(eng, i, st, family, replay);
    }
    r.finish()
}

// ------------------------------------------------------------------ stub circuits

/// Evaluate a call list on base-field values; returns the value of every expression id.
fn eval_calls(calls: &[Call], rets: &[Vec<u32>], pubs: &[F]) -> HashMap<u32, F> {
    let mut v: HashMap<u32, F> = HashMap::new();
    v.insert(0, F::ZERO);
    let mut np = 0;
    for (c, r) in calls.iter().zip(rets) {
        let g = |m: &HashMap<u32, F>, x: &u32| *m.get(x).unwrap_or(&F::ZERO);
        match c {
            Call::Const(k) => {
                v.insert(r[0], F::from_u64(*k));
            }
            Call::Pub => {
                v.insert(r[0], pubs.get(np).copied().unwrap_or(F::ZERO));
                np += 1;
            }
            Call::Add(a, b) => {
                let x = g(&v, a) + g(&v, b);
                v.insert(r[0], x);
            }
            Call::Sub(a, b) => {
                let x = g(&v, a) - g(&v, b);
                v.insert(r[0], x);
            }
            Call::Mul(a, b) => {
                let x = g(&v, a) * g(&v, b);
                v.insert(r[0], x);
            }
            _ => {}
        }
    }
    v
}

fn apply_ef(b: &mut CircuitBuilder<EF>, c: &Call) -> Vec<u32> {
    let e = |x: &u32| ExprId(*x);
    match c {
        Call::Const(v) => vec![b.define_const(EF::from(F::from_u64(*v))).0],
        Call::Pub => vec![b.public_input().0],
        Call::Add(x, y) => vec![b.add(e(x), e(y)).0],
        Call::Sub(x, y) => vec![b.sub(e(x), e(y)).0],
        Call::Mul(x, y) => vec![b.mul(e(x), e(y)).0],
        Call::Conn(x, y) => {
            b.connect(e(x), e(y));
            vec![]
        }
        _ => panic!("call not in the C17 stub grammar"),
    }
}

/// A stub circuit description: `npub` free public inputs, a chain of operations, the result
/// connected to one more public input.
#[derive(Clone, Debug, PartialEq, Eq, Hash)]
pub struct StubDesc {
    pub npub: usize,
    /// (op: 0 add 1 mul 2 sub, lhs, rhs) where operand n < npub is public n, n = npub + i is the
    /// result of chain op i, n >= 1000 is the constant n - 1000
    pub ops: Vec<(u8, usize, usize)>,
}

impl StubDesc {
    pub fn text(&self) -> String {
        let o = |n: usize| {
            if n >= 1000 {
                format!("{}", n - 1000)
            } else if n < self.npub {
                format!("p{n}")
            } else {
                format!("t{}", n - self.npub)
            }
        };
        let body: Vec<String> = self
            .ops
            .iter()
            .enumerate()
            .map(|(i, (k, a, b))| format!("t{i}={}{}{}", o(*a), ["+", "*", "-"][*k as usize], o(*b)))
            .collect();
        format!("pub{} {} z=t{}", self.npub, body.join(" "), self.ops.len().saturating_sub(1))
    }
    pub fn to_json(&self) -> Value {
        json!({"npub": self.npub, "ops": self.ops.iter().map(|(k, a, b)| json!([k, a, b])).collect::<Vec<_>>()})
    }
    pub fn from_json(v: &Value) -> Option<Self> {
        let npub = v["npub"].as_u64()? as usize;
        let ops = v["ops"]
            .as_array()?
            .iter()
            .map(|o| Some((o[0].as_u64()? as u8, o[1].as_u64()? as usize, o[2].as_u64()? as usize)))
            .collect::<Option<Vec<_>>>()?;
        Some(Self { npub, ops })
    }
}

/// Build the stub circuit with the real builder; returns (calls, circuit, satisfying publics).
pub fn build_stub(d: &StubDesc, xs: &[u64]) -> Result<(Vec<Call>, Circuit<EF>, Vec<F>), String> {
    let mut b = CircuitBuilder::<EF>::new();
    let mut calls = vec![];
    let mut rets = vec![];
    let mut do_call = |b: &mut CircuitBuilder<EF>, c: Call| -> Vec<u32> {
        let r = apply_ef(b, &c);
        calls.push(c);
        rets.push(r.clone());
        r
    };
    let mut pub_ids = vec![];
    for _ in 0..d.npub + 1 {
        pub_ids.push(do_call(&mut b, Call::Pub)[0]);
    }
    let mut t_ids: Vec<u32> = vec![];
    for (k, a, bb) in &d.ops {
        let mut opnd = |b: &mut CircuitBuilder<EF>, n: usize, t_ids: &Vec<u32>| -> u32 {
            if n >= 1000 {
                do_call(b, Call::Const((n - 1000) as u64))[0]
            } else if n < d.npub {
                pub_ids[n]
            } else {
                t_ids[n - d.npub]
            }
        };
        let x = opnd(&mut b, *a, &t_ids);
        let y = opnd(&mut b, *bb, &t_ids);
        let c = match k {
            0 => Call::Add(x, y),
            1 => Call::Mul(x, y),
            _ => Call::Sub(x, y),
        };
        t_ids.push(do_call(&mut b, c)[0]);
    }
    let last = *t_ids.last().ok_or("empty chain")?;
    do_call(&mut b, Call::Conn(last, pub_ids[d.npub]));
    let mut pubs: Vec<F> = (0..d.npub).map(|i| F::from_u64(xs[i % xs.len()])).collect();
    pubs.push(F::ZERO);
    let vals = eval_calls(&calls, &rets, &pubs);
    pubs[d.npub] = *vals.get(&last).ok_or("no value for the result")?;
    let circuit = b.build().map_err(|e| format!("{e:?}"))?;
    Ok((calls, circuit, pubs))
}

impl Engine<StubBackend> {
    pub fn add_stub(&mut self, d: &StubDesc, xs: &[u64]) -> Result<usize, String> {
        let (calls, circuit, pubs) = build_stub(d, xs)?;
        let dg = circuit_digest(&circuit);
        if let Some(&cid) = self.by_digest.get(&dg) {
            return Ok(cid);
        }
        let half = pubs.len().div_ceil(2);
        let base = self.items.len();
        self.items.push(Item::Stub(pubs.clone()));
        self.items.push(Item::Stub(pubs[..half].to_vec()));
        self.items.push(Item::Stub(pubs[half..].to_vec()));
        Ok(self.register(
            circuit,
            Some((base, StubResult)),
            Some((base + 1, base + 2, StubResult, StubResult)),
            Some(calls),
            d.text(),
        ))
    }
}

fn gen_stub(rng: &mut Rng) -> StubDesc {
    let npub = rng.range(2, 3);
    let len = rng.range(1, 3);
    let mut ops = vec![];
    for i in 0..len {
        let k = *rng.pick(&[0u8, 1, 1, 2]);
        let mut pick = |rng: &mut Rng| -> usize {
            let r = rng.below(10);
            if r < 1 {
                1000 + rng.range(2, 9)
            } else if i > 0 && r < 5 {
                npub + i - 1
            } else {
                rng.usize(npub)
            }
        };
        let a = if i > 0 { npub + i - 1 } else { pick(rng) };
        let b = pick(rng);
        ops.push((k, a, b));
    }
    StubDesc { npub, ops }
}

/// A neighbour of `d`: same sizes with other wiring / other operation / other constant, or one
/// more operation.
fn mutate_stub(rng: &mut Rng, d: &StubDesc) -> StubDesc {
    let mut m = d.clone();
    let i = rng.usize(m.ops.len());
    match rng.below(5) {
        0 | 1 => {
            // rewire the right operand to another public input
            m.ops[i].2 = (m.ops[i].2 + 1 + rng.usize(d.npub.max(2) - 1)) % d.npub;
        }
        2 => m.ops[i].0 = if m.ops[i].0 == 1 { 0 } else { 1 },
        3 => {
            m.ops[i].2 = 1000 + rng.range(2, 9);
        }
        _ => {
            let last = d.npub + d.ops.len() - 1;
            m.ops.push((1, last, rng.usize(d.npub)));
        }
    }
    m
}

fn gen_history(rng: &mut Rng, pool: &[usize], partners: &HashMap<usize, Vec<usize>>) -> Vec<StepSpec> {
    let n = rng.range(2, 5);
    let mut steps: Vec<StepSpec> = vec![];
    let mut last_cid = *rng.pick(pool);
    for _ in 0..n {
        // next circuit: the same, a partner with equal counters, or any
        let cid = match rng.below(10) {
            0..=2 => last_cid,
            3..=6 => partners.get(&last_cid).filter(|v| !v.is_empty()).map(|v| *rng.pick(v)).unwrap_or(last_cid),
            _ => *rng.pick(pool),
        };
        last_cid = cid;
        let pid = if rng.chance(3, 4) { 0 } else { rng.range(1, NUM_PIDS - 1) };
        let kind = match rng.below(20) {
            0..=9 => Kind::Agg,
            10..=12 => Kind::Cross,
            _ => Kind::Next,
        };
        let (slot, prep) = if kind == Kind::Next {
            let prep = match rng.below(20) {
                0..=4 => None,
                5..=10 => Some((cid, pid)),
                11..=16 if !steps.is_empty() => {
                    let s = rng.pick(&steps);
                    Some((s.cid, s.pid))
                }
                _ => Some((*rng.pick(pool), 0)),
            };
            (None, prep)
        } else {
            let slot = match rng.below(10) {
                0..=1 => None,
                2..=7 => Some(0),
                _ => Some(1),
            };
            (slot, None)
        };
        steps.push(StepSpec { kind, cid, pid, slot, prep });
    }
    steps
}

fn spec_json(s: &StepSpec) -> Value {
    json!({"kind": s.kind.name(), "circuit": s.cid, "params": s.pid, "slot": s.slot, "prep": s.prep.map(|p| json!([p.0, p.1]))})
}

fn spec_from_json(v: &Value) -> Option<StepSpec> {
    let kind = match v["kind"].as_str()? {
        "agg" => Kind::Agg,
        "cross" => Kind::Cross,
        "next" => Kind::Next,
        _ => return None,
    };
    Some(StepSpec {
        kind,
        cid: v["circuit"].as_u64()? as usize,
        pid: v["params"].as_u64()? as usize,
        slot: v["slot"].as_u64().map(|x| x as usize),
        prep: v["prep"].as_array().map(|a| (a[0].as_u64().unwrap_or(0) as usize, a[1].as_u64().unwrap_or(0) as usize)),
    })
}

// ------------------------------------------------------------------ output

pub struct Sink {
    pub cases: Vec<String>,
    pub impl_: Vec<String>,
    pub violations: Vec<Value>,
    pub hist: BTreeMap<String, u64>,
    pub samples: Vec<String>,
    pub distinct: std::collections::HashSet<String>,
    pub evaluations: u64,
    pub reproduced: Vec<String>,
    /// (cid, rendering of ops + row maps) of every program circuit emitted so far: two *programs* may
    /// compile to one and the same structure, and `sid` is the first circuit with that structure
    pub structs: Vec<(usize, String)>,
}

impl Sink {
    pub fn emit_circ<B: Bk>(&mut self, c: &Circ<B>) {
        match &c.program {
            Some(calls) => {
                self.cases.push(format!("circ {} kb", c.cid));
                for cl in calls {
                    self.cases.push(cl.line());
                }
                self.cases.push("endcirc".into());
                let rendering = format!("{:?}|{:?}|{:?}", c.circuit.ops, c.circuit.public_rows, c.circuit.private_input_rows);
                let sid = match self.structs.iter().find(|(_, r)| *r == rendering) {
                    Some((first, _)) => *first,
                    None => {
                        self.structs.push((c.cid, rendering));
                        c.cid
                    }
                };
                self.impl_.push(format!("circ {} fp {} {} {} {} cls {} sid {}", c.cid, c.fp.0, c.fp.1, c.fp.2, c.fp.3, c.cls, sid));
            }
            None => {
                self.cases.push(format!("ext {} {} {} {} {} {}", c.cid, c.fp.0, c.fp.1, c.fp.2, c.fp.3, c.cls));
                self.impl_.push(format!("ext {}", c.cid));
            }
        }
    }
    pub fn emit_hist(&mut self, steps: &[StepSpec], r: HistResult) {
        let case = format!("hist {}", steps.iter().map(|s| s.token()).collect::<Vec<_>>().join(" "));
        self.distinct.insert(case.clone());
        if self.samples.len() < 8 {
            self.samples.push(format!("{case}  =>  {}", r.line));
        }
        self.cases.push(case);
        self.impl_.push(r.line);
        self.evaluations += steps.len() as u64;
        for t in r.tags {
            *self.hist.entry(t).or_insert(0) += 1;
        }
        *self.hist.entry(format!("history-length.{}", steps.len())).or_insert(0) += 1;
        self.violations.extend(r.violations);
    }
}

// ------------------------------------------------------------------ stub run

fn run_stub(args: &crate::Args, cfg: &Cfg, dummy: &RecursionOutput<Cfg>, sink: &mut Sink) {
    let seed = args.u64("seed", 1);
    let n_hist = args.u64("histories", 40) as usize;
    let mut rng = Rng::new(seed ^ 0xC17);
    let mut eng = Engine::new(cfg.clone(), StubBackend, RecursionOutput(clone_proof(&dummy.0), dummy.1.clone()), 0);
    let mut emitted = 0usize;
    // corpus first
    if let Some(dir) = args.opt("corpus") {
        let mut files: Vec<_> = std::fs::read_dir(&dir).map(|d| d.filter_map(|e| e.ok()).map(|e| e.path()).collect()).unwrap_or_default();
        files.sort();
        for f in files {
            let Ok(txt) = std::fs::read_to_string(&f) else { continue };
            let Ok(v) = serde_json::from_str::<Value>(&txt) else { continue };
            let v = if v.get("replay").is_some() { v["replay"].clone() } else { v };
            if v["family"].as_str() != Some("stub") {
                continue;
            }
            let Some(descs) = v["circuits"].as_array() else { continue };
            let xs: Vec<u64> = v["inputs"].as_array().map(|a| a.iter().filter_map(|x| x.as_u64()).collect()).unwrap_or_else(|| vec![3, 5, 7]);
            let mut cids = vec![];
            for d in descs {
                if let Some(d) = StubDesc::from_json(d) {
                    match eng.add_stub(&d, &xs) {
                        Ok(c) => cids.push(c),
                        Err(_) => cids.push(usize::MAX),
                    }
                }
            }
            let steps: Option<Vec<StepSpec>> = v["steps"].as_array().map(|a| {
                a.iter()
                    .filter_map(spec_from_json)
                    .map(|mut s| {
                        s.cid = *cids.get(s.cid).unwrap_or(&usize::MAX);
                        s.prep = s.prep.map(|p| (*cids.get(p.0).unwrap_or(&usize::MAX), p.1));
                        s
                    })
                    .collect()
            });
            let Some(steps) = steps else { continue };
            if steps.iter().any(|s| s.cid == usize::MAX || s.prep.map(|p| p.0 == usize::MAX).unwrap_or(false)) {
                continue;
            }
            while emitted < eng.circs.len() {
                sink.emit_circ(&eng.circs[emitted]);
                emitted += 1;
            }
            let r = run_history(&mut eng, &steps, "stub", &v);
            if !r.violations.is_empty() {
                sink.reproduced.push(f.file_name().unwrap().to_string_lossy().to_string());
            }
            sink.emit_hist(&steps, r);
        }
    }
    if args.u64("generate", 1) == 0 {
        return;
    }
    let mut done = 0;
    while done < n_hist {
        // a pool: a few base circuits and neighbours of each
        let xs: Vec<u64> = vec![rng.range(2, 40) as u64, rng.range(41, 90) as u64, rng.range(91, 200) as u64];
        let mut descs: Vec<StubDesc> = vec![];
        for _ in 0..2 {
            let b = gen_stub(&mut rng);
            for _ in 0..3 {
                descs.push(mutate_stub(&mut rng, &b));
            }
            descs.push(b);
        }
        let mut pool = vec![];
        let mut desc_of: HashMap<usize, StubDesc> = HashMap::new();
        for d in &descs {
            if let Ok(cid) = eng.add_stub(d, &xs) {
                if !pool.contains(&cid) {
                    pool.push(cid);
                }
                desc_of.entry(cid).or_insert_with(|| d.clone());
            }
        }
        if pool.is_empty() {
            continue;
        }
        while emitted < eng.circs.len() {
            sink.emit_circ(&eng.circs[emitted]);
            emitted += 1;
        }
        let mut partners: HashMap<usize, Vec<usize>> = HashMap::new();
        for &a in &pool {
            for &b in &pool {
                if a != b && eng.circ(a).fp == eng.circ(b).fp {
                    partners.entry(a).or_default().push(b);
                }
            }
        }
        for _ in 0..6 {
            if done >= n_hist {
                break;
            }
            let steps = gen_history(&mut rng, &pool, &partners);
            // replay record: circuits by description, steps with indices into that list
            let mut used_cids: Vec<usize> = vec![];
            for s in &steps {
                for c in [Some(s.cid), s.prep.map(|p| p.0)].into_iter().flatten() {
                    if !used_cids.contains(&c) {
                        used_cids.push(c);
                    }
                }
            }
            let idx = |c: usize| used_cids.iter().position(|x| *x == c).unwrap();
            // circuits registered earlier with other inputs keep their first inputs; record what is needed to rebuild
            let replay = json!({"family": "stub", "inputs": xs,
                "circuits": used_cids.iter().map(|c| desc_of.get(c).map(|d| d.to_json()).unwrap_or(Value::Null)).collect::<Vec<_>>(),
                "steps": steps.iter().map(|s| { let mut t = s.clone(); t.cid = idx(s.cid); t.prep = s.prep.map(|p| (idx(p.0), p.1)); spec_json(&t) }).collect::<Vec<_>>()});
            let r = run_history(&mut eng, &steps, "stub", &replay);
            sink.emit_hist(&steps, r);
            done += 1;
        }
    }
    *sink.hist.entry("stub.circuits".into()).or_insert(0) += eng.circs.len() as u64;
    *sink.hist.entry("stub.real-proofs-made".into()).or_insert(0) += eng.proofs_made as u64;
    let classes: std::collections::HashSet<usize> = eng.circs.iter().map(|c| c.cls).collect();
    *sink.hist.entry("stub.preparation-classes".into()).or_insert(0) += classes.len() as u64;
    let fps: std::collections::HashSet<Fp> = eng.circs.iter().map(|c| c.fp).collect();
    *sink.hist.entry("stub.distinct-fingerprints".into()).or_insert(0) += fps.len() as u64;
}

/// `BatchStarkProof` is not `Clone`; round-trip through its serialisation.
pub fn clone_proof(p: &p3_circuit_prover::BatchStarkProof<Cfg>) -> p3_circuit_prover::BatchStarkProof<Cfg> {
    let bytes = postcard::to_allocvec(p).expect("serialise proof");
    postcard::from_bytes(&bytes).expect("deserialise proof")
}

pub fn main(args: &crate::Args) {
    let out = args.str("out", "/tmp/c17_out");
    std::fs::create_dir_all(&out).unwrap();
    let cfg = make_cfg();
    let dummy = prove_dummy(&cfg, 7);
    let mut sink = Sink {
        cases: vec![],
        impl_: vec![],
        violations: vec![],
        hist: BTreeMap::new(),
        samples: vec![],
        distinct: Default::default(),
        evaluations: 0,
        reproduced: vec![],
        structs: vec![],
    };
    let t0 = std::time::Instant::now();
    run_stub(args, &cfg, &dummy, &mut sink);
    let t_stub = t0.elapsed().as_secs_f64();
    let real = args.str("real", "quick");
    if real != "none" {
        crate::c17_real::run_real(args, &cfg, &mut sink, &real);
    }
    // every extension degree the FRI backend offers: table-list consistency + real chains (c17_deg.rs)
    let deg_tier = args.str("degrees", &real);
    let mut deg = crate::c17_deg::DegOut::new();
    let deg_secs = crate::c17_deg::run(&deg_tier, &mut deg);
    // replays of the `chain` leg: corpus / --replay files with family "chain"
    if let Some(dir) = args.opt("corpus") {
        let mut files: Vec<_> = std::fs::read_dir(&dir).map(|d| d.filter_map(|e| e.ok()).map(|e| e.path()).collect()).unwrap_or_default();
        files.sort();
        for f in files {
            let Ok(txt) = std::fs::read_to_string(&f) else { continue };
            let Ok(v) = serde_json::from_str::<Value>(&txt) else { continue };
            let v = if v.get("replay").is_some() { v["replay"].clone() } else { v };
            if v["family"].as_str() == Some("chain") {
                let before = deg.violations.len();
                crate::c17_deg::replay_chain(&v, &mut deg);
                if deg.violations.len() > before {
                    sink.reproduced.push(f.file_name().unwrap().to_string_lossy().to_string());
                }
            }
        }
    }
    sink.cases.extend(deg.cases.drain(..));
    sink.impl_.extend(deg.impl_.drain(..));
    sink.violations.extend(deg.violations.drain(..));
    sink.evaluations += deg.evaluations;
    for (k, v) in &deg.hist {
        *sink.hist.entry(k.clone()).or_insert(0) += v;
    }
    let t_all = t0.elapsed().as_secs_f64();
    std::fs::write(format!("{out}/c17.cases"), sink.cases.join("\n") + "\n").unwrap();
    std::fs::write(format!("{out}/c17.impl"), sink.impl_.join("\n") + "\n").unwrap();
    let rep = json!({"evaluations": sink.evaluations, "distinct": sink.distinct.len(), "hist": sink.hist,
        "samples": sink.samples, "violations": sink.violations, "corpus_witnesses_reproduced": sink.reproduced,
        "seconds": {"stub": t_stub, "all": t_all, "degrees": deg_secs},
        "degrees": {"tier": deg_tier, "configurations": crate::c17_deg::CONFIGS, "records": deg.records}});
    std::fs::write(format!("{out}/c17.report.json"), serde_json::to_string_pretty(&rep).unwrap()).unwrap();
}
