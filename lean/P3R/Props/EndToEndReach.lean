/-
END TO END — the runner-side guards `pubOk` and `pubFull` of `C02.run_total_on_satisfying_inputs` (hence of
`E2E.e2e_completeness`) hold for every builder state reachable through the builder API: only
`alloc_public_input` creates a public-input node, and it hands out the next position.

Mirror of `Props/C18Reach.lean` (`privOk`) for public inputs: `UFr b b'` — frame: `b'` has the nodes of `b`
followed by nodes that are not public inputs, and the same `pubCount`; `UInv` — Prop form of `pubOk`;
`UFull` — Prop form of `pubFull` (every position below `pubCount` is the position of a public node).
`e2e_completeness_reachable`: `e2e_completeness` with those two guards discharged (what remains is `primOk`).
-/
import P3R.Props.EndToEnd

set_option linter.unusedSectionVars false

namespace P3R.E2ER
open P3R P3R.C02T P3R.C02S P3R.C02O

variable {K : Type}

def UFr (b b' : BState K) : Prop :=
  b'.pubCount = b.pubCount ∧
  ∃ new : List (Expr K), b'.nodes.toList = b.nodes.toList ++ new ∧ ∀ e ∈ new, ∀ pos, e ≠ .pub pos

theorem UFr.refl (b : BState K) : UFr b b := ⟨rfl, [], by simp, by simp⟩

theorem UFr.trans {b b' b'' : BState K} (h1 : UFr b b') (h2 : UFr b' b'') : UFr b b'' := by
  obtain ⟨p1, n1, e1, f1⟩ := h1
  obtain ⟨p2, n2, e2, f2⟩ := h2
  refine ⟨p2.trans p1, n1 ++ n2, by rw [e2, e1, List.append_assoc], ?_⟩
  intro e he
  rcases List.mem_append.mp he with he | he
  · exact f1 e he
  · exact f2 e he

theorem UFr.of_push {b : BState K} (e : Expr K) (b' : BState K) (he : ∀ pos, e ≠ .pub pos)
    (hn : b'.nodes = b.nodes.push e) (hp : b'.pubCount = b.pubCount) : UFr b b' :=
  ⟨hp, [e], by rw [hn]; simp, by intro e' he'; simp only [List.mem_singleton] at he'; subst he'; exact he⟩

theorem UFr.of_same {b b' : BState K} (hn : b'.nodes = b.nodes) (hp : b'.pubCount = b.pubCount) : UFr b b' :=
  ⟨hp, [], by rw [hn]; simp, by simp⟩

/-- Prop form of `pubOk`. -/
@[reducible] def UInv (b : BState K) : Prop :=
  ∀ (i pos : Nat), b.nodes[i]? = some (Expr.pub pos) →
    pos < b.pubCount ∧ ∀ (j : Nat), b.nodes[j]? = some (Expr.pub pos) → j = i

theorem pubOk_of_UInv (b : BState K) (h : UInv b) : pubOk b = true := by
  unfold pubOk
  rw [List.all_eq_true]
  intro i _
  split
  · next pos hi =>
    obtain ⟨h1, h2⟩ := h i pos hi
    simp only [Bool.and_eq_true, decide_eq_true_eq, List.all_eq_true]
    refine ⟨h1, fun j _ => ?_⟩
    split
    · next pos' hj =>
      by_cases hpp : pos' = pos
      · subst hpp
        simp [h2 j hj]
      · simp [hpp]
    · rfl
  · rfl

theorem getElem?_append_nopub {l new : List (Expr K)} (hnew : ∀ e ∈ new, ∀ pos, e ≠ .pub pos) {i pos : Nat}
    (h : (l ++ new)[i]? = some (.pub pos)) : l[i]? = some (.pub pos) := by
  by_cases hi : i < l.length
  · rwa [List.getElem?_append_left hi] at h
  · rw [List.getElem?_append_right (by omega)] at h
    exact absurd rfl (hnew _ (List.mem_of_getElem? h) pos)

theorem UInv.frame {b b' : BState K} (h : UInv b) (hf : UFr b b') : UInv b' := by
  obtain ⟨hp, new, hn, hnew⟩ := hf
  intro i pos hi
  have conv : ∀ j : Nat, b'.nodes[j]? = some (Expr.pub pos) → b.nodes[j]? = some (Expr.pub pos) := by
    intro j hj
    rw [← Array.getElem?_toList] at hj ⊢
    rw [hn] at hj
    exact getElem?_append_nopub hnew hj
  obtain ⟨h1, h2⟩ := h i pos (conv i hi)
  exact ⟨by rw [hp]; exact h1, fun j hj => h2 j (conv j hj)⟩

theorem UInv.allocPublic {b : BState K} (h : UInv b) : UInv b.allocPublic.1 := by
  intro i pos hi
  simp only [BState.allocPublic, BState.push] at hi ⊢
  have key : ∀ j pos', (b.nodes.push (Expr.pub b.pubCount))[j]? = some (.pub pos') →
      (j < b.nodes.size ∧ b.nodes[j]? = some (.pub pos') ∧ pos' < b.pubCount) ∨
      (j = b.nodes.size ∧ pos' = b.pubCount) := by
    intro j pos' hj
    rw [Array.getElem?_push] at hj
    split at hj
    · next hjs =>
      simp only [Option.some.injEq, Expr.pub.injEq] at hj
      exact Or.inr ⟨hjs, hj.symm⟩
    · next hjs =>
      have hlt : j < b.nodes.size := by
        by_contra hge
        rw [Array.getElem?_eq_none (by omega)] at hj
        cases hj
      exact Or.inl ⟨hlt, hj, (h j pos' hj).1⟩
  rcases key i pos hi with ⟨hil, hio, hpl⟩ | ⟨his, hps⟩
  · refine ⟨by omega, fun j hj => ?_⟩
    rcases key j pos hj with ⟨_, hjo, _⟩ | ⟨_, hps⟩
    · exact (h i pos hio).2 j hjo
    · omega
  · refine ⟨by omega, fun j hj => ?_⟩
    rcases key j pos hj with ⟨_, _, hpl⟩ | ⟨hjs, _⟩
    · omega
    · omega

section ops
variable [Zero K] [One K] [Add K] [Sub K] [Mul K] [DecidableEq K]

theorem defineConst_fr (b : BState K) (v : K) : UFr b (b.defineConst v).1 := by
  unfold BState.defineConst BState.push
  split
  · exact UFr.refl _
  · exact UFr.of_push (.const v) _ (by intro pos h; cases h) rfl rfl

theorem allocPrivate_fr (b : BState K) : UFr b b.allocPrivate.1 :=
  UFr.of_push (.priv b.privCount) _ (by intro pos h; cases h) rfl rfl

theorem cseOrPush_fr (b : BState K) (key : BinKind × Nat × Nat) (e : Expr K) (he : ∀ pos, e ≠ .pub pos) :
    UFr b (b.cseOrPush key e).1 := by
  unfold BState.cseOrPush BState.push
  split
  · exact UFr.refl _
  · exact UFr.of_push e _ he rfl rfl

theorem add_fr (b : BState K) (l r : Nat) : UFr b (b.add l r).1 := by
  unfold BState.add
  repeat' (first | exact UFr.refl _ | exact defineConst_fr _ _ |
    exact cseOrPush_fr _ _ _ (by intro pos h; cases h) | split)

theorem sub_fr (b : BState K) (l r : Nat) : UFr b (b.sub l r).1 := by
  unfold BState.sub
  repeat' (first | exact UFr.refl _ | exact defineConst_fr _ _ |
    exact cseOrPush_fr _ _ _ (by intro pos h; cases h) | split)

theorem mul_fr (b : BState K) (l r : Nat) : UFr b (b.mul l r).1 := by
  unfold BState.mul
  repeat' (first | exact UFr.refl _ | exact defineConst_fr _ _ |
    exact cseOrPush_fr _ _ _ (by intro pos h; cases h) | split)

theorem div_fr (b : BState K) (l r : Nat) : UFr b (b.div l r).1 := by
  unfold BState.div
  repeat' (first | exact UFr.refl _ | exact defineConst_fr _ _ |
    exact cseOrPush_fr _ _ _ (by intro pos h; cases h) | split)

theorem horner_fr (b : BState K) (acc al pz px : Nat) : UFr b (b.horner acc al pz px).1 := by
  unfold BState.horner BState.push
  repeat' (first | exact UFr.refl _ | exact defineConst_fr _ _ |
    exact UFr.of_push (.horner acc al pz px) _ (by intro pos h; cases h) rfl rfl | split)

theorem boolCheck_fr (b : BState K) (v : Nat) : UFr b (b.boolCheck v).1 := by
  unfold BState.boolCheck BState.push
  repeat' (first | exact UFr.refl _ |
    exact UFr.of_push (.boolCheck v) _ (by intro pos h; cases h) rfl rfl | split)

theorem mulAdd_fr (b : BState K) (x y z : Nat) : UFr b (b.mulAdd x y z).1 := by
  unfold BState.mulAdd BState.push
  repeat' (first | exact UFr.refl _ | exact defineConst_fr _ _ |
    exact UFr.of_push (.mulAdd x y z) _ (by intro pos h; cases h) rfl rfl | split)

theorem connect_fr (b : BState K) (x y : Nat) : UFr b (b.connect x y) := by
  unfold BState.connect
  split
  · exact UFr.refl _
  · exact UFr.of_same rfl rfl

theorem assertBool_fr (b : BState K) (x : Nat) : UFr b (b.assertBool x) := by
  unfold BState.assertBool
  exact (boolCheck_fr b x).trans (connect_fr _ _ _)

theorem select_fr (b : BState K) (c t f : Nat) : UFr b (b.select c t f).1 := by
  unfold BState.select
  repeat' (first | exact UFr.refl _ | exact (sub_fr _ _ _).trans (mulAdd_fr _ _ _ _) | split)

theorem foldl_fr {α : Type} (f : BState K × Nat → α → BState K × Nat)
    (hf : ∀ acc a, UFr acc.1 (f acc a).1) : ∀ (xs : List α) (acc : BState K × Nat), UFr acc.1 (xs.foldl f acc).1 := by
  intro xs
  induction xs with
  | nil => intro acc; exact UFr.refl _
  | cons a rest ih => intro acc; exact (hf acc a).trans (ih (f acc a))

theorem mulMany_fr (b : BState K) (xs : List Nat) : UFr b (b.mulMany xs).1 := by
  unfold BState.mulMany
  cases xs with
  | nil => exact defineConst_fr _ _
  | cons x rest => exact foldl_fr _ (fun acc y => mul_fr _ _ _) rest (b, x)

theorem innerProduct_fr (b : BState K) (xs ys : List Nat) : UFr b (b.innerProduct xs ys).1 := by
  unfold BState.innerProduct
  exact (defineConst_fr b 0).trans (foldl_fr _ (fun acc xy => mulAdd_fr _ _ _ _) _ _)

theorem expPow2_fr (b : BState K) (base k : Nat) : UFr b (b.expPow2 base k).1 := by
  unfold BState.expPow2
  exact foldl_fr _ (fun acc _ => mul_fr _ _ _) _ (b, base)

theorem pushNp_fr (b : BState K) (kind : NpKind) (ins : List (List Nat)) (nOut : Nat) :
    UFr b (b.pushNp kind ins nOut).1 := by
  unfold BState.pushNp
  simp only [BState.push]
  have h1 : UFr b { b with nodes := b.nodes.push (Expr.npCall b.npOps.size ins.flatten) } :=
    UFr.of_push _ _ (by intro pos h; cases h) rfl rfl
  have key : ∀ (idxs : List Nat) (acc : BState K × List Nat),
      UFr acc.1 (idxs.foldl (fun (acc : BState K × List Nat) i =>
        (({ acc.1 with nodes := acc.1.nodes.push (Expr.npOut b.nodes.size i) } : BState K),
          acc.2 ++ [acc.1.nodes.size])) acc).1 := by
    intro idxs
    induction idxs with
    | nil => intro acc; exact UFr.refl _
    | cons i rest ih =>
      intro acc
      simp only [List.foldl_cons]
      have hstep : UFr acc.1 ({ acc.1 with nodes := acc.1.nodes.push (Expr.npOut b.nodes.size i) } : BState K) :=
        UFr.of_push (Expr.npOut b.nodes.size i) _ (by intro pos h; cases h) rfl rfl
      exact hstep.trans (ih (({ acc.1 with nodes := acc.1.nodes.push (Expr.npOut b.nodes.size i) } : BState K),
        acc.2 ++ [acc.1.nodes.size]))
  exact (h1.trans (key _ _)).trans (UFr.of_same rfl rfl)

theorem reconstructBits_fr (b : BState K) (pow2 : Nat → K) (bits : List Nat) :
    UFr b (b.reconstructBits pow2 bits).1 := by
  unfold BState.reconstructBits
  refine (defineConst_fr b 0).trans (foldl_fr _ (fun acc bi => ?_) _ _)
  exact ((defineConst_fr _ _).trans (assertBool_fr _ _)).trans (mulAdd_fr _ _ _ _)

theorem decomposeToBits_fr (b : BState K) (pow2 : Nat → K) (x n : Nat) :
    UFr b (b.decomposeToBits pow2 x n).1 := by
  unfold BState.decomposeToBits
  exact ((pushNp_fr b _ _ _).trans (reconstructBits_fr _ _ _)).trans (connect_fr _ _ _)

/-- **Every reachable builder state has `pubOk`.** -/
theorem Reachable.UInv {b : BState K} (h : Reachable b) : UInv b := by
  induction h with
  | init =>
    intro i pos hi
    simp only [BState.init] at hi
    cases i with
    | zero => simp at hi
    | succ i => simp at hi
  | defineConst _ v ih => exact ih.frame (defineConst_fr _ v)
  | allocPrivate _ ih => exact ih.frame (allocPrivate_fr _)
  | allocPublic _ ih => exact ih.allocPublic
  | add _ _ _ ih => exact ih.frame (add_fr _ _ _)
  | sub _ _ _ ih => exact ih.frame (sub_fr _ _ _)
  | mul _ _ _ ih => exact ih.frame (mul_fr _ _ _)
  | div _ _ _ ih => exact ih.frame (div_fr _ _ _)
  | horner _ _ _ _ _ ih => exact ih.frame (horner_fr _ _ _ _ _)
  | boolCheck _ _ ih => exact ih.frame (boolCheck_fr _ _)
  | mulAdd _ _ _ _ ih => exact ih.frame (mulAdd_fr _ _ _ _)
  | connect _ _ _ ih => exact ih.frame (connect_fr _ _ _)
  | assertZero _ _ ih => exact ih.frame (connect_fr _ _ _)
  | assertBool _ _ ih => exact ih.frame (assertBool_fr _ _)
  | select _ _ _ _ ih => exact ih.frame (select_fr _ _ _ _)
  | mulMany _ _ ih => exact ih.frame (mulMany_fr _ _)
  | innerProduct _ _ _ ih => exact ih.frame (innerProduct_fr _ _ _)
  | expPow2 _ _ k ih => exact ih.frame (expPow2_fr _ _ k)
  | pushNp _ kind ins nOut ih => exact ih.frame (pushNp_fr _ kind ins nOut)
  | reconstructBits _ pow2 _ ih => exact ih.frame (reconstructBits_fr _ pow2 _)
  | decomposeToBits _ pow2 _ n ih => exact ih.frame (decomposeToBits_fr _ pow2 _ n)

theorem Reachable.pubOk {b : BState K} (h : Reachable b) : pubOk b = true :=
  pubOk_of_UInv b (Reachable.UInv h)

end ops

/-! ### `pubFull` -/

/-- Prop form of `pubFull`. -/
@[reducible] def UFull (b : BState K) : Prop :=
  ∀ pos, pos < b.pubCount → ∃ i : Nat, b.nodes[i]? = some (Expr.pub pos)

theorem pubFull_of_UFull (b : BState K) (h : UFull b) : pubFull b = true := by
  unfold pubFull
  rw [List.all_eq_true]
  intro pos hpos
  obtain ⟨i, hi⟩ := h pos (List.mem_range.mp hpos)
  rw [List.any_eq_true]
  have hlt : i < b.nodes.size := by
    by_contra hge
    rw [Array.getElem?_eq_none (by omega)] at hi
    cases hi
  exact ⟨i, List.mem_range.mpr hlt, by rw [hi]; simp⟩

theorem UFull.frame {b b' : BState K} (h : UFull b) (hf : UFr b b') : UFull b' := by
  obtain ⟨hp, new, hn, _⟩ := hf
  intro pos hpos
  rw [hp] at hpos
  obtain ⟨i, hi⟩ := h pos hpos
  refine ⟨i, ?_⟩
  have hlt : i < b.nodes.toList.length := by
    by_contra hge
    rw [Array.getElem?_eq_none (by simpa using hge)] at hi
    cases hi
  rw [← Array.getElem?_toList, hn, List.getElem?_append_left hlt, Array.getElem?_toList]
  exact hi

theorem UFull.allocPublic {b : BState K} (h : UFull b) : UFull b.allocPublic.1 := by
  intro pos hpos
  simp only [BState.allocPublic, BState.push] at hpos ⊢
  by_cases hlt : pos < b.pubCount
  · obtain ⟨i, hi⟩ := h pos hlt
    refine ⟨i, ?_⟩
    have hil : i < b.nodes.size := by
      by_contra hge
      rw [Array.getElem?_eq_none (by omega)] at hi
      cases hi
    rw [Array.getElem?_push, if_neg (by omega)]
    exact hi
  · have : pos = b.pubCount := by omega
    subst this
    exact ⟨b.nodes.size, by rw [Array.getElem?_push, if_pos rfl]⟩

section ops2
variable [Zero K] [One K] [Add K] [Sub K] [Mul K] [DecidableEq K]

/-- **Every reachable builder state has `pubFull`.** -/
theorem Reachable.UFull {b : BState K} (h : Reachable b) : UFull b := by
  induction h with
  | init => intro pos hpos; simp [BState.init] at hpos
  | defineConst _ v ih => exact ih.frame (defineConst_fr _ v)
  | allocPublic _ ih => exact ih.allocPublic
  | allocPrivate _ ih => exact ih.frame (allocPrivate_fr _)
  | add _ _ _ ih => exact ih.frame (add_fr _ _ _)
  | sub _ _ _ ih => exact ih.frame (sub_fr _ _ _)
  | mul _ _ _ ih => exact ih.frame (mul_fr _ _ _)
  | div _ _ _ ih => exact ih.frame (div_fr _ _ _)
  | horner _ _ _ _ _ ih => exact ih.frame (horner_fr _ _ _ _ _)
  | boolCheck _ _ ih => exact ih.frame (boolCheck_fr _ _)
  | mulAdd _ _ _ _ ih => exact ih.frame (mulAdd_fr _ _ _ _)
  | connect _ _ _ ih => exact ih.frame (connect_fr _ _ _)
  | assertZero _ _ ih => exact ih.frame (connect_fr _ _ _)
  | assertBool _ _ ih => exact ih.frame (assertBool_fr _ _)
  | select _ _ _ _ ih => exact ih.frame (select_fr _ _ _ _)
  | mulMany _ _ ih => exact ih.frame (mulMany_fr _ _)
  | innerProduct _ _ _ ih => exact ih.frame (innerProduct_fr _ _ _)
  | expPow2 _ _ k ih => exact ih.frame (expPow2_fr _ _ k)
  | pushNp _ kind ins nOut ih => exact ih.frame (pushNp_fr _ kind ins nOut)
  | reconstructBits _ pow2 _ ih => exact ih.frame (reconstructBits_fr _ pow2 _)
  | decomposeToBits _ pow2 _ n ih => exact ih.frame (decomposeToBits_fr _ pow2 _ n)

theorem Reachable.pubFull {b : BState K} (h : Reachable b) : pubFull b = true :=
  pubFull_of_UFull b (Reachable.UFull h)

end ops2

end P3R.E2ER



/-! ## `primOk` for `ReachablePrim` programs -/

namespace P3R.E2EN
open P3R P3R.C02T P3R.C02S P3R.C09R

variable {K : Type}

/-- Not a call node and not a call output. -/
def NotNp (e : Expr K) : Prop := (∀ op ins, e ≠ .npCall op ins) ∧ (∀ c i, e ≠ .npOut c i)

def NFr (b b' : BState K) : Prop :=
  b'.npOps = b.npOps ∧
  ∃ new : List (Expr K), b'.nodes.toList = b.nodes.toList ++ new ∧ ∀ e ∈ new, NotNp e

theorem NFr.refl (b : BState K) : NFr b b := ⟨rfl, [], by simp, by simp⟩

theorem NFr.trans {b b' b'' : BState K} (h1 : NFr b b') (h2 : NFr b' b'') : NFr b b'' := by
  obtain ⟨p1, n1, e1, f1⟩ := h1
  obtain ⟨p2, n2, e2, f2⟩ := h2
  refine ⟨p2.trans p1, n1 ++ n2, by rw [e2, e1, List.append_assoc], ?_⟩
  intro e he
  rcases List.mem_append.mp he with he | he
  · exact f1 e he
  · exact f2 e he

theorem NFr.of_push {b : BState K} (e : Expr K) (b' : BState K) (he : NotNp e)
    (hn : b'.nodes = b.nodes.push e) (hp : b'.npOps = b.npOps) : NFr b b' :=
  ⟨hp, [e], by rw [hn]; simp, by intro e' he'; simp only [List.mem_singleton] at he'; subst he'; exact he⟩

theorem NFr.of_same {b b' : BState K} (hn : b'.nodes = b.nodes) (hp : b'.npOps = b.npOps) : NFr b b' :=
  ⟨hp, [], by rw [hn]; simp, by simp⟩

section ops
variable [Zero K] [One K] [Add K] [Sub K] [Mul K] [DecidableEq K]

theorem allocPrivate_fr (b : BState K) : NFr b b.allocPrivate.1 :=
  NFr.of_push (.priv b.privCount) _ (by constructor <;> intro _ _ h <;> cases h) rfl rfl

theorem defineConst_fr (b : BState K) (v : K) : NFr b (b.defineConst v).1 := by
  unfold BState.defineConst BState.push
  split
  · exact NFr.refl _
  · exact NFr.of_push (.const v) _ (by constructor <;> intro _ _ h <;> cases h) rfl rfl

theorem allocPublic_fr (b : BState K) : NFr b b.allocPublic.1 :=
  NFr.of_push (.pub b.pubCount) _ (by constructor <;> intro _ _ h <;> cases h) rfl rfl

theorem cseOrPush_fr (b : BState K) (key : BinKind × Nat × Nat) (e : Expr K) (he : NotNp e) :
    NFr b (b.cseOrPush key e).1 := by
  unfold BState.cseOrPush BState.push
  split
  · exact NFr.refl _
  · exact NFr.of_push e _ he rfl rfl

theorem add_fr (b : BState K) (l r : Nat) : NFr b (b.add l r).1 := by
  unfold BState.add
  repeat' (first | exact NFr.refl _ | exact defineConst_fr _ _ |
    exact cseOrPush_fr _ _ _ (by constructor <;> intro _ _ h <;> cases h) | split)

theorem sub_fr (b : BState K) (l r : Nat) : NFr b (b.sub l r).1 := by
  unfold BState.sub
  repeat' (first | exact NFr.refl _ | exact defineConst_fr _ _ |
    exact cseOrPush_fr _ _ _ (by constructor <;> intro _ _ h <;> cases h) | split)

theorem mul_fr (b : BState K) (l r : Nat) : NFr b (b.mul l r).1 := by
  unfold BState.mul
  repeat' (first | exact NFr.refl _ | exact defineConst_fr _ _ |
    exact cseOrPush_fr _ _ _ (by constructor <;> intro _ _ h <;> cases h) | split)

theorem div_fr (b : BState K) (l r : Nat) : NFr b (b.div l r).1 := by
  unfold BState.div
  repeat' (first | exact NFr.refl _ | exact defineConst_fr _ _ |
    exact cseOrPush_fr _ _ _ (by constructor <;> intro _ _ h <;> cases h) | split)

theorem horner_fr (b : BState K) (acc al pz px : Nat) : NFr b (b.horner acc al pz px).1 := by
  unfold BState.horner BState.push
  repeat' (first | exact NFr.refl _ | exact defineConst_fr _ _ |
    exact NFr.of_push (.horner acc al pz px) _ (by constructor <;> intro _ _ h <;> cases h) rfl rfl | split)

theorem boolCheck_fr (b : BState K) (v : Nat) : NFr b (b.boolCheck v).1 := by
  unfold BState.boolCheck BState.push
  repeat' (first | exact NFr.refl _ |
    exact NFr.of_push (.boolCheck v) _ (by constructor <;> intro _ _ h <;> cases h) rfl rfl | split)

theorem mulAdd_fr (b : BState K) (x y z : Nat) : NFr b (b.mulAdd x y z).1 := by
  unfold BState.mulAdd BState.push
  repeat' (first | exact NFr.refl _ | exact defineConst_fr _ _ |
    exact NFr.of_push (.mulAdd x y z) _ (by constructor <;> intro _ _ h <;> cases h) rfl rfl | split)

theorem connect_fr (b : BState K) (x y : Nat) : NFr b (b.connect x y) := by
  unfold BState.connect
  split
  · exact NFr.refl _
  · exact NFr.of_same rfl rfl

theorem assertBool_fr (b : BState K) (x : Nat) : NFr b (b.assertBool x) := by
  unfold BState.assertBool
  exact (boolCheck_fr b x).trans (connect_fr _ _ _)

theorem select_fr (b : BState K) (c t f : Nat) : NFr b (b.select c t f).1 := by
  unfold BState.select
  repeat' (first | exact NFr.refl _ | exact (sub_fr _ _ _).trans (mulAdd_fr _ _ _ _) | split)

theorem foldl_fr {α : Type} (f : BState K × Nat → α → BState K × Nat)
    (hf : ∀ acc a, NFr acc.1 (f acc a).1) : ∀ (xs : List α) (acc : BState K × Nat), NFr acc.1 (xs.foldl f acc).1 := by
  intro xs
  induction xs with
  | nil => intro acc; exact NFr.refl _
  | cons a rest ih => intro acc; exact (hf acc a).trans (ih (f acc a))

theorem mulMany_fr (b : BState K) (xs : List Nat) : NFr b (b.mulMany xs).1 := by
  unfold BState.mulMany
  cases xs with
  | nil => exact defineConst_fr _ _
  | cons x rest => exact foldl_fr _ (fun acc y => mul_fr _ _ _) rest (b, x)

theorem innerProduct_fr (b : BState K) (xs ys : List Nat) : NFr b (b.innerProduct xs ys).1 := by
  unfold BState.innerProduct
  exact (defineConst_fr b 0).trans (foldl_fr _ (fun acc xy => mulAdd_fr _ _ _ _) _ _)

theorem expPow2_fr (b : BState K) (base k : Nat) : NFr b (b.expPow2 base k).1 := by
  unfold BState.expPow2
  exact foldl_fr _ (fun acc _ => mul_fr _ _ _) _ (b, base)

theorem reconstructBits_fr (b : BState K) (pow2 : Nat → K) (bits : List Nat) :
    NFr b (b.reconstructBits pow2 bits).1 := by
  unfold BState.reconstructBits
  refine (defineConst_fr b 0).trans (foldl_fr _ (fun acc bi => ?_) _ _)
  exact ((defineConst_fr _ _).trans (assertBool_fr _ _)).trans (mulAdd_fr _ _ _ _)


end ops

/-- The invariant behind `primOk`: every registered non-primitive op is a bit-decomposition hint with one
input that precedes the op's (unique) call node; call outputs follow their call node; call nodes name
registered ops. -/
structure NInv (b : BState K) : Prop where
  ops : ∀ (op : Nat) (d : NpData), b.npOps[op]? = some d → d.kind = .hintBits ∧ ∃ x ci : Nat, d.ins = [[x]] ∧ x < ci ∧
    ∀ (j : Nat) (ins : List Nat), b.nodes[j]? = some (Expr.npCall op ins) → j = ci
  outs : ∀ (j call i : Nat), b.nodes[j]? = some (Expr.npOut call i) → call < j
  calls : ∀ (j op : Nat) (ins : List Nat), b.nodes[j]? = some (Expr.npCall op ins) → op < b.npOps.size

theorem primOk_of_NInv [Neg K] (b : BState K) (h : NInv b) : primOk b = true := by
  unfold primOk
  rw [List.all_eq_true]
  intro op _
  split
  · next d hd =>
    obtain ⟨hk, x, ci, hins, hx, huniq⟩ := h.ops op d hd
    rw [hins, hk]
    simp only [Bool.and_true, Bool.not_eq_true']
    unfold ownOut
    split
    · next call i hxn =>
      split
      · next op' ins hcn =>
        by_cases hop : op' = op
        · subst hop
          have h1 := huniq call ins hcn
          have h2 := h.outs x call i hxn
          omega
        · simpa using hop
      · rfl
    · rfl
  · rfl

theorem get_old_or_new {l new : List (Expr K)} {j : Nat} {e : Expr K} (h : (l ++ new)[j]? = some e) :
    l[j]? = some e ∨ (l.length ≤ j ∧ new[j - l.length]? = some e) := by
  by_cases hj : j < l.length
  · left; rwa [List.getElem?_append_left hj] at h
  · right
    rw [List.getElem?_append_right (by omega)] at h
    exact ⟨by omega, h⟩

theorem NInv.frame {b b' : BState K} (h : NInv b) (hf : NFr b b') : NInv b' := by
  obtain ⟨hp, new, hn, hnew⟩ := hf
  have conv : ∀ (j : Nat) (e : Expr K), ¬ NotNp e → b'.nodes[j]? = some e → b.nodes[j]? = some e := by
    intro j e hne hj
    rw [← Array.getElem?_toList] at hj ⊢
    rw [hn] at hj
    rcases get_old_or_new hj with h1 | ⟨_, h2⟩
    · exact h1
    · exact absurd (hnew _ (List.mem_of_getElem? h2)) hne
  refine ⟨?_, ?_, ?_⟩
  · intro op d hd
    rw [hp] at hd
    obtain ⟨hk, x, ci, hins, hx, huniq⟩ := h.ops op d hd
    exact ⟨hk, x, ci, hins, hx, fun j ins hj =>
      huniq j ins (conv j _ (fun hnn => hnn.1 op ins rfl) hj)⟩
  · intro j call i hj
    exact h.outs j call i (conv j _ (fun hnn => hnn.2 call i rfl) hj)
  · intro j op ins hj
    rw [hp]
    exact h.calls j op ins (conv j _ (fun hnn => hnn.1 op ins rfl) hj)

theorem pushOuts_nodes (call : Nat) : ∀ (idxs : List Nat) (acc : BState K × List Nat),
    (pushOuts call idxs acc).1.nodes.toList = acc.1.nodes.toList ++ idxs.map (Expr.npOut call) ∧
    (pushOuts call idxs acc).1.npOps = acc.1.npOps := by
  intro idxs
  induction idxs with
  | nil => intro acc; simp [pushOuts]
  | cons i rest ih =>
    intro acc
    simp only [pushOuts, List.foldl_cons]
    obtain ⟨h1, h2⟩ := ih (({ acc.1 with nodes := acc.1.nodes.push (Expr.npOut call i) } : BState K),
      acc.2 ++ [acc.1.nodes.size])
    simp only [pushOuts] at h1 h2
    rw [h1, h2]
    simp

section reach
variable [Zero K] [One K] [Add K] [Sub K] [Mul K] [DecidableEq K]

/-- The hint call of `decompose_to_bits` keeps the invariant. -/
theorem NInv.pushNp {b : BState K} (h : NInv b) {x : Nat} (hx : x < b.nodes.size) (n : Nat) :
    NInv (b.pushNp .hintBits [[x]] n).1 := by
  rw [pushNp_eq]
  obtain ⟨hnodes, hnp⟩ := pushOuts_nodes (K := K) b.nodes.size (List.range n)
    (({ b with nodes := b.nodes.push (Expr.npCall b.npOps.size [[x]].flatten) } : BState K), [])
  simp only [Array.toList_push] at hnodes
  set P := pushOuts b.nodes.size (List.range n)
    (({ b with nodes := b.nodes.push (Expr.npCall b.npOps.size [[x]].flatten) } : BState K), []) with hP
  -- every node of the new state: old, the call node at `b.nodes.size`, or an output after it
  have cases3 : ∀ (j : Nat) (e : Expr K), P.1.nodes[j]? = some e →
      b.nodes[j]? = some e ∨ (j = b.nodes.size ∧ e = Expr.npCall b.npOps.size [[x]].flatten) ∨
      (b.nodes.size < j ∧ ∃ i, e = Expr.npOut b.nodes.size i) := by
    intro j e hj
    rw [← Array.getElem?_toList, hnodes] at hj
    rcases get_old_or_new hj with h1 | ⟨hle, h2⟩
    · rcases get_old_or_new h1 with h0 | ⟨hle0, h3⟩
      · left; rw [← Array.getElem?_toList]; exact h0
      · right; left
        simp only [Array.length_toList] at hle0 h3
        have : j - b.nodes.size = 0 := by
          by_contra hne
          rw [List.getElem?_eq_none (by simp; omega)] at h3
          cases h3
        rw [this] at h3
        simp only [List.getElem?_cons_zero, Option.some.injEq] at h3
        exact ⟨by omega, h3.symm⟩
    · right; right
      simp only [List.length_append, Array.length_toList, List.length_singleton] at hle h2
      obtain ⟨i, _, hi⟩ := List.mem_map.mp (List.mem_of_getElem? h2)
      exact ⟨by omega, i, hi.symm⟩
  refine ⟨?_, ?_, ?_⟩
  · intro op d hd
    simp only [hnp] at hd
    rw [Array.getElem?_push] at hd
    split at hd
    · next hop =>
      -- the new op
      cases hd
      refine ⟨rfl, x, b.nodes.size, rfl, hx, ?_⟩
      intro j ins hj
      rcases cases3 j _ hj with h0 | ⟨hj0, _⟩ | ⟨_, i, hi⟩
      · have := h.calls j op ins h0
        omega
      · exact hj0
      · cases hi
    · next hop =>
      obtain ⟨hk, x', ci, hins, hx', huniq⟩ := h.ops op d hd
      refine ⟨hk, x', ci, hins, hx', ?_⟩
      intro j ins hj
      rcases cases3 j _ hj with h0 | ⟨_, he⟩ | ⟨_, i, hi⟩
      · exact huniq j ins h0
      · simp only [Expr.npCall.injEq] at he
        exact absurd he.1 hop
      · cases hi
  · intro j call i hj
    rcases cases3 j _ hj with h0 | ⟨_, he⟩ | ⟨hlt, i', hi⟩
    · exact h.outs j call i h0
    · cases he
    · simp only [Expr.npOut.injEq] at hi
      omega
  · intro j op ins hj
    simp only [hnp, Array.size_push]
    rcases cases3 j _ hj with h0 | ⟨_, he⟩ | ⟨_, i, hi⟩
    · have := h.calls j op ins h0
      omega
    · simp only [Expr.npCall.injEq] at he
      omega
    · cases hi

theorem init_NInv : NInv (BState.init : BState K) := by
  refine ⟨?_, ?_, ?_⟩
  · intro op d hd; simp [BState.init] at hd
  · intro j call i hj
    simp only [BState.init] at hj
    cases j <;> simp at hj
  · intro j op ins hj
    simp only [BState.init] at hj
    cases j <;> simp at hj

theorem NInv.decomposeToBits {b : BState K} (h : NInv b) (pow2 : Nat → K) {x : Nat}
    (hx : proper b.nodes x = true) (n : Nat) : NInv (b.decomposeToBits pow2 x n).1 := by
  unfold BState.decomposeToBits
  exact ((h.pushNp (proper_lt hx) n).frame (reconstructBits_fr _ _ _)).frame (connect_fr _ _ _)

/-- **Every `ReachablePrim` builder state satisfies the `primOk` invariant.** -/
theorem ReachablePrim.NInv {b : BState K} (h : ReachablePrim b) : NInv b := by
  induction h with
  | init => exact init_NInv
  | defineConst _ v ih => exact ih.frame (defineConst_fr _ v)
  | allocPublic _ ih => exact ih.frame (allocPublic_fr _)
  | allocPrivate _ ih => exact ih.frame (allocPrivate_fr _)
  | add _ _ _ ih => exact ih.frame (add_fr _ _ _)
  | sub _ _ _ ih => exact ih.frame (sub_fr _ _ _)
  | mul _ _ _ ih => exact ih.frame (mul_fr _ _ _)
  | div _ _ _ ih => exact ih.frame (div_fr _ _ _)
  | horner _ _ _ _ _ ih => exact ih.frame (horner_fr _ _ _ _ _)
  | boolCheck _ _ ih => exact ih.frame (boolCheck_fr _ _)
  | mulAdd _ _ _ _ ih => exact ih.frame (mulAdd_fr _ _ _ _)
  | connect _ _ _ ih => exact ih.frame (connect_fr _ _ _)
  | assertZero _ _ ih => exact ih.frame (connect_fr _ _ _)
  | assertBool _ _ ih => exact ih.frame (assertBool_fr _ _)
  | select _ _ _ _ ih => exact ih.frame (select_fr _ _ _ _)
  | mulMany _ _ ih => exact ih.frame (mulMany_fr _ _)
  | innerProduct _ _ _ ih => exact ih.frame (innerProduct_fr _ _ _)
  | expPow2 _ _ k ih => exact ih.frame (expPow2_fr _ _ k)
  | reconstructBits _ pow2 _ ih => exact ih.frame (reconstructBits_fr _ pow2 _)
  | decomposeToBits _ pow2 hx n ih => exact ih.decomposeToBits pow2 hx n

theorem ReachablePrim.primOk [Neg K] {b : BState K} (h : ReachablePrim b) : primOk b = true :=
  primOk_of_NInv b (ReachablePrim.NInv h)

end reach

end P3R.E2EN

/-! ## Node 0 is the zero constant in every reachable builder state (`assert_zero x` = `connect x 0`) -/

namespace P3R.E2ER
open P3R P3R.C02T

section node0
variable {K : Type} [Zero K] [One K] [Add K] [Sub K] [Mul K] [DecidableEq K]

theorem node0_of_append {b b' : BState K} (h : b.nodes[0]? = some (Expr.const 0))
    (hn : ∃ new : List (Expr K), b'.nodes.toList = b.nodes.toList ++ new) :
    b'.nodes[0]? = some (Expr.const 0) := by
  obtain ⟨new, hn⟩ := hn
  have hlt : 0 < b.nodes.toList.length := by
    by_contra hge
    rw [Array.getElem?_eq_none (by simpa using hge)] at h
    cases h
  rw [← Array.getElem?_toList, hn, List.getElem?_append_left hlt, Array.getElem?_toList]
  exact h

/-- **Node 0 of every reachable builder state is the constant zero.** -/
theorem Reachable.node0 {b : BState K} (h : Reachable b) : b.nodes[0]? = some (Expr.const 0) := by
  have fr : ∀ {b b' : BState K}, UFr b b' → b.nodes[0]? = some (Expr.const 0) →
      b'.nodes[0]? = some (Expr.const 0) := fun hf h0 => node0_of_append h0 ⟨hf.2.choose, hf.2.choose_spec.1⟩
  induction h with
  | init => simp [BState.init]
  | defineConst _ v ih => exact fr (defineConst_fr _ v) ih
  | @allocPublic b0 _ ih =>
    have := P3R.C18L.allocPublic_fr b0
    exact node0_of_append ih ⟨this.2.choose, this.2.choose_spec.1⟩
  | allocPrivate _ ih => exact fr (allocPrivate_fr _) ih
  | add _ _ _ ih => exact fr (add_fr _ _ _) ih
  | sub _ _ _ ih => exact fr (sub_fr _ _ _) ih
  | mul _ _ _ ih => exact fr (mul_fr _ _ _) ih
  | div _ _ _ ih => exact fr (div_fr _ _ _) ih
  | horner _ _ _ _ _ ih => exact fr (horner_fr _ _ _ _ _) ih
  | boolCheck _ _ ih => exact fr (boolCheck_fr _ _) ih
  | mulAdd _ _ _ _ ih => exact fr (mulAdd_fr _ _ _ _) ih
  | connect _ _ _ ih => exact fr (connect_fr _ _ _) ih
  | assertZero _ _ ih => exact fr (connect_fr _ _ _) ih
  | assertBool _ _ ih => exact fr (assertBool_fr _ _) ih
  | select _ _ _ _ ih => exact fr (select_fr _ _ _ _) ih
  | mulMany _ _ ih => exact fr (mulMany_fr _ _) ih
  | innerProduct _ _ _ ih => exact fr (innerProduct_fr _ _ _) ih
  | expPow2 _ _ k ih => exact fr (expPow2_fr _ _ k) ih
  | pushNp _ kind ins nOut ih => exact fr (pushNp_fr _ kind ins nOut) ih
  | reconstructBits _ pow2 _ ih => exact fr (reconstructBits_fr _ pow2 _) ih
  | decomposeToBits _ pow2 _ n ih => exact fr (decomposeToBits_fr _ pow2 _ n) ih

end node0
end P3R.E2ER

namespace P3R.E2E
open P3R P3R.C02T P3R.C09R

/-- **END TO END / completeness, reachability the only hypothesis on the program**: `pubOk`, `pubFull`
(`E2ER.Reachable.pubOk` / `.pubFull`) and `primOk` (`E2EN.ReachablePrim.primOk`: the only non-primitive ops of a
`ReachablePrim` program are the bit-decomposition hints of `decompose_to_bits`, each with one input that
precedes its call node) are derived. -/
theorem e2e_completeness_reachable {F : Type} [Field F] [DecidableEq F] (canon : F → Nat) (b : BState F)
    (hb : ReachablePrim b)
    (c : Circuit F) (hc : compile b = .ok c) (p : Prep) (hp : genPrep c = some p)
    (w0 : Array (Option F)) (w pub : Nat → F) (h0 : C02.Agree w0 w)
    (hsh : C02.shape w0 = C02S.allInputsSet c)
    (hall : ∀ op ∈ c.ops.toList, op.holds w pub ∧ C02.RunnerWrites w op ∧ C02.HintAgrees canon w op)
    (hrw : ∀ dc ∈ c.rewrite, w dc.1 = w (resolve c.rewrite dc.2)) :
    ∃ t, runFrom canon c w0 = .ok t ∧
      (∀ j, j < t.witness.size → t.witness.getD j 0 = w j) ∧
      Accepted pub c p ((p.events.map Prod.fst).map fun j => t.witness.getD j 0) :=
  e2e_completeness canon b hb (P3R.E2ER.Reachable.pubOk hb.reachable) (P3R.E2EN.ReachablePrim.primOk hb)
    (P3R.E2ER.Reachable.pubFull hb.reachable) c hc p hp w0 w pub h0 hsh hall hrw

/-- `assert_zero` in a reachable program: under `SourceSat`, every expression connected to node 0 is zero. -/
theorem SourceSat.assert_zero_reachable {K : Type} [CommRing K] [DecidableEq K] {b : BState K}
    (hb : Reachable b) {pub v : Nat → K} (h : SourceSat b pub v) {x : Nat}
    (hx : (x, 0) ∈ b.connects) : v x = 0 :=
  h.assert_zero (P3R.E2ER.Reachable.node0 hb) hx

/-- `e2e_roundtrip` with the three runner-side guards derived from reachability. -/
theorem e2e_roundtrip_reachable {F : Type} [Field F] [DecidableEq F] (canon : F → Nat) (b : BState F)
    (hb : ReachablePrim b) (c : Circuit F) (hc : compile b = .ok c) (p : Prep) (hp : genPrep c = some p)
    (hnoskip : ∀ e ∈ p.events, e.2 ≠ .skip)
    (w0 : Array (Option F)) (w pub : Nat → F) (h0 : C02.Agree w0 w)
    (hsh : C02.shape w0 = C02S.allInputsSet c)
    (hall : ∀ op ∈ c.ops.toList, op.holds w pub ∧ C02.RunnerWrites w op ∧ C02.HintAgrees canon w op)
    (hrw : ∀ dc ∈ c.rewrite, w dc.1 = w (resolve c.rewrite dc.2)) :
    ∃ (t : Traces F) (l : Lowered F) (w' : Nat → F), runFrom canon c w0 = .ok t ∧ lower b = .ok l ∧
      (∀ x ∈ p.events.map Prod.fst, (∀ s ∈ fusedSites l, s.m ≠ x) → w' x = t.witness.getD x 0) ∧
      SourceSat b pub (fun e => w' (eslot c.rewrite l e)) :=
  e2e_roundtrip canon b hb (P3R.E2ER.Reachable.pubOk hb.reachable) (P3R.E2EN.ReachablePrim.primOk hb)
    (P3R.E2ER.Reachable.pubFull hb.reachable) c hc p hp hnoskip w0 w pub h0 hsh hall hrw

end P3R.E2E

#print axioms P3R.E2ER.Reachable.node0
#print axioms P3R.E2EN.ReachablePrim.primOk
#print axioms P3R.E2E.e2e_roundtrip_reachable
#print axioms P3R.E2ER.Reachable.pubOk
#print axioms P3R.E2ER.Reachable.pubFull
#print axioms P3R.E2E.e2e_completeness_reachable
