/-
Arithmetic facts about `log2Ceil`, `npt` (next power of two) and `paddedLen _ 2` used by the
C08 proofs: the ceil-halving ladder of a binary Merkle tree.
-/
import P3R.Model.MmcsNative
import Mathlib.Tactic.Ring
import Mathlib.Tactic.Linarith

namespace P3R.Mmcs

theorem log2Ceil_le_one {n : Nat} (h : n ≤ 1) : log2Ceil n = 0 := by simp [log2Ceil, h]

/-- `n ≤ 2 ^ log2Ceil n`. -/
theorem le_pow_log2Ceil (n : Nat) : n ≤ 2 ^ log2Ceil n := by
  unfold log2Ceil
  split
  · simp; omega
  · have := @Nat.lt_log2_self (n - 1)
    omega

/-- For `n > 1`, `2 ^ (log2Ceil n - 1) < n`. -/
theorem pow_pred_log2Ceil_lt {n : Nat} (h : 1 < n) : 2 ^ (log2Ceil n - 1) < n := by
  unfold log2Ceil
  rw [if_neg (by omega)]
  have := @Nat.log2_self_le (n - 1) (by omega)
  simp only [Nat.add_sub_cancel]
  omega

/-- Characterisation: `2^(j-1) < n ≤ 2^j` with `j ≥ 1` pins `log2Ceil n = j`. -/
theorem log2Ceil_eq_of_bounds {n j : Nat} (hj : 1 ≤ j) (hlo : 2 ^ (j - 1) < n) (hhi : n ≤ 2 ^ j) :
    log2Ceil n = j := by
  have h1 : 1 < n := by
    have : 1 ≤ 2 ^ (j - 1) := Nat.one_le_two_pow
    omega
  have hle := le_pow_log2Ceil n
  have hlt := pow_pred_log2Ceil_lt h1
  -- 2^(j-1) < n ≤ 2^(log2Ceil n)  ⇒ j-1 < log2Ceil n ; 2^(log2Ceil n -1) < n ≤ 2^j ⇒ log2Ceil n - 1 < j
  have a : j - 1 < log2Ceil n := (Nat.pow_lt_pow_iff_right (by norm_num : 1 < 2)).mp (lt_of_lt_of_le hlo hle)
  have b : log2Ceil n - 1 < j := (Nat.pow_lt_pow_iff_right (by norm_num : 1 < 2)).mp (lt_of_lt_of_le hlt hhi)
  omega

theorem log2Ceil_pos {n : Nat} (h : 1 < n) : 1 ≤ log2Ceil n := by
  unfold log2Ceil; rw [if_neg (by omega)]; omega

theorem npt_one : npt 1 = 1 := by simp [npt, log2Ceil]

theorem npt_eq_of_bounds {n j : Nat} (hj : 1 ≤ j) (hlo : 2 ^ (j - 1) < n) (hhi : n ≤ 2 ^ j) :
    npt n = 2 ^ j := by
  unfold npt; rw [log2Ceil_eq_of_bounds hj hlo hhi]

theorem npt_inj_log {a b : Nat} (h : npt a = npt b) : log2Ceil a = log2Ceil b :=
  Nat.pow_right_injective (le_refl 2) h

/-- `padded_len(m, 2)` for `m ≥ 2` is `m` rounded up to even; halving gives `⌈m/2⌉`. -/
theorem paddedLen_two_half {m : Nat} (h : 2 ≤ m) : paddedLen m 2 / 2 = (m + 1) / 2 := by
  unfold paddedLen
  rw [if_neg (by omega), if_pos (by omega)]
  omega

theorem paddedLen_two_gt_one {m : Nat} (h : 2 ≤ m) : 1 < paddedLen m 2 := by
  unfold paddedLen
  rw [if_neg (by omega), if_pos (by omega)]
  omega

theorem paddedLen_le_one {m n : Nat} (h : m ≤ 1) : paddedLen m n = m := by
  unfold paddedLen; rw [if_pos h]

/-- One rung of the ladder: if `2^(j-1) < m ≤ 2^j` with `j ≥ 1` then `m' = ⌈m/2⌉` satisfies
`npt m' = 2^(j-1)`, and the bounds for `j-1` when `j ≥ 2`, `m' = 1` when `j = 1`. -/
theorem half_bounds {m j : Nat} (hj : 1 ≤ j) (hlo : 2 ^ (j - 1) < m) (hhi : m ≤ 2 ^ j) :
    npt ((m + 1) / 2) = 2 ^ (j - 1) ∧
    (2 ≤ j → 2 ^ (j - 2) < (m + 1) / 2 ∧ (m + 1) / 2 ≤ 2 ^ (j - 1)) ∧
    (j = 1 → (m + 1) / 2 = 1) := by
  have hpow : 2 ^ j = 2 * 2 ^ (j - 1) := by
    conv_lhs => rw [show j = (j - 1) + 1 by omega]
    rw [pow_succ]; ring
  rcases Nat.lt_or_ge j 2 with h1 | h2
  · have hj1 : j = 1 := by omega
    subst hj1
    simp at hlo hhi
    have hm : m = 2 := by omega
    subst hm
    refine ⟨by simp [npt_one], by omega, by simp⟩
  · have hpow2 : 2 ^ (j - 1) = 2 * 2 ^ (j - 2) := by
      conv_lhs => rw [show j - 1 = (j - 2) + 1 by omega]
      rw [pow_succ]; ring
    have lo' : 2 ^ (j - 2) < (m + 1) / 2 := by omega
    have hi' : (m + 1) / 2 ≤ 2 ^ (j - 1) := by omega
    refine ⟨?_, fun _ => ⟨lo', hi'⟩, by omega⟩
    exact npt_eq_of_bounds (by omega) (by rwa [show j - 1 - 1 = j - 2 by omega]) hi'

/-- Bounds of the tallest height: `L = log2Ceil max ≥ 1` gives `2^(L-1) < max ≤ 2^L`. -/
theorem max_bounds {mx : Nat} (h : 1 < mx) :
    1 ≤ log2Ceil mx ∧ 2 ^ (log2Ceil mx - 1) < mx ∧ mx ≤ 2 ^ log2Ceil mx :=
  ⟨log2Ceil_pos h, pow_pred_log2Ceil_lt h, le_pow_log2Ceil mx⟩

theorem log2Ceil_le_self (n : Nat) : log2Ceil n ≤ n := by
  have h := le_pow_log2Ceil n
  rcases Nat.lt_or_ge 1 n with h1 | h1
  · have := pow_pred_log2Ceil_lt h1
    have : log2Ceil n - 1 < 2 ^ (log2Ceil n - 1) := Nat.lt_two_pow_self
    omega
  · simp [log2Ceil_le_one h1]

end P3R.Mmcs
