//! One deterministic PRNG (splitmix64) so every generated case replays from VERIF_SEED.

#[derive(Clone, Debug)]
pub struct Rng(pub u64);

impl Rng {
    pub fn new(seed: u64) -> Self {
        Self(seed ^ 0x9E37_79B9_7F4A_7C15)
    }
    pub fn next(&mut self) -> u64 {
        self.0 = self.0.wrapping_add(0x9E37_79B9_7F4A_7C15);
        let mut z = self.0;
        z = (z ^ (z >> 30)).wrapping_mul(0xBF58_476D_1CE4_E5B9);
        z = (z ^ (z >> 27)).wrapping_mul(0x94D0_49BB_1331_11EB);
        z ^ (z >> 31)
    }
    /// uniform in 0..n (n > 0)
    pub fn below(&mut self, n: u64) -> u64 {
        self.next() % n
    }
    pub fn usize(&mut self, n: usize) -> usize {
        (self.next() % n as u64) as usize
    }
    pub fn range(&mut self, lo: usize, hi: usize) -> usize {
        lo + self.usize(hi - lo + 1)
    }
    pub fn chance(&mut self, num: u64, den: u64) -> bool {
        self.below(den) < num
    }
    pub fn pick<'a, T>(&mut self, xs: &'a [T]) -> &'a T {
        &xs[self.usize(xs.len())]
    }
    pub fn fork(&mut self) -> Rng {
        Rng::new(self.next())
    }
}
