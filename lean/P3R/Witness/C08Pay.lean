/-
C08 — witnesses for the prover-chosen-payload leg (`P3R.Props.C08Pay`), kernel `decide` over `ℤ` with the
explicit state-mixing map `wperm` and digest length 1 (as `P3R.Witness.C08`).

Batch: heights {4, 2}, root commitment (cap height 0). Native schedule `[2, 4]`: a binary *bridge* level,
the injection of the height-2 matrix, one 4-to-1 level. Path rows (emission order = native compression
calls): 0 = bridge row, 1 = injection row, 2 = 4-to-1 row. This is the shape of seed C08-c's demo.

* `bridge_honest_agree`            both models accept the honest opening of index 0
* `bridge_forged_commitment_rejected`  a commitment whose bridge node absorbed the pads `[7],[9]` instead of the
                                   default digest is rejected by the native model and by the gadget model,
                                   with the honest payload AND with the pads in the bridge row's payload
* `bridge_adversarial_payload_harmless`  honest commitment, pads in the payload: still accepted
* `unpinned_bridge_pads_matter`    RECORD of the seeded gadget (bridge chunks 2,3 not pinned): the same
                                   payload changes the row's result, i.e. `bridge_row_pads_ignored` fails for it
* non-vacuity of `bridge_row_pads_ignored`
-/
import P3R.Props.C08Pay
import P3R.Witness.C08

namespace P3R.C08.Witness.Pay
open P3R P3R.Mmcs P3R.C08 P3R.C08.Witness

def dimsB : List Dim := [⟨4, 1⟩, ⟨2, 1⟩]
/-- bridge node of leaves 0,1 with the given pad digests -/
def bridge (x y : List Int) : List Int := C4 [H4 [10], H4 [11], x, y]
/-- second layer (after the injection of matrix 1): four entries, the last two are padding -/
def layerB (x y : List Int) : List (List Int) :=
  [C4 [bridge x y, H4 [20], [0], [0]],
   C4 [C4 [H4 [12], H4 [13], [0], [0]], H4 [21], [0], [0]],
   C4 [C4 [[0], [0], [0], [0]], [0], [0], [0]], C4 [C4 [[0], [0], [0], [0]], [0], [0], [0]]]
def rootB (x y : List Int) : List Int := C4 (layerB x y)
/-- opening proof of index 0: the bridge sibling, then the three siblings of the 4-to-1 level -/
def proofB : List (List Int) := H4 [11] :: (layerB [0] [0]).tail
/-- the bridge row's payload with the pads `[7]`, `[9]` behind the real sibling -/
def payB : List (Nat × List Int) := [(0, H4 [11] ++ [7] ++ [9])]

theorem bridge_honest_agree :
    isOk (verifyBatch wperm c4 0 [rootB [0] [0]] dimsB 0 [[10], [20]] proofB) = true ∧
    (verifyCircuit4 Checks.all wperm pc4 [rootB [0] [0]] dimsB [0, 0] [[10], [20]] proofB).1 = .ok := by
  decide

theorem bridge_forged_commitment_rejected :
    errIs .capMismatch (verifyBatch wperm c4 0 [rootB [7] [9]] dimsB 0 [[10], [20]] proofB) = true ∧
    (verifyCircuit4 Checks.all wperm pc4 [rootB [7] [9]] dimsB [0, 0] [[10], [20]] proofB).1 = .reject ∧
    (verifyCircuit4P Checks.all wperm pc4 payB [rootB [7] [9]] dimsB [0, 0] [[10], [20]] proofB).1 = .reject := by
  decide

theorem bridge_adversarial_payload_harmless :
    (verifyCircuit4P Checks.all wperm pc4 payB [rootB [0] [0]] dimsB [0, 0] [[10], [20]] proofB).1 = .ok := by
  decide

/-- `add_arity4_compression_row` after seed C08-c: the unused chunks are pinned on injection rows only. -/
def compRow4Seeded (pc : PermCfg) (b1 b2 : Int) (inj : Option (List Int)) (sib : Option (List Int)) : Row Int :=
  let chunk (k : Nat) : List (Option Int) :=
    if k ≥ 2 ∧ inj.isSome then List.replicate pc.capw (some 0)
    else if k = 1 then
      match inj with
      | some d => d.map some
      | none => List.replicate pc.capw none
    else List.replicate pc.capw none
  { newStart := false, merkle := true, bit := b1, bit2 := b2
    inputs := chunk 0 ++ chunk 1 ++ chunk 2 ++ chunk 3, sibling := sib }

/-- a chain state holding a running digest -/
def stB : ExecSt Int := { normal := none, merkle := some [5, 0, 0, 0], trace := [] }

theorem unpinned_bridge_pads_matter :
    (execRow wperm pc4 stB (compRow4Seeded pc4 0 0 none (some ([3] ++ [7, 9])))).map (·.2)
      ≠ (execRow wperm pc4 stB (compRow4Seeded pc4 0 0 none (some ([3] ++ [0, 0])))).map (·.2) ∧
    -- the gadget of /repo on the same two payloads: same result
    (execRow wperm pc4 stB (compRow4 pc4 0 0 2 none (some ([3] ++ [7, 9])))).map (·.2)
      = (execRow wperm pc4 stB (compRow4 pc4 0 0 2 none (some ([3] ++ [0, 0])))).map (·.2) := by
  decide

/-- Non-vacuity: the hypotheses of `bridge_row_pads_ignored` hold for the W32-shaped configuration `pc4`. -/
example : execRow wperm pc4 stB (compRow4 pc4 1 0 2 none (some ([3] ++ [7, 9])))
    = execRow wperm pc4 stB (compRow4 pc4 1 0 2 none (some ([3] ++ [0, 0]))) :=
  bridge_row_pads_ignored wperm pc4 stB 1 [3] [7, 9] [0, 0] rfl rfl rfl rfl rfl

end P3R.C08.Witness.Pay
