/-
C18 — witnesses for `P3R.Props.C18Total`.

* `shared_out_reachable` — `out` slots are NOT single-writer in lowered lists: on the reachable program
  `Witness.C18Order.prog` (`connect(x·y + z, y·z + x)`) two `Add` ops of the de-duplicated list write the
  same slot. Only the first is a fusion candidate (the second was recorded by `track_backwards_op`), the
  elementary hypothesis `aDefinedOf` holds, and so does `fusionInvariantOf` (by the theorem, and by
  evaluation).
* `useBeforeDef_shared_out` — why `aDefined` is a hypothesis of `fusionInvariant_of_aDefined`: an op list
  (not a lowering) whose second add reads a product that is only computed afterwards has two candidates
  with one `out`; `aDefined` fails on it and so does `fusionInvariant`.
* `subResult_reachable` — a reachable program on which a plain mul stands after a plain add that names
  its output (the result slot of a `sub`, connected to a later product): the coarser condition "no mul
  after an add naming its output" is false for reachable programs, `aDefinedOf` (first operands only,
  private inputs and earlier mentions allowed) holds.
* `total_applies` — non-vacuity of `compile_order_independent_total_partial` on `prog`, with the reversed
  and the identity orders; the build succeeds and equals the fixed-order build, `expr_to_widx` included.
* `duplicate_tags_order_dependent` — the distinct-tags hypothesis is needed.
* `total_applies'`, `prog_privOk` — `compile_order_independent_total` on `prog` (only `privOk` and the tag
  hypotheses are evaluated).
* `prog_reachable`, `reachable_applies` — `prog` is `Reachable`; `compile_order_independent_reachable` on it.
* `privOk_needed` — the one builder-side hypothesis of `compile_order_independent_total` is necessary: on a
  (hand-made, not API-reachable) builder state with two private-input nodes at one position, the slot of
  the first is not a private row, a product connected to it is fused "from behind", two candidates share
  an output, and the ordered build returns different op lists (8 vs 9 ops: one more fusion) when only
  `fused_positions` is collected in reverse order.
-/
import P3R.Props.C18Total
import P3R.Witness.C18Order

namespace P3R.Witness.C18Total
open P3R P3R.Order P3R.C18 P3R.Witness.C18Order

/-- Positions of the plain adds of a list that write slot `o`. -/
def addWriters (ops : List (Op Int)) (o : Nat) : List Nat :=
  ops.zipIdx.filterMap fun (p : Op Int × Nat) =>
    match p.1 with
    | .alu .add _ _ none out _ => if out = o then some p.2 else none
    | _ => none

def dops (b : BState Int) : Array (Op Int) := (dedup (getOk dflt (lower b)).ops).1
def dinputs (b : BState Int) : List Nat :=
  (getOk dflt (lower b)).privRows.toList.map (resolve (dedup (getOk dflt (lower b)).ops).2)

/-- Two adds of the (reachable) de-duplicated list of `prog` write one slot; one candidate only. -/
theorem shared_out_reachable :
    (∃ o, (addWriters (dops prog).toList o).length = 2) ∧
    ((Fusion.new (dops prog) (dinputs prog)).candidates (dops prog)).length = 1 ∧
    aDefinedOf (getOk dflt (lower prog)) = true ∧ fusionInvariantOf (getOk dflt (lower prog)) = true := by
  refine ⟨⟨5, ?_⟩, ?_, ?_, ?_⟩ <;> decide +kernel

/-- … and the theorem gives the invariant from the elementary hypothesis. -/
theorem shared_out_invariant : fusionInvariantOf (getOk dflt (lower prog)) = true :=
  fusionInvariantOf_of_aDefinedOf _ shared_out_reachable.2.2.1

/-- `k = 5`, `m₁ = p·q`, `o = m₁ + c`, `o = m₂ + k`, `m₂ = p·r`: the second add reads `m₂` before the mul
that computes it. Slots: k=0 p=1 q=2 r=3 c=4 m₁=5 o=6 m₂=7. -/
def useBeforeDef : Array (Op Int) :=
  #[.const 0 5, Op.mul 1 2 5, Op.add 5 4 6, Op.add 7 0 6, Op.mul 1 3 7]

theorem useBeforeDef_shared_out :
    ((Fusion.new useBeforeDef []).candidates useBeforeDef).map (·.out) = [6, 6] ∧
    aDefined [] useBeforeDef.toList = false ∧ fusionInvariant useBeforeDef [] = false := by
  refine ⟨?_, ?_, ?_⟩ <;> decide +kernel

/-- `d = u − v`, `s = d + z`, `m = x·y`, `connect(d, m)`. -/
def subProg : BState Int :=
  let b : BState Int := BState.init
  let (b, u) := b.allocPublic
  let (b, v) := b.allocPublic
  let (b, z) := b.allocPublic
  let (b, d) := b.sub u v
  let (b, _s) := b.add d z
  let (b, m) := b.mul u z
  b.connect d m

/-- A plain mul after a plain add that names its output, in a reachable de-duplicated list. -/
def mulAfterAdd (ops : List (Op Int)) : Bool :=
  ops.zipIdx.any fun (p : Op Int × Nat) =>
    match p.1 with
    | .alu .add a b none _ _ =>
      ops.zipIdx.any fun (q : Op Int × Nat) =>
        match q.1 with
        | .alu .mul _ _ none m _ => decide (p.2 < q.2) && (m == a || m == b)
        | _ => false
    | _ => false

theorem subResult_reachable :
    (lower subProg).toBool = true ∧ mulAfterAdd (dops subProg).toList = true ∧
    aDefinedOf (getOk dflt (lower subProg)) = true ∧ fusionInvariantOf (getOk dflt (lower subProg)) = true := by
  refine ⟨?_, ?_, ?_, ?_⟩ <;> decide +kernel

/-- `compile_order_independent_total_partial` applies to `prog` … -/
theorem total_applies :
    compileOrd revOrders prog [7, 3] [(0, 5), (1, 7)] = compileOrd idOrders prog [7, 3] [(0, 5), (1, 7)] ∧
    compileOrd revOrders prog [7, 3] [(0, 5), (1, 7)] = compileFixed prog [7, 3] [(0, 5), (1, 7)] := by
  apply compile_order_independent_total_partial _ _ revOrders_valid idOrders_valid
  · intro l hl
    rw [prog_lowers] at hl
    injection hl with hl
    subst hl
    decide +kernel
  · decide
  · intro c hc
    have : compile prog = .ok (getOk ⟨0, #[], #[], #[], #[], []⟩ (compile prog)) :=
      ok_of_toBool _ _ (by decide +kernel)
    rw [this] at hc
    injection hc with hc
    subst hc
    decide +kernel

/-- … whose build succeeds, so the equality is one of circuits (with `expr_to_widx`), not of errors. -/
theorem total_builds : (compileFixed prog [7, 3] [(0, 5), (1, 7)]).toBool = true := by decide +kernel

/-- Two entries with one tag (excluded by `CircuitBuilder::tag`: `DuplicateTag`): the resulting map
depends on the order in which they are transferred. -/
theorem duplicate_tags_order_dependent :
    (tagTransfer (fun e => some e) [] [((0 : Nat), 4), (0, 6)]).map (fun m => m.lookup 0) ≠
    (tagTransfer (fun e => some e) [] ([((0 : Nat), 4), (0, 6)] : List (Nat × Nat)).reverse).map (fun m => m.lookup 0) := by
  decide

theorem prog_privOk : privOk prog = true := by decide +kernel

/-- `compile_order_independent_total` applies to `prog`: no fusion hypothesis is evaluated. -/
theorem total_applies' :
    compileOrd revOrders prog [7, 3] [(0, 5), (1, 7)] = compileOrd idOrders prog [7, 3] [(0, 5), (1, 7)] ∧
    compileOrd revOrders prog [7, 3] [(0, 5), (1, 7)] = compileFixed prog [7, 3] [(0, 5), (1, 7)] := by
  apply compile_order_independent_total _ _ revOrders_valid idOrders_valid prog prog_privOk
  · decide
  · intro c hc
    have : compile prog = .ok (getOk ⟨0, #[], #[], #[], #[], []⟩ (compile prog)) :=
      ok_of_toBool _ _ (by decide +kernel)
    rw [this] at hc
    injection hc with hc
    subst hc
    decide +kernel

/-- Two private-input nodes at position 0 (impossible through `alloc_private_input`): `p₁`, `p₂`;
`m₁ = x·y`, `s₁ = m₁ + z`, `t = p₁ + 5`, `m₃ = y·z`, `u = m₃ + s₁`, `m₂ = x·z`; `connect(s₁, t)`,
`connect(p₁, m₂)`. -/
def badPriv : BState Int :=
  let b : BState Int := BState.init
  let (b, x) := b.allocPublic
  let (b, y) := b.allocPublic
  let (b, z) := b.allocPublic
  let (b, p1) := b.allocPrivate
  let (b, p2) := b.allocPrivate
  let b := { b with nodes := b.nodes.setIfInBounds p2 (.priv 0) }
  let (b, k) := b.defineConst 5
  let (b, m1) := b.mul x y
  let (b, s1) := b.add m1 z
  let (b, t) := b.add p1 k
  let (b, m3) := b.mul y z
  let (b, _u) := b.add m3 s1
  let (b, m2) := b.mul x z
  let b := b.connect s1 t
  b.connect p1 m2

def opsDiffer (a b : Except BuildErr (CircuitX Int)) : Bool :=
  match a, b with
  | .ok x, .ok y => x.core.ops.toList != y.core.ops.toList
  | _, _ => false

/-- Only `fused_positions` is collected in another order. -/
def fpRev : Orders Int :=
  { idOrders with fuse := { fusedPos := List.reverse, retain := id, apply := id } }

theorem fpRev_valid : fpRev.Valid :=
  { idOrders_valid with fuse := ⟨List.reverse_perm, fun _ => List.Perm.refl _, fun _ => List.Perm.refl _⟩ }

theorem privOk_needed :
    privOk badPriv = false ∧ aDefinedOf (getOk dflt (lower badPriv)) = false ∧
    fusionInvariantOf (getOk dflt (lower badPriv)) = false ∧
    opsDiffer (compileOrd fpRev badPriv [] []) (compileOrd idOrders badPriv [] []) = true := by
  refine ⟨?_, ?_, ?_, ?_⟩ <;> decide +kernel

/-- `prog` is reachable through the builder API … -/
theorem prog_reachable : C02T.Reachable prog := by
  have h0 : C02T.Reachable (BState.init : BState Int) := .init
  have h1 := C02T.Reachable.allocPublic h0
  have h2 := C02T.Reachable.allocPublic h1
  have h3 := C02T.Reachable.allocPublic h2
  have h4 := C02T.Reachable.mul h3 (l := 1) (r := 2) (by decide +kernel) (by decide +kernel)
  have h5 := C02T.Reachable.add h4 (l := 4) (r := 3) (by decide +kernel) (by decide +kernel)
  have h6 := C02T.Reachable.mul h5 (l := 2) (r := 3) (by decide +kernel) (by decide +kernel)
  have h7 := C02T.Reachable.add h6 (l := 6) (r := 1) (by decide +kernel) (by decide +kernel)
  exact C02T.Reachable.connect h7 (x := 5) (y := 7) (by decide +kernel) (by decide +kernel)

/-- … so `compile_order_independent_reachable` applies: only the tag hypotheses are evaluated. -/
theorem reachable_applies :
    compileOrd revOrders prog [7, 3] [(0, 5), (1, 7)] = compileOrd idOrders prog [7, 3] [(0, 5), (1, 7)] ∧
    compileOrd revOrders prog [7, 3] [(0, 5), (1, 7)] = compileFixed prog [7, 3] [(0, 5), (1, 7)] := by
  apply compile_order_independent_reachable _ _ revOrders_valid idOrders_valid prog prog_reachable
  · decide
  · intro c hc
    have : compile prog = .ok (getOk ⟨0, #[], #[], #[], #[], []⟩ (compile prog)) :=
      ok_of_toBool _ _ (by decide +kernel)
    rw [this] at hc
    injection hc with hc
    subst hc
    decide +kernel

end P3R.Witness.C18Total

#print axioms P3R.Witness.C18Total.total_applies
