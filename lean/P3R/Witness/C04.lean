/-
Non-vacuity of `P3R.C04.accepted_sat`: a concrete accepted trace of the two-op circuit
`c0 := 2; s1 := c0 + c0` over ℚ (events, reads, cells as the role scan and the runner produce
them) meets every hypothesis of the theorem.
-/
import P3R.Props.C04Full
import Mathlib.Algebra.Field.Rat
import Mathlib.Tactic.NormNum
open P3R P3R.C04 P3R.C09

namespace P3R.Witness.C04

theorem accepted_sat_nonvacuous :
    ∃ w : Nat → ℚ, Sat w (fun _ => 0) [.const 0 2, .alu .add 0 0 none 1 none] := by
  refine accepted_sat (fun _ => 0) _ [(0, .creator), (1, .creator), (0, .reader), (0, .reader)]
    [(0, 2)] [2, 4, 2, 2] (by simp [opSlots]) rfl ?_ ?_ ?_ ?_
  · intro s; unfold nCreators; simp only [List.countP_cons, List.countP_nil]
    by_cases h0 : 0 = s <;> by_cases h1 : 1 = s <;> simp [h0, h1]
  · intro e he; simp at he; rcases he with rfl | rfl | rfl <;> simp
  · intro s v
    simp only [List.zipWith, busOf, List.filterMap, interOf, readsOf, List.lookup, tupleNet, List.filter]
    by_cases h0 : 0 = s <;> by_cases h1 : 1 = s <;> by_cases hv : 2 = v <;> by_cases hv4 : 4 = v <;>
      simp [h0, h1, hv, hv4] <;> (try subst h0) <;> (try subst hv) <;> (try simp_all) <;> (try (subst h1; simp))
  · simp only [rowsOk, opSlots, rowOkVals, nextPrev, List.take, List.drop, List.length]
    refine ⟨by norm_num, ?_, trivial⟩
    intro x hx
    simp [laneAdd, vget] at hx
    rw [hx]; norm_num

end P3R.Witness.C04
